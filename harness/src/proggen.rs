//! Shared by c08/c09/c10/c11: abstract instructions (mirroring `instr` of coq/Model/Program.v),
//! their concretisation to real `quil_rs::instruction::Instruction`s, the abstraction of observed
//! instructions back to abstract ones, and generators.
#![allow(dead_code)]
use qv::Rng;
use quil_rs::instruction::{
    FrameIdentifier, GateSpecification, Instruction, Qubit, QubitPlaceholder,
};
use quil_rs::program::Program;
use quil_rs::quil::Quil;
use std::collections::HashMap;
use std::str::FromStr;

#[derive(Clone, Debug, PartialEq, Eq, Hash)]
pub enum AI {
    Decl { name: u64, payload: u64 },
    FrameDef { key: u64, payload: u64 },
    WaveDef { name: u64, payload: u64 },
    GateDef { name: u64, payload: u64 },
    CircuitDef { name: u64, payload: u64 },
    Calib { sig: u64, payload: u64 },
    MeasureCalib { sig: u64, payload: u64 },
    Extern { name: Option<u64>, payload: u64 },
    Body { k: u64, qs: Vec<u64> },
    /// an observed instruction the harness cannot map back (never expected)
    Unknown(String),
}

impl AI {
    pub fn is_body(&self) -> bool {
        matches!(self, AI::Body { .. })
    }
    /// (kind index in to_instructions order, key) for definitions
    pub fn route(&self) -> Option<(u8, u64)> {
        Some(match self {
            AI::Extern { name, .. } => (0, name.map(|n| n + 1).unwrap_or(0)),
            AI::Decl { name, .. } => (1, *name),
            AI::FrameDef { key, .. } => (2, *key),
            AI::WaveDef { name, .. } => (3, *name),
            AI::Calib { sig, .. } => (4, *sig),
            AI::MeasureCalib { sig, .. } => (5, *sig),
            AI::GateDef { name, .. } => (6, *name),
            AI::CircuitDef { name, .. } => (7, *name),
            AI::Body { .. } | AI::Unknown(_) => return None,
        })
    }
}

/// frame identifiers: (qubits, name).  Neighbouring entries differ in exactly one component
/// (name only, qubit only, qubit ORDER only).
pub const FRAME_KEYS: [(&str, &str); 7] =
    [("0", "a"), ("1", "a"), ("0 1", "a"), ("0", "b"), ("2", "c"), ("7", "d"), ("1 0", "a")];
/// gate calibration signatures: header after `DEFCAL `, and the first qubit (used by the bodies).
/// Entries differ from a neighbour in exactly one component: name, one qubit, qubit order, a
/// modifier, one parameter, parameter constant-vs-variable.
pub const CAL_SIGS: [(&str, &str); 11] = [
    ("X 0", "0"),
    ("X q0", "q0"),
    ("CNOT 0 1", "0"),
    ("X 1", "1"),
    ("Y 0", "0"),
    ("CNOT 1 0", "1"),
    ("CONTROLLED X 1 0", "1"),
    ("RX(1.0) 0", "0"),
    ("RX(2.0) 0", "0"),
    ("RX(%t) 0", "0"),
    ("RX(1.0) 1", "1"),
];
/// measure calibration signatures: header after `DEFCAL `, and the qubit.  Entries differ in
/// exactly one component: qubit, Quil-T name, target present-vs-absent, target NAME.
pub const MCAL_SIGS: [(&str, &str); 7] = [
    ("MEASURE 0 addr", "0"),
    ("MEASURE 1 addr", "1"),
    ("MEASURE q0 addr", "q0"),
    ("MEASURE 0 dest", "0"),
    ("MEASURE 0", "0"),
    ("MEASURE!mid 0 addr", "0"),
    ("MEASURE!mid 0", "0"),
];

/// number of payload variants per definition kind (kind index as in `AI::route`)
pub const NPAYLOADS: [u64; 8] = [5, 10, 6, 4, 6, 6, 4, 4];

/// body shapes; every qubit slot is filled at concretisation.  Indices FRAME_UPDATE_LO..=HI are the
/// frame-update instructions whose qubits `get_qubits` reports only after the repair.
pub const SHAPES: [&str; 34] = [
    "X 0",
    "CNOT 0 1",
    "RX(1.5) 0",
    "MEASURE 0 ro[0]",
    "MEASURE 0",
    "RESET 0",
    "RESET",
    "DELAY 0 1.0",
    "DELAY 0 \"a\" 1.0",
    "FENCE 0 1",
    "FENCE",
    "PULSE 0 \"a\" w0",
    "PULSE 0 1 \"a\" w0",
    "NONBLOCKING PULSE 0 \"b\" w1",
    "CAPTURE 0 \"a\" w0 ro[0]",
    "RAW-CAPTURE 0 \"a\" 1.0 ro[0]",
    "SET-PHASE 0 \"a\" 1.0",
    "SHIFT-PHASE 0 \"a\" 1.0",
    "SET-FREQUENCY 0 \"a\" 1.0",
    "SHIFT-FREQUENCY 0 \"b\" 1.0",
    "SET-SCALE 0 \"a\" 1.0",
    "SWAP-PHASES 0 \"a\" 1 \"b\"",
    "NOP",
    "HALT",
    "WAIT",
    "MOVE ro[0] 1",
    "LABEL @l",
    "JUMP @l",
    "PRAGMA OTHER x",
    "PRAGMA EXTERNAL f \"s\"",
    "CALL f0 1",
    "Y 0",
    "G0 0",
    "G1 0 1",
];
pub const FRAME_UPDATE_LO: u64 = 16;
pub const FRAME_UPDATE_HI: u64 = 21;

fn frame_qubits_mut<'a>(f: &'a mut FrameIdentifier, out: &mut Vec<&'a mut Qubit>) {
    out.extend(f.qubits.iter_mut());
}

/// The harness's own traversal: every `Qubit` slot of an instruction (independent of
/// `Instruction::get_qubits`).  Covers every variant the generators and the implementation's
/// expansions produce; definitions recurse into their bodies.
pub fn qubit_slots_mut(i: &mut Instruction) -> Vec<&mut Qubit> {
    let mut out: Vec<&mut Qubit> = Vec::new();
    match i {
        Instruction::Gate(g) => out.extend(g.qubits.iter_mut()),
        Instruction::Measurement(m) => out.push(&mut m.qubit),
        Instruction::Reset(r) => out.extend(r.qubit.iter_mut()),
        Instruction::Delay(d) => out.extend(d.qubits.iter_mut()),
        Instruction::Fence(f) => out.extend(f.qubits.iter_mut()),
        Instruction::Pulse(p) => frame_qubits_mut(&mut p.frame, &mut out),
        Instruction::Capture(c) => frame_qubits_mut(&mut c.frame, &mut out),
        Instruction::RawCapture(c) => frame_qubits_mut(&mut c.frame, &mut out),
        Instruction::SetFrequency(s) => frame_qubits_mut(&mut s.frame, &mut out),
        Instruction::SetPhase(s) => frame_qubits_mut(&mut s.frame, &mut out),
        Instruction::SetScale(s) => frame_qubits_mut(&mut s.frame, &mut out),
        Instruction::ShiftFrequency(s) => frame_qubits_mut(&mut s.frame, &mut out),
        Instruction::ShiftPhase(s) => frame_qubits_mut(&mut s.frame, &mut out),
        Instruction::SwapPhases(s) => {
            frame_qubits_mut(&mut s.frame_1, &mut out);
            frame_qubits_mut(&mut s.frame_2, &mut out);
        }
        Instruction::FrameDefinition(fd) => frame_qubits_mut(&mut fd.identifier, &mut out),
        Instruction::CalibrationDefinition(c) => {
            out.extend(c.identifier.qubits.iter_mut());
            for b in c.instructions.iter_mut() {
                out.extend(qubit_slots_mut(b));
            }
        }
        Instruction::MeasureCalibrationDefinition(c) => {
            out.push(&mut c.identifier.qubit);
            for b in c.instructions.iter_mut() {
                out.extend(qubit_slots_mut(b));
            }
        }
        Instruction::CircuitDefinition(c) => {
            for b in c.instructions.iter_mut() {
                out.extend(qubit_slots_mut(b));
            }
        }
        _ => {}
    }
    out
}

pub struct U {
    registry: HashMap<String, AI>,
    conc_cache: HashMap<AI, Instruction>,
    qs_cache: HashMap<AI, Vec<u64>>,
    shape_ix: HashMap<String, u64>,
    shapes: Vec<Instruction>,
    pub phs: Vec<QubitPlaceholder>,
    var_ix: HashMap<String, u64>,
    /// rendered texts of observed definitions that belong to no generated payload
    pub unknown: Vec<String>,
}

fn parse1(text: &str) -> Instruction {
    Instruction::from_str(text).unwrap_or_else(|e| panic!("harness template does not parse: {text:?}: {e}"))
}

impl U {
    pub fn new() -> U {
        let mut u = U {
            registry: HashMap::new(),
            conc_cache: HashMap::new(),
            qs_cache: HashMap::new(),
            shape_ix: HashMap::new(),
            shapes: Vec::new(),
            phs: (0..4).map(|_| QubitPlaceholder::default()).collect(),
            var_ix: HashMap::new(),
            unknown: Vec::new(),
        };
        for s in SHAPES {
            let i = parse1(s);
            let (k, _) = u.shape_of(&i);
            assert_eq!(k as usize + 1, u.shapes.len(), "duplicate shape {s}");
        }
        u
    }

    pub fn enc_qubit(&mut self, q: &Qubit) -> u64 {
        match q {
            Qubit::Fixed(n) => {
                assert!(*n < 1000);
                *n
            }
            Qubit::Variable(s) => {
                if let Some(d) = s.strip_prefix('q').and_then(|d| d.parse::<u64>().ok()) {
                    1000 + d
                } else {
                    let n = self.var_ix.len() as u64;
                    1500 + *self.var_ix.entry(s.clone()).or_insert(n)
                }
            }
            Qubit::Placeholder(p) => {
                let ix = self.phs.iter().position(|x| x == p).unwrap_or_else(|| {
                    self.phs.push(p.clone());
                    self.phs.len() - 1
                });
                2000 + ix as u64
            }
        }
    }
    pub fn dec_qubit(&self, c: u64) -> Qubit {
        if c < 1000 {
            Qubit::Fixed(c)
        } else if c < 1500 {
            Qubit::Variable(format!("q{}", c - 1000))
        } else if c < 2000 {
            let name = self.var_ix.iter().find(|(_, v)| **v == c - 1500).map(|(k, _)| k.clone());
            Qubit::Variable(name.expect("variable code"))
        } else {
            Qubit::Placeholder(self.phs[(c - 2000) as usize].clone())
        }
    }

    /// every qubit occurring anywhere in the instruction, encoded (the harness's own traversal;
    /// sequence gate definitions keep their gates private, so their `Debug` rendering is scanned)
    pub fn all_qubits(&mut self, i: &Instruction) -> Vec<u64> {
        if let Instruction::GateDefinition(gd) = i {
            if let GateSpecification::Sequence(_) = &gd.specification {
                let dbg = format!("{:?}", gd.specification);
                let mut out = Vec::new();
                let mut rest = dbg.as_str();
                while let Some(pos) = rest.find("Variable(\"") {
                    let tail = &rest[pos + 10..];
                    let end = tail.find('"').unwrap();
                    out.push(self.enc_qubit(&Qubit::Variable(tail[..end].to_string())));
                    rest = &tail[end..];
                }
                let mut rest = dbg.as_str();
                while let Some(pos) = rest.find("Fixed(") {
                    let tail = &rest[pos + 6..];
                    let end = tail.find(')').unwrap();
                    if let Ok(n) = tail[..end].parse::<u64>() {
                        out.push(n);
                    }
                    rest = &tail[end..];
                }
                return out;
            }
            return Vec::new();
        }
        let mut c = i.clone();
        let qs: Vec<Qubit> = qubit_slots_mut(&mut c).into_iter().map(|q| q.clone()).collect();
        qs.iter().map(|q| self.enc_qubit(q)).collect()
    }

    /// (shape id, encoded qubits) of a body instruction; unseen shapes get the next id
    pub fn shape_of(&mut self, i: &Instruction) -> (u64, Vec<u64>) {
        let mut c = i.clone();
        let mut qs = Vec::new();
        for slot in qubit_slots_mut(&mut c) {
            qs.push(slot.clone());
            *slot = Qubit::Fixed(0);
        }
        let text = format!("{}#{}", c.to_quil_or_debug(), qs.len());
        let k = match self.shape_ix.get(&text) {
            Some(k) => *k,
            None => {
                let k = self.shapes.len() as u64;
                self.shape_ix.insert(text, k);
                self.shapes.push(c);
                k
            }
        };
        let enc = qs.iter().map(|q| self.enc_qubit(q)).collect();
        (k, enc)
    }

    pub fn arity(&mut self, k: u64) -> usize {
        let mut c = self.shapes[k as usize].clone();
        qubit_slots_mut(&mut c).len()
    }

    /// Quil text of a definition.  Payloads differ STRUCTURALLY (different attribute key sets,
    /// lengths, forms, types, body lengths) and, pairwise, in EXACTLY ONE sub-field (only the
    /// sharing name, only an offset, only one attribute value, only one body instruction ...), so
    /// that a merged, partially replaced or wrongly "unchanged" definition is visible.
    fn def_text(ai: &AI) -> String {
        fn cal_body(sq: &str, payload: u64) -> String {
            match payload {
                0 => format!("    PULSE {sq} \"a\" w0"),
                1 => format!("    PULSE 4 \"a\" w0\n    FENCE {sq}"),
                2 => format!("    FENCE {sq} 4"),
                3 => format!("    SHIFT-PHASE 5 \"a\" 1.0\n    PULSE {sq} \"b\" w1\n    DELAY {sq} 2.0"),
                // one instruction differs from payload 1
                4 => format!("    PULSE 4 \"a\" w0\n    FENCE {sq} 6"),
                // one operand differs from payload 3
                5 => format!("    SHIFT-PHASE 5 \"a\" 1.0\n    PULSE {sq} \"b\" w1\n    DELAY {sq} 3.0"),
                other => panic!("calibration payload {other}"),
            }
        }
        match ai {
            AI::Decl { name, payload } if *payload >= 100 => format!("DECLARE lc{name} INTEGER[{}]", payload - 99),
            AI::Decl { name, payload } => {
                let rest = match payload {
                    0 => "BIT[1]",
                    1 => "REAL[2]",
                    2 => "OCTET[3] SHARING sh OFFSET 3 BIT",
                    3 => "INTEGER[4] SHARING sh OFFSET 1 REAL 3 BIT",
                    4 => "BIT[1] SHARING sh",                   // vs 0: sharing only
                    5 => "REAL[2] SHARING sh OFFSET 1 BIT",      // vs 1: sharing + offset only
                    6 => "OCTET[3] SHARING sh OFFSET 4 BIT",     // vs 2: one offset only
                    7 => "OCTET[3] SHARING other OFFSET 3 BIT",  // vs 2: sharing name only
                    8 => "BIT[2]",                               // vs 0: length only
                    9 => "INTEGER[1]",                           // vs 0: type only
                    other => panic!("declaration payload {other}"),
                };
                format!("DECLARE m{name} {rest}")
            }
            AI::FrameDef { key, payload } => {
                let (qs, nm) = FRAME_KEYS[*key as usize];
                let attrs = match payload {
                    0 => "    DIRECTION: \"tx\"\n    SAMPLE-RATE: 1.0",
                    1 => "    INITIAL-FREQUENCY: 2.0",
                    2 => "    HARDWARE-OBJECT: \"h2\"\n    DIRECTION: \"rx\"\n    CENTER-FREQUENCY: 5.0",
                    3 => "    HARDWARE-OBJECT: \"h3\"",
                    4 => "    DIRECTION: \"tx\"\n    SAMPLE-RATE: 2.0", // vs 0: one attribute value
                    5 => "    DIRECTION: \"rx\"\n    SAMPLE-RATE: 1.0", // vs 0: the other attribute value
                    other => panic!("frame payload {other}"),
                };
                format!("DEFFRAME {qs} \"{nm}\":\n{attrs}")
            }
            AI::WaveDef { name, payload } => match payload {
                0 => format!("DEFWAVEFORM w{name}:\n    1, 0"),
                1 => format!("DEFWAVEFORM w{name}:\n    1, 2, 2"),
                2 => format!("DEFWAVEFORM w{name}(%a):\n    %a, 3, 0, 1"),
                3 => format!("DEFWAVEFORM w{name}:\n    1, 1"), // vs 0: one sample
                other => panic!("waveform payload {other}"),
            },
            AI::GateDef { name, payload } => {
                if *payload >= 50 {
                    let extra = if payload % 2 == 1 { "\n    H q0" } else { "" };
                    format!("DEFGATE G{name} q0 q1 AS SEQUENCE:\n    X q0\n    RZ({}) q1{extra}", payload)
                } else {
                    match payload {
                        0 => format!("DEFGATE G{name}:\n    1, 0\n    0, 1"),
                        1 => format!("DEFGATE G{name}:\n    2, 0, 0, 0\n    0, 1, 0, 0\n    0, 0, 1, 0\n    0, 0, 0, 1"),
                        2 => format!("DEFGATE G{name}(%t):\n    3, 0\n    0, %t"),
                        3 => format!("DEFGATE G{name}:\n    1, 0\n    0, 2"), // vs 0: one entry
                        other => panic!("gate payload {other}"),
                    }
                }
            }
            AI::CircuitDef { name, payload } => match payload {
                0 => format!("DEFCIRCUIT C{name} q0:\n    RZ(1) q0"),
                1 => format!("DEFCIRCUIT C{name} q0:\n    RZ(2) q0\n    X 4"),
                2 => format!("DEFCIRCUIT C{name}(%a) q0 q1:\n    RZ(%a) q0\n    CNOT q0 q1\n    RX(3) q1"),
                3 => format!("DEFCIRCUIT C{name} q0:\n    RZ(2) q0\n    X 5"), // vs 1: one instruction
                other => panic!("circuit payload {other}"),
            },
            AI::Calib { sig, payload } => {
                let (hd, sq) = CAL_SIGS[*sig as usize];
                format!("DEFCAL {hd}:\n{}", cal_body(sq, *payload))
            }
            AI::MeasureCalib { sig, payload } => {
                let (hd, q) = MCAL_SIGS[*sig as usize];
                format!("DEFCAL {hd}:\n{}", cal_body(q, *payload))
            }
            AI::Extern { name, payload } => {
                let sig = match payload {
                    0 => "(x0 : INTEGER)",
                    1 => "REAL (x1 : mut REAL[3])",
                    2 => "INTEGER (a : INTEGER, x2 : BIT)",
                    3 => "(x0 : REAL)",          // vs 0: one parameter type
                    4 => "(x0 : INTEGER, y : BIT)", // vs 0: one more parameter
                    other => panic!("extern payload {other}"),
                };
                match name {
                    Some(n) => format!("PRAGMA EXTERN f{n} \"{sig}\""),
                    None if *payload == 0 => "PRAGMA EXTERN".to_string(),
                    None => format!("PRAGMA EXTERN \"{sig}\""),
                }
            }
            AI::Body { .. } | AI::Unknown(_) => unreachable!(),
        }
    }

    /// abstract -> real instruction
    pub fn conc(&mut self, ai: &AI) -> Instruction {
        if let Some(i) = self.conc_cache.get(ai) {
            return i.clone();
        }
        let i = match ai {
            AI::Body { k, qs } => {
                let mut t = self.shapes[*k as usize].clone();
                let dec: Vec<Qubit> = qs.iter().map(|c| self.dec_qubit(*c)).collect();
                let slots = qubit_slots_mut(&mut t);
                assert_eq!(slots.len(), dec.len(), "arity of shape {k}");
                for (s, q) in slots.into_iter().zip(dec) {
                    *s = q;
                }
                t
            }
            AI::Unknown(t) => panic!("cannot concretise unknown {t}"),
            def => {
                let i = parse1(&Self::def_text(def));
                self.registry.insert(i.to_quil_or_debug(), def.clone());
                i
            }
        };
        self.conc_cache.insert(ai.clone(), i.clone());
        i
    }

    /// real instruction -> abstract (definitions by their rendered text, body structurally)
    pub fn abs(&mut self, i: &Instruction) -> AI {
        let is_def = matches!(
            i,
            Instruction::Declaration(_)
                | Instruction::FrameDefinition(_)
                | Instruction::WaveformDefinition(_)
                | Instruction::GateDefinition(_)
                | Instruction::CircuitDefinition(_)
                | Instruction::CalibrationDefinition(_)
                | Instruction::MeasureCalibrationDefinition(_)
        ) || matches!(i, Instruction::Pragma(p) if p.name == "EXTERN");
        if is_def {
            let t = i.to_quil_or_debug();
            match self.registry.get(&t) {
                Some(ai) => ai.clone(),
                None => {
                    self.unknown.push(t.clone());
                    AI::Unknown(t)
                }
            }
        } else {
            let (k, qs) = self.shape_of(i);
            AI::Body { k, qs }
        }
    }

    /// all qubits of an abstract instruction (the `qs` field of the Coq constructor)
    pub fn qs(&mut self, ai: &AI) -> Vec<u64> {
        if let AI::Body { qs, .. } = ai {
            return qs.clone();
        }
        if let Some(q) = self.qs_cache.get(ai) {
            return q.clone();
        }
        let i = self.conc(ai);
        let q = self.all_qubits(&i);
        self.qs_cache.insert(ai.clone(), q.clone());
        q
    }

    pub fn coq(&mut self, ai: &AI) -> String {
        let ql = |v: &[u64]| format!("[{}]", v.iter().map(|x| x.to_string()).collect::<Vec<_>>().join("; "));
        match ai {
            AI::Decl { name, payload } => format!("Decl {name} {payload}"),
            AI::WaveDef { name, payload } => format!("WaveDef {name} {payload}"),
            AI::Extern { name, payload } => match name {
                Some(n) => format!("ExternPragma (Some {n}) {payload}"),
                None => format!("ExternPragma None {payload}"),
            },
            AI::FrameDef { key, payload } => format!("FrameDef {key} {payload} {}", ql(&self.qs(ai))),
            AI::GateDef { name, payload } => format!("GateDef {name} {payload} {}", ql(&self.qs(ai))),
            AI::CircuitDef { name, payload } => format!("CircuitDef {name} {payload} {}", ql(&self.qs(ai))),
            AI::Calib { sig, payload } => format!("Calib {sig} {payload} {}", ql(&self.qs(ai))),
            AI::MeasureCalib { sig, payload } => format!("MeasureCalib {sig} {payload} {}", ql(&self.qs(ai))),
            AI::Body { k, qs } => format!("Body {k} {}", ql(qs)),
            AI::Unknown(_) => "Body 999999 []".to_string(),
        }
    }

    pub fn coq_list(&mut self, l: &[AI]) -> String {
        let v: Vec<String> = l.iter().map(|a| self.coq(a)).collect();
        format!("[{}]", v.join("; "))
    }

    pub fn conc_all(&mut self, l: &[AI]) -> Vec<Instruction> {
        l.iter().map(|a| self.conc(a)).collect()
    }

    pub fn abs_all(&mut self, l: &[Instruction]) -> Vec<AI> {
        l.iter().map(|i| self.abs(i)).collect()
    }

    pub fn used(&mut self, p: &Program) -> Vec<u64> {
        let mut v: Vec<u64> = p.get_used_qubits().iter().map(|q| self.enc_qubit(q)).collect();
        v.sort();
        v
    }

    /// Gallina `(listing, used)` of a real program
    pub fn obs(&mut self, p: &Program) -> (Vec<AI>, Vec<u64>) {
        let l = p.to_instructions();
        (self.abs_all(&l), self.used(p))
    }

    pub fn coq_obs(&mut self, o: &(Vec<AI>, Vec<u64>)) -> String {
        format!("({}, {})", self.coq_list(&o.0), coq_ns(&o.1))
    }

    /// one-line replayable rendering of an abstract sequence (Quil text, `|`-separated)
    pub fn describe(&mut self, l: &[AI]) -> String {
        l.iter()
            .map(|a| self.conc(a).to_quil_or_debug().replace('\n', "\\n").replace('\t', "    "))
            .collect::<Vec<_>>()
            .join(" | ")
    }

    /// Quil source of a sequence (no placeholders), for the `FromStr` builder
    pub fn quil_text(&mut self, l: &[AI]) -> String {
        let mut s = String::new();
        for a in l {
            s.push_str(&self.conc(a).to_quil().expect("no placeholders"));
            s.push('\n');
        }
        s
    }
}

/// report observed definitions whose full text maps back to no payload tag
pub fn report_unknown(u: &mut U, run: &mut qv::Run, input: &str) {
    for t in std::mem::take(&mut u.unknown) {
        run.process_failure(
            &format!("definition value is neither operand's (observed definition text maps to no input definition): {}", t.replace('\n', "\\n")),
            input,
            None,
        );
    }
}

pub fn coq_ns(v: &[u64]) -> String {
    format!("[{}]", v.iter().map(|x| x.to_string()).collect::<Vec<_>>().join("; "))
}

pub fn coq_bool(b: bool) -> &'static str {
    if b {
        "true"
    } else {
        "false"
    }
}

/// number of distinct frame keys among the definitions of a sequence
pub fn distinct_frames(l: &[AI]) -> usize {
    let mut ks: Vec<u64> = l.iter().filter_map(|a| if let AI::FrameDef { key, .. } = a { Some(*key) } else { None }).collect();
    ks.sort();
    ks.dedup();
    ks.len()
}

/// does the sequence contain a frame-update instruction (in the body or in a calibration body)?
pub fn has_frame_update(l: &[AI]) -> bool {
    l.iter().any(|a| match a {
        AI::Body { k, .. } => (FRAME_UPDATE_LO..=FRAME_UPDATE_HI).contains(k),
        AI::Calib { payload, .. } | AI::MeasureCalib { payload, .. } => *payload == 3 || *payload == 5,
        _ => false,
    })
}

pub fn has_extern(l: &[AI]) -> bool {
    l.iter().any(|a| matches!(a, AI::Extern { .. }))
}

/// Tags for repairs still pending in /repo.  All three (frameset order 4b509e8, get_qubits frame
/// arms 0c58780, into_instructions extern order 6ea3a2e) have landed: nothing is tagged any more.
pub fn pending_tag(_l: &[AI]) -> Option<&'static str> {
    None
}

// ---------------------------------------------------------------- generators

pub struct Gen {
    /// number of distinct keys per kind (small, so that redefinitions are frequent)
    pub nkeys: u64,
    pub npayloads: u64,
    pub placeholders: bool,
    pub variables: bool,
}

impl Gen {
    pub fn def(&self, rng: &mut Rng, kind: usize) -> AI {
        let key = rng.below(self.nkeys as usize) as u64;
        // every payload variant of the kind (incl. the "differs in one sub-field" ones)
        let payload = rng.below(NPAYLOADS[kind] as usize) as u64;
        match kind {
            0 => AI::Extern {
                name: if rng.chance(1, 4) { None } else { Some(key) },
                payload,
            },
            1 => AI::Decl { name: key, payload },
            // keys over the whole table half of the time, so that near-miss keys (name only,
            // qubit only, qubit order only, target name only ...) meet; else few keys (redefinitions)
            2 => AI::FrameDef {
                key: if rng.chance(1, 2) { rng.below(FRAME_KEYS.len()) as u64 } else { key % FRAME_KEYS.len() as u64 },
                payload,
            },
            3 => AI::WaveDef { name: key, payload },
            4 => AI::Calib {
                sig: if rng.chance(1, 2) { rng.below(CAL_SIGS.len()) as u64 } else { key % CAL_SIGS.len() as u64 },
                payload,
            },
            5 => AI::MeasureCalib {
                sig: if rng.chance(1, 2) { rng.below(MCAL_SIGS.len()) as u64 } else { [0u64, 3, 4][(key % 3) as usize] },
                payload,
            },
            6 => AI::GateDef {
                name: key,
                payload: if rng.chance(1, 4) { 50 + payload } else { payload },
            },
            _ => AI::CircuitDef { name: key, payload },
        }
    }
    pub fn qubit(&self, rng: &mut Rng) -> u64 {
        if self.placeholders && rng.chance(1, 4) {
            2000 + rng.below(4) as u64
        } else if self.variables && rng.chance(1, 8) {
            1000 + rng.below(2) as u64
        } else {
            rng.below(6) as u64
        }
    }
    pub fn body(&self, rng: &mut Rng, u: &mut U) -> AI {
        let k = rng.below(SHAPES.len()) as u64;
        let n = u.arity(k);
        let mut qs: Vec<u64> = Vec::new();
        while qs.len() < n {
            let q = self.qubit(rng);
            if !qs.contains(&q) {
                qs.push(q);
            }
        }
        AI::Body { k, qs }
    }
    pub fn any(&self, rng: &mut Rng, u: &mut U) -> AI {
        if rng.chance(2, 5) {
            self.body(rng, u)
        } else {
            let kind = rng.below(8);
            self.def(rng, kind)
        }
    }
    pub fn seq(&self, rng: &mut Rng, u: &mut U, len: usize) -> Vec<AI> {
        (0..len).map(|_| self.any(rng, u)).collect()
    }
    /// a sequence with 2-4 definitions of every kind (incl. redefinitions) and some body
    pub fn rich_seq(&self, rng: &mut Rng, u: &mut U) -> Vec<AI> {
        let mut v = Vec::new();
        for kind in 0..8 {
            for _ in 0..rng.range(2, 4) {
                v.push(self.def(rng, kind));
            }
        }
        for _ in 0..rng.range(0, 4) {
            v.push(self.body(rng, u));
        }
        // shuffle
        for i in (1..v.len()).rev() {
            let j = rng.below(i + 1);
            v.swap(i, j);
        }
        v
    }
}

pub fn build(u: &mut U, l: &[AI]) -> Program {
    Program::from_instructions(u.conc_all(l))
}
