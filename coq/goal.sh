#!/bin/bash
# usage: goal.sh File.v LINE  -- shows goals just before LINE (1-based)
f=$1; n=$2
head -n $((n-1)) $f > /tmp/_goal.v
echo "Show. " >> /tmp/_goal.v
cd /verif/coq && coqc -Q . QV /tmp/_goal.v 2>&1 | tail -${3:-40}
