(** C35, schedule clause — glue between [Program::simplify] (Model/Simplify35.v) and the models of
    [ScheduledBasicBlock::build] (Model/Graph.v) and [as_schedule] (Model/Schedule.v).

    Executable definitions only.  Simplification deletes a set [D] of frame definitions; by
    C35_frames_exact no instruction of the expanded body USES a deleted frame, and by
    C35_simplified_matching / C35_matching_invariant the handler's answer for every instruction in
    the simplified program is the expanded program's answer with the deleted frames removed from
    the BLOCKED set (the used set is unchanged).  At the level of the per-instruction summaries
    [info] of Model/Graph.v (frames numbered by [N]) this is [strip D]. *)
From Coq Require Import List NArith Bool.
From QV Require Import Model.Simplify35 Model.DepQueue Model.Graph.
Import ListNotations.

(** frame [k] survives the deletion of [D] *)
Definition keepk (D : list N) (k : N) : bool := negb (memN k D).

Definition strip_frames (D : list N) (l : list N) : list N := filter (keepk D) l.

(** the summary of the same instruction once the frames of [D] are deleted and nobody uses them:
    only the blocked set shrinks *)
Definition strip (D : list N) (i : info) : info :=
  MkInfo (i_role i) (i_memerr i) (i_reads i) (i_writes i) (i_caps i)
         (i_used i) (strip_frames D (i_blocked i)) (i_sched i).

(** the general form ([FrameSet] restricted to the complement of [D], C35_matching_invariant):
    both sets shrink *)
Definition restrictD (D : list N) (i : info) : info :=
  MkInfo (i_role i) (i_memerr i) (i_reads i) (i_writes i) (i_caps i)
         (strip_frames D (i_used i)) (strip_frames D (i_blocked i)) (i_sched i).

(** no frame of [D] is used by the instruction (decidable premise of the theorems) *)
Definition unused (D : list N) (i : info) : bool := forallb (keepk D) (i_used i).
Definition unused_block (D : list N) (is : list info) (term : option info) : bool :=
  forallb (unused D) (is ++ DepQueue.opt_list term).

(** an edge produced by the queue of a deleted frame (ghost labels of Model/Graph.v) *)
Definition label_dead (D : list N) (l : label) : bool :=
  match l with
  | LSched f _ | LStable f _ => memN f D
  | _ => false
  end.

(** the labelled edges that do not come from a deleted frame's queues *)
Definition live (D : list N) (L : list ledge) : list ledge :=
  filter (fun e : ledge => negb (label_dead D (snd e))) L.

(** drop the block start from a predecessor list *)
Definition nz (l : list N) : list N := filter (fun p => negb (N.eqb p 0)) l.

(** ** From the program model of Model/Simplify35.v to the summaries of Model/Graph.v

    [num] numbers the frame identifiers (any function injective on the program's frame set);
    [base bi] supplies the summary fields that depend on the instruction alone (role, memory
    accesses, is_scheduled); the frame fields are the handler's [matching_frames] answer in
    program [P] ([None] = both sets empty, as in the Rust code). *)
Definition with_frames (base : info) (u b : list N) : info :=
  MkInfo (i_role base) (i_memerr base) (i_reads base) (i_writes base) (i_caps base) u b (i_sched base).

Definition binfo (num : frame -> N) (base : binstr -> info) (P : program) (bi : binstr) : info :=
  match matching_frames (keys P) (p_avail P) (bi_frame bi) with
  | Some (u, b) => with_frames (base bi) (map num u) (map num b)
  | None => with_frames (base bi) [] []
  end.

(** the numbers of the frame definitions of [e] that [s] no longer has *)
Definition deleted (num : frame -> N) (e s : program) : list N :=
  map num (filter (fun f => negb (memF f (keys s))) (keys e)).
