(** C01: the byte-level lexer model (Model/Lex.v) composed with the token-level parser models
    (Model/ParsePanic.v, and Model/PrintParse.v for the DEF* commands).  Executable definitions only.

    The two halves have their own token types: [Lex.ltoken] keeps spellings (byte lists) and exact
    decimal values, [ParsePanic.tok] is the abstraction the harness makes of the real lexer's tokens
    (harness/src/quilgen.rs, [tok_to_coq]): reserved words become constructors, the identifiers the
    expression parser treats specially keep their identity, every other spelling / string / float
    lexeme is interned to a number.  [conv] below is that abstraction as a Gallina function;
    [conv_with intern] is the same relative to ANY interning function, [conv tbl] interns by the
    position in the table of first occurrences -- the numbering of the harness's [Interner], which
    starts afresh for every token list.

    [parse_bytes e bytes] is the entry point [e] on the text [bytes]: lex; a lex error makes the
    entry point return an error; otherwise the parser model runs on the converted tokens.
    [parse_bytes_full] is the same with [run_full], in which the DEF* commands (answered "not
    modelled" by [ParsePanic.run]) are parsed by the grammar of Model/PrintParse.v. *)
From Coq Require Import List NArith ZArith Bool.
From QV Require Import Model.ParsePanic.
From QV Require Model.LexIdent Model.LexNum Model.Lex Model.PrintParse.
Import ListNotations.
Open Scope N_scope.

(** * Interning keys: what the harness's [Interner] numbers (its string keys are the spelling, the
    spelling prefixed by [t:], the Debug rendering of the string token prefixed by [s:], and the
    shortest decimal rendering of the binary64 prefixed by [f:] -- four disjoint classes, equal keys
    exactly for equal spelling / target / string content / binary64 value) *)
Inductive ikey :=
| KName (name : list N)      (* identifiers and variables share one class *)
| KTarget (name : list N)
| KString (s : list N)
| KFloat (bits : N).

Definition ikey_eqb (a b : ikey) : bool :=
  match a, b with
  | KName x, KName y | KTarget x, KTarget y | KString x, KString y => LexIdent.bytes_eqb x y
  | KFloat x, KFloat y => x =? y
  | _, _ => false
  end.

(** * Reserved-word tables: the spellings of Model/LexIdent.v paired with the constructors of
    Model/ParsePanic.v (both alphabetical by spelling, like [quilgen::COMMANDS]) *)
Definition kw_table : list (list N * tok) :=
  combine LexIdent.keywords
    [TAs; TMatrix; TMutable; TNonBlocking; TOffset; TPauliSum; TPermutation; TSequence; TSharing].

Definition cmd_table : list (list N * cmd) :=
  combine LexIdent.commands
    [CAdd; CAnd; CAshr; CCall; CCapture; CConvert; CDeclare; CDefCal; CDefCircuit; CDefFrame;
     CDefGate; CDefWaveform; CDelay; CDiv; CEq; CExchange; CFence; CGE; CGT; CHalt; CInclude;
     CIor; CJump; CJumpUnless; CJumpWhen; CLabel; CLE; CLoad; CLT; CMeasure; CMove; CMul;
     CNeg; CNop; CNot; CPragma; CPulse; CRawCapture; CReset; CSetFrequency; CSetPhase;
     CSetScale; CShiftFrequency; CShiftPhase; CShl; CShr; CStore; CSub; CSwapPhases; CWait;
     CXor].

Definition dtype_table : list (list N * dtype) :=
  combine LexIdent.data_types [DBit; DOctet; DReal; DInteger].

Definition modifier_table : list (list N * modifier) :=
  combine LexIdent.modifiers [MControlled; MDagger; MForked].

Definition reserved_table : list (list N * reserved) :=
  [(LexIdent.w_cis, RCis); (LexIdent.w_cos, RCos); (LexIdent.w_exp, RExp); (LexIdent.w_i, RI);
   (LexIdent.w_pi, RPi); (LexIdent.w_sin, RSin); (LexIdent.w_sqrt, RSqrt)].

Fixpoint assoc {A} (x : list N) (l : list (list N * A)) : option A :=
  match l with
  | [] => None
  | (k, v) :: t => if LexIdent.bytes_eqb x k then Some v else assoc x t
  end.

(** [quilgen::ident]: the lower-cased spelling decides the class; [IdRes] only for the exact
    lower-case spelling *)
Definition ident_reserved (name : list N) : option reserved :=
  assoc (LexIdent.to_lower name) reserved_table.

Definition conv_ident (intern : ikey -> N) (name : list N) : ident :=
  match ident_reserved name with
  | Some r => if LexIdent.bytes_eqb name (LexIdent.to_lower name) then IdRes r else IdResCase r
  | None => IdName (intern (KName name))
  end.

(** * Floats.  The real token holds a binary64; the lexer model holds the exact decimal [m * 10^e].
    [round_bits] is the bit pattern of the binary64 nearest to it (ties to even), computed in
    units of 2^-1074 like [LexNum.chk_nearest], which every case re-checks on it ([floats_ok]). *)
Definition round_half_even (num den : N) : N :=
  let q := num / den in
  let r2 := 2 * (num mod den) in
  if r2 <? den then q else if den <? r2 then q + 1 else if N.even q then q else q + 1.

Definition two53 : N := 2 * LexNum.two52.

Definition round_bits (m : N) (e : Z) : N :=
  if m =? 0 then 0
  else if ((e <? 0) && (Z.of_N (LexNum.bits_of m) + 1080 <=? 3 * - e))%Z then 0
  else if (400 <? e)%Z then 0       (* rounds to infinity: the lexer rejects such a literal *)
  else
    (* the value is [num / den]; in units of 2^-1074 its integer part has [len] binary digits *)
    let num := m * LexNum.pow10 (Z.to_N e) in
    let den := LexNum.pow10 (Z.to_N (- e)) in
    let len := LexNum.bits_of (N.shiftl num 1074 / den) in
    (* the significand counts units of 2^(j-1074) *)
    let j := if len <=? 53 then 0 else len - 53 in
    let k := if j <=? 1074 then round_half_even (N.shiftl num (1074 - j)) den
             else round_half_even num (N.shiftl den (j - 1074)) in
    if k <? LexNum.two52 then k                          (* subnormal (j = 0) *)
    else if k =? two53 then (j + 2) * LexNum.two52       (* carried into the next binade *)
    else (j + 1) * LexNum.two52 + (k - LexNum.two52).

Definition fval_bits (f : Lex.fval) : N :=
  match f with Lex.FDec m e => round_bits m e | Lex.FBits b => b end.

(** [quilgen::float_class]: a non-negative integral value below 10^15 is [FInt], any other value
    is identified by its lexeme (equivalently its bit pattern) *)
Definition small_int_of_bits (bits : N) : option N :=
  let '(k, j) := LexNum.decode bits in       (* the value is k * 2^(j - 1074) *)
  let n := if 1074 <=? j then N.shiftl k (j - 1074) else N.shiftr k (1074 - j) in
  let integral := if 1074 <=? j then true else N.shiftl n (1074 - j) =? k in
  if integral && (n <? big) then Some n else None.

Definition conv_float (intern : ikey -> N) (f : Lex.fval) : flit :=
  let bits := fval_bits f in
  match small_int_of_bits bits with
  | Some n => FInt n
  | None => FLex (intern (KFloat bits))
  end.

Definition conv_op (c : N) : iop :=
  if c =? 94 then OCaret else if c =? 45 then OMinus else if c =? 43 then OPlus
  else if c =? 47 then OSlash else OStar.

(** * The conversion, total.  A reserved-word token whose spelling is in none of the tables cannot
    come out of [Lex.lex] ([keyword_or_identifier] consults the same spelling lists); it is mapped
    to [TComment] to keep the function total ([known] below is the decidable side condition). *)
Definition conv_with (intern : ikey -> N) (t : Lex.ltoken) : tok :=
  match t with
  | Lex.LtKeyword name => match assoc name kw_table with Some k => k | None => TComment end
  | Lex.LtCommand name => match assoc name cmd_table with Some c => TCmd c | None => TComment end
  | Lex.LtDataType name => match assoc name dtype_table with Some d => TDataType d | None => TComment end
  | Lex.LtModifier name => match assoc name modifier_table with Some m => TModifier m | None => TComment end
  | Lex.LtIdentifier name => TId (conv_ident intern name)
  | Lex.LtTarget name => TTarget (intern (KTarget name))
  | Lex.LtVariable name => TVar (conv_ident intern name)
  | Lex.LtString s => TString (intern (KString s))
  | Lex.LtComment _ => TComment
  | Lex.LtInteger v => TInt v
  | Lex.LtFloat f => TFloat (conv_float intern f)
  | Lex.LtOperator c => TOp (conv_op c)
  | Lex.LtBang => TBang | Lex.LtColon => TColon | Lex.LtComma => TComma | Lex.LtIndent => TIndent
  | Lex.LtLBracket => TLBracket | Lex.LtLParen => TLParen | Lex.LtNewLine => TNewLine
  | Lex.LtRBracket => TRBracket | Lex.LtRParen => TRParen | Lex.LtSemicolon => TSemicolon
  end.

Definition is_some {A} (o : option A) : bool := match o with Some _ => true | None => false end.

Definition known (t : Lex.ltoken) : bool :=
  match t with
  | Lex.LtKeyword name => is_some (assoc name kw_table)
  | Lex.LtCommand name => is_some (assoc name cmd_table)
  | Lex.LtDataType name => is_some (assoc name dtype_table)
  | Lex.LtModifier name => is_some (assoc name modifier_table)
  | Lex.LtOperator c => (c =? 94) || (c =? 45) || (c =? 43) || (c =? 47) || (c =? 42)
  | _ => true
  end.

(** * First-occurrence interning (the harness's [Interner::id]: a new key gets the current size
    of the map) *)
Definition key_of (t : Lex.ltoken) : option ikey :=
  match t with
  | Lex.LtIdentifier name | Lex.LtVariable name =>
      match ident_reserved name with Some _ => None | None => Some (KName name) end
  | Lex.LtTarget name => Some (KTarget name)
  | Lex.LtString s => Some (KString s)
  | Lex.LtFloat f =>
      match small_int_of_bits (fval_bits f) with Some _ => None | None => Some (KFloat (fval_bits f)) end
  | _ => None
  end.

Definition add_key (tbl : list ikey) (t : Lex.ltoken) : list ikey :=
  match key_of t with
  | Some k => if existsb (ikey_eqb k) tbl then tbl else tbl ++ [k]
  | None => tbl
  end.

Definition table_of (ts : list Lex.ltoken) : list ikey := fold_left add_key ts [].

Fixpoint index_from (i : N) (k : ikey) (tbl : list ikey) : N :=
  match tbl with
  | [] => i
  | k' :: t => if ikey_eqb k k' then i else index_from (N.succ i) k t
  end.

Definition intern_in (tbl : list ikey) (k : ikey) : N := index_from 0 k tbl.

Definition conv (tbl : list ikey) : Lex.ltoken -> tok := conv_with (intern_in tbl).

Definition conv_toks (ts : list Lex.ltoken) : list tok := map (conv (table_of ts)) ts.

(** the same, rounding every float literal only once (used by the case verdict) *)
Definition norm_tok (t : Lex.ltoken) : Lex.ltoken :=
  match t with
  | Lex.LtFloat f => Lex.LtFloat (Lex.FBits (fval_bits f))
  | _ => t
  end.

Definition conv_toks_fast (ts : list Lex.ltoken) : list tok :=
  let ts' := map norm_tok ts in map (conv (table_of ts')) ts'.

(** * Bytes to outcome *)

Definition parse_bytes_with (intern : ikey -> N) (e : entry) (bytes : list N) : outcome :=
  match Lex.lex bytes with
  | Lex.LexOk ts => run Repaired e (map (conv_with intern) ts)
  | Lex.LexErr _ => OErr
  end.

Definition parse_bytes (e : entry) (bytes : list N) : outcome :=
  match Lex.lex bytes with
  | Lex.LexOk ts => run Repaired e (map (conv (table_of ts)) ts)
  | Lex.LexErr _ => OErr
  end.

(** * The DEF* commands: [run] with the program / instruction entry points parsing items
    ([PrintParse.p_items]: plain instructions as in [p_program], DEFCAL, DEFCAL MEASURE, DEFCIRCUIT,
    DEFFRAME, DEFWAVEFORM, DEFGATE by the grammar of Model/PrintParse.v).  [OUnk] remains only for
    a definition nested inside the body of another definition (not representable there). *)
Definition run_full (vr : variant) (e : entry) (ts : list tok) : outcome :=
  match e with
  | EProgram => all_consumed (PrintParse.p_items vr ts)
  | EInstruction =>
      match PrintParse.p_items vr ts with
      | Ok [_] [] => OOk
      | Ok _ _ => OErr
      | Err => OErr | Panic => OPanic | Unk => OUnk | Fuel => OFuel
      end
  | _ => run vr e ts
  end.

Definition parse_bytes_full (e : entry) (bytes : list N) : outcome :=
  match Lex.lex bytes with
  | Lex.LexOk ts => run_full Repaired e (map (conv (table_of ts)) ts)
  | Lex.LexErr _ => OErr
  end.

(** * Case verdicts *)

(** every float of the token list: [round_bits] is accepted by the verified nearest-value checker
    of C05 *)
Definition float_ok (t : Lex.ltoken) : bool :=
  match t with
  | Lex.LtFloat (Lex.FDec m e) => LexNum.chk_nearest m e (round_bits m e)
  | _ => true
  end.

(** [PrintParse.p_defgate] does not model the validations that follow the grammar
    ([PauliSum::new], [DefGateSequence::try_new], matrix shape): on a token list containing DEFGATE the model may
    accept where the implementation rejects. *)
Definition has_defgate (ts : list tok) : bool :=
  existsb (fun t => match t with TCmd CDefGate => true | _ => false end) ts.

Definition agree_full (m o : outcome) (ts : list tok) : bool :=
  match m with
  | OUnk => true
  | _ => outcome_eqb m o ||
         (has_defgate ts && match m, o with OOk, OErr => true | _, _ => false end)
  end.

(** the DEF*-aware comparison on a token list: only where [run] answers "not modelled" (elsewhere
    [run_full] is [run], see [run_full_conservative]) *)
Definition full_single_code (vr : variant) (e : entry) (ots : option (list tok)) (o : outcome) : N :=
  match ots with
  | None => 0
  | Some ts =>
      match run vr e ts with
      | OUnk => if agree_full (run_full vr e ts) o ts then 0 else 1
      | _ => 0
      end
  end.

Fixpoint full_group_code (vr : variant) (e : entry) (prefix : list tok) (default : outcome)
         (ex : list (N * outcome)) (i : N) (al : list tok) : N :=
  match al with
  | [] => 0
  | a :: al' =>
      N.max (full_single_code vr e (Some (prefix ++ [a])) (lookup_out i ex default))
            (full_group_code vr e prefix default ex (N.succ i) al')
  end.

Definition full_code (vr : variant) (c : ParsePanic.case) : N :=
  match c with
  | CSingle e ots o => full_single_code vr e ots o
  | CGroup e a prefix d ex => full_group_code vr e prefix d ex 0 (alphabet a)
  | CLex _ _ => 0
  end.

(** A composition case: the text's bytes, the [ParsePanic.tok] list the harness derived from the
    REAL token stream ([None]: the real lexer rejected the text) and the outcome of the real entry
    point.  Codes: 2 the outcome is neither a value nor an error; 6 [round_bits] of a float literal
    is not the nearest binary64; 4 [conv] of the model's tokens differs from the harness's
    abstraction of the real tokens; 1 the lexer model and the real lexer disagree on accept / reject,
    or the real outcome differs from [parse_bytes_full] (and from [parse_bytes] where that is not
    "not modelled"); 0 otherwise. *)
Definition bytes_code (e : entry) (bytes : list N) (ots : option (list tok)) (o : outcome) : N :=
  if negb (chk_outcome o) then 2
  else
    match Lex.lex bytes, ots with
    | Lex.LexOk ms, Some ts =>
        if negb (forallb float_ok ms && forallb known ms) then 6
        else
          let cs := conv_toks_fast ms in
          if negb (PrintParse.toks_eqb cs ts) then 4
          else
            let m := run Repaired e cs in
            let ok := match m with OUnk => true | _ => outcome_eqb m o end in
            if ok && agree_full (run_full Repaired e cs) o ts then 0 else 1
    | Lex.LexErr _, None => if outcome_eqb o OErr then 0 else 1
    | _, _ => 1
    end.

Inductive case2 :=
| CBase (c : ParsePanic.case)
| CBytes (e : entry) (bytes : list N) (ts : option (list tok)) (o : outcome).

Definition case_code2 (vr : variant) (c : case2) : N :=
  match c with
  | CBase c => N.max (ParsePanic.case_code vr c) (full_code vr c)
  | CBytes e bytes ots o => bytes_code e bytes ots o
  end.

Fixpoint failing_from2 (vr : variant) (i : N) (l : list case2) : list (N * N) :=
  match l with
  | [] => []
  | c :: t =>
      let code := case_code2 vr c in
      if code =? 0 then failing_from2 vr (N.succ i) t
      else (i, code) :: failing_from2 vr (N.succ i) t
  end.

Definition failing2 (l : list case2) : list (N * N) := failing_from2 Repaired 0 l.
