(** Model of identifier lexing and of the name-carrying parser positions (property C06).

    Lexer (quil-rs/src/parser/lexer/mod.rs): [lex_identifier_raw] = one leading character
    (ASCII letter or underscore), then letters / digits / underscores, then any number of groups
    "one or more dashes followed by one or more letters / digits / underscores"; the bytes are
    copied unchanged.  [keyword_or_identifier] turns the copied string into a keyword, command,
    data-type or modifier token when it is EXACTLY (case-sensitively) one of the reserved
    spellings, otherwise into [Token::Identifier].  [lex_target] / [lex_variable] are a sigil
    followed by a raw identifier (no keyword check).

    Parser: every name-taking position copies the token's string into the AST;
    [parse_expression_identifier] (parser/expression.rs, after the fix) matches the LOWER-CASED
    identifier against the reserved words cis cos exp i pi sin sqrt and otherwise builds the memory
    reference from the ORIGINAL spelling.
    Executable definitions only (no proofs). *)
From Coq Require Import List NArith Bool.
Import ListNotations.
Open Scope N_scope.

Fixpoint bytes_eqb (a b : list N) : bool :=
  match a, b with
  | [], [] => true
  | x :: a', y :: b' => N.eqb x y && bytes_eqb a' b'
  | _, _ => false
  end.

(** ** Character classes *)
Definition is_upper (c : N) : bool := (65 <=? c) && (c <=? 90).
Definition is_lower (c : N) : bool := (97 <=? c) && (c <=? 122).
Definition is_digit (c : N) : bool := (48 <=? c) && (c <=? 57).
(** [is_valid_identifier_leading_character] *)
Definition ident_head (c : N) : bool := is_upper c || is_lower c || (c =? 95).
(** [is_valid_identifier_end_character] *)
Definition ident_char (c : N) : bool := ident_head c || is_digit c.
Definition is_dash (c : N) : bool := c =? 45.

(** [take_while p]: the longest prefix satisfying [p], and the rest *)
Fixpoint span (p : N -> bool) (l : list N) : list N * list N :=
  match l with
  | [] => ([], [])
  | c :: t => if p c then let '(a, r) := span p t in (c :: a, r) else ([], l)
  end.

(** [recognize(many0(pair(take_while1(is_dash), take_while1(is_valid_identifier_end_character))))];
    [fuel] bounds the number of groups (the input length is always enough). *)
Fixpoint dash_groups (fuel : nat) (l : list N) : list N * list N :=
  match fuel with
  | O => ([], l)
  | S f =>
      let '(d, r1) := span is_dash l in
      match d with
      | [] => ([], l)
      | _ =>
          let '(w, r2) := span ident_char r1 in
          match w with
          | [] => ([], l)
          | _ => let '(more, r3) := dash_groups f r2 in (d ++ w ++ more, r3)
          end
      end
  end.

(** [lex_identifier_raw]: the copied identifier and the remaining input *)
Definition lex_ident_raw (l : list N) : option (list N * list N) :=
  match l with
  | c :: t =>
      if ident_head c then
        let '(h, r0) := span ident_head l in          (* take_while1(leading) *)
        let '(m, r1) := span ident_char r0 in         (* take_while(end) *)
        let '(g, r2) := dash_groups (length r1) r1 in
        Some (h ++ m ++ g, r2)
      else None
  | [] => None
  end.

(** ** Reserved spellings (exact case) *)
Definition keywords : list (list N) := [
    [65;83] (* AS *);
    [77;65;84;82;73;88] (* MATRIX *);
    [109;117;116] (* mut *);
    [78;79;78;66;76;79;67;75;73;78;71] (* NONBLOCKING *);
    [79;70;70;83;69;84] (* OFFSET *);
    [80;65;85;76;73;45;83;85;77] (* PAULI-SUM *);
    [80;69;82;77;85;84;65;84;73;79;78] (* PERMUTATION *);
    [83;69;81;85;69;78;67;69] (* SEQUENCE *);
    [83;72;65;82;73;78;71] (* SHARING *)
  ].
Definition commands : list (list N) := [
    [65;68;68] (* ADD *);
    [65;78;68] (* AND *);
    [65;83;72;82] (* ASHR *);
    [67;65;76;76] (* CALL *);
    [67;65;80;84;85;82;69] (* CAPTURE *);
    [67;79;78;86;69;82;84] (* CONVERT *);
    [68;69;67;76;65;82;69] (* DECLARE *);
    [68;69;70;67;65;76] (* DEFCAL *);
    [68;69;70;67;73;82;67;85;73;84] (* DEFCIRCUIT *);
    [68;69;70;70;82;65;77;69] (* DEFFRAME *);
    [68;69;70;71;65;84;69] (* DEFGATE *);
    [68;69;70;87;65;86;69;70;79;82;77] (* DEFWAVEFORM *);
    [68;69;76;65;89] (* DELAY *);
    [68;73;86] (* DIV *);
    [69;81] (* EQ *);
    [69;88;67;72;65;78;71;69] (* EXCHANGE *);
    [70;69;78;67;69] (* FENCE *);
    [71;69] (* GE *);
    [71;84] (* GT *);
    [72;65;76;84] (* HALT *);
    [73;78;67;76;85;68;69] (* INCLUDE *);
    [73;79;82] (* IOR *);
    [74;85;77;80] (* JUMP *);
    [74;85;77;80;45;85;78;76;69;83;83] (* JUMP-UNLESS *);
    [74;85;77;80;45;87;72;69;78] (* JUMP-WHEN *);
    [76;65;66;69;76] (* LABEL *);
    [76;69] (* LE *);
    [76;79;65;68] (* LOAD *);
    [76;84] (* LT *);
    [77;69;65;83;85;82;69] (* MEASURE *);
    [77;79;86;69] (* MOVE *);
    [77;85;76] (* MUL *);
    [78;69;71] (* NEG *);
    [78;79;80] (* NOP *);
    [78;79;84] (* NOT *);
    [80;82;65;71;77;65] (* PRAGMA *);
    [80;85;76;83;69] (* PULSE *);
    [82;65;87;45;67;65;80;84;85;82;69] (* RAW-CAPTURE *);
    [82;69;83;69;84] (* RESET *);
    [83;69;84;45;70;82;69;81;85;69;78;67;89] (* SET-FREQUENCY *);
    [83;69;84;45;80;72;65;83;69] (* SET-PHASE *);
    [83;69;84;45;83;67;65;76;69] (* SET-SCALE *);
    [83;72;73;70;84;45;70;82;69;81;85;69;78;67;89] (* SHIFT-FREQUENCY *);
    [83;72;73;70;84;45;80;72;65;83;69] (* SHIFT-PHASE *);
    [83;72;76] (* SHL *);
    [83;72;82] (* SHR *);
    [83;84;79;82;69] (* STORE *);
    [83;85;66] (* SUB *);
    [83;87;65;80;45;80;72;65;83;69;83] (* SWAP-PHASES *);
    [87;65;73;84] (* WAIT *);
    [88;79;82] (* XOR *)
  ].
Definition data_types : list (list N) := [
    [66;73;84] (* BIT *);
    [79;67;84;69;84] (* OCTET *);
    [82;69;65;76] (* REAL *);
    [73;78;84;69;71;69;82] (* INTEGER *)
  ].
Definition modifiers : list (list N) := [
    [67;79;78;84;82;79;76;76;69;68] (* CONTROLLED *);
    [68;65;71;71;69;82] (* DAGGER *);
    [70;79;82;75;69;68] (* FORKED *)
  ].

Definition mem_bytes (x : list N) (l : list (list N)) : bool := existsb (bytes_eqb x) l.

Definition reserved (name : list N) : bool :=
  mem_bytes name keywords || mem_bytes name commands || mem_bytes name data_types || mem_bytes name modifiers.

(** token kinds: 0 Identifier, 1 reserved word (keyword / command / data type / modifier),
    2 Target (sigil at), 3 Variable (sigil percent) *)
Inductive itok := ITok (kind : N) (name : list N).

(** [lex_keyword_or_identifier], [lex_target], [lex_variable] *)
Definition lex_name_token (l : list N) : option (itok * list N) :=
  match l with
  | c :: t =>
      if c =? 64 then        (* at sign *)
        match lex_ident_raw t with Some (n, r) => Some (ITok 2 n, r) | None => None end
      else if c =? 37 then   (* percent *)
        match lex_ident_raw t with Some (n, r) => Some (ITok 3 n, r) | None => None end
      else
        match lex_ident_raw l with
        | Some (n, r) => Some (ITok (if reserved n then 1 else 0) n, r)
        | None => None
        end
  | [] => None
  end.

(** ** Parser positions *)
Definition to_lower (n : list N) : list N := map (fun c => if is_upper c then c + 32 else c) n.

Definition w_cis := [99;105;115].
Definition w_cos := [99;111;115].
Definition w_exp := [101;120;112].
Definition w_i := [105].
Definition w_pi := [112;105].
Definition w_sin := [115;105;110].
Definition w_sqrt := [115;113;114;116].

(** the result of [parse_expression_identifier] on a bare identifier (no brackets) *)
Inductive expr_ident := EAddress (name : list N) | EImag | EPi | EFunction (f : N).

Definition expression_identifier (ident : list N) : expr_ident :=
  let lo := to_lower ident in
  if bytes_eqb lo w_cis then EFunction 0
  else if bytes_eqb lo w_cos then EFunction 1
  else if bytes_eqb lo w_exp then EFunction 2
  else if bytes_eqb lo w_i then EImag
  else if bytes_eqb lo w_pi then EPi
  else if bytes_eqb lo w_sin then EFunction 3
  else if bytes_eqb lo w_sqrt then EFunction 4
  else EAddress ident.

Definition expr_reserved (ident : list N) : bool :=
  match expression_identifier ident with EAddress _ => false | _ => true end.

(** the memory region named by [DECLARE n ...] and by [n] used inside an expression *)
Definition region_of_declare (n : list N) : list N := n.
Definition region_of_expression (n : list N) : option (list N) :=
  match expression_identifier n with EAddress r => Some r | _ => None end.

(** Position classes of the correspondence: 0 plain identifier position (token Identifier copied),
    1 target position (sigil at), 2 variable position (sigil percent), 3 bare name inside an
    expression, 4 bracketed memory reference inside an expression, 5 DECLARE + use in an expression
    + type_check (end-to-end observer).  Outcome: the name found in the AST, or a special form. *)
Inductive outcome :=
| OName (n : list N)      (* the AST holds this name *)
| OErr                    (* the text did not parse (or did not type-check for class 5) *)
| OConst (k : N)          (* 1 = pi constant, 2 = imaginary unit *)
| OOther.                 (* parsed to some other shape *)

(** the text [sigil ++ name] lexes to exactly one token of kind [k] carrying [name] *)
Definition single_token (k : N) (text name : list N) : bool :=
  match lex_name_token text with
  | Some (ITok k' n, []) => (k =? k') && bytes_eqb n name
  | _ => false
  end.

Definition expected (cls : N) (name : list N) : outcome :=
  match cls with
  | 0 => if single_token 0 name name then OName name else OErr
  | 1 => if single_token 2 (64 :: name) name then OName name else OErr
  | 2 => if single_token 3 (37 :: name) name then OName name else OErr
  | 3 =>
      if single_token 0 name name then
        match expression_identifier name with
        | EAddress n => OName n
        | EPi => OConst 1
        | EImag => OConst 2
        | EFunction _ => OErr          (* a function name without its parenthesised argument *)
        end
      else OErr
  | 4 => if single_token 0 name name then OName name else OErr
  | _ =>
      if single_token 0 name name then
        match expression_identifier name with
        | EAddress r => if bytes_eqb r (region_of_declare name) then OName name else OErr
        | EFunction _ => OErr        (* a function name without its argument does not parse *)
        | _ => OOther                (* the use denotes a constant, not the declared region *)
        end
      else OErr
  end.

Definition outcome_eqb (a b : outcome) : bool :=
  match a, b with
  | OName x, OName y => bytes_eqb x y
  | OErr, OErr => true
  | OConst x, OConst y => x =? y
  | OOther, OOther => true
  | _, _ => false
  end.

(** The verified instance checker: whatever name reaches the AST is byte-for-byte the name
    written (a rejection, or a reserved constant in an expression, does not violate that). *)
Definition chk_name (name : list N) (o : outcome) : bool :=
  match o with
  | OName n => bytes_eqb n name
  | _ => true
  end.

(** Lexer observation: kind, name and the bytes spanned by the first token; [None] = lex error *)
Definition lexobs := option (N * list N * N).

Definition consumed (l rest : list N) : N := N.of_nat (length l) - N.of_nat (length rest).

Inductive case :=
| LexC (text : list N) (o : lexobs)
| PosC (cls : N) (name : list N) (o : outcome).

Definition case_verdict (c : case) : N :=
  match c with
  | LexC l o =>
      match lex_name_token l, o with
      | Some (ITok k n, rest), Some (k', n', used) =>
          if (k =? k') && bytes_eqb n n' && (consumed l rest =? used) then 0 else 1
      | None, None => 0
      | _, _ => 1
      end
  | PosC cls name o =>
      if negb (chk_name name o) then 2
      else if outcome_eqb (expected cls name) o then 0
      else
        (* a reserved word in a name position is not a name: the text is either rejected or is a
           different instruction altogether (e.g. a gate position holding the word MEASURE) *)
        match expected cls name, o with
        | OErr, OOther => if reserved name then 0 else 1
        | _, _ => 1
        end
  end.

Fixpoint failing_from (i : N) (cs : list case) : list (N * N) :=
  match cs with
  | [] => []
  | c :: t =>
      let v := case_verdict c in
      (if v =? 0 then [] else [(i, v)]) ++ failing_from (N.succ i) t
  end.

Definition failing (cs : list case) : list (N * N) := failing_from 0 cs.
