(** Recursion depth of the expression parser (C01).  Executable definitions only.

    An instrumented copy of ParsePanic's Pratt parser ([primary], [parse_e], [loop_e]) that returns,
    next to the result, the maximal number of simultaneously active calls of [parse] it reached
    (expression.rs: [parse] is the only recursive function; [parse_grouped_expression],
    [parse_expression_identifier] -> [parse_function_call] and [parse_infix] each call it once).

    What counts as recursion.  In the MODEL the infix loop [loop_e] is a second recursive function
    that consumes one unit of fuel per operator; in the Rust code it is the [while
    get_precedence(input) > precedence] loop INSIDE one activation of [parse].  So the call
    [parse_e -> loop_e] and the call [loop_e -> loop_e] are not recursion of the real parser and add
    nothing to the depth here; the depth grows by one exactly at the three model calls of
    [parse_e]: from [primary] after [(] (grouping), from [primary] after [fn (] (function call), and
    from [loop_e] for the right operand of an infix operator (Rust: [parse_infix -> parse]).  The
    prefix operator is NOT a recursion of this parser: [opt(parse_prefix)] strips at most one [-] in
    the same activation, and a second [-] is then an error ("expected expression").

    [paren_depth ts] is defined on the token list alone: the maximal number of unclosed [(] over all
    prefixes of [ts] (grouping and function-call parentheses alike; a [)] with nothing open is
    ignored). *)
From Coq Require Import List NArith Bool Arith.
From QV Require Import Model.ParsePanic.
Import ListNotations.

(** [primary] with the depth reached by the nested call of [parse] (0 if there is none) *)
Definition primary_d (pe : list tok -> res expr * nat) (ts : list tok) : res expr * nat :=
  match immediate ts with
  | Some (im, v, r) => (Ok (ENum im v) r, 0)
  | None =>
      match ts with
      | TVar x :: r => (Ok (EVar x) r, 0)
      | TId x :: r =>
          match brackets r with
          | Some (i, r') => (Ok (EAddr x i) r', 0)
          | None =>
              match ident_class x with
              | None => (Ok (EAddr x 0%N) r, 0)
              | Some RI => (Ok (ENum true one_lit) r, 0)
              | Some RPi => (Ok EPi r, 0)
              | Some fn =>
                  match r with
                  | TLParen :: r1 =>
                      let '(q, d) := pe r1 in
                      (match close_paren q with
                       | Ok e r2 => Ok (EFn fn e) r2
                       | o => o
                       end, d)
                  | _ => (Err, 0)
                  end
              end
          end
      | TLParen :: r => let '(q, d) := pe r in (close_paren q, d)
      | _ => (Err, 0)
      end
  end.

(** [parse_d]: result and number of nested activations of [parse], this one included.
    [loop_d]: result and the deepest activation started from the loop (0 if none); the loop itself is
    not an activation. *)
Fixpoint parse_d (fuel : nat) (p : nat) (ts : list tok) {struct fuel} : res expr * nat :=
  match fuel with
  | O => (Fuel, 1)
  | S f =>
      let '(neg, ts1) := strip_minus ts in
      let '(q, d1) := primary_d (parse_d f 0) ts1 in
      match q with
      | Ok e r =>
          let '(q2, d2) := loop_d f p (if neg then ENeg e else e) r in
          (q2, S (Nat.max d1 d2))
      | o => (o, S d1)
      end
  end
with loop_d (fuel : nat) (p : nat) (lhs : expr) (ts : list tok) {struct fuel} : res expr * nat :=
  match fuel with
  | O => (Fuel, 0)
  | S f =>
      match ts with
      | TOp o :: r =>
          if Nat.ltb p (prec o)
          then let '(q, d1) := parse_d f (prec o) r in
               match q with
               | Ok rhs r2 =>
                   let '(q2, d2) := loop_d f p (EInfix lhs o rhs) r2 in
                   (q2, Nat.max d1 d2)
               | o' => (o', d1)
               end
          else (Ok lhs ts, 0)
      | _ => (Ok lhs ts, 0)
      end
  end.

(** [parse_expression] with the fuel [p_expr] gives itself *)
Definition p_expr_d (ts : list tok) : res expr * nat := parse_d (S (length ts)) 0 ts.

Definition expr_depth (ts : list tok) : nat := snd (p_expr_d ts).

(** the precedences a call of [parse] can receive: Lowest, Sum, Product, Exponentiation *)
Definition max_prec : nat := 3.
Definition prec_levels : nat := S max_prec.

(** maximal number of open parentheses over the prefixes of [ts], starting with [c] open *)
Fixpoint max_open (c : nat) (ts : list tok) : nat :=
  match ts with
  | [] => c
  | TLParen :: r => max_open (S c) r
  | TRParen :: r => Nat.max c (max_open (Nat.pred c) r)
  | _ :: r => max_open c r
  end.

Definition paren_depth (ts : list tok) : nat := max_open 0 ts.

(** the longest run of consecutive prefix operators [-] (for the statement that it does not matter) *)
Fixpoint minus_run (cur best : nat) (ts : list tok) : nat :=
  match ts with
  | [] => Nat.max cur best
  | TOp OMinus :: r => minus_run (S cur) best r
  | _ :: r => minus_run 0 (Nat.max cur best) r
  end.

(** * Inputs of the examples *)

(** [1 + 1 + ... + 1] with [n] operators *)
Fixpoint plus_tail (n : nat) : list tok :=
  match n with O => [] | S k => TOp OPlus :: TInt 1 :: plus_tail k end.
Definition plus_chain (n : nat) : list tok := TInt 1 :: plus_tail n.

(** [(((...1...)))] with [n] pairs of parentheses *)
Definition nested_parens (n : nat) : list tok := repeat TLParen n ++ TInt 1 :: repeat TRParen n.

(** [1 + 1 * 1 ^ ( 1 + 1 * 1 ^ ( ... 1 + 1 * 1 ^ 1 ... ) )] with [n] pairs of parentheses: every
    parenthesis level is entered through the whole precedence ladder *)
Fixpoint ladder_open (n : nat) : list tok :=
  match n with
  | O => []
  | S k => TInt 1 :: TOp OPlus :: TInt 1 :: TOp OStar :: TInt 1 :: TOp OCaret :: TLParen :: ladder_open k
  end.
Definition ladder (n : nat) : list tok :=
  ladder_open n ++ [TInt 1; TOp OPlus; TInt 1; TOp OStar; TInt 1; TOp OCaret; TInt 1] ++ repeat TRParen n.

(** [- - ... - 1] with [n] prefix operators *)
Definition minus_prefix (n : nat) : list tok := repeat (TOp OMinus) n ++ [TInt 1].
