(** Model of gate modifiers and program unitaries (instruction/gate.rs `gate_matrix`,
    `Gate::dagger/controlled/forked`, `Gate::to_unitary`; program/mod.rs `Program::to_unitary`,
    `Program::dagger`), for C15.

    Everything is generic in the scalars: a type [C] with 0, 1, +, *, conjugation.  The theorems
    instantiate it with a commutative ring with an involution; the case files instantiate it with
    "value classes" (numbers naming the distinct values of the leaf matrices), on which + and * are
    defined only where one side is 0 or 1 — enough, because every entry of a modified gate's matrix
    is 0, 1, or one (conjugated) entry of one leaf matrix.
    Definitions only; proofs in Proofs/ModifiersProofs.v. *)
From Coq Require Import List NArith Bool.
From QV Require Import Model.Unitary.
Import ListNotations.
Open Scope N_scope.

Inductive modifier := MControlled | MDagger | MForked.

Inductive gerr :=
| ErrForkedOdd          (* ForkedGateOddNumParams *)
| ErrUndefined (parameterised : bool)
| ErrArgLen (actual : nat).

Inductive result (T : Type) := Ok (x : T) | Err (e : gerr).
Arguments Ok {T} x.
Arguments Err {T} e.

Section Matrices.
  Variable C : Type.
  Variables (c0 c1 : C) (cadd cmul : C -> C -> C) (cconj : C -> C).

  (** A square matrix: log2 of its dimension (number of qubits) and its entries. *)
  Record mat := Mat { mq : N; ment : N -> N -> C }.

  Definition mdim (m : mat) : N := 2 ^ mq m.

  (** `ZERO` = |0><0| and `ONE` = |1><1| of gate_matrix *)
  Definition pzero (a b : N) : C := if (a =? 0) && (b =? 0) then c1 else c0.
  Definition pone (a b : N) : C := if (a =? 1) && (b =? 1) then c1 else c0.
  Definition eye (a b : N) : C := if a =? b then c1 else c0.

  (** `kron(A, B)` for a 2x2 matrix [A] and [B] of dimension d *)
  Definition kron2 (A : N -> N -> C) (d : N) (B : N -> N -> C) (r c : N) : C :=
    cmul (A (r / d) (c / d)) (B (r mod d) (c mod d)).

  (** `g.t().mapv(|c| c.conj())` *)
  Definition dagger (m : mat) : mat := Mat (mq m) (fun r c => cconj (ment m c r)).

  (** `kron(&ZERO, &Array2::eye(n)) + kron(&ONE, &matrix)` *)
  Definition controlled (m : mat) : mat :=
    Mat (mq m + 1)
        (fun r c => cadd (kron2 pzero (mdim m) eye r c) (kron2 pone (mdim m) (ment m) r c)).

  (** `kron(&ZERO, &mat0) + kron(&ONE, &mat1)` *)
  Definition forked (m0 m1 : mat) : mat :=
    Mat (mq m0 + 1)
        (fun r c => cadd (kron2 pzero (mdim m0) (ment m0) r c) (kron2 pone (mdim m0) (ment m1) r c)).

  Definition rmap (f : mat -> mat) (x : result mat) : result mat :=
    match x with Ok m => Ok (f m) | Err e => Err e end.
  Definition rfork (x0 x1 : result mat) : result mat :=
    match x0 with
    | Err e => Err e                               (* `gate_matrix(&mut child0)?` comes first *)
    | Ok m0 => match x1 with Err e => Err e | Ok m1 => Ok (forked m0 m1) end
    end.

  (** The tables.  [P] = the type of a parameter; [base g p] the matrix of gate [g] at parameter
      [p] (None for the constant table). *)
  Variable P : Type.
  Variable base : gate -> option P -> N -> N -> C.

  (** the `else` branches of gate_matrix: no modifier left *)
  Definition base_matrix (g : gate) (params : list P) : result mat :=
    match params with
    | [] => if parameterised g then Err (ErrUndefined false) else Ok (Mat (arity g) (base g None))
    | [p] => if parameterised g then Ok (Mat (arity g) (base g (Some p))) else Err (ErrUndefined true)
    | _ => Err (ErrArgLen (length params))
    end.

  (** The recursion of gate_matrix with the OUTERMOST modifier first in the list. *)
  Fixpoint gm (g : gate) (mods : list modifier) (params : list P) : result mat :=
    match mods with
    | [] => base_matrix g params
    | MControlled :: rest => rmap controlled (gm g rest params)
    | MDagger :: rest => rmap dagger (gm g rest params)
    | MForked :: rest =>
        let k := length params in
        if Nat.odd k then Err ErrForkedOdd
        else rfork (gm g rest (firstn (Nat.div k 2) params)) (gm g rest (skipn (Nat.div k 2) params))
    end.

  (** gate_matrix: `gate.modifiers.pop()` takes the LAST modifier of the list and treats it as the
      outermost one. *)
  Definition gate_matrix (g : gate) (mods : list modifier) (params : list P) : result mat :=
    gm g (rev mods) params.

  (** Quil semantics (and the intent of `Gate::controlled` & co, which insert at the front): the
      FIRST modifier is the outermost one and pairs with the first qubit. *)
  Definition spec_matrix (g : gate) (mods : list modifier) (params : list P) : result mat :=
    gm g mods params.

  (** "Not mixed": the stack does not contain both CONTROLLED and FORKED. *)
  Definition has (m : modifier) (l : list modifier) : bool :=
    existsb (fun x => match x, m with
                      | MControlled, MControlled | MDagger, MDagger | MForked, MForked => true
                      | _, _ => false
                      end) l.
  Definition mixed (l : list modifier) : bool := has MControlled l && has MForked l.

  (** ** The gate record and the API *)
  Record mgate := MGate { g_name : gate; g_params : list P; g_qubits : list N; g_mods : list modifier }.

  Definition api_dagger (x : mgate) : mgate :=
    MGate (g_name x) (g_params x) (g_qubits x) (MDagger :: g_mods x).
  Definition api_controlled (x : mgate) (q : N) : mgate :=
    MGate (g_name x) (g_params x) (q :: g_qubits x) (MControlled :: g_mods x).
  (** `forked` with the right number of alternate parameters *)
  Definition api_forked (x : mgate) (q : N) (alt : list P) : mgate :=
    MGate (g_name x) (g_params x ++ alt) (q :: g_qubits x) (MForked :: g_mods x).

  (** Gate::to_unitary: the qubits are read BEFORE gate_matrix strips them, so the whole list is
      used for the lifting. Entry (r, c). *)
  Definition lift_entry (m : mat) (idx : option (N * N)) : C := lifted c0 (ment m) idx.

  Definition to_unitary_model (x : mgate) (n r c : N) : result (outcome C) :=
    match gate_matrix (g_name x) (g_mods x) (g_params x) with
    | Err e => Err e
    | Ok m =>
        Ok (match lift_idx_model (g_qubits x) (mq m) n r c with
            | Done idx => Done (lift_entry m idx)
            | Panic => Panic
            | OutOfFuel => OutOfFuel
            end)
    end.
  Definition to_unitary_spec (x : mgate) (n r c : N) : result C :=
    match spec_matrix (g_name x) (g_mods x) (g_params x) with
    | Err e => Err e
    | Ok m => Ok (lift_entry m (lift_idx_spec (g_qubits x) n r c))
    end.

  (** ** Programs: dense d x d matrices as functions *)
  Fixpoint msum (f : N -> C) (k : nat) : C :=
    match k with O => c0 | S j => cadd (msum f j) (f (N.of_nat j)) end.
  Definition mmul (d : nat) (A B : N -> N -> C) (r c : N) : C := msum (fun k => cmul (A r k) (B k c)) d.
  Definition madj (A : N -> N -> C) (r c : N) : C := cconj (A c r).

  (** Program::to_unitary: `umat = gate.to_unitary(n)?.dot(&umat)` from the identity, over the
      instruction list ([U] gives each gate's lifted unitary). *)
  Definition program_unitary {G} (U : G -> N -> N -> C) (d : nat) (p : list G) : N -> N -> C :=
    fold_left (fun acc g => mmul d (U g) acc) p eye.
  (** Program::dagger: instructions reversed, each gate daggered. *)
  Definition program_dagger {G} (dag : G -> G) (p : list G) : list G := map dag (rev p).
End Matrices.

Arguments Mat {C} mq ment.
Arguments Ok {T} x.
Arguments Err {T} e.

(** * Case files: value classes

    Class 0 = the value 0, class 1 = the value 1, other classes name the other distinct values of
    the leaf matrices (numerically deduplicated by the harness); [conjs] maps a class to the class
    of its conjugate.  Sums and products are defined where one side is 0 or 1; anything else gives
    the impossible class 999. *)
Definition BAD : N := 999.
Definition kadd (a b : N) : N := if a =? 0 then b else if b =? 0 then a else BAD.
Definition kmul (a b : N) : N :=
  if (a =? 0) || (b =? 0) then 0 else if a =? 1 then b else if b =? 1 then a else BAD.
Fixpoint assoc (l : list (N * N)) (k : N) : N :=
  match l with [] => BAD | (a, b) :: t => if a =? k then b else assoc t k end.
Definition kconj (conjs : list (N * N)) (a : N) : N :=
  if (a =? 0) || (a =? 1) then a else assoc conjs a.

(** A leaf is addressed by its parameter; the harness numbers the distinct parameters and gives the
    class matrix of the specification's table at each (parameter [None] = constant gate). *)
Definition leaf_table (leaves : list (option N * list (list N))) (p : option N) : list (list N) :=
  match find (fun x => match fst x, p with
                       | None, None => true
                       | Some a, Some b => a =? b
                       | _, _ => false
                       end) leaves with
  | Some x => snd x
  | None => []
  end.
Definition kbase (leaves : list (option N * list (list N))) (g : gate) (p : option N) (a b : N) : N :=
  cls_get (leaf_table leaves p) a b.

(** One case: a gate with modifiers (parameters are indices of distinct numeric parameter values),
    the class matrices of the leaves, the conjugation table, n, the implementation's unitary as
    sparse class rows (or the error class), and numeric flags: U^dagger U = I (1e-10); adding DAGGER
    through the API conjugate-transposes the unitary (1e-12). *)
Inductive obs15 := ObsRows (rows : list (list (N * N))) | ObsErr (e : gerr) | ObsOther.

Record case15 := Case15 {
  k_gate : gate; k_mods : list modifier; k_params : list N; k_qubits : list N; k_n : N;
  k_leaves : list (option N * list (list N));
  k_conjs : list (N * N);
  k_obs : obs15;
  k_unitary : bool; k_dagger : bool }.

Definition class_rows (m : result (mat N)) (idx : N -> N -> option (N * N)) (n : N) : obs15 :=
  match m with
  | Err e => ObsErr e
  | Ok m =>
      let all := range 0 (2 ^ n) in
      ObsRows (map (fun r => flat_map (fun c => let k := lifted 0 (ment N m) (idx r c) in
                                                if k =? 0 then [] else [(c, k)]) all) all)
  end.

Definition gerr_eqb (a b : gerr) : bool :=
  match a, b with
  | ErrForkedOdd, ErrForkedOdd => true
  | ErrUndefined x, ErrUndefined y => Bool.eqb x y
  | ErrArgLen x, ErrArgLen y => Nat.eqb x y
  | _, _ => false
  end.
Definition obs_eqb (a b : obs15) : bool :=
  match a, b with
  | ObsRows x, ObsRows y => rows_eqb x y
  | ObsErr x, ObsErr y => gerr_eqb x y
  | _, _ => false
  end.

Definition spec_obs (x : case15) : obs15 :=
  class_rows (spec_matrix N 0 1 kadd kmul (kconj (k_conjs x)) N (kbase (k_leaves x))
                          (k_gate x) (k_mods x) (k_params x))
             (lift_idx_spec (k_qubits x) (k_n x)) (k_n x).
Definition model_obs (x : case15) : obs15 :=
  match gate_matrix N 0 1 kadd kmul (kconj (k_conjs x)) N (kbase (k_leaves x))
                    (k_gate x) (k_mods x) (k_params x) with
  | Err e => ObsErr e
  | Ok m =>
      match lift_fn (k_qubits x) (mq N m) (k_n x) with
      | Done f => class_rows (Ok m) f (k_n x)
      | _ => ObsOther
      end
  end.

Definition mod_count (l : list modifier) : N :=
  N.of_nat (length (filter (fun m => match m with MDagger => false | _ => true end) l)).

Definition case15_wf (x : case15) : bool :=
  (N.of_nat (length (k_qubits x)) =? arity (k_gate x) + mod_count (k_mods x))
  && nodupb (k_qubits x) && forallb (fun q => q <? k_n x) (k_qubits x).

(** Verdict: 8 malformed; 2 the unitary's structure differs from the specification (modifier
    semantics / lifting); 3 not unitary; 4 DAGGER is not the conjugate transpose; 1 differs from the
    literal model only. *)
Definition case15_verdict (x : case15) : N :=
  if negb (case15_wf x) then 8
  else if negb (obs_eqb (k_obs x) (spec_obs x)) then 2
  else if negb (k_unitary x) then 3
  else if negb (k_dagger x) then 4
  else if obs_eqb (k_obs x) (model_obs x) then 0 else 1.

(** Program cases: numeric flags only (the gates' unitaries are covered by the gate cases):
    U(p) = U(g_m) ... U(g_1) (1e-10), U(dagger p) = U(p)^dagger (1e-10), U(p) unitary (1e-10). *)
Record pcase15 := PCase15 { p_len : N; p_product : bool; p_dagger : bool; p_unitary : bool }.
Definition pcase15_verdict (x : pcase15) : N :=
  if negb (p_product x) then 5 else if negb (p_dagger x) then 6 else if negb (p_unitary x) then 3 else 0.

Inductive anycase15 := AGate (x : case15) | AProg (x : pcase15).
Definition any15_verdict (x : anycase15) : N :=
  match x with AGate c => case15_verdict c | AProg p => pcase15_verdict p end.

Fixpoint failing15_from (i : N) (cs : list anycase15) : list (N * N) :=
  match cs with
  | [] => []
  | c :: t =>
      let v := any15_verdict c in
      (if v =? 0 then [] else [(i, v)]) ++ failing15_from (N.succ i) t
  end.
Definition failing15 (cs : list anycase15) : list (N * N) := failing15_from 0 cs.
