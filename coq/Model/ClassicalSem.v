(** A small operational semantics of the classical part of Quil, against which the access table
    of Model/MemAccess.v is judged (C27).

    Memory is [region -> index -> value].  The value type and the meaning of every operator,
    function, literal, extern function and of the data arriving from outside the processor
    (measurement / capture results) are PARAMETERS of the semantics (Section variables): the
    theorems hold for every interpretation.  [ZSem] at the end instantiates them over [Z] for the
    existential (tightness) statements.

    Executable definitions only. *)
From Coq Require Import List NArith ZArith Bool.
From QV Require Import Model.MemAccess.
Import ListNotations.

Section Sem.
  Variable V : Type.
  Variable lit : N -> V.                       (* literal operands / numbers in expressions *)
  Variable pi_v : V.
  Variable var_v : N -> V.                     (* %variables: not memory *)
  Variable fun_sem prefix_sem : N -> V -> V.
  Variable infix_sem : N -> V -> V -> V.
  Variable arith_sem logic_sem cmp_sem : N -> V -> V -> V.
  Variable unary_sem : N -> V -> V.
  Variable convert_sem : V -> V.
  Variable truthy : V -> bool.
  Variable to_index : V -> N.
  Variable len : N -> nat.                     (* declared length of a region *)
  Variable incoming : list V.                  (* results delivered by MEASURE / CAPTURE / RAW-CAPTURE *)

  Inductive argval := AVScalar (v : V) | AVVector (vs : list V).
  Variable extern_sem : N -> list argval -> list argval.   (* arbitrary extern function *)

  Definition state := N -> N -> V.
  Definition rd (s : state) (m : mref) : V := s (fst m) (snd m).

  Fixpoint eval (s : state) (e : expr) : V :=
    match e with
    | ENum k => lit k
    | EPi => pi_v
    | EVar v => var_v v
    | EAddr m => rd s m
    | EFun f e => fun_sem f (eval s e)
    | EPrefix o e => prefix_sem o (eval s e)
    | EInfix o l r => infix_sem o (eval s l) (eval s r)
    end.

  Definition opval (s : state) (o : operand) : V :=
    match o with OLit k => lit k | ORef m => rd s m end.

  (** What one instruction does: cells assigned from within the processor, cells assigned from
      outside (measurement / capture data), the branch decision (for conditional jumps), and the
      values it hands to the quantum / RF side (gate parameters, durations, waveform parameters). *)
  Record outcome := {
    o_upd : list (mref * V);
    o_cap : list (mref * V);
    o_branch : option bool;
    o_obs : list V }.

  Definition no_effect : outcome := {| o_upd := []; o_cap := []; o_branch := None; o_obs := [] |}.
  Definition assign (l : list (mref * V)) : outcome :=
    {| o_upd := l; o_cap := []; o_branch := None; o_obs := [] |}.

  Definition region_view (s : state) (r : N) : list V :=
    map (fun k => s r (N.of_nat k)) (seq 0 (len r)).

  Definition indexed (r : N) (base : N) (vs : list V) : list (mref * V) :=
    map (fun p => ((r, base + N.of_nat (fst p))%N, snd p)) (combine (seq 0 (length vs)) vs).

  (** CALL.  Per argument position: (written back?, is the parameter a vector?). *)
  Definition call_flags (sg : esig) : list (bool * bool) :=
    (if fst sg then [(true, false)] else []) ++ snd sg.

  Definition arg_view (s : state) (a : callarg) (is_vec : bool) : argval :=
    match a with
    | ARef m => AVScalar (rd s m)
    | AIdent r => if is_vec then AVVector (region_view s r) else AVScalar (s r 0%N)
    | AImm k => AVScalar (lit k)
    end.

  Definition arg_writeback (a : callarg) (res : argval) : list (mref * V) :=
    match a, res with
    | ARef m, AVScalar v => [(m, v)]
    | AIdent r, AVScalar v => [((r, 0%N), v)]
    | AIdent r, AVVector vs => indexed r 0 vs
    | _, _ => []
    end.

  Definition call_views (s : state) (args : list callarg) (flags : list (bool * bool)) : list argval :=
    map (fun p : callarg * (bool * bool) => arg_view s (fst p) (snd (snd p))) (combine args flags).

  Definition call_writebacks (args : list callarg) (flags : list (bool * bool)) (res : list argval)
    : list (mref * V) :=
    flat_map (fun p : (callarg * (bool * bool)) * argval =>
                if fst (snd (fst p)) then arg_writeback (fst (fst p)) (snd p) else [])
             (combine (combine args flags) res).

  Definition exec_call (sigs : sigmap) (name : N) (args : list callarg) (s : state) : option outcome :=
    match sig_lookup sigs name with
    | None => None
    | Some sg =>
        let flags := call_flags sg in
        if Nat.eqb (length args) (length flags)
        then Some (assign (call_writebacks args flags (extern_sem name (call_views s args flags))))
        else None
    end.

  Definition first_incoming (m : mref) : list (mref * V) :=
    match incoming with v :: _ => [(m, v)] | [] => [] end.

  (** [None] = the instruction cannot be executed (unresolvable CALL). *)
  Definition exec (sigs : sigmap) (i : instr) (s : state) : option outcome :=
    match i with
    | IConvert d src => Some (assign [(d, convert_sem (rd s src))])
    | IMove d o => Some (assign [(d, opval s o)])
    | IBinaryLogic op d o => Some (assign [(d, logic_sem op (rd s d) (opval s o))])
    | IArithmetic op d o => Some (assign [(d, arith_sem op (rd s d) (opval s o))])
    | IUnaryLogic op m => Some (assign [(m, unary_sem op (rd s m))])
    | IExchange l r => Some (assign [(l, rd s r); (r, rd s l)])
    | IJumpWhen c =>
        Some {| o_upd := []; o_cap := []; o_branch := Some (truthy (rd s c)); o_obs := [] |}
    | IJumpUnless c =>
        Some {| o_upd := []; o_cap := []; o_branch := Some (negb (truthy (rd s c))); o_obs := [] |}
    | IComparison op d l r => Some (assign [(d, cmp_sem op (rd s l) (opval s r))])
    | IExprs _ es => Some {| o_upd := []; o_cap := []; o_branch := None; o_obs := map (eval s) es |}
    | ICapture t es =>
        Some {| o_upd := []; o_cap := first_incoming t; o_branch := None; o_obs := map (eval s) es |}
    | IRawCapture t dur =>
        Some {| o_upd := []; o_cap := indexed (fst t) (snd t) incoming; o_branch := None;
                o_obs := [eval s dur] |}
    | IMeasure t =>
        Some {| o_upd := []; o_cap := match t with Some m => first_incoming m | None => [] end;
                o_branch := None; o_obs := [] |}
    | ICall name args => exec_call sigs name args s
    | ILoad d src off => Some (assign [(d, s src (to_index (rd s off)))])
    | IStore dst off o => Some (assign [((dst, to_index (rd s off)), opval s o)])
    | INoAccess _ | IDefGateSeq _ | IBlock _ _ _ => Some no_effect   (* definitions are not executed *)
    end.

  (** applying the assignments, in order *)
  Definition write1 (s : state) (w : mref * V) : state :=
    fun r i => if N.eqb r (fst (fst w)) && N.eqb i (snd (fst w)) then snd w else s r i.

  Definition step (s : state) (o : outcome) : state :=
    fold_left write1 (o_cap o) (fold_left write1 (o_upd o) s).

  (** two states agree on a set of regions *)
  Definition agree_on (rs : list N) (s1 s2 : state) : Prop :=
    forall r i, In r rs -> s1 r i = s2 r i.

  (** [s] with the whole region [r] replaced by [alt] *)
  Definition override (s : state) (r : N) (alt : N -> V) : state :=
    fun r' i => if N.eqb r' r then alt i else s r' i.
End Sem.

Arguments AVScalar {V} _.
Arguments AVVector {V} _.
Arguments o_upd {V} _.
Arguments o_cap {V} _.
Arguments o_branch {V} _.
Arguments o_obs {V} _.

(** every expression embedded (directly) in an instruction *)
Definition instr_exprs (i : instr) : list expr :=
  match i with
  | IExprs _ es | ICapture _ es => es
  | IRawCapture _ d => [d]
  | IDefGateSeq gates => concat gates
  | IBlock KDefCal params _ => params
  | _ => []
  end.

(** ** A concrete interpretation over [Z] (for witnesses). *)
Module ZSem.
  Definition lit (k : N) : Z := Z.of_N k.
  Definition fun_sem (f : N) (x : Z) : Z := (x + Z.of_N f + 1)%Z.
  Definition prefix_sem (o : N) (x : Z) : Z := if N.eqb o 0 then x else (- x)%Z.
  Definition infix_sem (o : N) (x y : Z) : Z :=
    match o with 0%N => (x + 2 * y + 1)%Z | 1%N => (x + y)%Z | 2%N => (x - y)%Z | 3%N => (2 * x + y)%Z | _ => (x + 3 * y)%Z end.
  Definition arith_sem (o : N) (x y : Z) : Z :=
    match o with 0%N => (x + y)%Z | 1%N => (x - y)%Z | 2%N => (2 * x + y)%Z | _ => (x + 2 * y)%Z end.
  Definition logic_sem (o : N) (x y : Z) : Z :=
    match o with 0%N => Z.land x y | 1%N => Z.lor x y | 2%N => Z.lxor x y | 3%N => Z.shiftl x y | _ => Z.shiftr x y end.
  Definition cmp_sem (o : N) (x y : Z) : Z :=
    let b := match o with 0%N => Z.eqb x y | 1%N => Z.geb x y | 2%N => Z.gtb x y | 3%N => Z.leb x y | _ => Z.ltb x y end in
    if b then 1%Z else 0%Z.
  Definition unary_sem (o : N) (x : Z) : Z := if N.eqb o 0 then (- x)%Z else (1 - x)%Z.
  Definition convert_sem (x : Z) : Z := x.
  Definition truthy (x : Z) : bool := negb (Z.eqb x 0).
  Definition to_index (x : Z) : N := Z.to_N x.
  Definition len (_ : N) : nat := 2.
  Definition incoming : list Z := [7; 8]%Z.

  Definition av_sum (a : argval Z) : Z :=
    match a with AVScalar v => v | AVVector vs => fold_right Z.add 0%Z vs end.
  (** an extern that makes every result depend on every argument *)
  Definition extern_sem (_ : N) (args : list (argval Z)) : list (argval Z) :=
    let t := fold_right (fun a acc => (av_sum a + acc)%Z) 1%Z args in
    map (fun a => match a with AVScalar _ => AVScalar t | AVVector vs => AVVector (map (fun _ => t) vs) end) args.

  Definition exec := exec Z lit 3%Z (fun v => Z.of_N v) fun_sem prefix_sem infix_sem arith_sem logic_sem
                          cmp_sem unary_sem convert_sem truthy to_index len incoming extern_sem.

  Definition zstate := state Z.
  Definition zero : zstate := fun _ _ => 0%Z.
  Definition const_alt (v : Z) : N -> Z := fun _ => v.

  (** decidable equality of outcomes *)
  Fixpoint ws_eqb (a b : list (mref * Z)) : bool :=
    match a, b with
    | [], [] => true
    | ((r, i), v) :: a', ((r', i'), v') :: b' => N.eqb r r' && N.eqb i i' && Z.eqb v v' && ws_eqb a' b'
    | _, _ => false
    end.
  Fixpoint zs_eqb (a b : list Z) : bool :=
    match a, b with
    | [], [] => true
    | x :: a', y :: b' => Z.eqb x y && zs_eqb a' b'
    | _, _ => false
    end.
  Definition ob_eqb (a b : option bool) : bool :=
    match a, b with None, None => true | Some x, Some y => Bool.eqb x y | _, _ => false end.
  Definition outcome_eqb (a b : option (outcome Z)) : bool :=
    match a, b with
    | None, None => true
    | Some x, Some y =>
        ws_eqb (o_upd x) (o_upd y) && ws_eqb (o_cap x) (o_cap y) && ob_eqb (o_branch x) (o_branch y)
        && zs_eqb (o_obs x) (o_obs y)
    | _, _ => false
    end.

  (** [reads_tight sigs i rs]: for each region of [rs], replacing that region alone (by the
      constant 1 or the constant 5, starting from the all-zero or all-one memory) changes what [i]
      does. *)
  Definition probes : list (zstate * (N -> Z)) :=
    [(zero, const_alt 1%Z); (zero, const_alt 5%Z); (fun _ _ => 1%Z, const_alt 0%Z);
     (fun _ _ => 1%Z, const_alt 2%Z); (fun _ i => Z.of_N i, const_alt 1%Z)].

  Definition read_matters (sigs : sigmap) (i : instr) (r : N) : bool :=
    existsb (fun p : zstate * (N -> Z) =>
               negb (outcome_eqb (exec sigs i (fst p)) (exec sigs i (override Z (fst p) r (snd p)))))
            probes.

  Definition written_somewhere (sigs : sigmap) (i : instr) (cap : bool) (r : N) : bool :=
    match exec sigs i zero with
    | None => false
    | Some o => existsb (fun w : mref * Z => N.eqb (fst (fst w)) r) (if cap then o_cap o else o_upd o)
    end.

  Definition tight (sigs : sigmap) (i : instr) : bool :=
    match accesses sigs i with
    | None => false
    | Some a =>
        forallb (read_matters sigs i) (a_reads a)
        && forallb (written_somewhere sigs i false) (a_writes a)
        && forallb (written_somewhere sigs i true) (a_captures a)
    end.

  (** generic instances: one per executable kind (distinct regions a=0, b=1, c=2), plus the same
      with coinciding regions where that is a different code path *)
  Definition wsigs : sigmap :=
    [(0%N, (true, [(true, true); (false, false); (true, false)])); (1%N, (false, [(false, true); (true, false)]))].

  Definition witnesses : list instr :=
    [ IConvert (0, 0) (1, 0); IMove (0, 0) (ORef (1, 1)); IMove (0, 0) (OLit 3);
      IBinaryLogic 0 (0, 0) (ORef (1, 0)); IBinaryLogic 2 (0, 0) (OLit 1);
      IArithmetic 0 (0, 1) (ORef (1, 0)); IArithmetic 1 (0, 0) (OLit 2);
      IUnaryLogic 0 (2, 0); IUnaryLogic 1 (2, 1);
      IExchange (0, 0) (1, 0); IJumpWhen (1, 0); IJumpUnless (2, 0);
      IComparison 0 (0, 0) (1, 0) (ORef (2, 0)); IComparison 2 (0, 0) (1, 0) (OLit 0);
      IExprs KGate [EInfix 1 (EAddr (0, 0)) (EFun 3 (EAddr (1, 0))); EPrefix 1 (EAddr (2, 0))];
      IExprs KDelay [EAddr (0, 0)]; IExprs KSetFrequency [EAddr (1, 0)]; IExprs KSetPhase [EAddr (2, 0)];
      IExprs KSetScale [EFun 0 (EAddr (0, 1))]; IExprs KShiftFrequency [EAddr (0, 0)];
      IExprs KShiftPhase [EInfix 4 EPi (EAddr (1, 0))]; IExprs KPulse [EAddr (0, 0); EAddr (1, 0)];
      ICapture (0, 0) [EAddr (1, 0)]; IRawCapture (0, 0) (EAddr (1, 0)); IMeasure (Some (2, 0));
      ICall 0 [ARef (0, 0); AIdent 1; ARef (2, 0); AIdent 3]; ICall 1 [AIdent 2; ARef (0, 1)];
      ILoad (0, 0) 1 (2, 0); IStore 0 (1, 0) (ORef (2, 0)); IStore 0 (1, 0) (OLit 4) ]%N.
End ZSem.
