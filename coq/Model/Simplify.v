(** Model of quil-rs/src/expression/simplification/by_hand.rs (the expression simplifier).

    Executable definitions only.

    The simplifier is a memoised, limit-bounded rewriting procedure.  Everything observable is
    modelled:
      - the ~40 rewrite rules of [simplify_infix], IN THE ORDER of the Rust [match] (a rule is a
        partial function; the first one that is defined wins; a failing guard falls through);
      - [LIMIT = 10] with saturating [limit - 1]; the dispatcher [simplify] returns its argument
        unchanged at limit 0 (except [pi]); the special-case functions recurse at [limit] (on the
        operands) and at [limit - 1] (on rebuilt expressions) — structural recursion on the limit;
      - the memo table [simplify_cache].  It is keyed by the expression only, NOT by the limit,
        while results do depend on the limit (rewriting ping-pongs between the associativity rules
        until the limit is exhausted), so the cache IS observable and is threaded through the model
        as an association list (newest binding first = [HashMap::insert] overwriting).
        The [size_cache] memoises a pure function and is unobservable; it is omitted.
      - [ArcIntern] pointer equality = structural equality ([expr_eqb] over literal equality).
    The numeric carrier [C] and the operations [calculate_infix], [calculate_function], [is_zero],
    [is_one] are parameters: nothing is computed with floats here.

    Ghost state: [hits] records each firing of the rule [0^x -> 0] with the exponent [x]; it does
    not influence any result and only serves to define the excluded class of C12
    (known finding zero-base-power). *)
From Coq Require Import List NArith Bool Arith.
From QV Require Import Model.Expr.
Import ListNotations.

Section Simplify.
  Variable C : Type.
  Variables czero cone ctwo cpi cnan : C.
  Variable cneg : C -> C.
  Variable cfun : efn -> C -> C.               (* calculate_function *)
  Variable cop : infix_op -> C -> C -> C.      (* calculate_infix (total, as in IEEE arithmetic) *)
  Variables is_zero is_one : C -> bool.        (* |x| < 1e-10, |x - 1| < 1e-10 in the code *)
  Variable ceqb : C -> C -> bool.              (* equality of Number literals *)

  Notation ex := (expr C).

  Definition eqb : ex -> ex -> bool := expr_eqb ceqb.

  Definition e_add (a b : ex) : ex := Infix a Plus b.
  Definition e_sub (a b : ex) : ex := Infix a Minus b.
  Definition e_mul (a b : ex) : ex := Infix a Star b.
  Definition e_div (a b : ex) : ex := Infix a Slash b.
  Definition e_neg (a : ex) : ex := Prefix PMinus a.

  (** [Simplifier::smaller]: [min_by_key] returns its first argument on a tie. *)
  Definition smaller (a b : ex) : ex := if Nat.ltb (size b) (size a) then b else a.

  Record st := { cache : list (ex * ex); hits : list ex }.
  Definition st_empty : st := {| cache := []; hits := [] |}.

  Fixpoint lookup (c : list (ex * ex)) (e : ex) : option ex :=
    match c with
    | [] => None
    | (k, v) :: t => if eqb e k then Some v else lookup t e
    end.

  (** A (memoised) simplification function at some fixed limit. *)
  Definition simp := st -> ex -> ex * st.

  (** The memoisation wrapper of [Simplifier::simplify].  Since fix 7232075 a result that is the
      bare symbol pi (a rule can hand back an unsimplified child when the limit has run out) is
      replaced by the number before it is cached and returned. *)
  Definition no_bare_pi (r : ex) : ex := match r with Pi => Num cpi | _ => r end.
  Definition with_cache (body : simp) : simp :=
    fun s e =>
      match lookup (cache s) e with
      | Some r => (r, s)
      | None =>
          let '(r0, s') := body s e in
          let r := no_bare_pi r0 in
          (r, {| cache := (e, r) :: cache s'; hits := hits s' |})
      end.

  Definition is_mul_or_div (o : infix_op) : bool :=
    match o with Star | Slash => true | _ => false end.

  (** [mul_matches] *)
  Definition mul_matches (lax rax : ex) : bool :=
    match lax, rax with
    | Infix ll Star lr, Infix rl Star rr => eqb ll rl || eqb ll rr || eqb lr rl || eqb lr rr
    | _, _ => false
    end.

  (** One arm of the big [match] in [simplify_infix]: given the recursive simplifier at
      [limit - 1], the state, and the (already simplified) operands, either the arm does not
      apply ([None]) or it produces the result. *)
  Definition rule := simp -> st -> ex -> infix_op -> ex -> option (ex * st).

  (* ---- First: constant folding and cancellations ---- *)
  Definition r_add_zero_l : rule := fun rec s l o r =>
    match l, o with Num x, Plus => if is_zero x then Some (r, s) else None | _, _ => None end.
  Definition r_add_zero_r : rule := fun rec s l o r =>
    match o, r with Plus, Num x => if is_zero x then Some (l, s) else None | _, _ => None end.
  Definition r_sub_zero_l : rule := fun rec s l o r =>
    match l, o with Num x, Minus => if is_zero x then Some (rec s (e_neg r)) else None | _, _ => None end.
  Definition r_sub_zero_r : rule := fun rec s l o r =>
    match o, r with Minus, Num y => if is_zero y then Some (l, s) else None | _, _ => None end.
  Definition r_sub_self : rule := fun rec s l o r =>
    match o with Minus => if eqb l r then Some (Num czero, s) else None | _ => None end.
  (** [(Number(x), Star, _) | (_, Star, Number(x)) if is_zero x]: the guard is tried for each
      alternative of the or-pattern. *)
  Definition r_mul_zero : rule := fun rec s l o r =>
    match o with
    | Star =>
        if match l with Num x => is_zero x | _ => false end then Some (Num czero, s)
        else if match r with Num x => is_zero x | _ => false end then Some (Num czero, s)
        else None
    | _ => None
    end.
  Definition r_mul_one_l : rule := fun rec s l o r =>
    match l, o with Num x, Star => if is_one x then Some (r, s) else None | _, _ => None end.
  Definition r_mul_one_r : rule := fun rec s l o r =>
    match o, r with Star, Num x => if is_one x then Some (l, s) else None | _, _ => None end.
  Definition r_div_zero_l : rule := fun rec s l o r =>
    match l, o with Num x, Slash => if is_zero x then Some (Num czero, s) else None | _, _ => None end.
  Definition r_div_zero_r : rule := fun rec s l o r =>
    match o, r with Slash, Num y => if is_zero y then Some (Num cnan, s) else None | _, _ => None end.
  Definition r_div_one_r : rule := fun rec s l o r =>
    match o, r with Slash, Num y => if is_one y then Some (l, s) else None | _, _ => None end.
  Definition r_div_self : rule := fun rec s l o r =>
    match o with Slash => if eqb l r then Some (Num cone, s) else None | _ => None end.
  (** [0^x -> 0] (the code's comment says "0⁰ = 1" but the arm comes first); ghost: log [x]. *)
  Definition r_pow_zero_l : rule := fun rec s l o r =>
    match l, o with
    | Num x, Caret =>
        if is_zero x then Some (Num czero, {| cache := cache s; hits := r :: hits s |}) else None
    | _, _ => None
    end.
  Definition r_pow_zero_r : rule := fun rec s l o r =>
    match o, r with Caret, Num y => if is_zero y then Some (Num cone, s) else None | _, _ => None end.
  Definition r_pow_one_l : rule := fun rec s l o r =>
    match l, o with Num x, Caret => if is_one x then Some (Num cone, s) else None | _, _ => None end.
  Definition r_pow_one_r : rule := fun rec s l o r =>
    match o, r with Caret, Num y => if is_one y then Some (l, s) else None | _, _ => None end.
  Definition r_fold : rule := fun rec s l o r =>
    match l, r with Num x, Num y => Some (Num (cop o x y), s) | _, _ => None end.

  (* ---- Second: negation in subexpressions ---- *)
  (** a + (-b) = a - b *)
  Definition r_add_neg_r : rule := fun rec s l o r =>
    match o, r with Plus, Prefix PMinus e => Some (rec s (e_sub l e)) | _, _ => None end.
  (** (-b) + a = a - b *)
  Definition r_add_neg_l : rule := fun rec s l o r =>
    match l, o with Prefix PMinus e, Plus => Some (rec s (e_sub r e)) | _, _ => None end.
  (** a - (-b) = a + b *)
  Definition r_sub_neg_r : rule := fun rec s l o r =>
    match o, r with Minus, Prefix PMinus e => Some (rec s (e_add l e)) | _, _ => None end.
  (** (-e) - r: smaller of the original and -(e + r) *)
  Definition r_sub_neg_l : rule := fun rec s l o r =>
    match l, o with
    | Prefix PMinus e, Minus =>
        let original := e_sub l r in
        let '(inner, s1) := rec s (e_add e r) in
        let '(outer, s2) := rec s1 (e_neg inner) in
        Some (smaller original outer, s2)
    | _, _ => None
    end.
  (** (-a) ⋇ (-b) = a ⋇ b *)
  Definition r_muldiv_neg_neg : rule := fun rec s l o r =>
    match l, r with
    | Prefix PMinus a, Prefix PMinus b =>
        if is_mul_or_div o then Some (rec s (Infix a o b)) else None
    | _, _ => None
    end.
  (** a / (-a) = -1 *)
  Definition r_div_neg_self_r : rule := fun rec s l o r =>
    match o, r with
    | Slash, Prefix PMinus e => if eqb l e then Some (Num (cneg cone), s) else None
    | _, _ => None
    end.
  (** (-a) / a = -1 *)
  Definition r_div_neg_self_l : rule := fun rec s l o r =>
    match l, o with
    | Prefix PMinus e, Slash => if eqb e r then Some (Num (cneg cone), s) else None
    | _, _ => None
    end.
  (** a ⋇ (-b) = (-a) ⋇ b, pick the shorter (the original is rebuilt with the actual operator:
      fix a7df0c4) *)
  Definition r_muldiv_neg_r : rule := fun rec s l o r =>
    match r with
    | Prefix PMinus e =>
        if is_mul_or_div o then
          let original := Infix l o r in
          let '(neg_left, s1) := rec s (e_neg l) in
          let '(new, s2) := rec s1 (Infix neg_left o e) in
          Some (smaller original new, s2)
        else None
    | _ => None
    end.
  (** (-a) ⋇ b = a ⋇ (-b), pick the shorter *)
  Definition r_muldiv_neg_l : rule := fun rec s l o r =>
    match l with
    | Prefix PMinus e =>
        if is_mul_or_div o then
          let original := Infix l o r in
          let '(neg_right, s1) := rec s (e_neg r) in
          let '(new, s2) := rec s1 (Infix e o neg_right) in
          Some (smaller original new, s2)
        else None
    | _ => None
    end.

  (* ---- Third: affine relationships ---- *)
  (** (a1 * x + b1) + (a2 * x + b2) = (a1 + a2) * x + (b1 + b2) *)
  Definition r_affine_full : rule := fun rec s l o r =>
    match l, o, r with
    | Infix lax Plus lb, Plus, Infix rax Plus rb =>
        if mul_matches lax rax then
          match lax, rax with
          | Infix ll Star lr, Infix rl Star rr =>
              let '(left_a, right_a, x) :=
                if eqb ll rl then (lr, rr, ll)
                else if eqb ll rr then (lr, rl, ll)
                else if eqb lr rl then (ll, rr, lr)
                else (ll, rl, rr) in
              let '(sum_as, s1) := rec s (e_add left_a right_a) in
              let '(sum_bs, s2) := rec s1 (e_add lb rb) in
              let '(mul_as_x, s3) := rec s2 (e_mul sum_as x) in
              Some (rec s3 (e_add mul_as_x sum_bs))
          | _, _ => None (* unreachable: mul_matches *)
          end
        else None
    | _, _, _ => None
    end.
  (** (a1 * x) + (a2 * x) = (a1 + a2) * x *)
  Definition r_affine_coeffs : rule := fun rec s l o r =>
    match l, o, r with
    | Infix la Star lx, Plus, Infix ra Star rx =>
        if eqb lx rx then
          let '(sum_as, s1) := rec s (e_add la ra) in
          Some (rec s1 (e_mul sum_as lx))
        else None
    | _, _, _ => None
    end.
  (** (x + b1) + (x + b2) = 2 * x + (b1 + b2) *)
  Definition r_affine_consts : rule := fun rec s l o r =>
    match l, o, r with
    | Infix lx Plus lb, Plus, Infix rx Plus rb =>
        if eqb lx rx then
          let '(two_x, s1) := rec s (e_mul (Num ctwo) lx) in
          let '(sum_bs, s2) := rec s1 (e_add lb rb) in
          Some (rec s2 (e_add two_x sum_bs))
        else None
    | _, _, _ => None
    end.

  (* ---- Fourth: commutation, association, distribution ---- *)
  (** a + (b + c) = (a + b) + c, a * (b * c) = (a * b) * c, pick the shorter *)
  Definition r_assoc_r : rule := fun rec s l o r =>
    match o, r with
    | (Plus | Star), Infix b io c =>
        if infix_eqb o io then
          let original := Infix l o r in
          let '(ab, s1) := rec s (Infix l o b) in
          let '(new, s2) := rec s1 (Infix ab o c) in
          Some (smaller original new, s2)
        else None
    | _, _ => None
    end.
  Definition inverse_op (o : infix_op) : infix_op :=
    match o with Minus => Plus | Slash => Star | _ => o end.
  (** a - (b - c) = (a + c) - b, a / (b / c) = (a * c) / b, pick the shorter *)
  Definition r_unassoc_r : rule := fun rec s l o r =>
    match o, r with
    | (Minus | Slash), Infix b io c =>
        if infix_eqb o io then
          let original := Infix l o r in
          let '(ac, s1) := rec s (Infix l (inverse_op o) c) in
          let '(new, s2) := rec s1 (Infix ac o b) in
          Some (smaller original new, s2)
        else None
    | _, _ => None
    end.
  (** (a + b) + c = a + (b + c), (a * b) * c = a * (b * c),
      (a - b) - c = a - (b + c), (a / b) / c = a / (b * c), pick the shorter.
      (Inner operand built with the inverse operator, outer node with the original one: fix
      457ee28; before it the code built [b op c] and [a inv bc], e.g. (x - y) - y -> x.) *)
  Definition r_assoc_l : rule := fun rec s l o r =>
    match l, o with
    | Infix a io b, (Plus | Star | Minus | Slash) =>
        if infix_eqb o io then
          let original := Infix l o r in
          let '(bc, s1) := rec s (Infix b (inverse_op o) r) in
          let '(new, s2) := rec s1 (Infix a o bc) in
          Some (smaller original new, s2)
        else None
    | _, _ => None
    end.
  (** a * (b + c) = (a * b) + (a * c), pick the shorter *)
  Definition r_distrib_r : rule := fun rec s l o r =>
    match o, r with
    | Star, Infix b Plus c =>
        let original := e_mul l r in
        let '(ab, s1) := rec s (e_mul l b) in
        let '(ac, s2) := rec s1 (e_mul l c) in
        let '(new, s3) := rec s2 (e_add ab ac) in
        Some (smaller original new, s3)
    | _, _ => None
    end.
  (** (a + b) * c = (a * c) + (b * c), pick the shorter *)
  Definition r_distrib_l : rule := fun rec s l o r =>
    match l, o with
    | Infix a Plus b, Star =>
        let original := e_mul l r in
        let '(ac, s1) := rec s (e_mul a r) in
        let '(bc, s2) := rec s1 (e_mul b r) in
        let '(new, s3) := rec s2 (e_add ac bc) in
        Some (smaller original new, s3)
    | _, _ => None
    end.

  (* ---- Fifth: other parenthesis manipulation ---- *)
  (** (a * b) / a = (b * a) / a = b  (or-pattern: [same] is the left factor first) *)
  Definition r_mul_div_cancel_l : rule := fun rec s l o r =>
    match l, o with
    | Infix x Star y, Slash =>
        if eqb r x then Some (y, s) else if eqb r y then Some (x, s) else None
    | _, _ => None
    end.
  (** a / (a * b) = a / (b * a) = 1 / b *)
  Definition r_div_mul_cancel_r : rule := fun rec s l o r =>
    match o, r with
    | Slash, Infix x Star y =>
        if eqb l x then Some (rec s (e_div (Num cone) y))
        else if eqb l y then Some (rec s (e_div (Num cone) x))
        else None
    | _, _ => None
    end.
  (** (a * b) / c = a * (b / c), pick the shorter *)
  Definition r_mul_in_div_l : rule := fun rec s l o r =>
    match l, o with
    | Infix multiplier Star multiplicand, Slash =>
        let original := e_div l r in
        let '(new_multiplicand, s1) := rec s (e_div multiplicand r) in
        let '(new, s2) := rec s1 (e_mul multiplier new_multiplicand) in
        Some (smaller original new, s2)
    | _, _ => None
    end.
  (** a / (b * c) = (a / b) / c, pick the shorter *)
  Definition r_mul_in_div_r : rule := fun rec s l o r =>
    match o, r with
    | Slash, Infix multiplier Star multiplicand =>
        let original := e_div l r in
        let '(new_multiplier, s1) := rec s (e_div l multiplier) in
        let '(new, s2) := rec s1 (e_div new_multiplier multiplicand) in
        Some (smaller original new, s2)
    | _, _ => None
    end.
  (** (b / a) * a = b *)
  Definition r_div_mul_cancel_l : rule := fun rec s l o r =>
    match l, o with
    | Infix other Slash same, Star => if eqb same r then Some (other, s) else None
    | _, _ => None
    end.
  (** a * (b / a) = b *)
  Definition r_mul_div_cancel_r : rule := fun rec s l o r =>
    match o, r with
    | Star, Infix other Slash same => if eqb l same then Some (other, s) else None
    | _, _ => None
    end.

  (** The arms in source order. *)
  Definition infix_rules : list rule :=
    [ r_add_zero_l; r_add_zero_r; r_sub_zero_l; r_sub_zero_r; r_sub_self;
      r_mul_zero; r_mul_one_l; r_mul_one_r;
      r_div_zero_l; r_div_zero_r; r_div_one_r; r_div_self;
      r_pow_zero_l; r_pow_zero_r; r_pow_one_l; r_pow_one_r;
      r_fold;
      r_add_neg_r; r_add_neg_l; r_sub_neg_r; r_sub_neg_l;
      r_muldiv_neg_neg; r_div_neg_self_r; r_div_neg_self_l; r_muldiv_neg_r; r_muldiv_neg_l;
      r_affine_full; r_affine_coeffs; r_affine_consts;
      r_assoc_r; r_unassoc_r; r_assoc_l; r_distrib_r; r_distrib_l;
      r_mul_div_cancel_l; r_div_mul_cancel_r; r_mul_in_div_l; r_mul_in_div_r;
      r_div_mul_cancel_l; r_mul_div_cancel_r ].

  Fixpoint first_rule (rules : list rule) (rec : simp) (s : st) (l : ex) (o : infix_op) (r : ex)
    : ex * st :=
    match rules with
    | [] => (Infix l o r, s)                       (* Sixth: catch-all *)
    | ru :: t =>
        match ru rec s l o r with
        | Some res => res
        | None => first_rule t rec s l o r
        end
    end.

  (** [simplify_infix(left, operator, right, limit)]: [rec0] is [simplify(_, limit)], [rec1] is
      [simplify(_, limit - 1)]. *)
  Definition simplify_infix (rec0 rec1 : simp) (s : st) (left : ex) (o : infix_op) (right : ex)
    : ex * st :=
    let '(l, s1) := rec0 s left in
    let '(r, s2) := rec0 s1 right in
    first_rule infix_rules rec1 s2 l o r.

  (** [simplify_function_call] *)
  Definition simplify_function_call (rec0 : simp) (s : st) (f : efn) (a : ex) : ex * st :=
    let '(a', s1) := rec0 s a in
    match a' with
    | Num x => (Num (cfun f x), s1)
    | _ => (Fn f a', s1)
    end.

  (** [simplify_prefix] *)
  Definition simplify_prefix (rec0 : simp) (s : st) (o : prefix_op) (a : ex) : ex * st :=
    let '(a', s1) := rec0 s a in
    match o with
    | PPlus => (a', s1)
    | PMinus =>
        match a' with
        | Num x => (Num (cneg x), s1)
        | Prefix PMinus inner => (inner, s1)
        | _ => (e_neg a', s1)
        end
    end.

  (** The body of [Simplifier::simplify] below the cache lookup, at limit 0 and at limit > 0. *)
  Definition body_zero : simp := fun s e =>
    match e with
    | Pi => (Num cpi, s)
    | _ => (e, s)
    end.

  Definition body_pos (rec0 rec1 : simp) : simp := fun s e =>
    match e with
    | Pi => (Num cpi, s)
    | Num _ | Var _ | Addr _ _ => (e, s)
    | Fn f a => simplify_function_call rec0 s f a
    | Infix l o r => simplify_infix rec0 rec1 s l o r
    | Prefix o a => simplify_prefix rec0 s o a
    end.

  (** [Simplifier::simplify(e, limit)].  The special-case functions receive [limit - 1]. *)
  Fixpoint simplify (limit : nat) : simp :=
    match limit with
    | O => with_cache body_zero
    | S l =>
        with_cache (body_pos (simplify l)
                             (match l with O => simplify l | S l' => simplify l' end))
    end.

  Definition LIMIT : nat := 10.

  (** [simplification::run] = [Expression::simplify] / [into_simplified] (a fresh [Simplifier]). *)
  Definition run_st (e : ex) : ex * st := simplify LIMIT st_empty e.
  Definition run (e : ex) : ex := fst (run_st e).
End Simplify.

Arguments cache {C} s.
Arguments hits {C} s.
