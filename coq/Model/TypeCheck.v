(** Model of quil-rs/src/program/type_check.rs (C30).  Executable definitions only.

    Region names are numbers ([N]); the harness interns the strings of the real program.  A memory
    reference is (name, index): the Rust checker never looks at the index (no bounds check), the
    model carries it only to stay close to the source.  Declarations are an association list
    name |-> (scalar type, length), looked up first-match like [IndexMap::get] on unique keys. *)
From Coq Require Import List NArith Bool.
Import ListNotations.
Open Scope N_scope.

Inductive sty := TBit | TOctet | TInteger | TReal.

Definition sty_eqb (a b : sty) : bool :=
  match a, b with
  | TBit, TBit | TOctet, TOctet | TInteger, TInteger | TReal, TReal => true
  | _, _ => false
  end.

Definition name := N.
Definition decls := list (name * (sty * N)).
Definition mref := (name * N)%type.

Fixpoint lookup (D : decls) (n : name) : option (sty * N) :=
  match D with
  | [] => None
  | (m, v) :: D' => if N.eqb m n then Some v else lookup D' n
  end.

Definition ty_of (D : decls) (n : name) : option sty := option_map fst (lookup D n).

(** Error kinds: the four [TypeError] variants; [UndefinedMemoryReference] keeps the region name it
    reports. *)
Inductive err := ErrUndef (n : name) | ErrMismatch | ErrRealReq | ErrOperand.
Inductive verdict := Ok | Err (e : err).

Definition is_ok (v : verdict) : bool := match v with Ok => true | Err _ => false end.

(** [Result::and] / [?]-sequencing: the first error wins. *)
Definition and_then (a b : verdict) : verdict := match a with Ok => b | Err e => Err e end.

(** ** Expressions *)

(** What [should_be_real] can observe about a number literal: its imaginary part [im] is exactly 0,
    non-zero with |im| <= f64::EPSILON, |im| > f64::EPSILON, or NaN.  The Rust test is
    [value.im.abs() > f64::EPSILON] => error, so only [ImBig] is rejected. *)
Inductive imcls := ImZero | ImTiny | ImBig | ImNaN.

Inductive efun := FCis | FCos | FExp | FSin | FSqrt.
Inductive eprefix := PPlus | PMinus.
Inductive einfix := XCaret | XPlus | XMinus | XSlash | XStar.

Inductive expr :=
| ENum (c : imcls)
| EPi
| EVar (v : N)
| EAddr (n : name) (i : N)
| ECall (f : efun) (e : expr)
| EPrefix (p : eprefix) (e : expr)
| EInfix (o : einfix) (l r : expr).

Definition im_rejected (c : imcls) : bool := match c with ImBig => true | _ => false end.

Fixpoint should_be_real (D : decls) (e : expr) : verdict :=
  match e with
  | EAddr n _ =>
      match ty_of D n with
      | Some TReal => Ok
      | Some _ => Err ErrRealReq
      | None => Err (ErrUndef n)
      end
  | ECall _ e1 => should_be_real D e1
  | EInfix _ l r => and_then (should_be_real D l) (should_be_real D r)
  | ENum c => if im_rejected c then Err ErrRealReq else Ok
  | EPi => Ok
  | EPrefix _ e1 => should_be_real D e1
  | EVar _ => Err ErrRealReq
  end.

(** ** Instructions *)

Inductive setkind := KSetFrequency | KSetPhase | KSetScale | KShiftFrequency | KShiftPhase.
Inductive arith_op := AAdd | ASub | ADiv | AMul.
Inductive cmp_op := CEq | CGe | CGt | CLe | CLt.
Inductive bin_op := BAnd | BIor | BXor | BShl | BShr | BAshr.
Inductive un_op := UNeg | UNot.

(** [ArithmeticOperand] / [ComparisonOperand]: the literal's value is irrelevant to the checker. *)
Inductive operand := OInt | OReal | ORef (r : mref).
Inductive boperand := BInt | BRef (r : mref).

Inductive instr :=
| ISet (k : setkind) (e : expr)
| IArith (o : arith_op) (dst : mref) (src : operand)
| ICmp (o : cmp_op) (dst lhs : mref) (rhs : operand)
| IBin (o : bin_op) (dst : mref) (src : boperand)
| IUn (o : un_op) (r : mref)
| IMove (dst : mref) (src : operand)
| IExchange (l r : mref)
| ILoad (dst : mref) (src : name) (off : mref)
| IStore (dst : name) (off : mref) (src : operand)
| IOther (k : N) (names : list name).   (* every other instruction kind: ignored by the checker *)

Definition is_intlike (t : sty) : bool := match t with TBit | TOctet => true | _ => false end.

Definition check_arith (D : decls) (dst : mref) (src : operand) : verdict :=
  match ty_of D (fst dst) with
  | None => Err (ErrUndef (fst dst))
  | Some dt =>
      match src, dt with
      | OInt, TInteger => Ok
      | OReal, TReal => Ok
      | OInt, TReal => Err ErrMismatch
      | OReal, _ => Err ErrMismatch
      | _, TBit | _, TOctet => Err ErrOperand
      | ORef s, _ =>
          match ty_of D (fst s) with
          | None => Err (ErrUndef (fst s))
          | Some st =>
              if is_intlike st then Err ErrOperand
              else if sty_eqb dt st then Ok else Err ErrMismatch
          end
      end
  end.

Definition check_cmp (D : decls) (dst lhs : mref) (rhs : operand) : verdict :=
  match ty_of D (fst dst), ty_of D (fst lhs) with
  | None, _ => Err (ErrUndef (fst dst))
  | _, None => Err (ErrUndef (fst lhs))
  | Some dt, Some lt =>
      match dt with
      | TBit =>
          match lt, rhs with
          | TReal, OInt => Err ErrMismatch
          | _, OReal => if sty_eqb lt TReal then Ok else Err ErrMismatch
          | _, ORef r =>
              match ty_of D (fst r) with
              | None => Err (ErrUndef (fst r))
              | Some rt => if sty_eqb lt rt then Ok else Err ErrMismatch
              end
          | _, OInt => Ok
          end
      | _ => Err ErrOperand
      end
  end.

Definition check_bin_ref (D : decls) (r : mref) : verdict :=
  match ty_of D (fst r) with
  | None => Err (ErrUndef (fst r))
  | Some TReal => Err ErrOperand
  | Some _ => Ok
  end.

Definition check_bin (D : decls) (dst : mref) (src : boperand) : verdict :=
  and_then (check_bin_ref D dst)
           (match src with BInt => Ok | BRef s => check_bin_ref D s end).

Definition check_un (D : decls) (o : un_op) (r : mref) : verdict :=
  match ty_of D (fst r) with
  | None => Err (ErrUndef (fst r))
  | Some t =>
      match t, o with
      | TReal, UNot => Err ErrOperand
      | TBit, UNeg | TOctet, UNeg => Err ErrOperand
      | _, _ => Ok
      end
  end.

Definition check_move (D : decls) (dst : mref) (src : operand) : verdict :=
  match ty_of D (fst dst) with
  | None => Err (ErrUndef (fst dst))
  | Some dt =>
      match src with
      | OInt => if sty_eqb dt TReal then Err ErrMismatch else Ok
      | OReal => if sty_eqb dt TReal then Ok else Err ErrMismatch
      | ORef s =>
          match ty_of D (fst s) with
          | None => Err (ErrUndef (fst s))
          | Some st => if sty_eqb st dt then Ok else Err ErrMismatch
          end
      end
  end.

Definition check_exchange (D : decls) (l r : mref) : verdict :=
  match ty_of D (fst l), ty_of D (fst r) with
  | None, _ => Err (ErrUndef (fst l))
  | _, None => Err (ErrUndef (fst r))
  | Some lt, Some rt => if sty_eqb lt rt then Ok else Err ErrMismatch
  end.

Definition check_load (D : decls) (dst : mref) (src : name) (off : mref) : verdict :=
  match ty_of D (fst dst), ty_of D src, ty_of D (fst off) with
  | None, _, _ => Err (ErrUndef (fst dst))
  | _, None, _ => Err (ErrUndef src)
  | _, _, None => Err (ErrUndef (fst off))
  | Some dt, Some st, Some ot =>
      if negb (sty_eqb ot TInteger) then Err ErrOperand
      else if sty_eqb dt st then Ok else Err ErrMismatch
  end.

(** STORE: note that an undeclared *source* reference is reported with the *offset*'s name
    (type_check.rs:569 passes [offset] to [undefined_memory_reference]); the model follows the code. *)
Definition check_store (D : decls) (dst : name) (off : mref) (src : operand) : verdict :=
  match ty_of D dst with
  | None => Err (ErrUndef dst)
  | Some dt =>
      match ty_of D (fst off) with
      | None => Err (ErrUndef (fst off))
      | Some ot =>
          if negb (sty_eqb ot TInteger) then Err ErrOperand
          else
            match src with
            | ORef s =>
                match ty_of D (fst s) with
                | None => Err (ErrUndef (fst off))
                | Some st => if sty_eqb st dt then Ok else Err ErrMismatch
                end
            | OInt => if sty_eqb dt TReal then Err ErrMismatch else Ok
            | OReal => if sty_eqb dt TReal then Ok else Err ErrMismatch
            end
      end
  end.

Definition check1 (D : decls) (i : instr) : verdict :=
  match i with
  | ISet _ e => should_be_real D e
  | IArith _ dst src => check_arith D dst src
  | ICmp _ dst lhs rhs => check_cmp D dst lhs rhs
  | IBin _ dst src => check_bin D dst src
  | IUn o r => check_un D o r
  | IMove dst src => check_move D dst src
  | IExchange l r => check_exchange D l r
  | ILoad dst src off => check_load D dst src off
  | IStore dst off src => check_store D dst off src
  | IOther _ _ => Ok
  end.

(** The [for] loop with [?]: stop at the first failing instruction. *)
Fixpoint type_check (D : decls) (is : list instr) : verdict :=
  match is with
  | [] => Ok
  | i :: is' => and_then (check1 D i) (type_check D is')
  end.

(** ** Specification side: "real-valued at any nesting depth" *)

(** A number the code accepts as real (|im| <= EPSILON; NaN also passes the Rust comparison). *)
Definition num_accepted (c : imcls) : bool := negb (im_rejected c).
(** A number that is real in the strict sense. *)
Definition num_strict (c : imcls) : bool := match c with ImZero => true | _ => false end.

Fixpoint real_leaves (num_ok : imcls -> bool) (D : decls) (e : expr) : bool :=
  match e with
  | ENum c => num_ok c
  | EPi => true
  | EVar _ => false
  | EAddr n _ => match ty_of D n with Some TReal => true | _ => false end
  | ECall _ e1 | EPrefix _ e1 => real_leaves num_ok D e1
  | EInfix _ l r => real_leaves num_ok D l && real_leaves num_ok D r
  end.

(** Numbers on which the tolerant and the strict reading differ. *)
Fixpoint has_inexact_num (e : expr) : bool :=
  match e with
  | ENum c => match c with ImTiny | ImNaN => true | _ => false end
  | EPi | EVar _ | EAddr _ _ => false
  | ECall _ e1 | EPrefix _ e1 => has_inexact_num e1
  | EInfix _ l r => has_inexact_num l || has_inexact_num r
  end.

(** ** Renaming of regions *)

Definition ren_mref (f : name -> name) (r : mref) : mref := (f (fst r), snd r).
Definition ren_decls (f : name -> name) (D : decls) : decls := map (fun p => (f (fst p), snd p)) D.

Fixpoint ren_expr (f : name -> name) (e : expr) : expr :=
  match e with
  | ENum c => ENum c
  | EPi => EPi
  | EVar v => EVar v
  | EAddr n i => EAddr (f n) i
  | ECall g e1 => ECall g (ren_expr f e1)
  | EPrefix p e1 => EPrefix p (ren_expr f e1)
  | EInfix o l r => EInfix o (ren_expr f l) (ren_expr f r)
  end.

Definition ren_operand (f : name -> name) (o : operand) : operand :=
  match o with ORef r => ORef (ren_mref f r) | OInt => OInt | OReal => OReal end.
Definition ren_boperand (f : name -> name) (o : boperand) : boperand :=
  match o with BRef r => BRef (ren_mref f r) | BInt => BInt end.

Definition ren_instr (f : name -> name) (i : instr) : instr :=
  match i with
  | ISet k e => ISet k (ren_expr f e)
  | IArith o d s => IArith o (ren_mref f d) (ren_operand f s)
  | ICmp o d l r => ICmp o (ren_mref f d) (ren_mref f l) (ren_operand f r)
  | IBin o d s => IBin o (ren_mref f d) (ren_boperand f s)
  | IUn o r => IUn o (ren_mref f r)
  | IMove d s => IMove (ren_mref f d) (ren_operand f s)
  | IExchange l r => IExchange (ren_mref f l) (ren_mref f r)
  | ILoad d s o => ILoad (ren_mref f d) (f s) (ren_mref f o)
  | IStore d o s => IStore (f d) (ren_mref f o) (ren_operand f s)
  | IOther k ns => IOther k (map f ns)
  end.

Definition ren_err (f : name -> name) (e : err) : err :=
  match e with ErrUndef n => ErrUndef (f n) | e' => e' end.
Definition ren_verdict (f : name -> name) (v : verdict) : verdict :=
  match v with Ok => Ok | Err e => Err (ren_err f e) end.

(** ** Instance checker on observed implementation behaviour *)

Definition err_eqb (a b : err) : bool :=
  match a, b with
  | ErrUndef n, ErrUndef m => N.eqb n m
  | ErrMismatch, ErrMismatch | ErrRealReq, ErrRealReq | ErrOperand, ErrOperand => true
  | _, _ => false
  end.
Definition verdict_eqb (a b : verdict) : bool :=
  match a, b with
  | Ok, Ok => true
  | Err x, Err y => err_eqb x y
  | _, _ => false
  end.

Fixpoint verdicts_eqb (a b : list verdict) : bool :=
  match a, b with
  | [], [] => true
  | x :: a', y :: b' => verdict_eqb x y && verdicts_eqb a' b'
  | _, _ => false
  end.

(** The verdict of a sequence from the verdicts of its members: the first error. *)
Fixpoint first_err (vs : list verdict) : verdict :=
  match vs with
  | [] => Ok
  | v :: vs' => and_then v (first_err vs')
  end.

(** A renaming given as a finite table; names outside the table are shifted far away. *)
Fixpoint apply_ren (rn : list (name * name)) (n : name) : name :=
  match rn with
  | [] => n + 1000000
  | (a, b) :: rn' => if N.eqb a n then b else apply_ren rn' n
  end.

(** Observations made by the harness on the REAL [type_check]:
    - [whole]   verdict of the program (declarations D, instructions is),
    - [singles] verdict of each instruction alone with the same declarations,
    - [perm], [permv] a permutation of the instruction positions and the verdict of the permuted program,
    - [dupv]    verdict of the program with its instruction list doubled (is ++ is),
    - [rn], [renv] a renaming table and the verdict of the consistently renamed program. *)
Definition obs : Type :=
  (verdict * list verdict * (list N * verdict) * verdict * (list (name * name) * verdict))%type.
Definition case : Type := (decls * list instr * obs)%type.

Definition nth_verdict (vs : list verdict) (k : N) : verdict := nth (N.to_nat k) vs Ok.

(** per-instruction clause: the program's verdict is the first error among the single verdicts *)
Definition chk_per_instr (whole : verdict) (singles : list verdict) : bool :=
  verdict_eqb whole (first_err singles).

Definition chk_perm (whole : verdict) (singles : list verdict) (perm : list N) (permv : verdict) : bool :=
  Bool.eqb (is_ok whole) (is_ok permv)
  && verdict_eqb permv (first_err (map (nth_verdict singles) perm)).

Definition chk_dup (whole dupv : verdict) : bool := verdict_eqb whole dupv.

Definition chk_ren (whole : verdict) (rn : list (name * name)) (renv : verdict) : bool :=
  verdict_eqb renv (ren_verdict (apply_ren rn) whole).

(** real-valued clause on each SET-*/SHIFT-* instruction, in the property's STRICT wording:
    accepted iff every leaf is REAL memory, pi, or a real number (imaginary part exactly 0), with
    no variables.  The implementation's tolerance (|im| <= f64::EPSILON passes) violates this on
    the known-finding class [has_inexact_num]; see C30_real_valued_strict_refuted. *)
Fixpoint chk_real (D : decls) (is : list instr) (singles : list verdict) : bool :=
  match is, singles with
  | [], [] => true
  | i :: is', v :: vs' =>
      (match i with
       | ISet _ e => Bool.eqb (is_ok v) (real_leaves num_strict D e)
       | _ => true
       end) && chk_real D is' vs'
  | _, _ => false
  end.

Definition chk_obs (D : decls) (is : list instr) (o : obs) : N :=
  match o with
  | (whole, singles, (perm, permv), dupv, (rn, renv)) =>
      if negb (chk_per_instr whole singles) then 2
      else if negb (chk_perm whole singles perm permv) then 3
      else if negb (chk_dup whole dupv) then 4
      else if negb (chk_ren whole rn renv) then 5
      else if negb (chk_real D is singles) then 6
      else 0
  end.

(** model vs implementation: every observed verdict equals the model's *)
Definition model_agrees (D : decls) (is : list instr) (o : obs) : bool :=
  match o with
  | (whole, singles, (perm, permv), dupv, (rn, renv)) =>
      verdict_eqb whole (type_check D is)
      && verdicts_eqb singles (map (check1 D) is)
      && verdict_eqb permv (type_check D (map (fun k => nth (N.to_nat k) is (IOther 0 [])) perm))
      && verdict_eqb dupv (type_check D (is ++ is))
      && verdict_eqb renv (type_check (ren_decls (apply_ren rn) D) (map (ren_instr (apply_ren rn)) is))
  end.

Definition case_code (c : case) : N :=
  match c with
  | (D, is, o) =>
      match chk_obs D is o with
      | 0 => if model_agrees D is o then 0 else 1
      | k => k
      end
  end.

Fixpoint failing_from (k : N) (cs : list case) : list (N * N) :=
  match cs with
  | [] => []
  | c :: cs' =>
      match case_code c with
      | 0 => failing_from (k + 1) cs'
      | code => (k, code) :: failing_from (k + 1) cs'
      end
  end.

Definition failing (cs : list case) : list (N * N) := failing_from 0 cs.
