(** Model of quil-rs/src/program/scheduling/graph/dependency_queue.rs.

    Executable definitions only (no proofs).  One queue tracks one resource (a memory region or a
    frame).  Accesses are [AR] (read / blocking), [AW] (write / using) and [AC] (capture; memory
    only, classified as a write).  Nodes are [N]; for the frame instance the block start is node
    [0] and instruction [i] is node [i+1]; for the memory instance instruction [i] is node [i]. *)
From Coq Require Import List NArith Bool.
Import ListNotations.

Inductive acc := AR | AW | AC.

Definition acc_eqb (a b : acc) : bool :=
  match a, b with AR, AR | AW, AW | AC, AC => true | _, _ => false end.

Definition is_write (a : acc) : bool := match a with AR => false | _ => true end.

(** A reported dependency: the access kind of the *earlier* node and that node. *)
Definition dep := (acc * N)%type.

Record queue := { qw : option dep; qr : list N }.

Definition q_new (init : option dep) : queue := {| qw := init; qr := [] |}.

Definition opt_list {A} (o : option A) : list A := match o with Some x => [x] | None => [] end.

Fixpoint memN (n : N) (l : list N) : bool :=
  match l with [] => false | x :: t => if N.eqb n x then true else memN n t end.

(** [record_access_and_get_dependencies]: the new queue and the reported dependency set. *)
Definition record (q : queue) (node : N) (a : acc) : queue * list dep :=
  let base := opt_list (qw q) in
  if is_write a
  then ({| qw := Some (a, node); qr := [] |}, base ++ map (fun r => (AR, r)) (qr q))
  else ({| qw := qw q; qr := if memN node (qr q) then qr q else qr q ++ [node] |}, base).

(** [into_pending_dependencies] *)
Definition pending (q : queue) : list dep := map (fun r => (AR, r)) (qr q) ++ opt_list (qw q).

(** Feed a whole access sequence; returns the per-step dependency sets and the final queue. *)
Fixpoint trace (q : queue) (l : list (N * acc)) : list (list dep) * queue :=
  match l with
  | [] => ([], q)
  | (n, a) :: t =>
      let '(q', d) := record q n a in
      let '(ds, qf) := trace q' t in
      (d :: ds, qf)
  end.

(** Edges as the graph builder adds them: one edge [(src, dst, kind)] per reported dependency whose
    node differs from the current one ("no instruction depends directly on itself"). *)
Definition edge := (N * N * acc)%type.

Definition step_edges (n : N) (d : list dep) : list edge :=
  map (fun x : dep => (snd x, n, fst x)) (filter (fun x : dep => negb (N.eqb (snd x) n)) d).

Fixpoint edges_from (q : queue) (l : list (N * acc)) : list edge :=
  match l with
  | [] => []
  | (n, a) :: t => let '(q', d) := record q n a in step_edges n d ++ edges_from q' t
  end.

Definition edges (init : option dep) (l : list (N * acc)) : list edge := edges_from (q_new init) l.

(** ** Verified instance checker (soundness in Proofs/DepQueueProofs.v).

    [chk_edges l E]: on a concrete access sequence [l] and a concrete edge list [E] (as reported by
    the implementation) decide the three clauses of the property directly from their definitions:
    every conflicting pair is connected by a path in [E], every edge of [E] joins a conflicting
    pair with the source's kind. *)

Definition conflict (a b : acc) : bool := is_write a || is_write b.

Definition edge_src (e : edge) : N := fst (fst e).
Definition edge_dst (e : edge) : N := snd (fst e).
Definition edge_kind (e : edge) : acc := snd e.

(** successors of a set of nodes, [fuel] rounds of closure *)
Fixpoint reach_fuel (fuel : nat) (E : list edge) (front : list N) : list N :=
  match fuel with
  | O => front
  | S f =>
      let next := map edge_dst (filter (fun e => memN (edge_src e) front) E) in
      reach_fuel f E (front ++ filter (fun n => negb (memN n front)) next)
  end.

Definition reaches (E : list edge) (m n : N) : bool := memN n (reach_fuel (length E) E [m]).

(** all ordered pairs (i<j) of a list *)
Fixpoint pairs {A} (l : list A) : list (A * A) :=
  match l with [] => [] | x :: t => map (fun y => (x, y)) t ++ pairs t end.

Definition chk_connected (l : list (N * acc)) (E : list edge) : bool :=
  forallb (fun p : (N * acc) * (N * acc) =>
             let '((m, a), (n, b)) := p in
             if conflict a b && negb (N.eqb m n) then reaches E m n else true)
          (pairs l).

Definition justified (l : list (N * acc)) (e : edge) : bool :=
  negb (N.eqb (edge_src e) (edge_dst e)) &&
  existsb (fun p : (N * acc) * (N * acc) =>
             let '((m, a), (n, b)) := p in
             N.eqb m (edge_src e) && N.eqb n (edge_dst e) && acc_eqb a (edge_kind e) && conflict a b)
          (pairs l).

Definition chk_justified (l : list (N * acc)) (E : list edge) : bool := forallb (justified l) E.

Definition chk_edges (l : list (N * acc)) (E : list edge) : bool :=
  chk_connected l E && chk_justified l E.

(** ** Comparison helpers used by the generated case files *)

Definition dep_eqb (x y : dep) : bool := acc_eqb (fst x) (fst y) && N.eqb (snd x) (snd y).

Fixpoint dep_mem (x : dep) (l : list dep) : bool :=
  match l with [] => false | y :: t => dep_eqb x y || dep_mem x t end.

Definition depset_eqb (a b : list dep) : bool :=
  forallb (fun x => dep_mem x b) a && forallb (fun x => dep_mem x a) b.

Fixpoint depsets_eqb (a b : list (list dep)) : bool :=
  match a, b with
  | [], [] => true
  | x :: a', y :: b' => depset_eqb x y && depsets_eqb a' b'
  | _, _ => false
  end.

(** A correspondence case: access sequence, the implementation's per-step dependency sets and its
    final pending set.  Verdict: 0 = agrees and property holds on impl output; 1 = model and
    implementation disagree (property still holds on the impl output); 2 = property fails on the
    implementation's output. *)
Definition impl_edges (l : list (N * acc)) (steps : list (list dep)) : list edge :=
  concat (map (fun p : (N * acc) * list dep => step_edges (fst (fst p)) (snd p)) (combine l steps)).

Definition case_verdict (init : option dep) (c : list (N * acc) * list (list dep) * list dep) : N :=
  let '(l, steps, pend) := c in
  let '(msteps, qf) := trace (q_new init) l in
  let ok_prop := Nat.eqb (length steps) (length l) && chk_edges (opt_list (option_map (fun d => (snd d, fst d)) init) ++ l) (impl_edges l steps) in
  if negb ok_prop then 2%N
  else if depsets_eqb msteps steps && depset_eqb (pending qf) pend then 0%N else 1%N.

Fixpoint failing_from (init : option dep) (i : N) (cs : list (list (N * acc) * list (list dep) * list dep)) : list (N * N) :=
  match cs with
  | [] => []
  | c :: t =>
      let v := case_verdict init c in
      (if N.eqb v 0 then [] else [(i, v)]) ++ failing_from init (N.succ i) t
  end.

Definition failing (init : option dep) cs := failing_from init 0%N cs.
