(** Shared expression AST and the model of
      quil-rs/src/expression/mod.rs   ([Expression], [evaluate], [substitute_variables]) and
      quil-rs/src/program/memory.rs   (the explicit-stack [MemoryReferences] iterator).

    Executable definitions only (no proofs).

    [expr L] has the seven constructors of [Expression].  Names (variables, memory regions) are
    interned to [N] by the harness.  The type [L] of numeric literals is a parameter: the models
    never compute with floats.  [L] is instantiated
      - by an arbitrary type together with an arbitrary evaluation algebra in the theorems,
      - by exact Gaussian rationals ([Model.ExactNum]) when the model is *executed* against the
        implementation (the harness restricts generated literals to small dyadic rationals, on
        which IEEE double arithmetic is exact),
      - by pairs (re, im) of signed magnitudes in the printer/parser model ([Model.ExprText]). *)
From Coq Require Import List NArith Bool.
Import ListNotations.

Inductive efn := Cis | Cos | Exp | Sin | Sqrt.
Inductive prefix_op := PPlus | PMinus.
Inductive infix_op := Caret | Plus | Minus | Slash | Star.

Definition efn_eqb (a b : efn) : bool :=
  match a, b with
  | Cis, Cis | Cos, Cos | Exp, Exp | Sin, Sin | Sqrt, Sqrt => true
  | _, _ => false
  end.
Definition prefix_eqb (a b : prefix_op) : bool :=
  match a, b with PPlus, PPlus | PMinus, PMinus => true | _, _ => false end.
Definition infix_eqb (a b : infix_op) : bool :=
  match a, b with
  | Caret, Caret | Plus, Plus | Minus, Minus | Slash, Slash | Star, Star => true
  | _, _ => false
  end.

(** [Num c] is [Expression::Number]; with [L := re * im] this is [Num (re, im)]. *)
Inductive expr (L : Type) : Type :=
| Num (c : L)
| Pi
| Var (x : N)
| Addr (name : N) (index : N)
| Fn (f : efn) (e : expr L)
| Prefix (o : prefix_op) (e : expr L)
| Infix (l : expr L) (o : infix_op) (r : expr L).
Arguments Num {L} c.
Arguments Pi {L}.
Arguments Var {L} x.
Arguments Addr {L} name index.
Arguments Fn {L} f e.
Arguments Prefix {L} o e.
Arguments Infix {L} l o r.

Definition memref := (N * N)%type.

Section Syntax.
  Context {L : Type}.

  (** Node count, as [Simplifier::size] in by_hand.rs. *)
  Fixpoint size (e : expr L) : nat :=
    match e with
    | Num _ | Pi | Var _ | Addr _ _ => 1
    | Fn _ a | Prefix _ a => S (size a)
    | Infix l _ r => S (size l + size r)
    end.

  (** Nesting depth; a leaf has depth 0. *)
  Fixpoint depth (e : expr L) : nat :=
    match e with
    | Num _ | Pi | Var _ | Addr _ _ => 0
    | Fn _ a | Prefix _ a => S (depth a)
    | Infix l _ r => S (Nat.max (depth l) (depth r))
    end.

  (** Variables and address leaves in left-to-right (pre-order) order, with repetitions. *)
  Fixpoint vars (e : expr L) : list N :=
    match e with
    | Var x => [x]
    | Num _ | Pi | Addr _ _ => []
    | Fn _ a | Prefix _ a => vars a
    | Infix l _ r => vars l ++ vars r
    end.

  Fixpoint addrs (e : expr L) : list memref :=
    match e with
    | Addr n i => [(n, i)]
    | Num _ | Pi | Var _ => []
    | Fn _ a | Prefix _ a => addrs a
    | Infix l _ r => addrs l ++ addrs r
    end.

  Fixpoint has_pi (e : expr L) : bool :=
    match e with
    | Pi => true
    | Num _ | Var _ | Addr _ _ => false
    | Fn _ a | Prefix _ a => has_pi a
    | Infix l _ r => has_pi l || has_pi r
    end.

  (** [Expression::substitute_variables]: the map sends a variable to an arbitrary expression. *)
  Fixpoint subst (s : N -> option (expr L)) (e : expr L) : expr L :=
    match e with
    | Var x => match s x with Some t => t | None => Var x end
    | Fn f a => Fn f (subst s a)
    | Prefix o a => Prefix o (subst s a)
    | Infix l o r => Infix (subst s l) o (subst s r)
    | Num _ | Pi | Addr _ _ => e
    end.

  (** *** The [MemoryReferences] iterator of program/memory.rs, as the stack machine it is.

      The iterator state is [stack : Vec<&Expression>] (here: head of the list = top of the
      stack).  One call of [Iterator::next] is [mr_next]: the outer loop pops a frame, the inner
      loop ([mr_walk]) descends through one-child nodes in place and, at an infix node, pushes the
      right child and continues with the left child; it stops at a leaf.  An [Address] leaf is
      returned; any other leaf sends control back to the outer loop.  [mr_walk] is structurally
      recursive; the outer loop is not (the stack grows), so it takes fuel: it is proved in
      Proofs/ExprProofs.v that fuel [stack_size st] always suffices and that more fuel never
      changes the result. *)
  Fixpoint mr_walk (e : expr L) (st : list (expr L)) : option memref * list (expr L) :=
    match e with
    | Num _ | Pi | Var _ => (None, st)
    | Addr n i => (Some (n, i), st)
    | Fn _ a | Prefix _ a => mr_walk a st
    | Infix l _ r => mr_walk l (r :: st)
    end.

  Fixpoint mr_next (fuel : nat) (st : list (expr L)) : option (memref * list (expr L)) :=
    match fuel with
    | O => None
    | S f =>
        match st with
        | [] => None
        | e :: st' =>
            match mr_walk e st' with
            | (Some r, st'') => Some (r, st'')
            | (None, st'') => mr_next f st''
            end
        end
    end.

  Definition stack_size (st : list (expr L)) : nat := fold_right (fun e n => size e + n) 0 st.

  (** Collect the iterator ([.collect::<Vec<_>>()]): call [next] until it returns [None]. *)
  Fixpoint mr_collect (fuel : nat) (st : list (expr L)) : list memref :=
    match fuel with
    | O => []
    | S f =>
        match mr_next (S (stack_size st)) st with
        | None => []
        | Some (r, st') => r :: mr_collect f st'
        end
    end.

  (** [Expression::memory_references]: the iterator starts with the stack [vec![self]]. *)
  Definition memrefs (e : expr L) : list memref := mr_collect (S (size e)) [e].
End Syntax.

(** *** Evaluation algebra.

    [C] is the carrier of values (Complex64 in the code), [M] the type of memory cells (f64).
    The binary operations are partial so that the same [eval] serves the properties that speak of
    "evaluates to a finite value" (C12: division by zero is undefined); [Expression::evaluate]
    itself never fails in an arithmetic operation, which is the hypothesis [infix_total] of the
    definedness theorem of C13. *)
Record alg (L C M : Type) : Type := {
  of_lit : L -> C;
  of_mem : M -> C;
  c_pi : C;
  c_neg : C -> C;
  c_fn : efn -> C -> C;
  c_infix : infix_op -> C -> C -> option C;
}.
Arguments of_lit {L C M} a.
Arguments of_mem {L C M} a.
Arguments c_pi {L C M} a.
Arguments c_neg {L C M} a.
Arguments c_fn {L C M} a.
Arguments c_infix {L C M} a.

Section Eval.
  Context {L C M : Type}.
  Variable A : alg L C M.

  Definition bind {X Y} (o : option X) (k : X -> option Y) : option Y :=
    match o with Some x => k x | None => None end.

  (** [Expression::evaluate]: [None] is [Err(EvaluationError::Incomplete)] (or an undefined
      arithmetic operation in a partial algebra).  Variables map to values, memory regions to
      vectors of cells; an address needs the region to be present and the index in range. *)
  Fixpoint eval (rv : N -> option C) (rm : N -> option (list M)) (e : expr L) : option C :=
    match e with
    | Num c => Some (of_lit A c)
    | Pi => Some (c_pi A)
    | Var x => rv x
    | Addr n i => bind (rm n) (fun l => option_map (of_mem A) (nth_error l (N.to_nat i)))
    | Fn f a => option_map (c_fn A f) (eval rv rm a)
    | Prefix o a =>
        option_map (fun v => match o with PMinus => c_neg A v | PPlus => v end) (eval rv rm a)
    | Infix l o r =>
        bind (eval rv rm l) (fun x => bind (eval rv rm r) (fun y => c_infix A o x y))
    end.

  (** The environment in which a substituted variable evaluates to the value of its image. *)
  Definition env_subst (rv : N -> option C) (rm : N -> option (list M))
             (s : N -> option (expr L)) : N -> option C :=
    fun x => match s x with Some t => eval rv rm t | None => rv x end.

  (** A numeric substitution (every image is a [Number]) and the union [rv ∪ s]. *)
  Definition num_subst (s : N -> option L) : N -> option (expr L) :=
    fun x => option_map Num (s x).
  Definition env_union (rv : N -> option C) (s : N -> option L) : N -> option C :=
    fun x => match s x with Some c => Some (of_lit A c) | None => rv x end.

  (** "Supplied": what [evaluate] needs. *)
  Definition cell_supplied (rm : N -> option (list M)) (r : memref) : bool :=
    match rm (fst r) with
    | Some l => N.ltb (snd r) (N.of_nat (length l))
    | None => false
    end.
  Definition var_supplied (rv : N -> option C) (x : N) : bool :=
    match rv x with Some _ => true | None => false end.
  Definition supplied (rv : N -> option C) (rm : N -> option (list M)) (e : expr L) : bool :=
    forallb (var_supplied rv) (vars e) && forallb (cell_supplied rm) (addrs e).
End Eval.

(** *** Structural equality of expressions, given equality of literals (used by the simplifier
    model for [ArcIntern] pointer equality, and by the case files). *)
Section Eqb.
  Context {L : Type}.
  Variable leqb : L -> L -> bool.
  Fixpoint expr_eqb (a b : expr L) : bool :=
    match a, b with
    | Num x, Num y => leqb x y
    | Pi, Pi => true
    | Var x, Var y => N.eqb x y
    | Addr n i, Addr m j => N.eqb n m && N.eqb i j
    | Fn f x, Fn g y => efn_eqb f g && expr_eqb x y
    | Prefix o x, Prefix p y => prefix_eqb o p && expr_eqb x y
    | Infix l o r, Infix l' o' r' => infix_eqb o o' && expr_eqb l l' && expr_eqb r r'
    | _, _ => false
    end.
End Eqb.

(** Finite association lists as environments (what the case files contain). *)
Fixpoint assoc {V} (l : list (N * V)) (k : N) : option V :=
  match l with
  | [] => None
  | (k', v) :: t => if N.eqb k k' then Some v else assoc t k
  end.
