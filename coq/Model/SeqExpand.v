(** Model of gate-sequence (DEFGATE ... AS SEQUENCE) expansion in quil-rs:
      quil-rs/src/program/defgate_sequence_expansion.rs   (ProgramDefGateSequenceExpander, the two
                                                           recursive expanders, ExpansionStack)
      quil-rs/src/instruction/gate_sequence.rs            (DefGateSequence::expand)
      quil-rs/src/program/mod.rs                          (filter_sequence_gate_definitions_to_keep)

    Executable definitions only (no proofs).  Names (gate names, formal parameter names, formal
    qubit names, memory regions) are interned to [N] by the harness; only equality matters.
    Indices and counts are [nat]. *)
From Coq Require Import List BinNat Bool.
Import ListNotations.

Definition name := N.

(** ** Syntax (the part of the instruction AST the expansion looks at) *)

(** [Expression]: 7 constructors.  Numbers are opaque literals (interned bit patterns). *)
Inductive expr :=
| ENum (n : N)
| EPi
| EVar (v : name)
| EAddr (r : name) (i : N)
| EPre (op : N) (e : expr)
| EFun (f : N) (e : expr)
| EBin (op : N) (l r : expr).

Inductive qubit := QFixed (n : N) | QVar (v : name) | QPh (p : N).

(** [Gate]; modifiers are tags (0 CONTROLLED, 1 DAGGER, 2 FORKED), outermost first. *)
Record gate := G { gname : name; gparams : list expr; gqubits : list qubit; gmods : list N }.

(** A body instruction: a gate application or anything else (interned by its text). *)
Inductive instr := IGate (g : gate) | IOther (k : N).

(** [GateSpecification]: only sequences have content that matters here. *)
Inductive gspec := SMatrix | SPerm | SPauli | SSeq (formals : list name) (body : list gate).

(** [GateDefinition]; the program's [IndexMap<String, GateDefinition>] is the list of definitions in
    map order, keyed by [dname] (keys are unique in an IndexMap). *)
Record gdef := D { dname : name; dparams : list name; dspec : gspec }.

(** [DefGateSequenceExpansionError] plus the model-only [OutOfFuel]. *)
Inductive err :=
| EParamCount (expected found : nat)
| ECycle (stack : list name)
| EQubitCount (expected found : nat)
| ENonFixed (q : qubit)
| EMods (m : list N)
| EInvalidElemQubit (q : qubit)
| EUndefElemQubit (v : name)
| OutOfFuel.

Inductive res (A : Type) := Ok (a : A) | Err (e : err).
Arguments Ok {A} a.
Arguments Err {A} e.

(** ** Boolean equalities (used by the case files and the instance checkers) *)

Definition list_eqb {A} (eqb : A -> A -> bool) : list A -> list A -> bool :=
  fix go (a b : list A) : bool :=
    match a, b with
    | [], [] => true
    | x :: a', y :: b' => eqb x y && go a' b'
    | _, _ => false
    end.

Fixpoint expr_eqb (a b : expr) : bool :=
  match a, b with
  | ENum x, ENum y => N.eqb x y
  | EPi, EPi => true
  | EVar x, EVar y => N.eqb x y
  | EAddr r i, EAddr r' i' => N.eqb r r' && N.eqb i i'
  | EPre o e, EPre o' e' => N.eqb o o' && expr_eqb e e'
  | EFun f e, EFun f' e' => N.eqb f f' && expr_eqb e e'
  | EBin o l r, EBin o' l' r' => N.eqb o o' && expr_eqb l l' && expr_eqb r r'
  | _, _ => false
  end.

Definition qubit_eqb (a b : qubit) : bool :=
  match a, b with
  | QFixed x, QFixed y => N.eqb x y
  | QVar x, QVar y => N.eqb x y
  | QPh x, QPh y => N.eqb x y
  | _, _ => false
  end.

Definition gate_eqb (a b : gate) : bool :=
  N.eqb (gname a) (gname b) && list_eqb expr_eqb (gparams a) (gparams b)
  && list_eqb qubit_eqb (gqubits a) (gqubits b) && list_eqb N.eqb (gmods a) (gmods b).

Definition instr_eqb (a b : instr) : bool :=
  match a, b with
  | IGate g, IGate h => gate_eqb g h
  | IOther x, IOther y => N.eqb x y
  | _, _ => false
  end.

Definition err_eqb (a b : err) : bool :=
  match a, b with
  | EParamCount x y, EParamCount x' y' => Nat.eqb x x' && Nat.eqb y y'
  | ECycle s, ECycle s' => list_eqb N.eqb s s'
  | EQubitCount x y, EQubitCount x' y' => Nat.eqb x x' && Nat.eqb y y'
  | ENonFixed q, ENonFixed q' => qubit_eqb q q'
  | EMods m, EMods m' => list_eqb N.eqb m m'
  | EInvalidElemQubit q, EInvalidElemQubit q' => qubit_eqb q q'
  | EUndefElemQubit v, EUndefElemQubit v' => N.eqb v v'
  | OutOfFuel, OutOfFuel => true
  | _, _ => false
  end.

Fixpoint memN (n : N) (l : list N) : bool :=
  match l with [] => false | x :: t => if N.eqb n x then true else memN n t end.

(** ** [DefGateSequence::expand] *)

(** [zip(formals, actuals).collect::<HashMap<_, _>>()] then [.get(k)]: a later binding of the same
    key overrides an earlier one, so the lookup returns the LAST pair with that key. *)
Fixpoint get_last {V} (k : name) (kvs : list (name * V)) : option V :=
  match kvs with
  | [] => None
  | (k', v) :: t =>
      match get_last k t with
      | Some v' => Some v'
      | None => if N.eqb k k' then Some v else None
      end
  end.

(** [Expression::substitute_variables]: purely structural. *)
Fixpoint subst_expr (m : list (name * expr)) (e : expr) : expr :=
  match e with
  | EVar v => match get_last v m with Some a => a | None => EVar v end
  | EPre op e1 => EPre op (subst_expr m e1)
  | EFun f e1 => EFun f (subst_expr m e1)
  | EBin op l r => EBin op (subst_expr m l) (subst_expr m r)
  | other => other
  end.

(** [iter().map(f).collect::<Result<Vec<_>, _>>()]: the first error in order wins. *)
Fixpoint map_res {A B} (f : A -> res B) (l : list A) : res (list B) :=
  match l with
  | [] => Ok []
  | x :: t =>
      match f x with
      | Err e => Err e
      | Ok y => match map_res f t with Err e => Err e | Ok ys => Ok (y :: ys) end
      end
  end.

Definition fixed_arg (q : qubit) : res N :=
  match q with QFixed n => Ok n | _ => Err (ENonFixed q) end.

Definition subst_qubit (qm : list (name * qubit)) (q : qubit) : res qubit :=
  match q with
  | QVar v => match get_last v qm with Some q' => Ok q' | None => Err (EUndefElemQubit v) end
  | _ => Err (EInvalidElemQubit q)
  end.

Definition subst_gate (pm : list (name * expr)) (qm : list (name * qubit)) (g : gate) : res gate :=
  match map_res (subst_qubit qm) (gqubits g) with
  | Err e => Err e
  | Ok qs => Ok {| gname := gname g; gparams := map (subst_expr pm) (gparams g);
                   gqubits := qs; gmods := gmods g |}
  end.

Definition seq_expand (formals : list name) (body : list gate)
           (pm : list (name * expr)) (qargs : list qubit) : res (list gate) :=
  if negb (Nat.eqb (length qargs) (length formals))
  then Err (EQubitCount (length formals) (length qargs))
  else match map_res fixed_arg qargs with
       | Err e => Err e
       | Ok fixed => map_res (subst_gate pm (combine formals (map QFixed fixed))) body
       end.

(** ** [ProgramDefGateSequenceExpander] *)

Fixpoint find_def (defs : list gdef) (n : name) : option gdef :=
  match defs with
  | [] => None
  | d :: t => if N.eqb (dname d) n then Some d else find_def t n
  end.

Definition is_seq (d : gdef) : bool := match dspec d with SSeq _ _ => true | _ => false end.

Section Expander.
  Variable defs : list gdef.
  (** the filter closure [F: Fn(&str) -> bool]; [true] = expand invocations of that name *)
  Variable sel : name -> bool.

  (** [gate_sequence_from_instruction]; the checks in the order the code performs them:
      definition found and is a sequence, filter, parameter count, modifiers, stack (cycle),
      then [DefGateSequence::expand] (qubit count, fixed qubits, element substitution). *)
  Definition from_instr (stack : list name) (i : instr) : res (option (list instr * name)) :=
    match i with
    | IOther _ => Ok None
    | IGate g =>
        match find_def defs (gname g) with
        | None => Ok None
        | Some d =>
            match dspec d with
            | SSeq formals body =>
                if sel (gname g) then
                  if negb (Nat.eqb (length (dparams d)) (length (gparams g)))
                  then Err (EParamCount (length (dparams d)) (length (gparams g)))
                  else match gmods g with
                       | _ :: _ => Err (EMods (gmods g))
                       | [] =>
                           if memN (dname d) stack then Err (ECycle stack)
                           else match seq_expand formals body
                                        (combine (dparams d) (gparams g)) (gqubits g) with
                                | Err e => Err e
                                | Ok gs => Ok (Some (map IGate gs, dname d))
                                end
                       end
                else Ok None
            | _ => Ok None
            end
        end
    end.

  (** [ExpansionStack::with_gate_sequence]: [IndexSet::insert] appends unless already present
      (the pop after the closure is implicit: the caller keeps its own [stack]). *)
  Definition push (n : name) (stack : list name) : list name :=
    if memN n stack then stack else stack ++ [n].

  (** [expand_without_source_map_impl]; [rec] is the recursive call for the nested body. *)
  Fixpoint expand_list (rec : list name -> list instr -> res (list instr))
           (stack : list name) (l : list instr) : res (list instr) :=
    match l with
    | [] => Ok []
    | i :: t =>
        match from_instr stack i with
        | Err e => Err e
        | Ok None =>
            match expand_list rec stack t with Err e => Err e | Ok r => Ok (i :: r) end
        | Ok (Some (body, nm)) =>
            match rec (push nm stack) body with
            | Err e => Err e
            | Ok r1 =>
                match expand_list rec stack t with Err e => Err e | Ok r2 => Ok (r1 ++ r2) end
            end
        end
    end.

  (** [fuel] bounds the nesting depth of expansions. *)
  Fixpoint expand (fuel : nat) (stack : list name) (l : list instr) : res (list instr) :=
    match fuel with
    | O => Err OutOfFuel
    | S f => expand_list (expand f) stack l
    end.

  (** *** Source map *)

  (** [SourceMapEntry<InstructionIndex, ExpansionResult<DefGateSequenceExpansion>>]: source index
      and either the target index ([Unmodified]) or the signature name, the target range
      [lo..hi) and the nested map ([Rewritten]). *)
  Inductive entry :=
  | EUnmod (src tgt : nat)
  | ERewr (src : nat) (nm : name) (lo hi : nat) (nested : list entry).

  (** [expand_with_source_map_impl]: [k] = source index of the head of [l], [tl] = number of
      target instructions produced so far at this level. *)
  Fixpoint expand_sm_list (rec : list name -> list instr -> res (list instr * list entry))
           (stack : list name) (l : list instr) (k tl : nat) : res (list instr * list entry) :=
    match l with
    | [] => Ok ([], [])
    | i :: t =>
        match from_instr stack i with
        | Err e => Err e
        | Ok None =>
            match expand_sm_list rec stack t (S k) (S tl) with
            | Err e => Err e
            | Ok (r, m) => Ok (i :: r, EUnmod k tl :: m)
            end
        | Ok (Some (body, nm)) =>
            match rec (push nm stack) body with
            | Err e => Err e
            | Ok (r1, m1) =>
                match expand_sm_list rec stack t (S k) (tl + length r1) with
                | Err e => Err e
                | Ok (r2, m2) => Ok (r1 ++ r2, ERewr k nm tl (tl + length r1) m1 :: m2)
                end
            end
        end
    end.

  Fixpoint expand_sm (fuel : nat) (stack : list name) (l : list instr)
    : res (list instr * list entry) :=
    match fuel with
    | O => Err OutOfFuel
    | S f => expand_sm_list (expand_sm f) stack l 0 0
    end.

  (** *** Verified instance checker for a source map (soundness: Proofs/SeqExpandProofs.v).

      [chk_map stack l k b es out]: the entries [es] describe, one per instruction of [l] (source
      indices from [k]), how [l] expands to exactly [out] placed at target offset [b]; nested maps
      are checked against the substituted body and the slice of [out], both from 0. *)
  Definition chk_list
             (chk : entry -> instr -> nat -> nat -> list instr -> option (nat * list instr)) :=
    fix go (es : list entry) (l : list instr) (k b : nat) (out : list instr) : bool :=
      match es, l with
      | [], [] => match out with [] => true | _ => false end
      | e :: es', i :: t =>
          match chk e i k b out with
          | Some (b', out') => go es' t (S k) b' out'
          | None => false
          end
      | _, _ => false
      end.

  (** one entry against one source instruction: returns the next target offset and the rest of
      the output *)
  Fixpoint chk_entry (stack : list name) (e : entry) (i : instr) (k b : nat) (out : list instr)
           {struct e} : option (nat * list instr) :=
    match e with
    | EUnmod s tg =>
        if Nat.eqb s k && Nat.eqb tg b then
          match from_instr stack i, out with
          | Ok None, o :: out' => if instr_eqb o i then Some (S b, out') else None
          | _, _ => None
          end
        else None
    | ERewr s nm lo hi nested =>
        if Nat.eqb s k && Nat.eqb lo b && Nat.leb lo hi then
          match from_instr stack i with
          | Ok (Some (body, nm')) =>
              if N.eqb nm nm' && Nat.leb (hi - lo) (length out)
                 && chk_list (chk_entry (push nm' stack)) nested body 0 0 (firstn (hi - lo) out)
              then Some (hi, skipn (hi - lo) out)
              else None
          | _ => None
          end
        else None
    end.

  Definition chk_map (stack : list name) (l : list instr) (k b : nat) (es : list entry)
             (out : list instr) : bool :=
    chk_list (chk_entry stack) es l k b out.
End Expander.


Fixpoint entry_eqb (a b : entry) : bool :=
  match a, b with
  | EUnmod s t, EUnmod s' t' => Nat.eqb s s' && Nat.eqb t t'
  | ERewr s n lo hi m, ERewr s' n' lo' hi' m' =>
      Nat.eqb s s' && N.eqb n n' && Nat.eqb lo lo' && Nat.eqb hi hi' && list_eqb entry_eqb m m'
  | _, _ => false
  end.

(** Entry points: [Program::expand_defgate_sequences{,_with_source_map}] start with an empty stack.
    The fuel is the number of sequence definitions + 1 (proved sufficient). *)
Definition seq_count (defs : list gdef) : nat := length (filter is_seq defs).

Definition expand_program (defs : list gdef) (sel : name -> bool) (l : list instr) :=
  expand defs sel (S (seq_count defs)) [] l.

Definition expand_program_sm (defs : list gdef) (sel : name -> bool) (l : list instr) :=
  expand_sm defs sel (S (seq_count defs)) [] l.

(** ** [filter_sequence_gate_definitions_to_keep] *)

Definition seq_names (defs : list gdef) : list name := map dname (filter is_seq defs).

(** graph edges: from a sequence definition to every sequence definition its body mentions *)
Definition succs (defs : list gdef) (a : name) : list name :=
  flat_map (fun d =>
              if N.eqb (dname d) a then
                match dspec d with
                | SSeq _ body => filter (fun b => memN b (seq_names defs)) (map gname body)
                | _ => []
                end
              else []) defs.

Fixpoint add_new (xs s : list name) : list name :=
  match xs with
  | [] => s
  | x :: t => if memN x s then add_new t s else add_new t (s ++ [x])
  end.

Definition step (defs : list gdef) (s : list name) : list name := add_new (flat_map (succs defs) s) s.

Fixpoint closure (defs : list gdef) (fuel : nat) (s : list name) : list name :=
  match fuel with
  | O => s
  | S f => let s' := step defs s in
           if Nat.eqb (length s') (length s) then s else closure defs f s'
  end.

(** [petgraph::algo::has_path_connecting(&graph, i, j)] (true for [i = j]) *)
Definition has_path (defs : list gdef) (a b : name) : bool :=
  memN b (closure defs (S (length (seq_names defs))) [a]).

Definition keep_b (defs : list gdef) (sel : name -> bool) (d : gdef) : bool :=
  if is_seq d then
    negb (sel (dname d))
    || existsb (fun u => negb (sel u) && has_path defs u (dname d)) (seq_names defs)
  else true.

Definition keep (defs : list gdef) (sel : name -> bool) : list gdef := filter (keep_b defs sel) defs.

(** ** Case files

    A case: definitions, the names the filter selects, the program body, the result of
    [expand_defgate_sequences] (body, kept definition names in order) and the result of
    [expand_defgate_sequences_with_source_map] (the same plus the source map; the harness prints
    [None] for body and kept names when they are identical to the first result's). *)
Definition case : Type :=
  list gdef * list name * list instr * res (list instr * list name)
  * res (option (list instr * list name) * list entry).

Definition sel_of (names : list name) : name -> bool := fun n => memN n names.

(** Instance checker for C20 on the implementation's output.  The specification relations are
    functional, so the checker compares with the model's output (soundness: [chk_c20_sound]). *)
Definition chk_c20 (defs : list gdef) (sel : name -> bool) (l : list instr)
           (r : res (list instr * list name)) : N :=
  match r, expand_program defs sel l with
  | Ok (out, kept), Ok out' =>
      if list_eqb instr_eqb out out'
      then if list_eqb N.eqb kept (map dname (keep defs sel)) then 0%N else 3%N
      else 2%N
  | Err e, Err e' => if err_eqb e e' then 0%N else 4%N
  | Ok _, Err _ => 2%N
  | Err _, Ok _ => 4%N
  end.

(** C20 verdict: 0 ok; 2 expanded body wrong; 3 kept definitions wrong; 4 error wrong. *)
Definition verdict20 (c : case) : N :=
  let '(defs, names, l, r1, _) := c in chk_c20 defs (sel_of names) l r1.

Definition res_plain_eqb (a b : res (list instr * list name)) : bool :=
  match a, b with
  | Ok (o, k), Ok (o', k') => list_eqb instr_eqb o o' && list_eqb N.eqb k k'
  | Err e, Err e' => err_eqb e e'
  | _, _ => false
  end.

(** C21 verdict: 0 ok; 2 the two entry points differ; 3 the verified checker rejects the
    implementation's source map; 1 the map is accepted but differs from the model's. *)
Definition verdict21 (c : case) : N :=
  let '(defs, names, l, r1, r2) := c in
  let sel := sel_of names in
  let r2' := match r2 with
             | Ok (Some ok, _) => Ok ok
             | Ok (None, _) => match r1 with Ok ok => Ok ok | Err _ => Ok ([], []) end
             | Err e => Err e
             end in
  if negb (res_plain_eqb r1 r2') then 2%N
  else match r2 with
       | Err e =>
           match expand_program_sm defs sel l with
           | Err e' => if err_eqb e e' then 0%N else 1%N
           | Ok _ => 1%N
           end
       | Ok (_, m) =>
           let out := match r2' with Ok (o, _) => o | Err _ => [] end in
           if negb (chk_map defs sel [] l 0 0 m out) then 3%N
           else match expand_program_sm defs sel l with
                | Ok (out', m') =>
                    if list_eqb instr_eqb out out' && list_eqb entry_eqb m m' then 0%N else 1%N
                | Err _ => 1%N
                end
       end.

Fixpoint failing_from (v : case -> N) (i : N) (cs : list case) : list (N * N) :=
  match cs with
  | [] => []
  | c :: t => (if N.eqb (v c) 0 then [] else [(i, v c)]) ++ failing_from v (N.succ i) t
  end.

Definition failing20 (cs : list case) := failing_from verdict20 0%N cs.
Definition failing21 (cs : list case) := failing_from verdict21 0%N cs.
