(** Model of [ScheduledBasicBlock::build] (quil-rs/src/program/scheduling/graph.rs).

    Executable definitions only (no proofs).  The input is the per-instruction summary that the
    [InstructionHandler] reports ([info]: role, memory accesses or a memory-access error, used /
    blocked frames, is_scheduled) for the block's instructions plus, optionally, for the
    terminator instruction.  The output is the dependency graph as an edge list, or the error.

    Node numbering: block start = 0, instruction [i] = [i+1], block end = [length is + 1].
    The per-resource queues are the ones of Model/DepQueue.v ([record], [pending]); the three
    HashMaps of queues are association lists keyed by region / frame id.  The model carries ghost
    *labels* on edges (which region / frame / rule produced the edge); [build] erases them to the
    dependency kinds the implementation stores. *)
From Coq Require Import List NArith Bool.
From QV Require Import Model.DepQueue.
Import ListNotations.

Inductive role := RClassical | RRF | RControl | RCompose.

Record info := MkInfo {
  i_role : role;
  i_memerr : bool;            (* handler.memory_accesses returned Err *)
  i_reads : list N;
  i_writes : list N;
  i_caps : list N;
  i_used : list N;            (* matched_frames.used (None = both empty) *)
  i_blocked : list N;
  i_sched : bool }.

(** Dependency kinds stored on the implementation's edges. *)
Inductive kind := KMem (a : acc) | KSched | KStable.
Definition gedge := (N * N * kind)%type.

(** Ghost labels: the rule that produced an edge. *)
Inductive label :=
| LMem (r : N) (a : acc)      (* memory dependency on region r, access kind of the source *)
| LSched (f : N) (a : acc)    (* timed frame queue of frame f (incl. final linking to block end) *)
| LStable (f : N) (a : acc)   (* ordering frame queue of frame f (incl. final linking) *)
| LLead                       (* block start -> leading classical instruction *)
| LTrail                      (* trailing classical instruction -> block end *)
| LEmpty.                     (* block start -> block end of an empty block *)
Definition ledge := (N * N * label)%type.

Definition erase (l : label) : kind :=
  match l with
  | LMem _ a => KMem a
  | LSched _ _ => KSched
  | LStable _ _ | LLead | LTrail | LEmpty => KStable
  end.
Definition erase_edge (e : ledge) : gedge := (fst e, erase (snd e)).

Inductive err := EUnresolvedCall | EControlFlow | EUnschedulable.
Definition result := (sum (err * N) (list gedge)).

(** ** HashMap<key, DependencyQueue> as association list *)
Definition qmap := list (N * queue).

Fixpoint qm_find (m : qmap) (k : N) : option queue :=
  match m with
  | [] => None
  | (k', q) :: t => if N.eqb k k' then Some q else qm_find t k
  end.

(** [entry(k).or_default()] *)
Definition qm_get (init : option dep) (m : qmap) (k : N) : queue :=
  match qm_find m k with Some q => q | None => q_new init end.

Fixpoint qm_set (m : qmap) (k : N) (q : queue) : qmap :=
  match m with
  | [] => [(k, q)]
  | (k', q') :: t => if N.eqb k k' then (k, q) :: t else (k', q') :: qm_set t k q
  end.

(** One access of [node] to every key of [keys] in turn; the reported dependencies are tagged
    with the key. *)
Fixpoint feed (init : option dep) (m : qmap) (node : N) (a : acc) (keys : list N)
  : qmap * list (N * dep) :=
  match keys with
  | [] => (m, [])
  | k :: t =>
      let '(q', d) := record (qm_get init m k) node a in
      let '(m2, ds) := feed init (qm_set m k q') node a t in
      (m2, map (pair k) d ++ ds)
  end.

(** memory queues have no initial writer; frame queues start with the block start as user *)
Definition minit : option dep := None.
Definition finit : option dep := Some (AW, 0%N).

Record st := MkSt { s_mem : qmap; s_all : qmap; s_timed : qmap; s_trail : list N }.
Definition st0 : st := MkSt [] [] [] [].

(** reads, then writes, then captures *)
Definition mem_deps (m : qmap) (node : N) (i : info) : qmap * list (N * dep) :=
  let '(m1, d1) := feed minit m node AR (i_reads i) in
  let '(m2, d2) := feed minit m1 node AW (i_writes i) in
  let '(m3, d3) := feed minit m2 node AC (i_caps i) in
  (m3, d1 ++ d2 ++ d3).

Definition dep_node (kd : N * dep) : N := snd (snd kd).
Definition dep_acc (kd : N * dep) : acc := fst (snd kd).

Definition not_self (node : N) (kd : N * dep) : bool := negb (N.eqb (dep_node kd) node).

Definition mem_edges (node : N) (ds : list (N * dep)) : list ledge :=
  map (fun kd => (dep_node kd, node, LMem (fst kd) (dep_acc kd))) (filter (not_self node) ds).

Definition stable_edges (node : N) (ds : list (N * dep)) : list ledge :=
  map (fun kd => (dep_node kd, node, LStable (fst kd) (dep_acc kd))) ds.
Definition sched_edges (node : N) (ds : list (N * dep)) : list ledge :=
  map (fun kd => (dep_node kd, node, LSched (fst kd) (dep_acc kd))) ds.

Definition trail_insert (t : list N) (n : N) : list N := if memN n t then t else t ++ [n].

(** One iteration of the main loop.  [is_end] = the node is the block end (the terminator). *)
Definition step (s : st) (node : N) (is_end : bool) (i : info) : (err * N) + (st * list ledge) :=
  if i_memerr i then inl (EUnresolvedCall, node) else
  let '(m', ds) := mem_deps (s_mem s) node i in
  let real := filter (not_self node) ds in
  let leading := match real with [] => true | _ => false end in
  let trail1 := filter (fun t => negb (memN t (map dep_node real))) (s_trail s) in
  let me := mem_edges node ds in
  match i_role i with
  | RClassical =>
      inr (MkSt m' (s_all s) (s_timed s) (trail_insert trail1 node),
           me ++ (if leading then [(0%N, node, LLead)] else []))
  | RRF =>
      let '(t1, dtu) := if i_sched i then feed finit (s_timed s) node AW (i_used i) else (s_timed s, []) in
      let '(a1, dau) := feed finit (s_all s) node AW (i_used i) in
      let '(t2, dtb) := if i_sched i then feed finit t1 node AR (i_blocked i) else (t1, []) in
      let '(a2, dab) := feed finit a1 node AR (i_blocked i) in
      inr (MkSt m' a2 t2 trail1,
           me ++ sched_edges node dtu ++ stable_edges node dau
              ++ sched_edges node dtb ++ stable_edges node dab)
  | RControl =>
      if is_end then inr (MkSt m' (s_all s) (s_timed s) trail1, me) else inl (EControlFlow, node)
  | RCompose => inl (EUnschedulable, node)
  end.

(** The main loop: instructions get nodes [node], [node+1], ...; the terminator (if it has an
    instruction form) is processed last, as the block end. *)
Fixpoint run (s : st) (node : N) (is : list info) (term : option info)
  : (err * N) + (st * list ledge) :=
  match is with
  | i :: t =>
      match step s node false i with
      | inl e => inl e
      | inr (s1, es) =>
          match run s1 (N.succ node) t term with
          | inl e => inl e
          | inr (s2, es') => inr (s2, es ++ es')
          end
      end
  | [] =>
      match term with
      | None => inr (s, [])
      | Some i => step s node true i
      end
  end.

Definition pend_edges (L : N -> acc -> label) (e : N) (m : qmap) : list ledge :=
  flat_map (fun kq : N * queue =>
              map (fun d : dep => (snd d, e, L (fst kq) (fst d))) (pending (snd kq))) m.

(** Final linking loops. *)
Definition final (s : st) (e : N) : list ledge :=
  map (fun t => (t, e, LTrail)) (s_trail s)
  ++ pend_edges LSched e (s_timed s)
  ++ pend_edges LStable e (s_all s).

Definition end_node (is : list info) : N := N.succ (N.of_nat (length is)).

Definition build_l (is : list info) (term : option info) : (err * N) + list ledge :=
  match run st0 1%N is term with
  | inl e => inl e
  | inr (s, es) =>
      inr (es ++ final s (end_node is)
              ++ match is with [] => [(0%N, end_node is, LEmpty)] | _ => [] end)
  end.

Definition build (is : list info) (term : option info) : result :=
  match build_l is term with
  | inl e => inl e
  | inr es => inr (map erase_edge es)
  end.

(** ** Well-formedness assumed by the DAG theorem

    The handler's frame sets are sets, [used] and [blocked] are disjoint (documented on
    [MatchedFrames]), and the terminator instruction has role ControlFlow. *)
Fixpoint nodupb (l : list N) : bool :=
  match l with [] => true | x :: t => negb (memN x t) && nodupb t end.

Definition wf_info (i : info) : bool :=
  match i_role i with
  | RRF => nodupb (i_used i ++ i_blocked i)
  | _ => true
  end.

Definition wf_term (term : option info) : bool :=
  match term with
  | None => true
  | Some i => match i_role i with RControl => true | _ => false end
  end.

Definition wf_block (is : list info) (term : option info) : bool :=
  forallb wf_info is && wf_term term.

(** every RF-control instruction matches at least one frame *)
Definition has_frames (i : info) : bool :=
  match i_role i with
  | RRF => match i_used i ++ i_blocked i with [] => false | _ => true end
  | _ => true
  end.

(** ** Verified instance checkers (soundness in Proofs/GraphProofs.v) *)

Definition gsrc (e : gedge) : N := fst (fst e).
Definition gdst (e : gedge) : N := snd (fst e).
Definition gkind (e : gedge) : kind := snd e.

Definition kind_eqb (a b : kind) : bool :=
  match a, b with
  | KMem x, KMem y => acc_eqb x y
  | KSched, KSched | KStable, KStable => true
  | _, _ => false
  end.

(** C22: every edge goes forward and stays inside the block *)
Definition chk_dag (n : N) (E : list gedge) : bool :=
  forallb (fun e => N.ltb (gsrc e) (gdst e) && N.leb (gdst e) (N.succ n)) E.

(** forget kinds, to reuse [DepQueue.reaches] *)
Definition plain (E : list gedge) : list edge := map (fun e => (gsrc e, gdst e, AR)) E.

Fixpoint nseq (start : N) (len : nat) : list N :=
  match len with O => [] | S l => start :: nseq (N.succ start) l end.

(** C22: every instruction node is reachable from the start and reaches the end *)
Definition chk_reach (n : nat) (E : list gedge) : bool :=
  let P := plain E in
  forallb (fun i => reaches P 0%N i && reaches P i (N.succ (N.of_nat n))) (nseq 1%N n).

(** C24 *)
Definition touches (i : info) (f : N) : bool := memN f (i_used i) || memN f (i_blocked i).

Definition is_rf (i : info) : bool := match i_role i with RRF => true | _ => false end.

(** one of the two uses a frame the other uses or blocks *)
Definition fconflict (i j : info) : bool :=
  is_rf i && is_rf j &&
  (existsb (touches j) (i_used i) || existsb (touches i) (i_used j)).

Definition only_kind (k : kind) (E : list gedge) : list gedge :=
  filter (fun e => kind_eqb (gkind e) k) E.

Fixpoint number (node : N) (is : list info) : list (N * info) :=
  match is with [] => [] | i :: t => (node, i) :: number (N.succ node) t end.

Definition chk_frames_connected (is : list info) (E : list gedge) : bool :=
  let S := plain (only_kind KStable E) in
  let T := plain (only_kind KSched E) in
  forallb (fun p : (N * info) * (N * info) =>
             let '((m, i), (n, j)) := p in
             if fconflict i j
             then reaches S m n && (if i_sched i && i_sched j then reaches T m n else true)
             else true)
          (pairs (number 1%N is)).

Definition frame_edge_ok (is : list info) (e : gedge) : bool :=
  match gkind e with
  | KMem _ => true
  | k =>
      N.eqb (gsrc e) 0 || N.eqb (gdst e) (end_node is) ||
      existsb (fun p : (N * info) * (N * info) =>
                 let '((m, i), (n, j)) := p in
                 N.eqb m (gsrc e) && N.eqb n (gdst e) && fconflict i j &&
                 (match k with KSched => i_sched i && i_sched j | _ => true end))
              (pairs (number 1%N is))
  end.

Definition chk_frames_justified (is : list info) (E : list gedge) : bool :=
  forallb (frame_edge_ok is) E.

Definition chk_frames (is : list info) (E : list gedge) : bool :=
  chk_frames_connected is E && chk_frames_justified is E.

(** C23 at block level: per region, the accesses of the block in order (per instruction reads,
    then writes, then captures), and the memory edges of the implementation checked against them
    with the verified checker of Model/DepQueue.v. *)
Definition rep (r : N) (keys : list N) (node : N) (a : acc) : list (N * acc) :=
  map (fun _ => (node, a)) (filter (N.eqb r) keys).

Definition macc_i (r : N) (node : N) (i : info) : list (N * acc) :=
  rep r (i_reads i) node AR ++ rep r (i_writes i) node AW ++ rep r (i_caps i) node AC.

(** concatenation of a per-instruction subsequence over the block (terminator last) *)
Fixpoint seq_from (g : N -> info -> list (N * acc)) (node : N) (is : list info) (term : option info)
  : list (N * acc) :=
  match is with
  | i :: t => g node i ++ seq_from g (N.succ node) t term
  | [] => match term with Some i => g node i | None => [] end
  end.
Definition macc_from (r : N) := seq_from (macc_i r).
Definition macc (r : N) (is : list info) (term : option info) := macc_from r 1%N is term.

Definition regions_of (is : list info) (term : option info) : list N :=
  flat_map (fun i => i_reads i ++ i_writes i ++ i_caps i) (is ++ opt_list term).

Definition mem_only (E : list gedge) : list edge :=
  flat_map (fun e => match gkind e with KMem a => [(gsrc e, gdst e, a)] | _ => [] end) E.

(** every conflicting pair on every region is connected by memory edges, and every memory edge
    is justified by a conflicting pair on some region *)
Definition chk_mem_block (is : list info) (term : option info) (E : list gedge) : bool :=
  let M := mem_only E in
  forallb (fun r => chk_connected (macc r is term) M) (regions_of is term) &&
  forallb (fun e => existsb (fun r => justified (macc r is term) e) (regions_of is term)) M.

(** ** Case files *)

Definition gedge_eqb (a b : gedge) : bool :=
  N.eqb (gsrc a) (gsrc b) && N.eqb (gdst a) (gdst b) && kind_eqb (gkind a) (gkind b).

Definition gmem (e : gedge) (E : list gedge) : bool := existsb (gedge_eqb e) E.

Definition gset_eqb (A B : list gedge) : bool :=
  forallb (fun e => gmem e B) A && forallb (fun e => gmem e A) B.

Definition err_eqb (a b : err) : bool :=
  match a, b with
  | EUnresolvedCall, EUnresolvedCall | EControlFlow, EControlFlow
  | EUnschedulable, EUnschedulable => true
  | _, _ => false
  end.

Definition result_eqb (a b : result) : bool :=
  match a, b with
  | inl (e, n), inl (e', n') => err_eqb e e' && N.eqb n n'
  | inr A, inr B => gset_eqb A B
  | _, _ => false
  end.

(** A case: the abstract block and the implementation's observed result.  [which] selects the
    property whose checker is run on the implementation's edges: 22, 23 or 24.
    Verdict 0 = ok; 1 = model and implementation disagree; 2.. = the checker rejects the
    implementation's output (2 = chk_dag, 3 = chk_reach, 4 = chk_frames, 5 = chk_mem_block). *)
Definition case := (list info * option info * result)%type.

Definition prop_verdict (which : N) (is : list info) (term : option info) (E : list gedge) : N :=
  if N.eqb which 22 then
    if negb (wf_block is term) then 0%N
    else if negb (chk_dag (N.of_nat (length is)) E) then 2%N
    else if forallb has_frames is && negb (chk_reach (length is) E) then 3%N
    else if negb (chk_mem_block is term E) then 5%N
    else 0%N
  else if N.eqb which 24 then
    if negb (wf_block is term) then 0%N
    else if negb (chk_frames is E) then 4%N else 0%N
  else
    if negb (chk_mem_block is term E) then 5%N else 0%N.

Definition case_verdict (which : N) (c : case) : N :=
  let '(is, term, r) := c in
  let pv := match r with inr E => prop_verdict which is term E | inl _ => 0%N end in
  if negb (N.eqb pv 0) then pv
  else if result_eqb (build is term) r then 0%N else 1%N.

Fixpoint gfailing_from (which : N) (i : N) (cs : list case) : list (N * N) :=
  match cs with
  | [] => []
  | c :: t =>
      let v := case_verdict which c in
      (if N.eqb v 0 then [] else [(i, v)]) ++ gfailing_from which (N.succ i) t
  end.

Definition gfailing (which : N) (cs : list case) : list (N * N) := gfailing_from which 0%N cs.
