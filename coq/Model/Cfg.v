(** Model of quil-rs/src/program/analysis/control_flow_graph.rs, [impl From<&Program> for
    ControlFlowGraph] (the fold over the program body that cuts it into basic blocks).

    Executable definitions only (no proofs).

    A body instruction is abstracted to an [item]:
    - [Plain k]      one of the 27 variants the Rust pushes onto the current block
                     (Arithmetic ... Gate ... Pragma ... Wait); [k] identifies the instruction;
    - [Lbl l]        LABEL @l;
    - [Jmp l], [JmpWhen l c], [JmpUnless l c], [Hlt]   the four terminating instructions
                     ([l] target, [c] condition memory reference);
    - [Skip k]       an instruction of the arm that does nothing
                     (CalibrationDefinition, CircuitDefinition, Declaration, FrameDefinition,
                     GateDefinition, Include, MeasureCalibrationDefinition, WaveformDefinition).
                     Through [Program::add_instruction] only INCLUDE can actually reach the body. *)
From Coq Require Import List NArith Bool Arith.
Import ListNotations.

Inductive item :=
| Plain (k : N)
| Lbl (l : N)
| Jmp (l : N)
| JmpWhen (l c : N)
| JmpUnless (l c : N)
| Hlt
| Skip (k : N).

(** [BasicBlockTerminator]; [TCond zero l c] is [ConditionalJump {condition: c, target: l,
    jump_if_condition_zero: zero}]. *)
Inductive term :=
| TContinue
| TJump (l : N)
| TCond (zero : bool) (l c : N)
| THalt.

Record blk := mkblk {
  b_label : option N;
  b_instrs : list N;
  b_offset : nat;           (* instruction_index_offset *)
  b_term : term }.

(** The mutable state of the loop: [graph.blocks], [current_label],
    [current_block_instructions], [instruction_index_offset]. *)
Record st := mkst {
  s_blocks : list blk;
  s_label : option N;
  s_cur : list N;
  s_off : nat }.

Definition st0 : st := mkst [] None [] 0.

Definition is_some {A} (o : option A) : bool := match o with Some _ => true | None => false end.
Definition is_nil {A} (l : list A) : bool := match l with [] => true | _ => false end.

(** 1 if the block has a label, else 0 ([label_instruction_offset] in the terminator arm). *)
Definition lab_len (o : option N) : nat := match o with Some _ => 1 | None => 0 end.

(** Push the current block with terminator [t]; the offset advances by the block's instructions
    plus [extra]. *)
Definition close (s : st) (t : term) (extra : nat) : st :=
  mkst (s_blocks s ++ [mkblk (s_label s) (s_cur s) (s_off s) t])
       None [] (s_off s + (length (s_cur s) + extra)).

(** One iteration of [for instruction in &value.instructions].  [lab_extra] is what the LABEL arm
    adds to the offset for the block it closes, as a function of that block's label:
    the repaired code adds the closed block's own label length ([lab_len]); the code at the
    snapshot commit added a constant 1 ("+1 for the label"), see [blocks_unfixed]. *)
Definition step (lab_extra : option N -> nat) (s : st) (it : item) : st :=
  match it with
  | Plain k => mkst (s_blocks s) (s_label s) (s_cur s ++ [k]) (s_off s)
  | Skip _ => s
  | Lbl l =>
      let s' := if negb (is_nil (s_cur s)) || is_some (s_label s)
                then close s TContinue (lab_extra (s_label s))
                else s in
      mkst (s_blocks s') (Some l) (s_cur s') (s_off s')
  | Jmp l => close s (TJump l) (1 + lab_len (s_label s))
  | JmpUnless l c => close s (TCond true l c) (1 + lab_len (s_label s))
  | JmpWhen l c => close s (TCond false l c) (1 + lab_len (s_label s))
  | Hlt => close s THalt (1 + lab_len (s_label s))
  end.

(** After the loop: a pending non-empty block is pushed with [Continue]. *)
Definition finish (s : st) : list blk :=
  if negb (is_nil (s_cur s)) || is_some (s_label s)
  then s_blocks s ++ [mkblk (s_label s) (s_cur s) (s_off s) TContinue]
  else s_blocks s.

Definition run (lab_extra : option N -> nat) (s : st) (body : list item) : st :=
  fold_left (step lab_extra) body s.

Definition blocks_gen (lab_extra : option N -> nat) (body : list item) : list blk :=
  finish (run lab_extra st0 body).

(** [ControlFlowGraph::from(&program).into_blocks()] (repaired offset arithmetic). *)
Definition blocks (body : list item) : list blk := blocks_gen lab_len body.

(** The arithmetic of the snapshot commit 6d06b71: "+1 for the label" whether or not the closed
    block has one. *)
Definition blocks_unfixed (body : list item) : list blk := blocks_gen (fun _ => 1) body.

(** [BasicBlockTerminator::is_dynamic], [ControlFlowGraph::has_dynamic_control_flow]. *)
Definition term_dynamic (t : term) : bool := match t with TCond _ _ _ => true | _ => false end.
Definition has_dynamic (bs : list blk) : bool := existsb (fun b => term_dynamic (b_term b)) bs.

(** ** Specification vocabulary *)

(** The body without the instructions of the do-nothing arm. *)
Definition is_skip (it : item) : bool := match it with Skip _ => true | _ => false end.
Definition strip (body : list item) : list item := filter (fun it => negb (is_skip it)) body.

(** A block written back as instructions: label, instructions, terminator. *)
Definition label_items (o : option N) : list item := match o with Some l => [Lbl l] | None => [] end.
Definition term_items (t : term) : list item :=
  match t with
  | TContinue => []
  | TJump l => [Jmp l]
  | TCond true l c => [JmpUnless l c]
  | TCond false l c => [JmpWhen l c]
  | THalt => [Hlt]
  end.
Definition blk_items (b : blk) : list item :=
  label_items (b_label b) ++ map Plain (b_instrs b) ++ term_items (b_term b).
Definition flatten (bs : list blk) : list item := flat_map blk_items bs.

Definition is_cond (it : item) : bool :=
  match it with JmpWhen _ _ | JmpUnless _ _ => true | _ => false end.

(** ** Verified instance checker (soundness/completeness in Proofs/CfgProofs.v) *)

Definition item_eqb (a b : item) : bool :=
  match a, b with
  | Plain x, Plain y => N.eqb x y
  | Lbl x, Lbl y => N.eqb x y
  | Jmp x, Jmp y => N.eqb x y
  | JmpWhen x c, JmpWhen y d => N.eqb x y && N.eqb c d
  | JmpUnless x c, JmpUnless y d => N.eqb x y && N.eqb c d
  | Hlt, Hlt => true
  | Skip x, Skip y => N.eqb x y
  | _, _ => false
  end.

Fixpoint items_eqb (a b : list item) : bool :=
  match a, b with
  | [], [] => true
  | x :: a', y :: b' => item_eqb x y && items_eqb a' b'
  | _, _ => false
  end.

(** No block is empty, and a block that falls through ([Continue]) is the last one or is followed
    by a labelled block. *)
Definition blk_nonempty (b : blk) : bool :=
  is_some (b_label b) || negb (is_nil (b_instrs b))
  || match b_term b with TContinue => false | _ => true end.

Fixpoint chk_wf (bs : list blk) : bool :=
  match bs with
  | [] => true
  | b :: t =>
      blk_nonempty b
      && match b_term b, t with
         | TContinue, b' :: _ => is_some (b_label b')
         | _, _ => true
         end
      && chk_wf t
  end.

(** Every block's offset is the number of instructions written by the blocks before it. *)
Fixpoint chk_offsets (acc : nat) (bs : list blk) : bool :=
  match bs with
  | [] => true
  | b :: t => Nat.eqb (b_offset b) acc && chk_offsets (acc + length (blk_items b)) t
  end.

(** [chk_cfg body bs dyn]: [bs] and [dyn] (the implementation's blocks and its
    [has_dynamic_control_flow]) satisfy the property for [body]. *)
Definition chk_cfg (body : list item) (bs : list blk) (dyn : bool) : bool :=
  items_eqb (flatten bs) (strip body)
  && chk_wf bs
  && chk_offsets 0 bs
  && Bool.eqb dyn (existsb is_cond body)
  && Bool.eqb dyn (has_dynamic bs).

(** ** Comparison helpers and the case-file entry point *)

Definition optN_eqb (a b : option N) : bool :=
  match a, b with
  | Some x, Some y => N.eqb x y
  | None, None => true
  | _, _ => false
  end.

Fixpoint listN_eqb (a b : list N) : bool :=
  match a, b with
  | [], [] => true
  | x :: a', y :: b' => N.eqb x y && listN_eqb a' b'
  | _, _ => false
  end.

Definition term_eqb (a b : term) : bool :=
  match a, b with
  | TContinue, TContinue => true
  | TJump x, TJump y => N.eqb x y
  | TCond z x c, TCond w y d => Bool.eqb z w && N.eqb x y && N.eqb c d
  | THalt, THalt => true
  | _, _ => false
  end.

Definition blk_eqb (a b : blk) : bool :=
  optN_eqb (b_label a) (b_label b) && listN_eqb (b_instrs a) (b_instrs b)
  && Nat.eqb (b_offset a) (b_offset b) && term_eqb (b_term a) (b_term b).

Fixpoint blks_eqb (a b : list blk) : bool :=
  match a, b with
  | [], [] => true
  | x :: a', y :: b' => blk_eqb x y && blks_eqb a' b'
  | _, _ => false
  end.

(** A case: the body, the implementation's blocks and its [has_dynamic_control_flow].
    Verdict 0 = agrees with the model and the checker accepts; 1 = checker accepts but the model
    differs; 2 = the checker rejects the implementation's output. *)
Definition case := (list item * list blk * bool)%type.

Definition case_verdict (c : case) : N :=
  let '(body, bs, dyn) := c in
  if negb (chk_cfg body bs dyn) then 2%N
  else if blks_eqb (blocks body) bs && Bool.eqb (has_dynamic (blocks body)) dyn then 0%N
  else 1%N.

Fixpoint failing_from (i : N) (cs : list case) : list (N * N) :=
  match cs with
  | [] => []
  | c :: t =>
      let v := case_verdict c in
      (if N.eqb v 0 then [] else [(i, v)]) ++ failing_from (N.succ i) t
  end.

Definition failing (cs : list case) : list (N * N) := failing_from 0%N cs.
