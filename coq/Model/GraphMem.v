(** Case type of the C23 check: the single-queue cases of Model/DepQueue.v (hook H1) plus
    block-level cases, where the implementation's memory edges of one basic block built by
    [ScheduledBasicBlock::build] are (a) compared with the memory-edge part of the model
    [Graph.build] and (b) checked with the verified block-level checker [Graph.chk_mem_block].
    Only memory edges are looked at: a change that affects frame edges only cannot fail here.
    Executable definitions only. *)
From Coq Require Import List NArith Bool.
From QV Require Import Model.DepQueue Model.Graph.
Import ListNotations.

Inductive c23case :=
| CQueue (c : list (N * acc) * list (list dep) * list dep)
| CBlock (is : list info) (term : option info) (M : list edge).   (* M: (src, dst, source's access kind) *)

Definition edge_eqb (a b : edge) : bool :=
  N.eqb (edge_src a) (edge_src b) && N.eqb (edge_dst a) (edge_dst b) && acc_eqb (edge_kind a) (edge_kind b).

Definition eset_eqb (A B : list edge) : bool :=
  forallb (fun a => existsb (edge_eqb a) B) A && forallb (fun b => existsb (edge_eqb b) A) B.

Definition as_gedges (M : list edge) : list gedge :=
  map (fun e => (edge_src e, edge_dst e, KMem (edge_kind e))) M.

(** 0 = ok; 1 = the model's memory edges differ from the implementation's (or the model does not
    build the block); 5 = the block-level checker rejects the implementation's memory edges *)
Definition block_verdict (is : list info) (term : option info) (M : list edge) : N :=
  if negb (chk_mem_block is term (as_gedges M)) then 5%N
  else match build is term with
       | inr E => if eset_eqb (mem_only E) M then 0%N else 1%N
       | inl _ => 1%N
       end.

Definition c23_verdict (c : c23case) : N :=
  match c with
  | CQueue q => DepQueue.case_verdict None q
  | CBlock is term M => block_verdict is term M
  end.

Fixpoint failing23_from (i : N) (cs : list c23case) : list (N * N) :=
  match cs with
  | [] => []
  | c :: t =>
      let v := c23_verdict c in
      (if N.eqb v 0 then [] else [(i, v)]) ++ failing23_from (N.succ i) t
  end.

Definition failing23 (cs : list c23case) : list (N * N) := failing23_from 0%N cs.
