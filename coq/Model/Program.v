(** Model of the [Program] container of quil-rs (src/program/mod.rs, frame.rs, calibration.rs,
    calibration_set.rs, instruction/extern_call.rs, [Instruction::get_qubits]).

    Executable definitions only (no proofs).

    Instructions are abstracted to exactly what routing, keys and the used-qubit cache need:
    the kind, the key under which a definition is stored, a payload tag (so that "the last value
    wins" is observable) and the list [qs] of EVERY qubit occurring anywhere in the instruction
    (computed by the harness with its own structural traversal, not with [get_qubits]).
    Qubits are [N] codes: [n < 1000] fixed qubit n, [1000..1999] variables, [>= 2000] placeholders.

    Ordered maps ([IndexMap], [CalibrationSet], and [FrameSet] after the IndexMap repair) are
    association lists with [ins] = replace the value in place if the key is present, else append. *)
From Coq Require Import List NArith Bool.
Import ListNotations.

Inductive instr :=
| Decl (name payload : N)                       (* DECLARE, keyed by name *)
| FrameDef (key payload : N) (qs : list N)      (* DEFFRAME, keyed by frame identifier *)
| WaveDef (name payload : N)                    (* DEFWAVEFORM, keyed by name *)
| GateDef (name payload : N) (qs : list N)      (* DEFGATE, keyed by name *)
| CircuitDef (name payload : N) (qs : list N)   (* DEFCIRCUIT, keyed by name *)
| Calib (sig payload : N) (qs : list N)         (* DEFCAL, keyed by signature *)
| MeasureCalib (sig payload : N) (qs : list N)  (* DEFCAL MEASURE, keyed by signature *)
| ExternPragma (name : option N) (payload : N)  (* PRAGMA EXTERN, keyed by optional first identifier *)
| Body (k : N) (qs : list N).                   (* everything else: goes to the body *)

Inductive kind := KExtern | KDecl | KFrame | KWave | KCal | KMCal | KGate | KCirc.

(** the order in which [to_instructions] lists the definition kinds *)
Definition all_kinds : list kind := [KExtern; KDecl; KFrame; KWave; KCal; KMCal; KGate; KCirc].

Definition kind_eqb (a b : kind) : bool :=
  match a, b with
  | KExtern, KExtern | KDecl, KDecl | KFrame, KFrame | KWave, KWave
  | KCal, KCal | KMCal, KMCal | KGate, KGate | KCirc, KCirc => true
  | _, _ => false
  end.

(** [ExternPragmaMap] keys are [Option<String>]: injective encoding into [N] *)
Definition okey (o : option N) : N := match o with None => 0%N | Some n => N.succ n end.

(** [add_instruction]'s match: which map an instruction goes to and under which key;
    [None] = pushed onto the body. *)
Definition route (i : instr) : option (kind * N) :=
  match i with
  | Decl n _ => Some (KDecl, n)
  | FrameDef k _ _ => Some (KFrame, k)
  | WaveDef n _ => Some (KWave, n)
  | GateDef n _ _ => Some (KGate, n)
  | CircuitDef n _ _ => Some (KCirc, n)
  | Calib s _ _ => Some (KCal, s)
  | MeasureCalib s _ _ => Some (KMCal, s)
  | ExternPragma o _ => Some (KExtern, okey o)
  | Body _ _ => None
  end.

Definition is_body (i : instr) : bool := match route i with None => true | Some _ => false end.

(** [Instruction::get_qubits] (with the SET-/SHIFT-*/SWAP-PHASES arms): gates, measurements,
    resets, delays, fences, pulses, captures, frame updates, and calibration definitions
    (identifier and body) report their qubits; every other instruction reports none. *)
Definition gq (i : instr) : list N :=
  match i with
  | Calib _ _ qs | MeasureCalib _ _ qs | Body _ qs => qs
  | _ => []
  end.

(** Independent reference: every qubit occurring anywhere in the instruction. *)
Definition qubits_of (i : instr) : list N :=
  match i with
  | FrameDef _ _ qs | GateDef _ _ qs | CircuitDef _ _ qs
  | Calib _ _ qs | MeasureCalib _ _ qs | Body _ qs => qs
  | _ => []
  end.

(** ** Association lists *)

Definition alist := list (N * instr).

Definition keys (l : alist) : list N := map fst l.
Definition vals (l : alist) : list instr := map snd l.

Fixpoint lookup (k : N) (l : alist) : option instr :=
  match l with
  | [] => None
  | (k', v) :: t => if N.eqb k k' then Some v else lookup k t
  end.

(** [IndexMap::insert] / [CalibrationSet::replace] *)
Fixpoint ins (k : N) (v : instr) (l : alist) : alist :=
  match l with
  | [] => [(k, v)]
  | (k', v') :: t => if N.eqb k k' then (k, v) :: t else (k', v') :: ins k v t
  end.

(** [IndexMap::extend] / [CalibrationSet::extend] / [FrameSet::merge]: fold of insert *)
Definition extend (l m : alist) : alist :=
  fold_left (fun acc kv => ins (fst kv) (snd kv) acc) m l.

Fixpoint memN (n : N) (l : list N) : bool :=
  match l with [] => false | x :: t => if N.eqb n x then true else memN n t end.

(** [retain] / [FrameSet::intersection]: keep the listed keys, order preserved *)
Definition keep (ks : list N) (l : alist) : alist := filter (fun kv => memN (fst kv) ks) l.

(** ** Program *)

Record program := {
  externs : alist;    (* extern_pragma_map *)
  regions : alist;    (* memory_regions *)
  frames : alist;     (* frames *)
  waveforms : alist;  (* waveforms *)
  cals : alist;       (* calibrations.calibrations *)
  mcals : alist;      (* calibrations.measure_calibrations *)
  gates : alist;      (* gate_definitions *)
  circuits : alist;   (* circuits *)
  body : list instr;  (* instructions *)
  used : list N       (* used_qubits (a set; duplicates and order are immaterial) *)
}.

Definition empty : program :=
  {| externs := []; regions := []; frames := []; waveforms := []; cals := []; mcals := [];
     gates := []; circuits := []; body := []; used := [] |}.

Definition defs (kd : kind) (p : program) : alist :=
  match kd with
  | KExtern => externs p | KDecl => regions p | KFrame => frames p | KWave => waveforms p
  | KCal => cals p | KMCal => mcals p | KGate => gates p | KCirc => circuits p
  end.

Definition mk (f : kind -> alist) (b : list instr) (u : list N) : program :=
  {| externs := f KExtern; regions := f KDecl; frames := f KFrame; waveforms := f KWave;
     cals := f KCal; mcals := f KMCal; gates := f KGate; circuits := f KCirc;
     body := b; used := u |}.

Definition set_defs (kd : kind) (l : alist) (p : program) : program :=
  mk (fun kd' => if kind_eqb kd' kd then l else defs kd' p) (body p) (used p).

Definition set_body (b : list instr) (p : program) : program := mk (fun kd => defs kd p) b (used p).
Definition set_used (u : list N) (p : program) : program := mk (fun kd => defs kd p) (body p) u.

(** [Program::to_instructions]: the concatenation order, literally *)
Definition to_instructions (p : program) : list instr :=
  vals (externs p) ++ vals (regions p) ++ vals (frames p) ++ vals (waveforms p) ++
  vals (cals p) ++ vals (mcals p) ++ vals (gates p) ++ vals (circuits p) ++ body p.

(** [rebuild_used_qubits] *)
Definition rebuild_used (p : program) : program :=
  set_used (flat_map gq (to_instructions p)) p.

Definition is_cal_kind (kd : kind) : bool := match kd with KCal | KMCal => true | _ => false end.

(** [add_instruction] without the cache rebuild: extend the cache, then route *)
Definition add_raw (p : program) (i : instr) : program :=
  let p1 := set_used (used p ++ gq i) p in
  match route i with
  | Some (kd, k) => set_defs kd (ins k i (defs kd p1)) p1
  | None => set_body (body p1 ++ [i]) p1
  end.

(** does adding [i] replace an existing calibration ([CalibrationSet::replace] returns [Some])? *)
Definition replaces_cal (p : program) (i : instr) : bool :=
  match route i with
  | Some (kd, k) => is_cal_kind kd && memN k (keys (defs kd p))
  | None => false
  end.

(** [Program::add_instruction] (with repair 1fc8c68: the cache is rebuilt when a calibration was
    replaced) *)
Definition add_instruction (p : program) (i : instr) : program :=
  if replaces_cal p i then rebuild_used (add_raw p i) else add_raw p i.

(** [add_instructions], [from_instructions], [From<Vec<Instruction>>], the [FromStr] builder *)
Definition add_instructions (p : program) (is : list instr) : program := fold_left add_instruction is p.
Definition from_instructions (is : list instr) : program := add_instructions empty is.

(** [Program::into_instructions] (after the repair: extern pragmas first, like [to_instructions]) *)
Definition into_instructions (p : program) : list instr :=
  let ext := vals (externs p) in
  let mem := vals (regions p) in
  let frm := vals (frames p) in
  let wav := vals (waveforms p) in
  let cal := vals (cals p) ++ vals (mcals p) in
  let gat := vals (gates p) in
  let cir := vals (circuits p) in
  ext ++ mem ++ frm ++ wav ++ cal ++ gat ++ cir ++ body p.

Definition body_instructions (p : program) : list instr := body p.

(** [AddAssign] without the cache rebuild: every map is extended, bodies appended, caches united *)
Definition add_assign_raw (a b : program) : program :=
  mk (fun kd => extend (defs kd a) (defs kd b)) (body a ++ body b) (used a ++ used b).

Definition cal_count (p : program) : nat := length (cals p) + length (mcals p).

(** [AddAssign] (with repair 1fc8c68: if the calibration count shows that a calibration was
    replaced, the cache is rebuilt) *)
Definition add_assign (a b : program) : program :=
  let r := add_assign_raw a b in
  if Nat.ltb (cal_count r) (cal_count a + cal_count b) then rebuild_used r else r.

(** [Add]: [self += rhs; self] *)
Definition add (a b : program) : program := let a' := add_assign a b in a'.

(** [clone_without_body_instructions]: definitions kept, body and cache emptied *)
Definition clone_without_body (p : program) : program := mk (fun kd => defs kd p) [] [].

(** ** Placeholder resolution ([default_qubit_resolver], [resolve_placeholders]) *)

Definition is_fixed (q : N) : bool := N.ltb q 1000.
Definition is_placeholder (q : N) : bool := N.leb 2000 q.

(** first-occurrence order, no duplicates ([IndexSet]) *)
Fixpoint nodup_from (seen l : list N) : list N :=
  match l with
  | [] => []
  | x :: t => if memN x seen then nodup_from seen t else x :: nodup_from (x :: seen) t
  end.

(** zip the placeholders with [(0..).filter(|i| !used.contains(i))] *)
Fixpoint alloc (fuel : nat) (next : N) (usedf phs : list N) : list (N * N) :=
  match fuel with
  | O => []
  | S f =>
      match phs with
      | [] => []
      | ph :: t =>
          if memN next usedf then alloc f (N.succ next) usedf phs
          else (ph, next) :: alloc f (N.succ next) usedf t
      end
  end.

Fixpoint lookupN (k : N) (l : list (N * N)) : option N :=
  match l with [] => None | (k', v) :: t => if N.eqb k k' then Some v else lookupN k t end.

Definition resolver (p : program) : N -> N :=
  let qs := flat_map gq (body p) in
  let usedf := filter is_fixed qs in
  let phs := nodup_from [] (filter is_placeholder qs) in
  let table := alloc (length usedf + length phs + 1) 0%N usedf phs in
  fun q => if is_placeholder q then match lookupN q table with Some v => v | None => q end else q.

Definition resolve_instr (r : N -> N) (i : instr) : instr :=
  match i with Body k qs => Body k (map r qs) | other => other end.

Definition resolve_placeholders (p : program) : program :=
  let r := resolver p in
  rebuild_used (set_body (map (resolve_instr r) (body p)) p).

(** ** Operations whose instruction-level result is supplied by the implementation.

    [out] is the sequence of instructions the implementation adds to the fresh copy (calibration
    expansion and gate-sequence expansion are the subject of C17/C20); the container and cache
    discipline around it is modelled literally. *)

(** [expand_calibrations]: [clone_without_body_instructions], then every expanded instruction is added *)
Definition expand_calibrations (p : program) (out : list instr) : program :=
  add_instructions (clone_without_body p) out.

(** [expand_defgate_sequences]: gate definitions filtered, fresh body and cache, then add *)
Definition expand_sequences (p : program) (keepG : list N) (out : list instr) : program :=
  add_instructions (clone_without_body (set_defs KGate (keep keepG (gates p)) p)) out.

(** [simplify]: expand, drop calibrations, retain used frames / waveforms / extern pragmas *)
Definition simplify (p : program) (keepE keepF keepW : list N) (out : list instr) : program :=
  let e := expand_calibrations p out in
  let e := set_defs KCal [] (set_defs KMCal [] e) in
  let e := set_defs KFrame (keep keepF (frames p)) e in
  let e := set_defs KWave (keep keepW (waveforms e)) e in
  set_defs KExtern (keep keepE (externs e)) e.

(** [wrap_in_loop]: 0 iterations = clone without body, 1 = clone, else header ++ body ++ footer
    added to a clone without body *)
Definition wrap_in_loop (p : program) (n : N) (hdr ftr : list instr) : program :=
  match n with
  | 0%N => clone_without_body p
  | 1%N => p
  | _ => add_instructions (clone_without_body p) (hdr ++ body p ++ ftr)
  end.

Inductive op :=
| OAdd (i : instr)
| OAddMany (is : list instr)
| OConcat (is : list instr)                 (* p += from_instructions is *)
| OConcatSelf                               (* p + p.clone() *)
| OCloneWithoutBody
| OResolve
| OExpandCal (out : list instr)
| OExpandSeq (keepG : list N) (out : list instr)
| OSimplify (keepE keepF keepW : list N) (out : list instr)
| OWrapInLoop (n : N) (hdr ftr : list instr)
| ORoundTrip                                (* from_instructions (to_instructions p) *)
| ORoundTripInto.                           (* from_instructions (into_instructions p) *)

Definition step (p : program) (o : op) : program :=
  match o with
  | OAdd i => add_instruction p i
  | OAddMany is => add_instructions p is
  | OConcat is => add_assign p (from_instructions is)
  | OConcatSelf => add p p
  | OCloneWithoutBody => clone_without_body p
  | OResolve => resolve_placeholders p
  | OExpandCal out => expand_calibrations p out
  | OExpandSeq kg out => expand_sequences p kg out
  | OSimplify ke kf kw out => simplify p ke kf kw out
  | OWrapInLoop n h f => wrap_in_loop p n h f
  | ORoundTrip => from_instructions (to_instructions p)
  | ORoundTripInto => from_instructions (into_instructions p)
  end.

Definition run (ops : list op) : program := fold_left step ops empty.

(** ** Independent specifications *)

(** entries of one kind, in sequence order *)
Definition sel (kd : kind) (is : list instr) : alist :=
  flat_map (fun i => match route i with
                     | Some (kd', k) => if kind_eqb kd' kd then [(k, i)] else []
                     | None => []
                     end) is.

(** C08: "first-insertion order, last value", defined without [ins]:
    the distinct keys in order of first occurrence, each with the LAST value bound to it. *)
Definition first_keys (l : alist) : list N := nodup_from [] (keys l).
Definition last_value (k : N) (l : alist) : option instr := lookup k (rev l).
Definition opt_list {A} (o : option A) : list A := match o with Some x => [x] | None => [] end.
Definition dedup_spec (l : alist) : list instr :=
  flat_map (fun k => opt_list (last_value k l)) (first_keys l).

Definition listing_spec (is : list instr) : list instr :=
  flat_map (fun kd => dedup_spec (sel kd is)) all_kinds ++ filter is_body is.

(** C11: merge of two keyed definition lists: keys of [a] in place, with [b]'s value if rebound,
    then [b]'s new keys in [b]'s order. *)
Definition merge (a b : alist) : alist :=
  map (fun kv => (fst kv, match lookup (fst kv) b with Some v' => v' | None => snd kv end)) a ++
  filter (fun kv => negb (memN (fst kv) (keys a))) b.

(** ** Boolean helpers *)

Fixpoint listN_eqb (a b : list N) : bool :=
  match a, b with
  | [], [] => true
  | x :: a', y :: b' => N.eqb x y && listN_eqb a' b'
  | _, _ => false
  end.

Definition optN_eqb (a b : option N) : bool :=
  match a, b with
  | None, None => true
  | Some x, Some y => N.eqb x y
  | _, _ => false
  end.

Definition instr_eqb (a b : instr) : bool :=
  match a, b with
  | Decl n p, Decl n' p' => N.eqb n n' && N.eqb p p'
  | FrameDef n p q, FrameDef n' p' q' => N.eqb n n' && N.eqb p p' && listN_eqb q q'
  | WaveDef n p, WaveDef n' p' => N.eqb n n' && N.eqb p p'
  | GateDef n p q, GateDef n' p' q' => N.eqb n n' && N.eqb p p' && listN_eqb q q'
  | CircuitDef n p q, CircuitDef n' p' q' => N.eqb n n' && N.eqb p p' && listN_eqb q q'
  | Calib n p q, Calib n' p' q' => N.eqb n n' && N.eqb p p' && listN_eqb q q'
  | MeasureCalib n p q, MeasureCalib n' p' q' => N.eqb n n' && N.eqb p p' && listN_eqb q q'
  | ExternPragma o p, ExternPragma o' p' => optN_eqb o o' && N.eqb p p'
  | Body k q, Body k' q' => N.eqb k k' && listN_eqb q q'
  | _, _ => false
  end.

Fixpoint instrs_eqb (a b : list instr) : bool :=
  match a, b with
  | [], [] => true
  | x :: a', y :: b' => instr_eqb x y && instrs_eqb a' b'
  | _, _ => false
  end.

Definition subsetb (a b : list N) : bool := forallb (fun x => memN x b) a.
Definition seteqb (a b : list N) : bool := subsetb a b && subsetb b a.

Definition entry_eqb (a b : N * instr) : bool := N.eqb (fst a) (fst b) && instr_eqb (snd a) (snd b).

Fixpoint alist_eqb (a b : alist) : bool :=
  match a, b with
  | [], [] => true
  | x :: a', y :: b' => entry_eqb x y && alist_eqb a' b'
  | _, _ => false
  end.

(** [IndexMap == IndexMap]: same length and every binding of [a] present in [b], any order *)
Definition amap_eqb (a b : alist) : bool :=
  Nat.eqb (length a) (length b) &&
  forallb (fun kv => match lookup (fst kv) b with Some v => instr_eqb (snd kv) v | None => false end) a.

(** derived [PartialEq] of [Program]: the IndexMap-backed fields compare as maps, the calibration
    sets and the body as vectors, the cache as a set *)
Definition prog_eqb (p q : program) : bool :=
  amap_eqb (externs p) (externs q) && amap_eqb (regions p) (regions q) &&
  amap_eqb (frames p) (frames q) && amap_eqb (waveforms p) (waveforms q) &&
  alist_eqb (cals p) (cals q) && alist_eqb (mcals p) (mcals q) &&
  amap_eqb (gates p) (gates q) && amap_eqb (circuits p) (circuits q) &&
  instrs_eqb (body p) (body q) && seteqb (used p) (used q).

Definition kind_part (kd : kind) (l : list instr) : list instr := vals (sel kd l).
Definition body_part (l : list instr) : list instr := filter is_body l.

(** ** C11: verified instance checker and case verdict *)

(** observed: listing and (sorted) used set of a program *)
Definition obs := (list instr * list N)%type.

Definition cal_len (l : list instr) : nat := length (kind_part KCal l) + length (kind_part KMCal l).

(** did the concatenation replace a calibration (the implementation's own test, on the listings)? *)
Definition replaced_obs (a b ab : obs) : bool :=
  Nat.ltb (cal_len (fst ab)) (cal_len (fst a) + cal_len (fst b)).

(** the property, strictly: bodies appended, per kind the merge, the used-qubit set is the union *)
Definition chk_concat (a b ab : obs) : bool :=
  instrs_eqb (body_part (fst ab)) (body_part (fst a) ++ body_part (fst b)) &&
  forallb (fun kd => instrs_eqb (kind_part kd (fst ab))
                                (vals (merge (sel kd (fst a)) (sel kd (fst b))))) all_kinds &&
  seteqb (snd ab) (snd a ++ snd b).

(** known class [union-after-calibration-replacement] (the flip side of the C09/C10 repair
    1fc8c68): a calibration was replaced AND some qubit of the union is missing from the result *)
Definition union_class (a b ab : obs) : bool :=
  replaced_obs a b ab && negb (subsetb (snd a ++ snd b) (snd ab)).

Definition obs_eqb (x y : obs) : bool := instrs_eqb (fst x) (fst y) && seteqb (snd x) (snd y).

Definition obs_of (p : program) : obs := (to_instructions p, used p).

(** case: the two instruction sequences, the observations of a, b, a+b, (a += b), a+∅, ∅+b,
    and the implementation's [==] verdicts [a+∅ == a], [∅+b == b], [(a+b) == (a += b)] *)
Definition c11_case :=
  (N * list instr * list instr * (obs * obs * obs * obs * obs * obs) * (bool * bool * bool))%type.

(** [mode = 0]: correspondence with the model only (emitted, untagged, for the pairs in the known
    class so that they are still compared with the model); otherwise property first, then model *)
Definition c11_verdict (c : c11_case) : N :=
  let '(mode, isa, isb, (oa, ob, oab, oab', oa0, o0b), (e1, e2, e3)) := c in
  let ok_prop :=
    chk_concat oa ob oab && obs_eqb oab' oab && obs_eqb oa0 oa && obs_eqb o0b ob && e1 && e2 && e3 in
  if negb (N.eqb mode 0) && negb ok_prop then 2%N
  else
    let a := from_instructions isa in
    let b := from_instructions isb in
    if obs_eqb (obs_of a) oa && obs_eqb (obs_of b) ob && obs_eqb (obs_of (add a b)) oab
       && obs_eqb (obs_of (add_assign a b)) oab'
       && obs_eqb (obs_of (add a empty)) oa0 && obs_eqb (obs_of (add empty b)) o0b
    then 0%N else 1%N.

Fixpoint failing_from {C} (verdict : C -> N) (i : N) (cs : list C) : list (N * N) :=
  match cs with
  | [] => []
  | c :: t =>
      let v := verdict c in
      (if N.eqb v 0 then [] else [(i, v)]) ++ failing_from verdict (N.succ i) t
  end.

Definition c11_failing (cs : list c11_case) : list (N * N) := failing_from c11_verdict 0%N cs.

(** ** C08: order *)

(** case: the sequence split in two halves [is1 ++ is2] (second half empty for the plain
    builders), and the observed listing of [from is1 + from is2] *)
Definition c08_case := (list instr * list instr * list instr)%type.

Definition c08_verdict (c : c08_case) : N :=
  let '(is1, is2, out) := c in
  if negb (instrs_eqb out (listing_spec (is1 ++ is2))) then 2%N
  else if instrs_eqb (to_instructions (add (from_instructions is1) (from_instructions is2))) out
       then 0%N else 1%N.

Definition c08_failing (cs : list c08_case) : list (N * N) := failing_from c08_verdict 0%N cs.

(** ** C10: cache invariant, known classes *)

Definition listing_qubits (l : list instr) : list N := flat_map qubits_of l.
Definition listing_gq (l : list instr) : list N := flat_map gq l.

(** the invariant as a boolean on a state *)
Definition inv_b (p : program) : bool := seteqb (used p) (listing_qubits (to_instructions p)).

(** definitions part of the listing *)
Definition def_instrs (p : program) : list instr := flat_map (fun kd => vals (defs kd p)) all_kinds.

(** class codes *)
Definition K_RESET : N := 1.    (* clone-without-body-cache *)
Definition K_STALE : N := 2.    (* redefinition-stale-qubits: repaired by 1fc8c68, no longer a class *)
Definition K_FRAME : N := 3.    (* framedef-qubits-uncounted *)
Definition K_CIRC : N := 4.     (* circuitdef-qubits-uncounted (DEFCIRCUIT, DEFGATE AS SEQUENCE) *)

(** an instruction some of whose qubits [get_qubits] does not report *)
Definition uncounted (i : instr) : list N :=
  if subsetb (qubits_of i) (gq i) then []
  else match i with FrameDef _ _ _ => [K_FRAME] | _ => [K_CIRC] end.

Fixpoint hits_adds (is : list instr) : list N :=
  match is with
  | [] => []
  | i :: t => uncounted i ++ hits_adds t
  end.

(** the cache is emptied while the retained definitions report qubits *)
Definition reset_hit (p : program) : list N :=
  match listing_gq (def_instrs p) with [] => [] | _ => [K_RESET] end.

(** is the instruction a calibration definition? *)
Definition is_cal_instr (i : instr) : bool :=
  match route i with Some (kd, _) => is_cal_kind kd | None => false end.

Definition hits (p : program) (o : op) : list N :=
  match o with
  | OAdd i => hits_adds [i]
  | OAddMany is => hits_adds is
  | OConcat is => hits_adds is
  | OConcatSelf => []
  | OCloneWithoutBody => reset_hit (clone_without_body p)
  | OResolve => []
  | OExpandCal out => reset_hit (clone_without_body p) ++ hits_adds out
  | OExpandSeq kg out =>
      reset_hit (clone_without_body (set_defs KGate (keep kg (gates p)) p)) ++ hits_adds out
  | OSimplify ke kf kw out =>
      (* the calibrations are dropped afterwards, so the emptied cache is only wrong if the
         expansion output itself contains a calibration definition *)
      hits_adds out ++ (if existsb is_cal_instr out then [K_RESET] else [])
  | OWrapInLoop n h f =>
      match n with
      | 1%N => []
      | 0%N => reset_hit (clone_without_body p)
      | _ => reset_hit (clone_without_body p) ++ hits_adds (h ++ body p ++ f)
      end
  | ORoundTrip | ORoundTripInto => []
  end.

Fixpoint all_hits_from (p : program) (ops : list op) : list N :=
  match ops with
  | [] => []
  | o :: t => hits p o ++ all_hits_from (step p o) t
  end.

Definition all_hits (ops : list op) : list N := all_hits_from empty ops.

(** ** C09: views agree *)

(** case: the instruction sequence; observed [to_instructions], [into_instructions],
    [body_instructions], used set; the observation of [from_instructions (to_instructions p)];
    the [==] verdict between the two programs *)
Definition c09_case := (list instr * (list instr * list instr * list instr * list N) * obs * bool)%type.

(** instance checker: the views agree, the body is the body part of the input in order,
    every keyed definition appears once with the last value bound to its key in the input,
    and rebuilding gives the same listing *)
Definition chk_views (is : list instr) (toi intoi bodyi : list instr) (rt : list instr) : bool :=
  instrs_eqb intoi toi &&
  instrs_eqb bodyi (body_part is) &&
  instrs_eqb (body_part toi) bodyi &&
  forallb (fun kd =>
    let part := sel kd toi in
    listN_eqb (nodup_from [] (keys part)) (keys part) &&
    forallb (fun kv => match last_value (fst kv) (sel kd is) with
                       | Some v => instr_eqb v (snd kv) | None => false end) part &&
    forallb (fun kv => memN (fst kv) (keys part)) (sel kd is)) all_kinds &&
  instrs_eqb rt toi.

Definition c09_verdict (c : c09_case) : N :=
  let '(is, (toi, intoi, bodyi, u), ort, e) := c in
  let ok_prop := chk_views is toi intoi bodyi (fst ort) && seteqb (snd ort) u && e in
  if negb ok_prop then 2%N
  else
    let p := from_instructions is in
    let q := from_instructions (to_instructions p) in
    if instrs_eqb (to_instructions p) toi && instrs_eqb (into_instructions p) intoi &&
       instrs_eqb (body_instructions p) bodyi && seteqb (used p) u &&
       obs_eqb (obs_of q) ort && Bool.eqb (prog_eqb p q) e
    then 0%N else 1%N.

Definition c09_failing (cs : list c09_case) : list (N * N) := failing_from c09_verdict 0%N cs.

(** [DefaultHandler::matching_frames] for a [RESET] without qubit (the observable through which the
    cache influences scheduling): used = the frames whose qubits are exactly the cached used-qubit
    set, blocked = the other frames sharing a qubit with it.  Frame keys, in frame order. *)
Definition frame_key (i : instr) : N := match route i with Some (_, k) => k | None => 0%N end.

Definition frames_matching (u : list N) (fr : list instr) : list N * list N :=
  (map frame_key (filter (fun i => seteqb (qubits_of i) u) fr),
   map frame_key (filter (fun i => existsb (fun q => memN q u) (qubits_of i)
                                   && negb (seteqb (qubits_of i) u)) fr)).

Definition reset_match (p : program) : list N * list N := frames_matching (used p) (vals (frames p)).

(** the same, computed from the content (the listing) alone *)
Definition content_reset_match (l : list instr) : list N * list N :=
  frames_matching (listing_qubits l) (kind_part KFrame l).

Definition match_eqb (a b : list N * list N) : bool := seteqb (fst a) (fst b) && seteqb (snd a) (snd b).

(** case: mode, the first known class the harness computed for the two histories (0 = none), two
    histories, the observations of their final states, the [==] verdict between them, the RESET
    frame matches of the two final states.
    [mode = 0]: correspondence only (model = implementation, and the harness's class computation
    agrees with [all_hits]); [mode = 1]: the property on the implementation's output: cache =
    qubits of the listing for both, RESET matching determined by the listing, and equal listings
    imply [==]. *)
Definition c10_case :=
  (N * N * list op * list op * obs * obs * bool * (list N * list N) * (list N * list N))%type.

Definition chk_cache (o : obs) : bool := seteqb (snd o) (listing_qubits (fst o)).

Definition first_class (h1 h2 : list op) : N := hd 0%N (all_hits h1 ++ all_hits h2).

Definition c10_verdict (c : c10_case) : N :=
  let '(mode, cls, h1, h2, o1, o2, e, r1, r2) := c in
  if N.eqb mode 0 then
    let p := run h1 in let q := run h2 in
    if obs_eqb (obs_of p) o1 && obs_eqb (obs_of q) o2 && Bool.eqb (prog_eqb p q) e
       && match_eqb (reset_match p) r1 && match_eqb (reset_match q) r2
       && N.eqb (first_class h1 h2) cls then 0%N else 1%N
  else
    if chk_cache o1 && chk_cache o2 && (negb (instrs_eqb (fst o1) (fst o2)) || e)
       && match_eqb (content_reset_match (fst o1)) r1 && match_eqb (content_reset_match (fst o2)) r2
    then 0%N else 2%N.

Definition c10_failing (cs : list c10_case) : list (N * N) := failing_from c10_verdict 0%N cs.
