(** Model of calibration expansion and its source map (properties C17 and C19).

    Rust anchors: quil-rs/src/program/calibration.rs ([Calibrations::expand], [expand_with_detail],
    [expand_inner], [recursively_expand_inner], [get_match_for_gate], [get_match_for_measurement],
    [CalibrationExpansion::remove_target_index]), quil-rs/src/program/mod.rs ([add_instruction],
    [expand_calibrations_inner], [append_calibration_expansion_output_inner]) and
    quil-rs/src/program/source_map.rs ([list_sources], [list_targets]).

    Executable definitions only (no proofs).  All names (gate names, regions, formal targets, frames,
    waveforms, variables, pragma words) are interned to [N] by the harness; the pragma word
    [LOAD-MEMORY] is always interned as [0]. *)
From Coq Require Import List NArith ZArith Bool.
Import ListNotations.

(** * Syntax *)

Inductive qubit := QF (n : N) | QV (v : N).

Definition memref := (N * N)%type.            (* region name, index *)

(** operators: 0 [+], 1 [-], 2 [*], 3 [/], 4 [^] *)
Inductive expr :=
| ENum (z : Z)
| EPi
| EVar (v : N)
| EAddr (m : memref)
| ENeg (e : expr)
| EBin (op : N) (l r : expr)
| EFun (f : N) (e : expr).

Definition frame := (list qubit * N)%type.            (* frame qubits, frame name *)
Definition wform := (N * list (N * expr))%type.       (* waveform name, named parameters in order *)

Inductive operand := OInt (z : Z) | ORef (m : memref).
Inductive pdata := PName (n : N) | PRef (m : memref). (* pragma free-text: a bare word or a printed memory reference *)

Inductive instr :=
| IGate (nm : N) (ps : list expr) (qs : list qubit)
| IMeasure (mn : option N) (q : qubit) (t : option memref)
| IReset (q : option qubit)
| IFence (qs : list qubit)
| IDelay (qs : list qubit) (fs : list N) (d : expr)
| IPulse (b : bool) (f : frame) (w : wform)
| ICapture (b : bool) (f : frame) (m : memref) (w : wform)
| IRawCapture (b : bool) (f : frame) (d : expr) (m : memref)
| IFrameSet (k : N) (f : frame) (e : expr)   (* 0 SET-FREQUENCY 1 SET-PHASE 2 SET-SCALE 3 SHIFT-FREQUENCY 4 SHIFT-PHASE *)
| ISwapPhases (f1 f2 : frame)
| IMove (d : memref) (s : operand)
| ILoad (d : memref) (src : N) (off : memref)
| IDeclare (nm : N) (ty : N) (len : N)
| IPragma (nm : N) (args : list N) (data : option pdata)
| IOther (k : N).                              (* NOP, HALT, WAIT, ... : no qubits, expressions or memory *)

Definition load_memory : N := 0%N.

(** * Boolean equalities (Rust [PartialEq]; integer-valued numbers only, so float equality is exact) *)

Definition qubit_eqb (a b : qubit) : bool :=
  match a, b with
  | QF x, QF y => N.eqb x y
  | QV x, QV y => N.eqb x y
  | _, _ => false
  end.

Definition memref_eqb (a b : memref) : bool := N.eqb (fst a) (fst b) && N.eqb (snd a) (snd b).

Fixpoint expr_eqb (a b : expr) : bool :=
  match a, b with
  | ENum x, ENum y => Z.eqb x y
  | EPi, EPi => true
  | EVar x, EVar y => N.eqb x y
  | EAddr x, EAddr y => memref_eqb x y
  | ENeg x, ENeg y => expr_eqb x y
  | EBin o l r, EBin o' l' r' => N.eqb o o' && expr_eqb l l' && expr_eqb r r'
  | EFun f x, EFun g y => N.eqb f g && expr_eqb x y
  | _, _ => false
  end.

Fixpoint list_eqb {A} (eq : A -> A -> bool) (l1 l2 : list A) : bool :=
  match l1, l2 with
  | [], [] => true
  | x :: t, y :: u => eq x y && list_eqb eq t u
  | _, _ => false
  end.

Definition option_eqb {A} (eq : A -> A -> bool) (a b : option A) : bool :=
  match a, b with
  | None, None => true
  | Some x, Some y => eq x y
  | _, _ => false
  end.

Definition frame_eqb (a b : frame) : bool := list_eqb qubit_eqb (fst a) (fst b) && N.eqb (snd a) (snd b).

Definition wparam_eqb (a b : N * expr) : bool := N.eqb (fst a) (fst b) && expr_eqb (snd a) (snd b).

Definition wform_eqb (a b : wform) : bool := N.eqb (fst a) (fst b) && list_eqb wparam_eqb (snd a) (snd b).

Definition operand_eqb (a b : operand) : bool :=
  match a, b with
  | OInt x, OInt y => Z.eqb x y
  | ORef x, ORef y => memref_eqb x y
  | _, _ => false
  end.

Definition pdata_eqb (a b : pdata) : bool :=
  match a, b with
  | PName x, PName y => N.eqb x y
  | PRef x, PRef y => memref_eqb x y
  | _, _ => false
  end.

Definition instr_eqb (a b : instr) : bool :=
  match a, b with
  | IGate n ps qs, IGate n' ps' qs' => N.eqb n n' && list_eqb expr_eqb ps ps' && list_eqb qubit_eqb qs qs'
  | IMeasure n q t, IMeasure n' q' t' => option_eqb N.eqb n n' && qubit_eqb q q' && option_eqb memref_eqb t t'
  | IReset q, IReset q' => option_eqb qubit_eqb q q'
  | IFence qs, IFence qs' => list_eqb qubit_eqb qs qs'
  | IDelay qs fs d, IDelay qs' fs' d' => list_eqb qubit_eqb qs qs' && list_eqb N.eqb fs fs' && expr_eqb d d'
  | IPulse b f w, IPulse b' f' w' => Bool.eqb b b' && frame_eqb f f' && wform_eqb w w'
  | ICapture b f m w, ICapture b' f' m' w' => Bool.eqb b b' && frame_eqb f f' && memref_eqb m m' && wform_eqb w w'
  | IRawCapture b f d m, IRawCapture b' f' d' m' => Bool.eqb b b' && frame_eqb f f' && expr_eqb d d' && memref_eqb m m'
  | IFrameSet k f e, IFrameSet k' f' e' => N.eqb k k' && frame_eqb f f' && expr_eqb e e'
  | ISwapPhases f g, ISwapPhases f' g' => frame_eqb f f' && frame_eqb g g'
  | IMove d s, IMove d' s' => memref_eqb d d' && operand_eqb s s'
  | ILoad d s o, ILoad d' s' o' => memref_eqb d d' && N.eqb s s' && memref_eqb o o'
  | IDeclare n t l, IDeclare n' t' l' => N.eqb n n' && N.eqb t t' && N.eqb l l'
  | IPragma n a d, IPragma n' a' d' => N.eqb n n' && list_eqb N.eqb a a' && option_eqb pdata_eqb d d'
  | IOther k, IOther k' => N.eqb k k'
  | _, _ => false
  end.

Fixpoint mem_instr (i : instr) (l : list instr) : bool :=
  match l with [] => false | x :: t => instr_eqb x i || mem_instr i t end.

(** * Calibrations and matching ([CalibrationIdentifier::matches], [get_match_for_gate],
      [get_match_for_measurement]).  Matching precedence itself is property C16; it is modelled here
      because expansion is driven by it. *)

Record gcal := { gc_name : N; gc_params : list expr; gc_qubits : list qubit; gc_body : list instr }.
Record mcal := { mc_name : option N; mc_qubit : qubit; mc_target : option N; mc_body : list instr }.
Record cals := { gcals : list gcal; mcals : list mcal }.

(** Value of a variable-free integer expression.  Stand-in for [into_simplified] on the fragment the
    harness generates (integer literals, [+ - *], negation): two such expressions have equal
    simplified forms iff their values agree; an expression containing a variable, a memory
    reference, [pi], a function call, [/] or [^] is "symbolic". *)
Fixpoint eval_closed (e : expr) : option Z :=
  match e with
  | ENum z => Some z
  | ENeg x => option_map Z.opp (eval_closed x)
  | EBin op l r =>
      match eval_closed l, eval_closed r with
      | Some a, Some b =>
          if N.eqb op 0 then Some (a + b)%Z
          else if N.eqb op 1 then Some (a - b)%Z
          else if N.eqb op 2 then Some (a * b)%Z
          else None
      | _, _ => None
      end
  | _ => None
  end.

Definition param_match (cp gp : expr) : bool :=
  match cp with
  | EVar _ => true
  | _ =>
      match eval_closed cp, eval_closed gp with
      | Some a, Some b => Z.eqb a b
      | None, None => expr_eqb cp gp
      | _, _ => false
      end
  end.

Definition qubit_match (cq gq : qubit) : bool :=
  match cq, gq with
  | QF a, QF b => N.eqb a b
  | QV _, _ => true
  | QF _, QV _ => false
  end.

Fixpoint forallb2 {A B} (f : A -> B -> bool) (l1 : list A) (l2 : list B) : bool :=
  match l1, l2 with
  | [], [] => true
  | x :: t, y :: u => f x y && forallb2 f t u
  | _, _ => false
  end.

Definition gcal_matches (c : gcal) (nm : N) (ps : list expr) (qs : list qubit) : bool :=
  N.eqb (gc_name c) nm && forallb2 qubit_match (gc_qubits c) qs && forallb2 param_match (gc_params c) ps.

Definition is_fixed (q : qubit) : bool := match q with QF _ => true | QV _ => false end.

Definition fixed_count (c : gcal) : nat := length (filter is_fixed (gc_qubits c)).

(** the loop of [get_match_for_gate]: a later candidate replaces the current one when it has at
    least as many fixed qubits *)
Definition gate_match_step (nm : N) (ps : list expr) (qs : list qubit) (acc : option gcal) (c : gcal) : option gcal :=
  if gcal_matches c nm ps qs then
    match acc with
    | None => Some c
    | Some p => if Nat.leb (fixed_count p) (fixed_count c) then Some c else Some p
    end
  else acc.

Definition gate_match (cs : list gcal) (nm : N) (ps : list expr) (qs : list qubit) : option gcal :=
  fold_left (gate_match_step nm ps qs) cs None.

Definition is_some {A} (o : option A) : bool := match o with Some _ => true | None => false end.

Definition mcal_applicable (c : mcal) (mn : option N) (t : option memref) : bool :=
  option_eqb N.eqb mn (mc_name c) && Bool.eqb (is_some t) (is_some (mc_target c)).

Definition mcal_exact (mn : option N) (q : qubit) (t : option memref) (c : mcal) : bool :=
  mcal_applicable c mn t && match mc_qubit c with QF n => qubit_eqb q (QF n) | QV _ => false end.

Definition mcal_wild (mn : option N) (t : option memref) (c : mcal) : bool :=
  mcal_applicable c mn t && match mc_qubit c with QF _ => false | QV _ => true end.

(** reverse scan: the last exact match, else the last variable-qubit match *)
Definition meas_match (cs : list mcal) (mn : option N) (q : qubit) (t : option memref) : option mcal :=
  match find (mcal_exact mn q t) (rev cs) with
  | Some c => Some c
  | None => find (mcal_wild mn t) (rev cs)
  end.

(** * Substitution *)

(** [HashMap] built by successive inserts: the last binding of a key wins *)
Definition assoc_last {A} (v : N) (l : list (N * A)) : option A :=
  fold_left (fun acc kx => if N.eqb (fst kx) v then Some (snd kx) else acc) l None.

Fixpoint qubit_bindings (cqs gqs : list qubit) : list (N * qubit) :=
  match cqs, gqs with
  | QV v :: t, g :: u => (v, g) :: qubit_bindings t u
  | QF _ :: t, _ :: u => qubit_bindings t u
  | _, _ => []
  end.

Fixpoint param_bindings (cps gps : list expr) : list (N * expr) :=
  match cps, gps with
  | EVar v :: t, g :: u => (v, g) :: param_bindings t u
  | _ :: t, _ :: u => param_bindings t u
  | _, _ => []
  end.

Definition qsub (qm : list (N * qubit)) (q : qubit) : qubit :=
  match q with
  | QV v => match assoc_last v qm with Some x => x | None => q end
  | QF _ => q
  end.

(** [Expression::substitute_variables]: purely structural, no simplification *)
Fixpoint esub (pm : list (N * expr)) (e : expr) : expr :=
  match e with
  | EVar v => match assoc_last v pm with Some x => x | None => e end
  | ENeg x => ENeg (esub pm x)
  | EBin op l r => EBin op (esub pm l) (esub pm r)
  | EFun f x => EFun f (esub pm x)
  | _ => e
  end.

Definition fmap_q (fq : qubit -> qubit) (f : frame) : frame := (map fq (fst f), snd f).
Definition wmap_e (fe : expr -> expr) (w : wform) : wform := (fst w, map (fun p => (fst p, fe (snd p))) (snd w)).

(** the qubit arms of the gate branch of [expand_inner] (with the RESET / MEASURE / SWAP-PHASES arms) *)
Definition subst_qubits (fq : qubit -> qubit) (i : instr) : instr :=
  match i with
  | IGate nm ps qs => IGate nm ps (map fq qs)
  | IDelay qs fs d => IDelay (map fq qs) fs d
  | ICapture b f m w => ICapture b (fmap_q fq f) m w
  | IRawCapture b f d m => IRawCapture b (fmap_q fq f) d m
  | IFrameSet k f e => IFrameSet k (fmap_q fq f) e
  | IPulse b f w => IPulse b (fmap_q fq f) w
  | IFence qs => IFence (map fq qs)
  | IReset (Some q) => IReset (Some (fq q))
  | IMeasure mn q t => IMeasure mn (fq q) t
  | ISwapPhases f g => ISwapPhases (fmap_q fq f) (fmap_q fq g)
  | _ => i
  end.

(** [Instruction::apply_to_expressions] restricted to body instruction kinds *)
Definition subst_exprs (fe : expr -> expr) (i : instr) : instr :=
  match i with
  | IGate nm ps qs => IGate nm (map fe ps) qs
  | ICapture b f m w => ICapture b f m (wmap_e fe w)
  | IPulse b f w => IPulse b f (wmap_e fe w)
  | IDelay qs fs d => IDelay qs fs (fe d)
  | IRawCapture b f d m => IRawCapture b f (fe d) m
  | IFrameSet k f e => IFrameSet k f (fe e)
  | _ => i
  end.

Definition subst_gate (c : gcal) (ps : list expr) (qs : list qubit) : list instr :=
  let qm := qubit_bindings (gc_qubits c) qs in
  let pm := param_bindings (gc_params c) ps in
  map (fun i => subst_exprs (esub pm) (subst_qubits (qsub qm) i)) (gc_body c).

(** measurement branch of [expand_inner] *)
Definition meas_qubit_bindings (c : mcal) (q : qubit) : list (N * qubit) :=
  match mc_qubit c with QV v => [(v, q)] | QF _ => [] end.

Definition retarget (formal : option N) (t : option memref) (i : instr) : instr :=
  match i with
  | IPragma nm args data =>
      if N.eqb nm load_memory && option_eqb pdata_eqb data (option_map PName formal)
      then match t with Some m => IPragma nm args (Some (PRef m)) | None => i end
      else i
  | ICapture b f m w =>
      match t, formal with
      | Some tm, Some fm => if N.eqb (fst m) fm then ICapture b f tm w else i
      | _, _ => i
      end
  | _ => i
  end.

Definition subst_meas (c : mcal) (q : qubit) (t : option memref) : list instr :=
  let qm := meas_qubit_bindings c q in
  map (fun i => retarget (mc_target c) t (subst_qubits (qsub qm) i)) (mc_body c).

(** [CalibrationSource] *)
Inductive calsrc :=
| CSGate (nm : N) (ps : list expr) (qs : list qubit)
| CSMeas (mn : option N) (q : qubit) (t : option N).

Definition calsrc_eqb (a b : calsrc) : bool :=
  match a, b with
  | CSGate n ps qs, CSGate n' ps' qs' => N.eqb n n' && list_eqb expr_eqb ps ps' && list_eqb qubit_eqb qs qs'
  | CSMeas n q t, CSMeas n' q' t' => option_eqb N.eqb n n' && qubit_eqb q q' && option_eqb N.eqb t t'
  | _, _ => false
  end.

(** match and substitute: the [expansion_result] of [expand_inner] *)
Definition instantiate (cs : cals) (i : instr) : option (list instr * calsrc) :=
  match i with
  | IGate nm ps qs =>
      match gate_match (gcals cs) nm ps qs with
      | Some c => Some (subst_gate c ps qs, CSGate (gc_name c) (gc_params c) (gc_qubits c))
      | None => None
      end
  | IMeasure mn q t =>
      match meas_match (mcals cs) mn q t with
      | Some c => Some (subst_meas c q t, CSMeas (mc_name c) (mc_qubit c) (mc_target c))
      | None => None
      end
  | _ => None
  end.

(** * Expansion without bookkeeping ([Calibrations::expand], [build_source_map = false]) *)

Inductive res (A : Type) := Ok (a : A) | ErrRecursive (i : instr) | OutOfFuel.
Arguments Ok {A} a.
Arguments ErrRecursive {A} i.
Arguments OutOfFuel {A}.

(** One source-map entry.  [ERewr s src lo hi sub] is a [SourceMapEntry] at source index [s] whose
    target is [Rewritten (CalibrationExpansion { calibration_used := src; range := lo..hi;
    expansions := sub })]; [EUnmod s t] has target [Unmodified t]. *)
Inductive entry :=
| EUnmod (s t : N)
| ERewr (s : N) (src : calsrc) (lo hi : N) (sub : list entry).

(** a [CalibrationExpansionOutput]: new instructions, calibration used, range, nested entries *)
Definition detail := (list instr * (calsrc * (N * N) * list entry))%type.

Definition len {A} (l : list A) : N := N.of_nat (length l).

Definition res_map {A B} (f : A -> B) (r : res A) : res B :=
  match r with Ok a => Ok (f a) | ErrRecursive x => ErrRecursive x | OutOfFuel => OutOfFuel end.

(** the loop of [recursively_expand_inner] without bookkeeping; [rec] expands one body instruction *)
Fixpoint expand_list (rec : instr -> res (option (list instr))) (l : list instr) : res (list instr) :=
  match l with
  | [] => Ok []
  | j :: t =>
      match rec j with
      | Ok None => res_map (fun r => j :: r) (expand_list rec t)
      | Ok (Some o) => res_map (fun r => o ++ r) (expand_list rec t)
      | ErrRecursive x => ErrRecursive x
      | OutOfFuel => OutOfFuel
      end
  end.

(** the same loop with bookkeeping.  [k]: index in the substituted body; [acc]: instructions so
    far; [es]: entries so far *)
Fixpoint expand_d_list (rec : instr -> res (option detail)) (l : list instr) (k : N)
         (acc : list instr) (es : list entry) : res (list instr * list entry) :=
  match l with
  | [] => Ok (acc, es)
  | j :: t =>
      match rec j with
      | Ok None => expand_d_list rec t (N.succ k) (acc ++ [j]) (es ++ [EUnmod k (len acc)])
      | Ok (Some (o, (src', _, sub))) =>
          expand_d_list rec t (N.succ k) (acc ++ o) (es ++ [ERewr k src' (len acc) (len acc + len o) sub])
      | ErrRecursive x => ErrRecursive x
      | OutOfFuel => OutOfFuel
      end
  end.

Section Expand.
  (** generic in the match-and-substitute function *)
  Variable inst : instr -> option (list instr * calsrc).

  (** [expand_inner] with [build_source_map = false]; [path] = [previous_calibrations] *)
  Fixpoint expand (fuel : nat) (path : list instr) (i : instr) : res (option (list instr)) :=
    match fuel with
    | O => OutOfFuel
    | S f =>
        if mem_instr i path then ErrRecursive i
        else match inst i with
             | None => Ok None
             | Some (body, _) => res_map Some (expand_list (expand f (i :: path)) body)
             end
    end.

  (** [expand_inner] with [build_source_map = true] ([expand_with_detail]) *)
  Fixpoint expand_d (fuel : nat) (path : list instr) (i : instr) : res (option detail) :=
    match fuel with
    | O => OutOfFuel
    | S f =>
        if mem_instr i path then ErrRecursive i
        else match inst i with
             | None => Ok None
             | Some (body, src) =>
                 res_map (fun r => Some (fst r, (src, (0%N, len (fst r)), snd r)))
                         (expand_d_list (expand_d f (i :: path)) body 0%N [] [])
             end
    end.
End Expand.

(** * Program level *)

(** memory regions: an [IndexMap] from name to (type, length); insertion replaces in place *)
Definition region := (N * (N * N))%type.

Fixpoint region_insert (r : region) (l : list region) : list region :=
  match l with
  | [] => [r]
  | x :: t => if N.eqb (fst x) (fst r) then r :: t else x :: region_insert r t
  end.

Record program := { regions : list region; body : list instr }.

Definition hoisted (i : instr) : bool := match i with IDeclare _ _ _ => true | _ => false end.

(** [Program::add_instruction] on the instruction kinds of this model *)
Definition add_instruction (p : program) (i : instr) : program :=
  match i with
  | IDeclare nm ty ln => {| regions := region_insert (nm, (ty, ln)) (regions p); body := body p |}
  | _ => {| regions := regions p; body := body p ++ [i] |}
  end.

Definition add_instructions (p : program) (l : list instr) : program := fold_left add_instruction l p.

(** [expand_calibrations] (no source map requested).  Like the Rust code it always calls
    [expand_with_detail] and discards the detail. *)
Fixpoint expand_program_from (inst : instr -> option (list instr * calsrc)) (fuel : nat)
         (src : list instr) (p : program) : res program :=
  match src with
  | [] => Ok p
  | i :: t =>
      match expand_d inst fuel [] i with
      | Ok (Some (o, _)) => expand_program_from inst fuel t (add_instructions p o)
      | Ok None => expand_program_from inst fuel t (add_instruction p i)
      | ErrRecursive x => ErrRecursive x
      | OutOfFuel => OutOfFuel
      end
  end.

Definition clone_without_body (p : program) : program := {| regions := regions p; body := [] |}.

Definition expand_program inst fuel (p : program) : res program :=
  expand_program_from inst fuel (body p) (clone_without_body p).

(** ** [CalibrationExpansion::remove_target_index], literally.  [N.pred] is the saturating
       decrement; [range.is_empty()] is [end <= start].  [rti_entry ti e] is the closure passed to
       [retain_mut]: the adjusted entry, or nothing when it is dropped. *)
Definition rti_lo (lo ti : N) : N := if N.leb ti lo then N.pred lo else lo.
Definition rti_hi (hi ti : N) : N := if N.ltb ti hi then N.pred hi else hi.

Fixpoint rti_entry (ti : N) (e : entry) : list entry :=
  match e with
  | EUnmod _ _ => [e]
  | ERewr s src lo hi sub =>
      let lo' := rti_lo lo ti in
      let hi' := rti_hi hi ti in
      let sub' := if N.leb lo' ti then flat_map (rti_entry (ti - lo')) sub else sub in
      if N.leb hi' lo' then [] else [ERewr s src lo' hi' sub']
  end.

Definition remove_target_index (lo hi : N) (sub : list entry) (ti : N) : N * N * list entry :=
  let lo' := rti_lo lo ti in
  let hi' := rti_hi hi ti in
  (lo', hi', if N.leb lo' ti then flat_map (rti_entry (ti - lo')) sub else sub).

(** [append_calibration_expansion_output_inner] with a source map *)
Fixpoint append_loop (base : N) (l : list instr) (p : program) (lo hi : N) (sub : list entry) : program * (N * N * list entry) :=
  match l with
  | [] => (p, (lo, hi, sub))
  | i :: t =>
      let start_length := len (body p) in
      let p' := add_instruction p i in
      if N.eqb start_length (len (body p')) then
        let '(lo', hi', sub') := remove_target_index lo hi sub (start_length - base) in
        append_loop base t p' lo' hi' sub'
      else append_loop base t p' lo hi sub
  end.

Definition append_expansion (p : program) (m : list entry) (s : N) (d : detail) : program * list entry :=
  let '(o, (src, (lo, hi), sub)) := d in
  let base := len (body p) in
  let '(p', (_, _, sub')) := append_loop base o p lo hi sub in
  let hi' := len (body p') in
  (p', if N.ltb base hi' then m ++ [ERewr s src base hi' sub'] else m).

Fixpoint expand_program_sm_from (inst : instr -> option (list instr * calsrc)) (fuel : nat)
         (src : list instr) (k : N) (p : program) (m : list entry) : res (program * list entry) :=
  match src with
  | [] => Ok (p, m)
  | i :: t =>
      match expand_d inst fuel [] i with
      | Ok (Some d) =>
          let '(p', m') := append_expansion p m k d in
          expand_program_sm_from inst fuel t (N.succ k) p' m'
      | Ok None =>
          let p' := add_instruction p i in
          expand_program_sm_from inst fuel t (N.succ k) p' (m ++ [EUnmod k (N.pred (len (body p')))])
      | ErrRecursive x => ErrRecursive x
      | OutOfFuel => OutOfFuel
      end
  end.

Definition expand_program_sm inst fuel (p : program) : res (program * list entry) :=
  expand_program_sm_from inst fuel (body p) 0%N (clone_without_body p) [].

(** ** [SourceMap::list_sources] / [list_targets] with [InstructionIndex] queries *)
Definition entry_source (e : entry) : N := match e with EUnmod s _ => s | ERewr s _ _ _ _ => s end.

Definition entry_contains (e : entry) (t : N) : bool :=
  match e with
  | EUnmod _ u => N.eqb u t
  | ERewr _ _ lo hi _ => N.leb lo t && N.ltb t hi
  end.

Definition list_sources (m : list entry) (t : N) : list N :=
  map entry_source (filter (fun e => entry_contains e t) m).

Definition list_targets (m : list entry) (s : N) : list entry :=
  filter (fun e => N.eqb (entry_source e) s) m.

(** * The substitution as the property words it (specification side; compared with the modelled
      code in Proofs, and used by the instance checker [chk_flat_spec]) *)

(** [map_instr]: apply [fq] to every qubit position, [fe] to every expression position, [fm] to
    every memory-reference position and [fp] to the text of a LOAD-MEMORY pragma. *)
Definition map_operand (fm : memref -> memref) (o : operand) : operand :=
  match o with ORef m => ORef (fm m) | OInt _ => o end.

Definition map_instr (fq : qubit -> qubit) (fe : expr -> expr) (fm : memref -> memref)
           (fp : option pdata -> option pdata) (i : instr) : instr :=
  match i with
  | IGate nm ps qs => IGate nm (map fe ps) (map fq qs)
  | IMeasure mn q t => IMeasure mn (fq q) (option_map fm t)
  | IReset q => IReset (option_map fq q)
  | IFence qs => IFence (map fq qs)
  | IDelay qs fs d => IDelay (map fq qs) fs (fe d)
  | IPulse b f w => IPulse b (fmap_q fq f) (wmap_e fe w)
  | ICapture b f m w => ICapture b (fmap_q fq f) (fm m) (wmap_e fe w)
  | IRawCapture b f d m => IRawCapture b (fmap_q fq f) (fe d) (fm m)
  | IFrameSet k f e => IFrameSet k (fmap_q fq f) (fe e)
  | ISwapPhases f g => ISwapPhases (fmap_q fq f) (fmap_q fq g)
  | IMove d s => IMove (fm d) (map_operand fm s)
  | ILoad d s o => ILoad (fm d) s (fm o)
  | IDeclare _ _ _ => i
  | IPragma nm args data => IPragma nm args (if N.eqb nm load_memory then fp data else data)
  | IOther _ => i
  end.

Fixpoint emap_m (fm : memref -> memref) (e : expr) : expr :=
  match e with
  | EAddr m => EAddr (fm m)
  | ENeg x => ENeg (emap_m fm x)
  | EBin op l r => EBin op (emap_m fm l) (emap_m fm r)
  | EFun f x => EFun f (emap_m fm x)
  | _ => e
  end.

Definition spec_gate (c : gcal) (ps : list expr) (qs : list qubit) : list instr :=
  map (map_instr (qsub (qubit_bindings (gc_qubits c) qs)) (esub (param_bindings (gc_params c) ps))
                 (fun m => m) (fun d => d))
      (gc_body c).

Definition retarget_memref (formal : option N) (t : option memref) (m : memref) : memref :=
  match formal, t with
  | Some f, Some tm => if N.eqb (fst m) f then tm else m
  | _, _ => m
  end.

Definition retarget_pdata (formal : option N) (t : option memref) (d : option pdata) : option pdata :=
  match formal, t, d with
  | Some f, Some tm, Some (PName n) => if N.eqb n f then Some (PRef tm) else d
  | _, _, _ => d
  end.

Definition spec_meas (c : mcal) (q : qubit) (t : option memref) : list instr :=
  map (map_instr (qsub (meas_qubit_bindings c q)) (emap_m (retarget_memref (mc_target c) t))
                 (retarget_memref (mc_target c) t) (retarget_pdata (mc_target c) t))
      (mc_body c).

Definition instantiate_spec (cs : cals) (i : instr) : option (list instr * calsrc) :=
  match i with
  | IGate nm ps qs =>
      match gate_match (gcals cs) nm ps qs with
      | Some c => Some (spec_gate c ps qs, CSGate (gc_name c) (gc_params c) (gc_qubits c))
      | None => None
      end
  | IMeasure mn q t =>
      match meas_match (mcals cs) mn q t with
      | Some c => Some (spec_meas c q t, CSMeas (mc_name c) (mc_qubit c) (mc_target c))
      | None => None
      end
  | _ => None
  end.


(** * Verified instance checkers for C17 (soundness in Proofs/CalExpandFullProofs.v) *)

Definition qubit_is_var (q : qubit) : bool := match q with QV _ => true | QF _ => false end.

Fixpoint expr_has_var (e : expr) : bool :=
  match e with
  | EVar _ => true
  | ENeg x => expr_has_var x
  | EBin _ l r => expr_has_var l || expr_has_var r
  | EFun _ x => expr_has_var x
  | _ => false
  end.

Definition instr_qubits (i : instr) : list qubit :=
  match i with
  | IGate _ _ qs => qs
  | IMeasure _ q _ => [q]
  | IReset (Some q) => [q]
  | IFence qs => qs
  | IDelay qs _ _ => qs
  | IPulse _ f _ => fst f
  | ICapture _ f _ _ => fst f
  | IRawCapture _ f _ _ => fst f
  | IFrameSet _ f _ => fst f
  | ISwapPhases f g => fst f ++ fst g
  | _ => []
  end.

Definition instr_exprs (i : instr) : list expr :=
  match i with
  | IGate _ ps _ => ps
  | IDelay _ _ d => [d]
  | IPulse _ _ w => map snd (snd w)
  | ICapture _ _ _ w => map snd (snd w)
  | IRawCapture _ _ d _ => [d]
  | IFrameSet _ _ e => [e]
  | _ => []
  end.

Fixpoint expr_memrefs (e : expr) : list memref :=
  match e with
  | EAddr m => [m]
  | ENeg x => expr_memrefs x
  | EBin _ l r => expr_memrefs l ++ expr_memrefs r
  | EFun _ x => expr_memrefs x
  | _ => []
  end.

(** region names an instruction mentions (directly, inside an expression, or as pragma text) *)
Definition instr_regions (i : instr) : list N :=
  map fst (flat_map expr_memrefs (instr_exprs i)) ++
  match i with
  | IMeasure _ _ (Some m) => [fst m]
  | ICapture _ _ m _ => [fst m]
  | IRawCapture _ _ _ m => [fst m]
  | IMove d (ORef m) => [fst d; fst m]
  | IMove d (OInt _) => [fst d]
  | ILoad d s o => [fst d; s; fst o]
  | IPragma nm _ (Some (PName n)) => if N.eqb nm load_memory then [n] else []
  | IPragma nm _ (Some (PRef m)) => if N.eqb nm load_memory then [fst m] else []
  | _ => []
  end.

Definition closed_instr (i : instr) : bool :=
  negb (existsb qubit_is_var (instr_qubits i)) && negb (existsb expr_has_var (instr_exprs i)).

Fixpoint expr_vars (e : expr) : list N :=
  match e with
  | EVar v => [v]
  | ENeg x => expr_vars x
  | EBin _ l r => expr_vars l ++ expr_vars r
  | EFun _ x => expr_vars x
  | _ => []
  end.

Definition qubit_vars (l : list qubit) : list N := flat_map (fun q => match q with QV v => [v] | QF _ => [] end) l.

Definition memN (n : N) (l : list N) : bool := existsb (N.eqb n) l.

(** every variable of the body is bound by the calibration's formals *)
Definition gcal_scoped (c : gcal) : bool :=
  forallb (fun i => forallb (fun v => memN v (qubit_vars (gc_qubits c))) (qubit_vars (instr_qubits i)) &&
                    forallb (fun v => memN v (flat_map expr_vars (gc_params c))) (flat_map expr_vars (instr_exprs i)))
          (gc_body c) &&
  forallb (fun e => match e with EVar _ => true | _ => negb (expr_has_var e) end) (gc_params c).

Definition mcal_scoped (c : mcal) : bool :=
  forallb (fun i => forallb (fun v => memN v (qubit_vars [mc_qubit c])) (qubit_vars (instr_qubits i)) &&
                    negb (existsb expr_has_var (instr_exprs i)))
          (mc_body c).

Definition cals_scoped (cs : cals) : bool := forallb gcal_scoped (gcals cs) && forallb mcal_scoped (mcals cs).

(** no output instruction has a matching calibration *)
Definition chk_fixpoint (cs : cals) (out : list instr) : bool :=
  forallb (fun j => negb (is_some (instantiate cs j))) out.

(** no calibration variable survives (meaningful when the calibrations are well scoped and the
    source body is closed) *)
Definition chk_closed (cs : cals) (src out : list instr) : bool :=
  if cals_scoped cs && forallb closed_instr src then forallb closed_instr out else true.

Definition formals (cs : cals) : list N :=
  flat_map (fun c => match mc_target c with Some f => [f] | None => [] end) (mcals cs).

Definition mentions_none (fs : list N) (i : instr) : bool :=
  negb (existsb (fun r => memN r fs) (instr_regions i)).

(** formal target names are private: never a declared region, never mentioned by the source body or
    a gate calibration, and a measurement calibration mentions no formal but its own *)
Definition formals_private (cs : cals) (p : program) : bool :=
  let fs := formals cs in
  negb (existsb (fun r => memN (fst r) fs) (regions p)) &&
  forallb (mentions_none fs) (body p) &&
  forallb (fun c => forallb (mentions_none fs) (gc_body c)) (gcals cs) &&
  forallb (fun c => forallb (fun i => forallb (fun r => negb (memN r fs) || option_eqb N.eqb (Some r) (mc_target c))
                                             (instr_regions i)) (mc_body c)) (mcals cs).

(** no use of a formal target name survives *)
Definition chk_targets (cs : cals) (p : program) (out : list instr) : bool :=
  if formals_private cs p then forallb (mentions_none (formals cs)) out else true.

Fixpoint is_subseq (a b : list instr) : bool :=
  match a, b with
  | [], _ => true
  | _ :: _, [] => false
  | x :: a', y :: b' => if instr_eqb x y then is_subseq a' b' else is_subseq a b'
  end.

(** the source instructions without a matching calibration appear in the output, in order *)
Definition chk_unmatched (cs : cals) (src out : list instr) : bool :=
  is_subseq (filter (fun i => negb (is_some (instantiate cs i))) src) out.

Definition chk_hoisted (out : list instr) : bool := forallb (fun i => negb (hoisted i)) out.

(** For an instruction whose matching calibration's *specified* body needs no further expansion,
    [Calibrations::expand] must return exactly that body (gate arguments paired with the
    calibration's parameter variables by position, etc.); with no match it must return nothing. *)
Definition chk_flat_spec (cs : cals) (i : instr) (o : option (list instr)) : bool :=
  match instantiate_spec cs i with
  | Some (body, _) =>
      if forallb (fun j => negb (is_some (instantiate_spec cs j))) body
      then option_eqb (list_eqb instr_eqb) o (Some body) else true
  | None => option_eqb (list_eqb instr_eqb) o None
  end.

Definition region_eqb (a b : region) : bool :=
  N.eqb (fst a) (fst b) && N.eqb (fst (snd a)) (fst (snd b)) && N.eqb (snd (snd a)) (snd (snd b)).

Definition program_eqb (a b : program) : bool :=
  list_eqb region_eqb (regions a) (regions b) && list_eqb instr_eqb (body a) (body b).

(** ** C17 correspondence case.  The implementation's observations: the result of
    [expand_calibrations], of [expand_calibrations_with_source_map] (program part) and of
    [Calibrations::expand] on every body instruction. *)
Inductive obs (A : Type) := OOk (a : A) | OErr (i : instr).
Arguments OOk {A} a.
Arguments OErr {A} i.

Definition obs_eqb {A} (eq : A -> A -> bool) (r : res A) (o : obs A) : bool :=
  match r, o with
  | Ok a, OOk b => eq a b
  | ErrRecursive i, OErr j => instr_eqb i j
  | _, _ => false
  end.

(** [mode]: 0 = check the property on the implementation's output and compare with the model;
    1 = compare with the model only; 2 = check the property only *)
(** [o2 = None]: the harness found the abstraction of the with-source-map program identical to [o1] *)
Definition c17_case := (N * cals * program * (obs program * option (obs program) * list (obs (option (list instr)))))%type.

Definition default_fuel : nat := 40.

Definition c17_verdict (c : c17_case) : N :=
  let '(mode, cs, p, (o1, o2', singles)) := c in
  let o2 := match o2' with Some o => o | None => o1 end in
  let inst := instantiate cs in
  let prop_code :=
    match o1, o2 with
    | OOk p1, OOk p2 =>
        if negb (program_eqb p1 p2) then 5
        else if negb (chk_fixpoint cs (body p1)) then 2
        else if negb (chk_closed cs (body p) (body p1)) then 3
        else if negb (chk_targets cs p (body p1)) then 4
        else if negb (chk_hoisted (body p1)) then 6
        else if negb (chk_unmatched cs (body p) (body p1)) then 7
        else if negb (forallb2 (fun i o => match o with OOk r => chk_flat_spec cs i r | OErr _ => true end)
                               (body p) singles) then 8
        else 0
    | OErr i, OErr j => if instr_eqb i j then 0 else 5
    | _, _ => 5
    end%N in
  if negb (N.eqb mode 1) && negb (N.eqb prop_code 0) then prop_code
  else if N.eqb mode 2 then 0%N
  else if obs_eqb program_eqb (expand_program inst default_fuel p) o1
          && obs_eqb program_eqb (res_map fst (expand_program_sm inst default_fuel p)) o2
          && forallb2 (fun i o => obs_eqb (option_eqb (list_eqb instr_eqb)) (expand inst default_fuel [] i) o)
                      (body p) singles
       then 0%N else 1%N.

Fixpoint failing_from {C} (verdict : C -> N) (i : N) (cs : list C) : list (N * N) :=
  match cs with
  | [] => []
  | c :: t => let v := verdict c in (if N.eqb v 0 then [] else [(i, v)]) ++ failing_from verdict (N.succ i) t
  end.

Definition failing17 (cs : list c17_case) : list (N * N) := failing_from c17_verdict 0%N cs.

(** * Verified instance checker for C19 (soundness in Proofs/CalExpandFullProofs.v) *)

Fixpoint entry_eqb (a b : entry) : bool :=
  match a, b with
  | EUnmod s t, EUnmod s' t' => N.eqb s s' && N.eqb t t'
  | ERewr s src lo hi sub, ERewr s' src' lo' hi' sub' =>
      N.eqb s s' && calsrc_eqb src src' && N.eqb lo lo' && N.eqb hi hi' &&
      (fix go (l1 l2 : list entry) : bool :=
         match l1, l2 with
         | [], [] => true
         | x :: t, y :: u => entry_eqb x y && go t u
         | _, _ => false
         end) sub sub'
  | _, _ => false
  end.

Definition nthN {A} (l : list A) (n : N) : option A := nth_error l (N.to_nat n).

(** instructions [lo, hi) of [l] *)
Definition slice {A} (l : list A) (lo hi : N) : list A := firstn (N.to_nat (hi - lo)) (skipn (N.to_nat lo) l).

(** One step of the walk over the entries of one level.  State [(ns, cur)]: the least admissible
    next source index and the next uncovered target index.  [srcl] is the source of this level (the
    program body, or the substituted body of the calibration one level up) and [outl] the output
    instructions of this level (the parent's range).  An [Unmodified] entry must point at the cursor
    and at an instruction identical to its source; a [Rewritten] entry must start at the cursor, name
    the calibration that matches its source instruction, and its nested entries must, recursively,
    walk that calibration's substituted body against exactly its range. *)
Fixpoint chk_entry (inst : instr -> option (list instr * calsrc)) (srcl outl : list instr)
         (st : N * N) (e : entry) {struct e} : option (N * N) :=
  let '(ns, cur) := st in
  match e with
  | EUnmod s t =>
      if N.leb ns s && N.eqb t cur then
        match nthN srcl s, nthN outl t with
        | Some x, Some y => if instr_eqb x y then Some (N.succ s, N.succ cur) else None
        | _, _ => None
        end
      else None
  | ERewr s src lo hi sub =>
      if N.leb ns s && N.eqb lo cur && N.leb lo hi && N.leb hi (len outl) then
        match nthN srcl s with
        | Some x =>
            match inst x with
            | Some (body, src') =>
                if calsrc_eqb src src' then
                  match (fix walk (l : list entry) (st' : N * N) : option (N * N) :=
                           match l with
                           | [] => Some st'
                           | e' :: r =>
                               match chk_entry inst body (slice outl lo hi) st' e' with
                               | Some st'' => walk r st''
                               | None => None
                               end
                           end) sub (0%N, 0%N) with
                  | Some (_, curb) => if N.eqb curb (hi - lo) then Some (N.succ s, hi) else None
                  | None => None
                  end
                else None
            | None => None
            end
        | None => None
        end
      else None
  end.

Fixpoint chk_walk inst (srcl outl : list instr) (es : list entry) (st : N * N) : option (N * N) :=
  match es with
  | [] => Some st
  | e :: r => match chk_entry inst srcl outl st e with Some st' => chk_walk inst srcl outl r st' | None => None end
  end.

Definition chk_wfmap inst (src out : list instr) (m : list entry) : bool :=
  match chk_walk inst src out m (0%N, 0%N) with
  | Some (_, cur) => N.eqb cur (len out)
  | None => false
  end.

(** queries: every target has exactly one source, every source at most one target entry, and that
    entry contains the target *)
Fixpoint range_N (n : nat) : list N :=
  match n with O => [] | S k => range_N k ++ [N.of_nat k] end.

Definition chk_queries (src out : list instr) (m : list entry) : bool :=
  forallb (fun t => match list_sources m t with
                    | [s] => existsb (fun e => entry_contains e t) (list_targets m s)
                    | _ => false
                    end) (range_N (length out)) &&
  forallb (fun s => Nat.leb (length (list_targets m s)) 1) (range_N (length src)).

(** ** C19 correspondence case: calibrations, program, and the implementation's result of
    [expand_calibrations_with_source_map] (program, source map, and the answers of the real
    [list_sources] for every target index and [list_targets] for every source index) or the
    instruction reported as recursive.  [mode] as for C17. *)
Definition c19_case :=
  (N * cals * program * obs (program * list entry * (list (list N) * list (list entry))))%type.

Definition c19_verdict (c : c19_case) : N :=
  let '(mode, cs, p, o) := c in
  let inst := instantiate cs in
  let model := expand_program_sm inst default_fuel p in
  match o with
  | OErr i =>
      if N.eqb mode 2 then 0%N
      else match model with ErrRecursive j => if instr_eqb i j then 0%N else 1%N | _ => 1%N end
  | OOk (p', m, (srcs, tgts)) =>
      let prop_code :=
        if negb (chk_wfmap inst (body p) (body p') m) then 2%N
        else if negb (chk_queries (body p) (body p') m) then 3%N
        else 0%N in
      if negb (N.eqb mode 1) && negb (N.eqb prop_code 0) then prop_code
      else if N.eqb mode 2 then 0%N
      else match model with
           | Ok (mp, mm) =>
               if program_eqb mp p' && list_eqb entry_eqb mm m
                  && list_eqb (list_eqb N.eqb) (map (list_sources m) (range_N (length (body p')))) srcs
                  && list_eqb (list_eqb entry_eqb) (map (list_targets m) (range_N (length (body p)))) tgts
               then 0%N else 1%N
           | _ => 1%N
           end
  end.

Definition failing19 (cs : list c19_case) : list (N * N) := failing_from c19_verdict 0%N cs.
