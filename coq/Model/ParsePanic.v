(** Token-level model of the quil-rs parser (quil-rs/src/parser/{instruction,command,common,gate,
    expression}.rs) for every command that has no indented body.  Executable definitions only.

    Input: the token stream produced by the real lexer (hook [quil_rs::verif::lex_debug]),
    abstracted by the harness: spellings are interned to [N]; the identifiers that the expression
    parser treats specially ([i pi sin cos sqrt exp cis], compared after lower-casing) keep their
    identity ([IdRes] = exactly that lower-case spelling, [IdResCase] = another capitalisation).
    Float tokens are lexemes ([FLex id]) except integral values below 10^15 ([FInt n]).

    Result type: [Ok v rest | Err | Panic | Unk | Fuel].  [Panic] is produced exactly where the
    Rust code has a panicking construct on a reachable path: the sign conversion of literal operands
    ([panic!("Implement this error")] and [sign * (v as i64)] with overflow checks) and the two
    [todo!()] after NONBLOCKING.  The [variant] selects the code as it was at the snapshot
    ([Snapshot]) or after the repairs ([Repaired]).  [Unk] = the model does not cover the command
    (DEFCAL, DEFCIRCUIT, DEFFRAME, DEFGATE, DEFWAVEFORM: indented bodies).  [Fuel] = the explicit
    recursion fuel ran out (excluded by [fuel_sufficient] lemmas for the expression parser).

    nom's distinction between recoverable errors and failures is not needed for these commands:
    inside one command parser every alternative/option only ever sees recoverable errors, and at
    the top level both make [Program::from_str] return an error. *)
From Coq Require Import List NArith ZArith Bool.
From QV Require Model.Lex.
Import ListNotations.

Inductive cmd :=
| CAdd | CAnd | CAshr | CCall | CCapture | CConvert | CDeclare | CDefCal | CDefCircuit | CDefFrame
| CDefGate | CDefWaveform | CDelay | CDiv | CEq | CExchange | CFence | CGE | CGT | CHalt | CInclude
| CIor | CJump | CJumpUnless | CJumpWhen | CLabel | CLE | CLoad | CLT | CMeasure | CMove | CMul
| CNeg | CNop | CNot | CPragma | CPulse | CRawCapture | CReset | CSetFrequency | CSetPhase
| CSetScale | CShiftFrequency | CShiftPhase | CShl | CShr | CStore | CSub | CSwapPhases | CWait
| CXor.

Inductive dtype := DBit | DOctet | DReal | DInteger.
Inductive modifier := MControlled | MDagger | MForked.
Inductive iop := OCaret | OMinus | OPlus | OSlash | OStar.
Inductive reserved := RCis | RCos | RExp | RI | RPi | RSin | RSqrt.
Inductive ident := IdRes (r : reserved) | IdResCase (r : reserved) | IdName (n : N).
Inductive flit := FInt (n : N) | FLex (id : N) | FBig (n : N).

Inductive tok :=
| TCmd (c : cmd) | TNonBlocking | TAs | TMatrix | TMutable | TOffset | TPauliSum | TPermutation
| TSequence | TSharing | TBang | TColon | TComma | TLBracket | TRBracket | TLParen | TRParen
| TSemicolon | TNewLine | TIndent | TComment | TDataType (d : dtype) | TModifier (m : modifier)
| TOp (o : iop) | TId (x : ident) | TInt (n : N) | TFloat (f : flit) | TTarget (t : N)
| TString (s : N) | TVar (x : ident).

Inductive variant := Snapshot | Repaired.

Inductive res (A : Type) :=
| Ok (a : A) (rest : list tok) | Err | Panic | Unk | Fuel.
Arguments Ok {A} a rest.
Arguments Err {A}.
Arguments Panic {A}.
Arguments Unk {A}.
Arguments Fuel {A}.

(** sequencing: run [k] on a success, propagate everything else *)
Definition bind {A B} (r : res A) (k : A -> list tok -> res B) : res B :=
  match r with
  | Ok a rest => k a rest
  | Err => Err | Panic => Panic | Unk => Unk | Fuel => Fuel
  end.

(** * Abstract syntax produced by the modelled parsers *)

(** a real number as the printer sees it: an integral value below 10^15 (printed as digits), an
    integral value from 10^15 on ([VBig], printed in a form that lexes as a float), or any other
    value identified by its shortest decimal lexeme *)
Inductive numval := VInt (n : N) | VLex (id : N) | VBig (n : N).

Definition big : N := 1000000000000000.
Definition val_of_int (n : N) : numval := if N.ltb n big then VInt n else VBig n.
Definition val_of_flit (f : flit) : numval :=
  match f with FInt n => val_of_int n | FLex id => VLex id | FBig n => VBig n end.

Definition memref := (ident * N)%type.

Inductive qubit := QFixed (n : N) | QVar (x : ident).

Inductive expr :=
| EAddr (x : ident) (i : N)
| EFn (f : reserved) (e : expr)
| EInfix (l : expr) (o : iop) (r : expr)
| ENum (im : bool) (v : numval)
| EPi
| ENeg (e : expr)
| EVar (x : ident).

Inductive operand := OInt (z : Z) | OReal (neg : bool) (v : numval) | OMem (m : memref).

Inductive callarg := CAMem (m : memref) | CAId (x : ident) | CAImm (im : bool) (v : numval).

Definition frame := (list qubit * N)%type.

Record waveform := { wname : ident; wext : option ident; wparams : list (ident * expr) }.

Inductive pragma_arg := PAId (x : ident) | PAInt (n : N).

Inductive instr :=
| IArith (c : cmd) (d : memref) (s : operand)          (* ADD SUB MUL DIV *)
| ILogic (c : cmd) (d : memref) (s : operand)          (* AND IOR XOR SHL SHR ASHR *)
| ICmp (c : cmd) (d l : memref) (r : operand)          (* EQ GE GT LE LT *)
| IUnary (c : cmd) (m : memref)                        (* NEG NOT *)
| ICall (name : ident) (args : list callarg)
| ICapture (blocking : bool) (f : frame) (w : waveform) (m : memref)
| IConvert (d s : memref)
| IExchange (l r : memref)
| IDeclare (name : ident) (ty : dtype) (len : N) (sharing : option (ident * list (N * dtype)))
| IDelay (qs : list qubit) (names : list N) (dur : expr)
| IFence (qs : list qubit)
| IGate (mods : list modifier) (name : ident) (params : list expr) (qs : list qubit)
| IHalt | INop | IWait
| IInclude (s : N)
| IJump (t : N) | IJumpWhen (t : N) (m : memref) | IJumpUnless (t : N) (m : memref)
| ILabel (t : N)
| ILoad (d : memref) (s : ident) (o : memref)
| IStore (d : ident) (o : memref) (s : operand)
| IMeasure (name : option ident) (q : qubit) (t : option memref)
| IMove (d : memref) (s : operand)
| IPragma (name : ident) (args : list pragma_arg) (data : option N)
| IPulse (blocking : bool) (f : frame) (w : waveform)
| IRawCapture (blocking : bool) (f : frame) (d : expr) (m : memref)
| IReset (q : option qubit)
| IFrameSet (c : cmd) (f : frame) (e : expr)           (* SET-/SHIFT- FREQUENCY PHASE SCALE *)
| ISwapPhases (a b : frame).

(** * Leaf parsers (common.rs) *)

(** [parse_memory_reference]: brackets optional; an incomplete bracket group is left unconsumed *)
Definition brackets (ts : list tok) : option (N * list tok) :=
  match ts with
  | TLBracket :: TInt i :: TRBracket :: r => Some (i, r)
  | _ => None
  end.

Definition p_memref (ts : list tok) : res memref :=
  match ts with
  | TId x :: r =>
      match brackets r with
      | Some (i, r') => Ok (x, i) r'
      | None => Ok (x, 0%N) r
      end
  | _ => Err
  end.

(** [parse_memory_reference_with_brackets] *)
Definition p_memref_br (ts : list tok) : res memref :=
  match ts with
  | TId x :: r =>
      match brackets r with
      | Some (i, r') => Ok (x, i) r'
      | None => Err
      end
  | _ => Err
  end.

Definition two63 : N := 9223372036854775808.
Definition two64 : N := 18446744073709551616.

(** the conversion [sign * (v as i64)] of an unsigned 64-bit token value.
    Snapshot: [v as i64] wraps; the multiplication overflows (panic under overflow checks) exactly
    for [-1 * i64::MIN]; an operator other than [-] hits [panic!("Implement this error")].
    Repaired: range-checked, any other operator is a parse error. *)
Definition wrap64 (v : N) : Z := if N.ltb v two63 then Z.of_N v else (Z.of_N v - Z.of_N two64)%Z.

Definition signed_int (vr : variant) (op : option iop) (v : N) (r : list tok) : res operand :=
  match vr, op with
  | Snapshot, None => Ok (OInt (wrap64 v)) r
  | Snapshot, Some OMinus => if N.eqb v two63 then Panic else Ok (OInt (- wrap64 v)%Z) r
  | Snapshot, Some _ => Panic
  | Repaired, None => if N.ltb v two63 then Ok (OInt (Z.of_N v)) r else Err
  | Repaired, Some OMinus => if N.leb v two63 then Ok (OInt (- Z.of_N v)%Z) r else Err
  | Repaired, Some _ => Err
  end.

Definition signed_real (vr : variant) (op : option iop) (f : flit) (r : list tok) : res operand :=
  match op with
  | None => Ok (OReal false (val_of_flit f)) r
  | Some OMinus => Ok (OReal true (val_of_flit f)) r
  | Some _ => match vr with Snapshot => Panic | Repaired => Err end
  end.

(** [parse_arithmetic_operand] = [parse_comparison_operand]: alt(real, integer, memory reference) *)
Definition p_arith_operand (vr : variant) (ts : list tok) : res operand :=
  match ts with
  | TOp o :: r =>
      match r with
      | TFloat f :: r' => signed_real vr (Some o) f r'
      | TInt v :: r' => signed_int vr (Some o) v r'
      | _ => Err
      end
  | TFloat f :: r => signed_real vr None f r
  | TInt v :: r => signed_int vr None v r
  | _ => bind (p_memref ts) (fun m r => Ok (OMem m) r)
  end.

(** [parse_binary_logic_operand]: alt(integer, memory reference) *)
Definition p_logic_operand (vr : variant) (ts : list tok) : res operand :=
  match ts with
  | TOp o :: r =>
      match r with
      | TInt v :: r' => signed_int vr (Some o) v r'
      | _ => Err
      end
  | TInt v :: r => signed_int vr None v r
  | _ => bind (p_memref ts) (fun m r => Ok (OMem m) r)
  end.

(** [parse_qubit] *)
Definition p_qubit (ts : list tok) : res qubit :=
  match ts with
  | TInt n :: r => Ok (QFixed n) r
  | TVar x :: r => Ok (QVar x) r
  | TId x :: r => Ok (QVar x) r
  | _ => Err
  end.

(** [many0(parse_qubit)]: never fails *)
Fixpoint p_qubits (ts : list tok) : list qubit * list tok :=
  match ts with
  | TInt n :: r => let '(qs, r') := p_qubits r in (QFixed n :: qs, r')
  | TVar x :: r => let '(qs, r') := p_qubits r in (QVar x :: qs, r')
  | TId x :: r => let '(qs, r') := p_qubits r in (QVar x :: qs, r')
  | _ => ([], ts)
  end.

Fixpoint p_strings (ts : list tok) : list N * list tok :=
  match ts with
  | TString s :: r => let '(l, r') := p_strings r in (s :: l, r')
  | _ => ([], ts)
  end.

Fixpoint p_modifiers (ts : list tok) : list modifier * list tok :=
  match ts with
  | TModifier m :: r => let '(l, r') := p_modifiers r in (m :: l, r')
  | _ => ([], ts)
  end.

(** [parse_frame_identifier]: many1(qubit) then a string *)
Definition p_frame (ts : list tok) : res frame :=
  match p_qubits ts with
  | ([], _) => Err
  | (qs, TString s :: r) => Ok (qs, s) r
  | _ => Err
  end.

(** * Expressions (expression.rs): Pratt parser, explicit fuel *)

Definition prec (o : iop) : nat :=
  match o with OPlus | OMinus => 1 | OStar | OSlash => 2 | OCaret => 3 end.

Definition ident_class (x : ident) : option reserved :=
  match x with IdRes r | IdResCase r => Some r | IdName _ => None end.

(** [parse_immediate_value] wrapped in [opt]: a number token optionally followed by the identifier
    spelled exactly [i] *)
Definition opt_i (ts : list tok) : bool * list tok :=
  match ts with
  | TId (IdRes RI) :: r => (true, r)
  | _ => (false, ts)
  end.

(** [imag!(0.0)] and [real!(0.0)] are the same complex number *)
Definition norm_im (im : bool) (v : numval) : bool :=
  match v with VInt 0 => false | _ => im end.

Definition immediate (ts : list tok) : option (bool * numval * list tok) :=
  match ts with
  | TInt n :: r => let '(im, r') := opt_i r in Some (norm_im im (val_of_int n), val_of_int n, r')
  | TFloat f :: r => let '(im, r') := opt_i r in Some (norm_im im (val_of_flit f), val_of_flit f, r')
  | _ => None
  end.

Definition one_lit : numval := VInt 1.

Definition close_paren {A} (r : res A) : res A :=
  match r with
  | Ok e (TRParen :: r2) => Ok e r2
  | Ok _ _ => Err
  | o => o
  end.

(** the primary of [parse]: a number, a variable, an identifier form or a parenthesised expression;
    [pe] is the recursive call [parse _ Lowest] *)
Definition primary (pe : list tok -> res expr) (ts : list tok) : res expr :=
  match immediate ts with
  | Some (im, v, r) => Ok (ENum im v) r
  | None =>
      match ts with
      | TVar x :: r => Ok (EVar x) r
      | TId x :: r =>
          match brackets r with
          | Some (i, r') => Ok (EAddr x i) r'
          | None =>
              match ident_class x with
              | None => Ok (EAddr x 0%N) r
              | Some RI => Ok (ENum true one_lit) r
              | Some RPi => Ok EPi r
              | Some fn =>
                  match r with
                  | TLParen :: r1 =>
                      match close_paren (pe r1) with
                      | Ok e r2 => Ok (EFn fn e) r2
                      | o => o
                      end
                  | _ => Err
                  end
              end
          end
      | TLParen :: r => close_paren (pe r)
      | _ => Err
      end
  end.

(** [opt(parse_prefix)] *)
Definition strip_minus (ts : list tok) : bool * list tok :=
  match ts with TOp OMinus :: r => (true, r) | _ => (false, ts) end.

(** [parse]: optional prefix minus, primary, then the infix loop while the next operator binds
    tighter than [p].  The prefix applies to the primary only. *)
Fixpoint parse_e (fuel : nat) (p : nat) (ts : list tok) {struct fuel} : res expr :=
  match fuel with
  | O => Fuel
  | S f =>
      let '(neg, ts1) := strip_minus ts in
      match primary (parse_e f 0) ts1 with
      | Ok e r => loop_e f p (if neg then ENeg e else e) r
      | o => o
      end
  end
with loop_e (fuel : nat) (p : nat) (lhs : expr) (ts : list tok) {struct fuel} : res expr :=
  match fuel with
  | O => Fuel
  | S f =>
      match ts with
      | TOp o :: r =>
          if Nat.ltb p (prec o)
          then match parse_e f (prec o) r with
               | Ok rhs r2 => loop_e f p (EInfix lhs o rhs) r2
               | o' => o'
               end
          else Ok lhs ts
      | _ => Ok lhs ts
      end
  end.

(** [parse_expression] *)
Definition p_expr (ts : list tok) : res expr := parse_e (S (length ts)) 0 ts.

(** [separated_list0(Comma, parse_expression)]: stops (without consuming the comma) when the
    element after a comma does not parse *)
Fixpoint p_expr_list_tail (fuel : nat) (ts : list tok) : res (list expr) :=
  match fuel with
  | O => Fuel
  | S f =>
      match ts with
      | TComma :: r =>
          match p_expr r with
          | Ok e r2 =>
              match p_expr_list_tail f r2 with
              | Ok l r3 => Ok (e :: l) r3
              | o => o
              end
          | Err => Ok [] ts
          | Panic => Panic | Unk => Unk | Fuel => Fuel
          end
      | _ => Ok [] ts
      end
  end.

Definition p_expr_list (ts : list tok) : res (list expr) :=
  match p_expr ts with
  | Ok e r =>
      match p_expr_list_tail (S (length r)) r with
      | Ok l r2 => Ok (e :: l) r2
      | o => o
      end
  | Err => Ok [] ts
  | Panic => Panic | Unk => Unk | Fuel => Fuel
  end.

(** [opt(delimited(LParenthesis, separated_list0(Comma, parse_expression), RParenthesis))]:
    if the group does not close, nothing is consumed *)
Definition p_params (ts : list tok) : res (list expr) :=
  match ts with
  | TLParen :: r =>
      match p_expr_list r with
      | Ok l (TRParen :: r2) => Ok l r2
      | Ok _ _ => Ok [] ts
      | Err => Ok [] ts
      | Panic => Panic | Unk => Unk | Fuel => Fuel
      end
  | _ => Ok [] ts
  end.

(** [gate::parse_gate] (also [DEFCAL]'s head and sequence elements) *)
Definition p_gate (ts : list tok) : res instr :=
  let '(mods, r) := p_modifiers ts in
  match r with
  | TId name :: r1 =>
      bind (p_params r1) (fun ps r2 =>
        let '(qs, r3) := p_qubits r2 in Ok (IGate mods name ps qs) r3)
  | _ => Err
  end.

(** [parse_waveform_invocation] *)
Definition named_key (ts : list tok) : option (ident * list tok) :=
  match ts with
  | TId k :: r => match r with TColon :: r' => Some (k, r') | _ => None end
  | _ => None
  end.

Fixpoint p_named_args_tail (fuel : nat) (ts : list tok) : res (list (ident * expr)) :=
  match fuel with
  | O => Fuel
  | S f =>
      match ts with
      | TComma :: r0 =>
          match named_key r0 with
          | Some (k, r) =>
              match p_expr r with
              | Ok e r2 =>
                  match p_named_args_tail f r2 with
                  | Ok l r3 => Ok ((k, e) :: l) r3
                  | o => o
                  end
              | Err => Ok [] ts
              | Panic => Panic | Unk => Unk | Fuel => Fuel
              end
          | None => Ok [] ts
          end
      | _ => Ok [] ts
      end
  end.

Definition p_named_args (ts : list tok) : res (list (ident * expr)) :=
  match named_key ts with
  | Some (k, r) =>
      match p_expr r with
      | Ok e r2 =>
          match p_named_args_tail (S (length r2)) r2 with
          | Ok l r3 => Ok ((k, e) :: l) r3
          | o => o
          end
      | Err => Ok [] ts
      | Panic => Panic | Unk => Unk | Fuel => Fuel
      end
  | None => Ok [] ts
  end.

Definition wf_ext (ts : list tok) : option (ident * list tok) :=
  match ts with
  | TOp OSlash :: r => match r with TId ext :: r' => Some (ext, r') | _ => None end
  | _ => None
  end.

Definition p_waveform (ts : list tok) : res waveform :=
  let k (name : ident) (ext : option ident) (r : list tok) : res waveform :=
    match r with
    | TLParen :: r1 =>
        match p_named_args r1 with
        | Ok l (TRParen :: r2) => Ok {| wname := name; wext := ext; wparams := l |} r2
        | Ok _ _ => Ok {| wname := name; wext := ext; wparams := [] |} r
        | Err => Ok {| wname := name; wext := ext; wparams := [] |} r
        | Panic => Panic | Unk => Unk | Fuel => Fuel
        end
    | _ => Ok {| wname := name; wext := ext; wparams := [] |} r
    end in
  match ts with
  | TId name :: r =>
      match wf_ext r with
      | Some (ext, r') => k name (Some ext) r'
      | None => k name None r
      end
  | _ => Err
  end.

(** * Commands (command.rs) *)

Definition p_call_arg (ts : list tok) : option (callarg * list tok) :=
  match ts with
  | TId x :: r =>
      match brackets r with
      | Some (i, r') => Some (CAMem (x, i), r')
      | None => Some (CAId x, r)
      end
  | _ => match immediate ts with
         | Some (im, v, r) => Some (CAImm im v, r)
         | None => None
         end
  end.

Fixpoint p_call_args (fuel : nat) (ts : list tok) : list callarg * list tok :=
  match fuel with
  | O => ([], ts)
  | S f =>
      match p_call_arg ts with
      | Some (a, r) => let '(l, r') := p_call_args f r in (a :: l, r')
      | None => ([], ts)
      end
  end.

Fixpoint p_pragma_args (ts : list tok) : list pragma_arg * list tok :=
  match ts with
  | TId x :: r => let '(l, r') := p_pragma_args r in (PAId x :: l, r')
  | TInt n :: r => let '(l, r') := p_pragma_args r in (PAInt n :: l, r')
  | _ => ([], ts)
  end.

Fixpoint p_offsets (ts : list tok) : list (N * dtype) * list tok :=
  match ts with
  | TInt n :: r0 =>
      match r0 with
      | TDataType d :: r => let '(l, r') := p_offsets r in ((n, d) :: l, r')
      | _ => ([], ts)
      end
  | _ => ([], ts)
  end.

(** [parse_sharing] *)
Definition p_sharing (ts : list tok) : option (ident * list (N * dtype)) * list tok :=
  match ts with
  | TSharing :: r0 =>
      match r0 with
      | TId x :: r1 =>
          match r1 with
          | TOffset :: r =>
              match p_offsets r with
              | ([], _) => (Some (x, []), r1)
              | (l, r') => (Some (x, l), r')
              end
          | _ => (Some (x, []), r1)
          end
      | _ => (None, ts)
      end
  | _ => (None, ts)
  end.

Definition p_declare (ts : list tok) : res instr :=
  match ts with
  | TId name :: r0 =>
      match r0 with
      | TDataType d :: r =>
          let '(len, r1) :=
            match brackets r with
            | Some (n, r') => (n, r')
            | None => (1%N, r)
            end in
          let '(sh, r2) := p_sharing r1 in
          Ok (IDeclare name d len sh) r2
      | _ => Err
      end
  | _ => Err
  end.

(** [parse_delay]: qubits, frame names, then an expression; if the expression does not parse and
    the last "qubit" was an integer, that integer is the duration *)
Definition p_delay (ts : list tok) : res instr :=
  let '(qs, r1) := p_qubits ts in
  let '(names, r2) := p_strings r1 in
  match p_expr r2 with
  | Ok e r3 => Ok (IDelay qs names e) r3
  | Err =>
      match rev qs with
      | QFixed n :: front => Ok (IDelay (rev front) names (ENum false (val_of_int n))) r2
      | _ => Err
      end
  | Panic => Panic | Unk => Unk | Fuel => Fuel
  end.

Definition p_measure (ts : list tok) : res instr :=
  let '(name, r1) :=
    match ts with
    | TBang :: r0 => match r0 with TId x :: r => (Some x, r) | _ => (None, ts) end
    | _ => (None, ts)
    end in
  bind (p_qubit r1) (fun q r2 =>
    match p_memref r2 with
    | Ok m r3 => Ok (IMeasure name q (Some m)) r3
    | _ => Ok (IMeasure name q None) r2
    end).

Definition p_target (ts : list tok) : res N :=
  match ts with TTarget t :: r => Ok t r | _ => Err end.

Definition p_frame_expr (c : cmd) (ts : list tok) : res instr :=
  bind (p_frame ts) (fun f r => bind (p_expr r) (fun e r2 => Ok (IFrameSet c f e) r2)).

Definition p_pulse (blocking : bool) (ts : list tok) : res instr :=
  bind (p_frame ts) (fun f r => bind (p_waveform r) (fun w r2 => Ok (IPulse blocking f w) r2)).

Definition p_capture (blocking : bool) (ts : list tok) : res instr :=
  bind (p_frame ts) (fun f r => bind (p_waveform r) (fun w r2 =>
    bind (p_memref r2) (fun m r3 => Ok (ICapture blocking f w m) r3))).

Definition p_raw_capture (blocking : bool) (ts : list tok) : res instr :=
  bind (p_frame ts) (fun f r => bind (p_expr r) (fun e r2 =>
    bind (p_memref r2) (fun m r3 => Ok (IRawCapture blocking f e m) r3))).

(** the per-command parsers, [parse_instruction]'s first [match] *)
Definition p_command (vr : variant) (c : cmd) (ts : list tok) : res instr :=
  match c with
  | CAdd | CSub | CMul | CDiv =>
      bind (p_memref ts) (fun d r => bind (p_arith_operand vr r) (fun s r2 => Ok (IArith c d s) r2))
  | CAnd | CIor | CXor | CShl | CShr | CAshr =>
      bind (p_memref ts) (fun d r => bind (p_logic_operand vr r) (fun s r2 => Ok (ILogic c d s) r2))
  | CEq | CGE | CGT | CLE | CLT =>
      bind (p_memref ts) (fun d r => bind (p_memref r) (fun l r2 =>
        bind (p_arith_operand vr r2) (fun s r3 => Ok (ICmp c d l s) r3)))
  | CNeg | CNot => bind (p_memref ts) (fun m r => Ok (IUnary c m) r)
  | CCall =>
      match ts with
      | TId name :: r => let '(args, r') := p_call_args (length r) r in Ok (ICall name args) r'
      | _ => Err
      end
  | CCapture => p_capture true ts
  | CConvert => bind (p_memref ts) (fun d r => bind (p_memref r) (fun s r2 => Ok (IConvert d s) r2))
  | CDeclare => p_declare ts
  | CDefCal | CDefCircuit | CDefFrame | CDefGate | CDefWaveform => Unk
  | CDelay => p_delay ts
  | CExchange =>
      bind (p_memref ts) (fun l r => bind (p_memref r) (fun x r2 => Ok (IExchange l x) r2))
  | CFence => let '(qs, r) := p_qubits ts in Ok (IFence qs) r
  | CHalt => Ok IHalt ts
  | CInclude => match ts with TString s :: r => Ok (IInclude s) r | _ => Err end
  | CJump => bind (p_target ts) (fun t r => Ok (IJump t) r)
  | CJumpWhen => bind (p_target ts) (fun t r => bind (p_memref r) (fun m r2 => Ok (IJumpWhen t m) r2))
  | CJumpUnless =>
      bind (p_target ts) (fun t r => bind (p_memref r) (fun m r2 => Ok (IJumpUnless t m) r2))
  | CLabel => bind (p_target ts) (fun t r => Ok (ILabel t) r)
  | CLoad =>
      bind (p_memref ts) (fun d r =>
        match r with
        | TId s :: r1 => bind (p_memref r1) (fun o r2 => Ok (ILoad d s o) r2)
        | _ => Err
        end)
  | CMeasure => p_measure ts
  | CMove =>
      bind (p_memref ts) (fun d r => bind (p_arith_operand vr r) (fun s r2 => Ok (IMove d s) r2))
  | CNop => Ok INop ts
  | CPragma =>
      match ts with
      | TId name :: r =>
          let '(args, r1) := p_pragma_args r in
          match r1 with
          | TString s :: r2 => Ok (IPragma name args (Some s)) r2
          | _ => Ok (IPragma name args None) r1
          end
      | _ => Err
      end
  | CPulse => p_pulse true ts
  | CRawCapture => p_raw_capture true ts
  | CReset =>
      match p_qubit ts with
      | Ok q r => Ok (IReset (Some q)) r
      | _ => Ok (IReset None) ts
      end
  | CSetFrequency | CSetPhase | CSetScale | CShiftFrequency | CShiftPhase => p_frame_expr c ts
  | CStore =>
      match ts with
      | TId d :: r =>
          bind (p_memref r) (fun o r1 => bind (p_arith_operand vr r1) (fun s r2 => Ok (IStore d o s) r2))
      | _ => Err
      end
  | CSwapPhases => bind (p_frame ts) (fun a r => bind (p_frame r) (fun b r2 => Ok (ISwapPhases a b) r2))
  | CWait => Ok IWait ts
  end.

(** [skip_newlines_and_comments]: newlines, semicolons, and comments possibly preceded by
    indentation (indentation not followed by a comment is not skipped) *)
Fixpoint indents_then_comment (ts : list tok) : bool :=
  match ts with
  | TIndent :: r => indents_then_comment r
  | TComment :: _ => true
  | _ => false
  end.

Fixpoint skip (ts : list tok) : list tok :=
  match ts with
  | TNewLine :: r => skip r
  | TSemicolon :: r => skip r
  | TComment :: r => skip r
  | TIndent :: r => if indents_then_comment r then skip r else ts
  | _ => ts
  end.

(** [parse_instruction] after the leading skip *)
Definition p_instruction (vr : variant) (ts : list tok) : res instr :=
  match ts with
  | [] => Err
  | TCmd c :: r => p_command vr c r
  | TNonBlocking :: r =>
      let fallback : res instr := match vr with Snapshot => Panic | Repaired => Err end in
      match r with
      | TCmd c :: r1 =>
          match c with
          | CPulse => p_pulse false r1
          | CCapture => p_capture false r1
          | CRawCapture => p_raw_capture false r1
          | _ => fallback
          end
      | _ => fallback
      end
  | TId _ :: _ | TModifier _ :: _ => p_gate ts
  | _ => Err
  end.

(** [parse_instructions] under [all_consuming]: instructions until the input is exhausted; any
    error, or a stop with tokens left over, is an error of the whole *)
Fixpoint p_program_loop (vr : variant) (fuel : nat) (ts : list tok) : res (list instr) :=
  match skip ts with
  | [] => Ok [] []
  | ts1 =>
      match fuel with
      | O => Fuel
      | S f =>
          match p_instruction vr ts1 with
          | Ok i r =>
              match p_program_loop vr f r with
              | Ok l r' => Ok (i :: l) r'
              | o => o
              end
          | Err => Err | Panic => Panic | Unk => Unk | Fuel => Fuel
          end
      end
  end.

Definition p_program (vr : variant) (ts : list tok) : res (list instr) :=
  p_program_loop vr (S (length ts)) ts.

(** * Entry points and outcome classes *)

Inductive entry := EProgram | EInstruction | EExpression | EMemRef | EFrame.
Inductive outcome := OOk | OErr | OPanic | OUnk | OFuel.

Definition outcome_eqb (a b : outcome) : bool :=
  match a, b with
  | OOk, OOk | OErr, OErr | OPanic, OPanic | OUnk, OUnk | OFuel, OFuel => true
  | _, _ => false
  end.

(** [disallow_leftover]: success only if everything was consumed *)
Definition all_consumed {A} (r : res A) : outcome :=
  match r with
  | Ok _ [] => OOk
  | Ok _ _ => OErr
  | Err => OErr | Panic => OPanic | Unk => OUnk | Fuel => OFuel
  end.

Definition run (vr : variant) (e : entry) (ts : list tok) : outcome :=
  match e with
  | EProgram => all_consumed (p_program vr ts)
  | EInstruction =>
      match p_program vr ts with
      | Ok [_] [] => OOk
      | Ok _ _ => OErr
      | Err => OErr | Panic => OPanic | Unk => OUnk | Fuel => OFuel
      end
  | EExpression => all_consumed (p_expr ts)
  | EMemRef => all_consumed (p_memref ts)
  | EFrame => all_consumed (p_frame ts)
  end.

(** * Instance checker and case-file entry point.

    A single case is an entry point, the token stream the real lexer produced for the input
    ([None] when the lexer rejects the input) and the implementation's observed outcome.  The property on one instance:
    the outcome is a value or an error. *)
Definition chk_outcome (o : outcome) : bool :=
  match o with OOk | OErr => true | _ => false end.

(** Exhaustive token sequences are shipped in groups: a prefix and, for every token [a] of a fixed
    alphabet, the outcome observed on [prefix ++ [a]] (a default outcome plus the exceptions, by
    position in the alphabet).  The harness checks with the real lexer that the text it ran lexes to
    exactly [prefix ++ [a]], and every shard re-checks that the alphabets below are the ones it
    used. *)
Definition alpha_main : list tok :=
  [TId (IdName 0); TId (IdRes RI); TId (IdRes RPi); TId (IdRes RSin); TLBracket; TRBracket; TInt 1;
   TInt 9223372036854775808; TFloat (FLex 0); TOp OPlus; TOp OMinus; TOp OStar; TOp OSlash;
   TOp OCaret; TLParen; TRParen; TComma; TColon; TBang; TTarget 0; TVar (IdName 0); TString 0;
   TNewLine; TIndent; TSemicolon; TDataType DBit; TDataType DReal; TAs; TMatrix; TPermutation;
   TPauliSum; TSequence; TSharing; TOffset; TMutable; TNonBlocking; TModifier MDagger;
   TCmd CMeasure; TCmd CPulse; TCmd CCapture; TCmd CRawCapture; TCmd CHalt; TCmd CAdd; TComment].

Definition alpha_expr : list tok :=
  [TInt 1; TFloat (FLex 0); TId (IdRes RI); TId (IdRes RPi); TId (IdRes RSin); TId (IdName 0);
   TVar (IdName 0); TLBracket; TRBracket; TLParen; TRParen; TOp OPlus; TOp OMinus; TOp OStar;
   TOp OCaret; TComma; TString 0; TInt 0].

Inductive alpha_id := AMain | AExpr.
Definition alphabet (a : alpha_id) : list tok :=
  match a with AMain => alpha_main | AExpr => alpha_expr end.

Inductive case :=
| CSingle (e : entry) (ts : option (list tok)) (o : outcome)
| CGroup (e : entry) (a : alpha_id) (prefix : list tok) (default : outcome)
         (exceptions : list (N * outcome))
(** byte-level lexer case: the text's bytes and what the real lexer did with them; judged by the
    byte-level lexer model Model/Lex.v ([Lex.lex_code]), independent of [variant] *)
| CLex (bytes : list N) (o : Lex.lobs).

Fixpoint lookup_out (i : N) (ex : list (N * outcome)) (default : outcome) : outcome :=
  match ex with
  | [] => default
  | (j, o) :: t => if N.eqb i j then o else lookup_out i t default
  end.

Definition single_code (vr : variant) (e : entry) (ots : option (list tok)) (o : outcome) : N :=
  if negb (chk_outcome o) then 2%N
  else match ots with
       | None => 0%N
       | Some ts =>
           match run vr e ts with
           | OUnk => 0%N
           | m => if outcome_eqb m o then 0%N else 1%N
           end
       end.

Fixpoint group_code (vr : variant) (e : entry) (prefix : list tok) (default : outcome)
         (ex : list (N * outcome)) (i : N) (al : list tok) : N :=
  match al with
  | [] => 0%N
  | a :: al' =>
      N.max (single_code vr e (Some (prefix ++ [a])) (lookup_out i ex default))
            (group_code vr e prefix default ex (N.succ i) al')
  end.

Definition case_code (vr : variant) (c : case) : N :=
  match c with
  | CSingle e ots o => single_code vr e ots o
  | CGroup e a prefix d ex =>
      (* an exception that is itself not a value-or-error outcome is a violation even if its
         position is out of range *)
      if forallb (fun x : N * outcome => chk_outcome (snd x)) ex
      then group_code vr e prefix d ex 0 (alphabet a)
      else 2%N
  | CLex bytes o => Lex.lex_code bytes o
  end.

Fixpoint failing_from (vr : variant) (i : N) (l : list case) : list (N * N) :=
  match l with
  | [] => []
  | c :: t =>
      let code := case_code vr c in
      if N.eqb code 0 then failing_from vr (N.succ i) t
      else (i, code) :: failing_from vr (N.succ i) t
  end.

Definition failing (l : list case) : list (N * N) := failing_from Repaired 0 l.
