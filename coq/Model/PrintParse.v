(** Token-level model of the serializer ([impl Quil for ...] in quil-rs/src/instruction/*.rs and
    quil-rs/src/expression/mod.rs) for the fragment of instructions parsed by Model/ParsePanic.v,
    the well-formedness predicate under which printing and parsing are inverse, and the C02
    instance checker.  Executable definitions only.

    The printer is modelled up to tokenisation: [print_instr i] is the token stream that the real
    lexer produces for the text the real serializer writes (white space, the spelling of numbers
    and the escaping of strings are the lexer's / C05-C07's business; the harness compares
    [print_instr] with [lex_debug] of the real output on every fragment case).

    Fragment: ADD SUB MUL DIV, AND IOR XOR SHL SHR ASHR, EQ GE GT LE LT, NEG NOT, MOVE, EXCHANGE,
    CONVERT, LOAD, STORE, DECLARE, gate applications with modifiers / expression parameters /
    qubits, MEASURE, RESET, DELAY, FENCE, HALT NOP WAIT, LABEL JUMP JUMP-WHEN JUMP-UNLESS, PRAGMA,
    INCLUDE, SET-/SHIFT-FREQUENCY/-PHASE/-SCALE, SWAP-PHASES, PULSE, CAPTURE, RAW-CAPTURE (with
    the NONBLOCKING prefix, frame identifiers, waveform invocations), CALL; and, as [item]s with
    their own parser model (the commands ParsePanic.v answers [Unk] for): DEFCAL, DEFCAL MEASURE,
    DEFCIRCUIT, DEFFRAME, DEFWAVEFORM, DEFGATE (four forms). *)
From Coq Require Import List NArith ZArith Bool.
From QV Require Import Model.ParsePanic.
Import ListNotations.

(** * Decidable equalities *)

Scheme Equality for cmd.
Scheme Equality for dtype.
Scheme Equality for modifier.
Scheme Equality for iop.
Scheme Equality for reserved.

Definition ident_eqb (a b : ident) : bool :=
  match a, b with
  | IdRes r, IdRes s | IdResCase r, IdResCase s => reserved_beq r s
  | IdName n, IdName m => N.eqb n m
  | _, _ => false
  end.

(** * Printer *)

Definition tok_of_real (v : numval) : tok :=
  match v with VInt n => TInt n | VLex id => TFloat (FLex id) | VBig n => TFloat (FBig n) end.

Definition flit_of_val (v : numval) : flit :=
  match v with VInt n => FInt n | VLex id => FLex id | VBig n => FBig n end.

(** [impl Quil for Expression] with [format_inner_expression]: infix operands that are themselves
    infix are parenthesised; the operand of a prefix minus is parenthesised if it is infix or
    another prefix; real numbers print trimmed ([2]), imaginary ones as a float followed by [i]. *)
Fixpoint print_e (e : expr) : list tok :=
  match e with
  | EAddr x i => [TId x; TLBracket; TInt i; TRBracket]
  | EFn f a => TId (IdRes f) :: TLParen :: print_e a ++ [TRParen]
  | EInfix l o r =>
      (match l with EInfix _ _ _ => TLParen :: print_e l ++ [TRParen] | _ => print_e l end)
        ++ TOp o ::
      (match r with EInfix _ _ _ => TLParen :: print_e r ++ [TRParen] | _ => print_e r end)
  | ENum false v => [tok_of_real v]
  | ENum true v => [TFloat (flit_of_val v); TId (IdRes RI)]
  | EPi => [TId (IdRes RPi)]
  | ENeg a =>
      TOp OMinus ::
      (match a with
       | EInfix _ _ _ | ENeg _ => TLParen :: print_e a ++ [TRParen]
       | _ => print_e a
       end)
  | EVar x => [TVar x]
  end.

(** an expression as an infix operand / in primary position *)
Definition inner (e : expr) : list tok :=
  match e with EInfix _ _ _ => TLParen :: print_e e ++ [TRParen] | _ => print_e e end.

Definition atomp (e : expr) : list tok :=
  match e with
  | EInfix _ _ _ | ENeg _ => TLParen :: print_e e ++ [TRParen]
  | _ => print_e e
  end.

Definition print_memref (m : memref) : list tok :=
  [TId (fst m); TLBracket; TInt (snd m); TRBracket].

Definition print_qubit (q : qubit) : tok :=
  match q with QFixed n => TInt n | QVar x => TId x end.

(** integers print in decimal with a leading minus; real literals print with [{:?}] (always a
    float lexeme) after the repair of /repo commit 0c572bf *)
Definition print_operand (o : operand) : list tok :=
  match o with
  | OInt z => if (z <? 0)%Z then [TOp OMinus; TInt (Z.to_N (- z))] else [TInt (Z.to_N z)]
  | OReal neg v => (if neg then [TOp OMinus] else []) ++ [TFloat (flit_of_val v)]
  | OMem m => print_memref m
  end.

Definition print_frame (f : frame) : list tok := map print_qubit (fst f) ++ [TString (snd f)].

Fixpoint sep_exprs (l : list expr) : list tok :=
  match l with
  | [] => []
  | e :: t => match t with [] => print_e e | _ => print_e e ++ TComma :: sep_exprs t end
  end.

Definition print_params (l : list expr) : list tok :=
  match l with [] => [] | _ => TLParen :: sep_exprs l ++ [TRParen] end.

Definition print_offsets (l : list (N * dtype)) : list tok :=
  flat_map (fun x : N * dtype => [TInt (fst x); TDataType (snd x)]) l.

Definition print_pragma_arg (a : pragma_arg) : tok :=
  match a with PAId x => TId x | PAInt n => TInt n end.

Definition print_duration (names : list N) (dur : expr) : list tok :=
  match names, dur with
  | [], ENum false _ => print_e dur
  | [], _ => TLParen :: print_e dur ++ [TRParen]
  | _, _ => print_e dur
  end.

(** [impl Quil for WaveformInvocation]: the name (an identifier, optionally [/] and a second
    identifier), then — unless there are none — the parameters as [key: expr] joined with commas
    in parentheses, sorted by key ([sort_by_key], stable).  The parameter map is an [IndexMap]
    whose equality ignores the order; the model AST lists it in key order (the canonical
    representative, see [wf_waveform]) and [key_leb] is the order of the harness's interning of
    the keys of one case (non-reserved identifiers; any other pair compares equal, so the
    stable sort leaves it alone). *)
Definition key_leb (a b : ident) : bool :=
  match a, b with IdName n, IdName m => N.leb n m | _, _ => true end.

Definition key_ltb (a b : ident) : bool :=
  match a, b with IdName n, IdName m => N.ltb n m | _, _ => false end.

Fixpoint ins_named (x : ident * expr) (l : list (ident * expr)) : list (ident * expr) :=
  match l with
  | [] => [x]
  | y :: t => if key_leb (fst x) (fst y) then x :: l else y :: ins_named x t
  end.

(** stable insertion sort: elements are inserted from the back *)
Definition sort_named (l : list (ident * expr)) : list (ident * expr) :=
  fold_right ins_named [] l.

Fixpoint sep_named (l : list (ident * expr)) : list tok :=
  match l with
  | [] => []
  | x :: t =>
      match t with
      | [] => TId (fst x) :: TColon :: print_e (snd x)
      | _ => TId (fst x) :: TColon :: print_e (snd x) ++ TComma :: sep_named t
      end
  end.

Definition print_waveform (w : waveform) : list tok :=
  TId (wname w) :: (match wext w with Some x => [TOp OSlash; TId x] | None => [] end)
    ++ match sort_named (wparams w) with [] => [] | l => TLParen :: sep_named l ++ [TRParen] end.

Definition print_blocking (blocking : bool) : list tok :=
  if blocking then [] else [TNonBlocking].

(** [impl Quil for UnresolvedCallArgument]: an immediate is printed by [format_complex]; the
    immediates the parser produces are a non-negative real or a non-negative imaginary number *)
Definition print_callarg (a : callarg) : list tok :=
  match a with
  | CAMem m => print_memref m
  | CAId x => [TId x]
  | CAImm false v => [tok_of_real v]
  | CAImm true v => [TFloat (flit_of_val v); TId (IdRes RI)]
  end.

Definition print_instr (i : instr) : list tok :=
  match i with
  | IArith c d s | ILogic c d s => TCmd c :: print_memref d ++ print_operand s
  | ICmp c d l r => TCmd c :: print_memref d ++ print_memref l ++ print_operand r
  | IUnary c m => TCmd c :: print_memref m
  | IConvert d s => TCmd CConvert :: print_memref d ++ print_memref s
  | IExchange l r => TCmd CExchange :: print_memref l ++ print_memref r
  | IDeclare name ty len sh =>
      TCmd CDeclare :: TId name :: TDataType ty :: TLBracket :: TInt len :: TRBracket ::
      match sh with
      | None => []
      | Some (x, offs) =>
          TSharing :: TId x :: match offs with [] => [] | _ => TOffset :: print_offsets offs end
      end
  | IDelay qs names dur =>
      (* without frame names anything but a plain non-negative real literal is parenthesised
         (/repo commit 47d01e0) *)
      TCmd CDelay :: map print_qubit qs ++ map TString names ++ print_duration names dur
  | IFence qs => TCmd CFence :: map print_qubit qs
  | IGate mods name ps qs =>
      map TModifier mods ++ TId name :: print_params ps ++ map print_qubit qs
  | IHalt => [TCmd CHalt]
  | INop => [TCmd CNop]
  | IWait => [TCmd CWait]
  | IInclude s => [TCmd CInclude; TString s]
  | IJump t => [TCmd CJump; TTarget t]
  | IJumpWhen t m => TCmd CJumpWhen :: TTarget t :: print_memref m
  | IJumpUnless t m => TCmd CJumpUnless :: TTarget t :: print_memref m
  | ILabel t => [TCmd CLabel; TTarget t]
  | ILoad d s o => TCmd CLoad :: print_memref d ++ TId s :: print_memref o
  | IStore d o s => TCmd CStore :: TId d :: print_memref o ++ print_operand s
  | IMeasure name q t =>
      TCmd CMeasure :: (match name with Some n => [TBang; TId n] | None => [] end)
        ++ print_qubit q :: (match t with Some m => print_memref m | None => [] end)
  | IMove d s => TCmd CMove :: print_memref d ++ print_operand s
  | IPragma name args data =>
      TCmd CPragma :: TId name :: map print_pragma_arg args
        ++ (match data with Some s => [TString s] | None => [] end)
  | IReset q => TCmd CReset :: (match q with Some q => [print_qubit q] | None => [] end)
  | IFrameSet c f e => TCmd c :: print_frame f ++ print_e e
  | ISwapPhases a b => TCmd CSwapPhases :: print_frame a ++ print_frame b
  | IPulse b f w => print_blocking b ++ TCmd CPulse :: print_frame f ++ print_waveform w
  | ICapture b f w m =>
      print_blocking b ++ TCmd CCapture :: print_frame f ++ print_waveform w ++ print_memref m
  | IRawCapture b f d m =>
      print_blocking b ++ TCmd CRawCapture :: print_frame f ++ print_e d ++ print_memref m
  | ICall name args => TCmd CCall :: TId name :: flat_map print_callarg args
  end.

Definition print_program (l : list instr) : list tok :=
  flat_map (fun i => print_instr i ++ [TNewLine]) l.

(** * Well-formedness: the ASTs on which [parse (print i) = i] *)

Definition wf_num (v : numval) : bool :=
  match v with VInt n => N.ltb n big | VLex _ => true | VBig n => N.leb big n end.

Definition is_fn (r : reserved) : bool :=
  match r with RI | RPi => false | _ => true end.

Fixpoint wf_expr (e : expr) : bool :=
  match e with
  | EAddr _ _ | EPi | EVar _ => true
  | EFn f a => is_fn f && wf_expr a
  | EInfix l _ r => wf_expr l && wf_expr r
  | ENum im v => wf_num v && Bool.eqb (norm_im im v) im
  | ENeg a => wf_expr a
  end.

Definition wf_operand (allow_real : bool) (o : operand) : bool :=
  match o with
  | OInt z => (Z.leb (- Z.of_N two63) z && Z.ltb z (Z.of_N two63))%Z
  | OReal _ v => allow_real && wf_num v
  | OMem _ => true
  end.

(** the parameter map in canonical form: keys strictly increasing (hence distinct) *)
Fixpoint sorted_keys (l : list (ident * expr)) : bool :=
  match l with
  | [] => true
  | x :: t => match t with [] => true | y :: _ => key_ltb (fst x) (fst y) && sorted_keys t end
  end.

Definition wf_waveform (w : waveform) : bool :=
  sorted_keys (wparams w) && forallb (fun x : ident * expr => wf_expr (snd x)) (wparams w).

(** the printed expression ends in a real number literal (infix right operands that are infix
    and prefix operands that are infix or prefix are parenthesised; an imaginary literal ends in
    the identifier [i]) *)
Fixpoint ends_num (e : expr) : bool :=
  match e with
  | ENum false _ => true
  | EInfix _ _ r => match r with EInfix _ _ _ => false | _ => ends_num r end
  | ENeg a => match a with EInfix _ _ _ | ENeg _ => false | _ => ends_num a end
  | _ => false
  end.

Definition is_i (x : ident) : bool := match x with IdRes RI => true | _ => false end.

(** open finding [rawcapture-region-i]: RAW-CAPTURE prints [<duration> <memory reference>]; when
    the printed duration ends in a real number literal and the region is named [i], the two parse
    as an imaginary literal *)
Definition rawcapture_region_i (d : expr) (m : memref) : bool := is_i (fst m) && ends_num d.

Definition wf_callarg (a : callarg) : bool :=
  match a with
  | CAImm im v => wf_num v && Bool.eqb (norm_im im v) im
  | _ => true
  end.

Definition arg_starts_with_i (a : callarg) : bool :=
  match a with CAId x => is_i x | CAMem m => is_i (fst m) | CAImm _ _ => false end.

(** finding [call-immediate-then-i]: a real immediate argument directly followed by an argument
    spelled [i] / [i[n]] prints as [2 i], which parses as the imaginary literal [2i].  (No parsed
    CALL has this shape: the parser itself reads [2 i] as one argument.) *)
Fixpoint call_immediate_then_i (l : list callarg) : bool :=
  match l with
  | [] => false
  | a :: t =>
      (match a, t with
       | CAImm false _, b :: _ => arg_starts_with_i b
       | _, _ => false
       end) || call_immediate_then_i t
  end.

Definition cmd_in (c : cmd) (l : list cmd) : bool :=
  existsb (fun d => match c, d with
                    | CAdd, CAdd | CSub, CSub | CMul, CMul | CDiv, CDiv
                    | CAnd, CAnd | CIor, CIor | CXor, CXor | CShl, CShl | CShr, CShr | CAshr, CAshr
                    | CEq, CEq | CGE, CGE | CGT, CGT | CLE, CLE | CLT, CLT
                    | CNeg, CNeg | CNot, CNot
                    | CSetFrequency, CSetFrequency | CSetPhase, CSetPhase | CSetScale, CSetScale
                    | CShiftFrequency, CShiftFrequency | CShiftPhase, CShiftPhase => true
                    | _, _ => false
                    end) l.

Definition nonempty {A} (l : list A) : bool := match l with [] => false | _ => true end.

Definition wf_instr (i : instr) : bool :=
  match i with
  | IArith c _ s => cmd_in c [CAdd; CSub; CMul; CDiv] && wf_operand true s
  | ILogic c _ s => cmd_in c [CAnd; CIor; CXor; CShl; CShr; CAshr] && wf_operand false s
  | ICmp c _ _ r => cmd_in c [CEq; CGE; CGT; CLE; CLT] && wf_operand true r
  | IUnary c _ => cmd_in c [CNeg; CNot]
  | IStore _ _ s | IMove _ s => wf_operand true s
  | IDelay _ _ dur => wf_expr dur
  | IGate _ _ ps _ => forallb wf_expr ps
  | IFrameSet c f e =>
      cmd_in c [CSetFrequency; CSetPhase; CSetScale; CShiftFrequency; CShiftPhase]
      && nonempty (fst f) && wf_expr e
  | ISwapPhases a b => nonempty (fst a) && nonempty (fst b)
  | IPulse _ f w => nonempty (fst f) && wf_waveform w
  | ICapture _ f w _ => nonempty (fst f) && wf_waveform w
  | IRawCapture _ f d m => nonempty (fst f) && wf_expr d && negb (rawcapture_region_i d m)
  | ICall _ args => forallb wf_callarg args && negb (call_immediate_then_i args)
  | _ => true
  end.

(** ** CALL built through the API: an immediate argument is any [Complex64]

    [print_complex] is [format_complex]: [0] if both parts are zero, the real part alone (trimmed)
    if the imaginary part is zero, the imaginary part (always a float) followed by [i] if the real
    part is zero, else both with the sign of the imaginary part in between. *)
Record cplx := { re_neg : bool; re_abs : numval; im_neg : bool; im_abs : numval }.

Inductive xarg := XMem (m : memref) | XId (x : ident) | XImm (c : cplx).

Definition is_zero (v : numval) : bool := match v with VInt 0 => true | _ => false end.

Definition print_complex (c : cplx) : list tok :=
  let re := (if re_neg c then [TOp OMinus] else []) ++ [tok_of_real (re_abs c)] in
  let im := (if im_neg c then [TOp OMinus] else [])
              ++ [TFloat (flit_of_val (im_abs c)); TId (IdRes RI)] in
  if is_zero (re_abs c) && is_zero (im_abs c) then [TInt 0]
  else if is_zero (im_abs c) then re
  else if is_zero (re_abs c) then im
  else re ++ (if im_neg c then [] else [TOp OPlus]) ++ im.

Definition print_xarg (a : xarg) : list tok :=
  match a with XMem m => print_memref m | XId x => [TId x] | XImm c => print_complex c end.

Definition print_xcall (name : ident) (args : list xarg) : list tok :=
  TCmd CCall :: TId name :: flat_map print_xarg args.

(** open finding [call-immediate-sign]: an immediate with a negative component or with both
    components non-zero *)
Definition call_immediate_sign (a : xarg) : bool :=
  match a with
  | XImm c =>
      (re_neg c && negb (is_zero (re_abs c))) || (im_neg c && negb (is_zero (im_abs c)))
      || (negb (is_zero (re_abs c)) && negb (is_zero (im_abs c)))
  | _ => false
  end.

(** the argument the parser produces for the printed text, outside that class *)
Definition xarg_parsed (a : xarg) : callarg :=
  match a with
  | XMem m => CAMem m
  | XId x => CAId x
  | XImm c => if is_zero (im_abs c) then CAImm false (re_abs c) else CAImm true (im_abs c)
  end.

Definition wf_xarg (a : xarg) : bool :=
  match a with XImm c => wf_num (re_abs c) && wf_num (im_abs c) | _ => true end.

Definition wf_xcall (args : list xarg) : bool :=
  forallb wf_xarg args && negb (existsb call_immediate_sign args)
  && negb (call_immediate_then_i (map xarg_parsed args)).

(** The parser collects waveform parameters into an [IndexMap]: a repeated key keeps its first
    position and takes the last value.  [norm_instr] turns the parser model's parameter list into
    the canonical form of that map (deduplicated, in key order). *)
Fixpoint map_insert (x : ident * expr) (l : list (ident * expr)) : list (ident * expr) :=
  match l with
  | [] => [x]
  | y :: t => if ident_eqb (fst x) (fst y) then x :: t else y :: map_insert x t
  end.

Definition map_of (l : list (ident * expr)) : list (ident * expr) :=
  fold_left (fun acc x => map_insert x acc) l [].

Definition norm_waveform (w : waveform) : waveform :=
  {| wname := wname w; wext := wext w; wparams := sort_named (map_of (wparams w)) |}.

Definition norm_instr (i : instr) : instr :=
  match i with
  | IPulse b f w => IPulse b f (norm_waveform w)
  | ICapture b f w m => ICapture b f (norm_waveform w) m
  | _ => i
  end.

(** * Definitions with an indented body (DEFCAL, DEFCAL MEASURE, DEFCIRCUIT, DEFFRAME, DEFWAVEFORM)

    A top-level [item] is a plain instruction or a block definition.  Bodies are lists of plain
    instructions: a definition inside a body is the open finding [nested-block-definition] and is
    not representable (the body parser answers [Unk] on it, like [p_command]); an empty body /
    attribute map / entry list is the open finding [empty-definition-body] ([wf_item] excludes it
    by [nonempty]). *)
Inductive attrval := AVString (s : N) | AVExpr (e : expr).

(** DEFGATE specifications.  A Pauli term is its word (one identifier token, e.g. [ZZ]), its
    coefficient and its qubit arguments; a sequence element is a gate application ([IGate]). *)
Inductive gspec :=
| GMatrix (rows : list (list expr))
| GPermutation (perm : list N)
| GPauliSum (args : list ident) (terms : list (ident * expr * list ident))
| GSequence (args : list ident) (gates : list instr).

Inductive item :=
| Plain (i : instr)
| DefGate (name : ident) (params : list ident) (spec : gspec)
| DefCal (mods : list modifier) (name : ident) (params : list expr) (qs : list qubit)
         (body : list instr)
| DefCalMeasure (name : option ident) (q : qubit) (target : option ident) (body : list instr)
| DefCircuit (name : ident) (params : list ident) (qvars : list ident) (body : list instr)
| DefFrame (f : frame) (attrs : list (ident * attrval))
| DefWaveform (name : ident) (ext : option ident) (params : list ident) (entries : list expr).

(** ** Printer.  [print_core] is the text up to and excluding the trailing newline that DEFCAL
    MEASURE and DEFCIRCUIT write after their body ([print_trail]); a program writes a newline
    after every item and the lexer makes one NEWLINE token of consecutive newlines. *)
Definition print_body (body : list instr) : list tok :=
  flat_map (fun i => TNewLine :: TIndent :: print_instr i) body.

Fixpoint sep_vars (l : list ident) : list tok :=
  match l with
  | [] => []
  | x :: t => match t with [] => [TVar x] | _ => TVar x :: TComma :: sep_vars t end
  end.

(** [write_parameter_string]: [(%a, %b)], nothing for no parameters *)
Definition print_var_params (l : list ident) : list tok :=
  match l with [] => [] | _ => TLParen :: sep_vars l ++ [TRParen] end.

Definition print_attr (a : ident * attrval) : list tok :=
  TNewLine :: TIndent :: TId (fst a) :: TColon ::
  match snd a with AVString s => [TString s] | AVExpr e => print_e e end.

Fixpoint sep_ints (l : list N) : list tok :=
  match l with
  | [] => []
  | x :: t => match t with [] => [TInt x] | _ => TInt x :: TComma :: sep_ints t end
  end.

Definition print_pauli_term (t : ident * expr * list ident) : list tok :=
  let '(w, e, args) := t in
  TNewLine :: TIndent :: TId w :: TLParen :: print_e e ++ TRParen :: map TId args.

(** [GateSignature]: the qubit arguments are printed for PAULI-SUM and SEQUENCE only *)
Definition spec_args (sp : gspec) : list ident :=
  match sp with GPauliSum a _ | GSequence a _ => a | _ => [] end.

Definition spec_kind (sp : gspec) : tok :=
  match sp with
  | GMatrix _ => TMatrix | GPermutation _ => TPermutation
  | GPauliSum _ _ => TPauliSum | GSequence _ _ => TSequence
  end.

(** every line of a specification ends in a newline: the last one is [print_trail] *)
Definition print_spec (sp : gspec) : list tok :=
  match sp with
  | GMatrix rows => flat_map (fun row => TNewLine :: TIndent :: sep_exprs row) rows
  | GPermutation perm => TNewLine :: TIndent :: sep_ints perm
  | GPauliSum _ terms => flat_map print_pauli_term terms
  | GSequence _ gates => print_body gates
  end.

Definition print_core (it : item) : list tok :=
  match it with
  | Plain i => print_instr i
  | DefGate name ps sp =>
      TCmd CDefGate :: TId name :: print_var_params ps ++ map TId (spec_args sp)
        ++ TAs :: spec_kind sp :: TColon :: print_spec sp
  | DefCal mods name ps qs body =>
      TCmd CDefCal :: map TModifier mods ++ TId name :: print_params ps ++ map print_qubit qs
        ++ TColon :: print_body body
  | DefCalMeasure name q target body =>
      TCmd CDefCal :: TCmd CMeasure :: (match name with Some n => [TBang; TId n] | None => [] end)
        ++ print_qubit q :: (match target with Some t => [TId t] | None => [] end)
        ++ TColon :: print_body body
  | DefCircuit name ps qvars body =>
      TCmd CDefCircuit :: TId name :: print_var_params ps ++ map TId qvars
        ++ TColon :: print_body body
  | DefFrame f attrs => TCmd CDefFrame :: print_frame f ++ TColon :: flat_map print_attr attrs
  | DefWaveform name ext ps entries =>
      TCmd CDefWaveform :: TId name :: (match ext with Some x => [TOp OSlash; TId x] | None => [] end)
        ++ print_var_params ps ++ TColon :: TNewLine :: TIndent :: sep_exprs entries
  end.

Definition print_trail (it : item) : list tok :=
  match it with
  | DefCalMeasure _ _ _ _ | DefCircuit _ _ _ _ | DefGate _ _ _ => [TNewLine]
  | _ => []
  end.

(** the tokens of [Instruction::to_quil] *)
Definition print_item (it : item) : list tok := print_core it ++ print_trail it.

(** the tokens of [Program::to_quil] for a program that is this list of instructions *)
Definition print_items (l : list item) : list tok :=
  flat_map (fun it => print_core it ++ [TNewLine]) l.

(** ** Parser ([parse_block], [parse_defcal], [parse_defcircuit], [parse_defframe],
    [parse_defwaveform] in parser/command.rs)

    [parse_block] = [many1(NewLine Indentation parse_instruction)]; [parse_instruction] skips
    newlines / comments first and fails recoverably at the end of input (the block then ends
    before that line).  Every other failure of a body line makes the whole program fail (either
    directly — command errors are nom failures — or because the block ends before a line that
    the top level cannot parse either: it starts with an indentation), so the model returns
    [Err] for it. *)
Fixpoint p_body (vr : variant) (fuel : nat) (ts : list tok) : res (list instr) :=
  match fuel with
  | O => Fuel
  | S f =>
      match ts with
      | TNewLine :: TIndent :: r =>
          match skip r with
          | [] => Ok [] ts
          | r1 =>
              match p_instruction vr r1 with
              | Ok i r2 =>
                  match p_body vr f r2 with
                  | Ok l r3 => Ok (i :: l) r3
                  | o => o
                  end
              | Err => Err | Panic => Panic | Unk => Unk | Fuel => Fuel
              end
          end
      | _ => Ok [] ts
      end
  end.

Definition p_block (vr : variant) (ts : list tok) : res (list instr) :=
  match p_body vr (S (length ts)) ts with
  | Ok [] _ => Err
  | o => o
  end.

Definition p_colon (ts : list tok) : res unit :=
  match ts with TColon :: r => Ok tt r | _ => Err end.

(** [separated_list0(Comma, Variable)] in parentheses, optional; nothing consumed if the group
    does not close *)
Fixpoint p_vars_tail (ts : list tok) : list ident * list tok :=
  match ts with
  | TComma :: r0 =>
      match r0 with
      | TVar x :: r => let '(l, r') := p_vars_tail r in (x :: l, r')
      | _ => ([], ts)
      end
  | _ => ([], ts)
  end.

Definition p_var_params (ts : list tok) : list ident * list tok :=
  match ts with
  | TLParen :: r =>
      let '(l, r1) :=
        match r with
        | TVar x :: r0 => let '(l, r') := p_vars_tail r0 in (x :: l, r')
        | _ => ([], r)
        end in
      match r1 with
      | TRParen :: r2 => (l, r2)
      | _ => ([], ts)
      end
  | _ => ([], ts)
  end.

(** [many0(parse_variable_qubit)] *)
Fixpoint p_qvars (ts : list tok) : list ident * list tok :=
  match ts with
  | TVar x :: r => let '(l, r') := p_qvars r in (x :: l, r')
  | TId x :: r => let '(l, r') := p_qvars r in (x :: l, r')
  | _ => ([], ts)
  end.

(** [many0(parse_frame_attribute)]: a line that is not an attribute ends the list *)
Fixpoint p_attrs (fuel : nat) (ts : list tok) : res (list (ident * attrval)) :=
  match fuel with
  | O => Fuel
  | S f =>
      match ts with
      | TNewLine :: TIndent :: TId k :: TColon :: r =>
          match r with
          | TString s :: r1 =>
              match p_attrs f r1 with
              | Ok l r2 => Ok ((k, AVString s) :: l) r2
              | o => o
              end
          | _ =>
              match p_expr r with
              | Ok e r1 =>
                  match p_attrs f r1 with
                  | Ok l r2 => Ok ((k, AVExpr e) :: l) r2
                  | o => o
                  end
              | Err => Ok [] ts
              | Panic => Panic | Unk => Unk | Fuel => Fuel
              end
          end
      | _ => Ok [] ts
      end
  end.

Definition p_defcal_gate (vr : variant) (ts : list tok) : res item :=
  match p_gate ts with
  | Ok (IGate mods name ps qs) r =>
      bind (p_colon r) (fun _ r1 => bind (p_block vr r1) (fun body r2 =>
        Ok (DefCal mods name ps qs body) r2))
  | Ok _ _ => Err
  | Err => Err | Panic => Panic | Unk => Unk | Fuel => Fuel
  end.

Definition p_defcal_measure (vr : variant) (ts : list tok) : res item :=
  let '(name, r1) :=
    match ts with
    | TBang :: r0 => match r0 with TId x :: r => (Some x, r) | _ => (None, ts) end
    | _ => (None, ts)
    end in
  bind (p_qubit r1) (fun q r2 =>
    let '(target, r3) := match r2 with TId t :: r => (Some t, r) | _ => (None, r2) end in
    bind (p_colon r3) (fun _ r4 => bind (p_block vr r4) (fun body r5 =>
      Ok (DefCalMeasure name q target body) r5))).

Definition p_defcircuit (vr : variant) (ts : list tok) : res item :=
  match ts with
  | TId name :: r =>
      let '(ps, r1) := p_var_params r in
      let '(qvars, r2) := p_qvars r1 in
      bind (p_colon r2) (fun _ r3 => bind (p_block vr r3) (fun body r4 =>
        Ok (DefCircuit name ps qvars body) r4))
  | _ => Err
  end.

Definition p_defframe (ts : list tok) : res item :=
  bind (p_frame ts) (fun f r => bind (p_colon r) (fun _ r1 =>
    match p_attrs (S (length r1)) r1 with
    | Ok [] _ => Err
    | Ok l r2 => Ok (DefFrame f l) r2
    | Err => Err | Panic => Panic | Unk => Unk | Fuel => Fuel
    end)).

(** [separated_list1(Comma, parse_expression)] *)
Definition p_expr_list1 (ts : list tok) : res (list expr) :=
  match p_expr_list ts with
  | Ok [] _ => Err
  | o => o
  end.

Definition p_defwaveform (ts : list tok) : res item :=
  match ts with
  | TId name :: r =>
      let '(ext, r0) := match wf_ext r with Some (x, r') => (Some x, r') | None => (None, r) end in
      let '(ps, r1) := p_var_params r0 in
      match r1 with
      | TColon :: TNewLine :: TIndent :: r2 =>
          bind (p_expr_list1 r2) (fun es r3 => Ok (DefWaveform name ext ps es) r3)
      | _ => Err
      end
  | _ => Err
  end.

(** ** DEFGATE ([parse_defgate], [parse_matrix], [parse_permutation], [parse_pauli_terms],
    [parse_sequence_elements]).  The validations of [PauliSum::new] / [DefGateSequence::try_new]
    and the spelling of a Pauli word (letters I X Y Z, as many as arguments) are not modelled:
    the words are interned identifiers.  The model parser is therefore only compared on texts the
    real parser accepts. *)

(** a matrix row: [separated_list0((Comma, many0 Indentation), expression)] *)
Fixpoint skip_indents (ts : list tok) : list tok :=
  match ts with TIndent :: r => skip_indents r | _ => ts end.

Fixpoint p_row_tail (fuel : nat) (ts : list tok) : res (list expr) :=
  match fuel with
  | O => Fuel
  | S f =>
      match ts with
      | TComma :: r =>
          match p_expr (skip_indents r) with
          | Ok e r2 =>
              match p_row_tail f r2 with
              | Ok l r3 => Ok (e :: l) r3
              | o => o
              end
          | Err => Ok [] ts
          | Panic => Panic | Unk => Unk | Fuel => Fuel
          end
      | _ => Ok [] ts
      end
  end.

Definition p_row (ts : list tok) : res (list expr) :=
  match p_expr ts with
  | Ok e r =>
      match p_row_tail (S (length r)) r with
      | Ok l r2 => Ok (e :: l) r2
      | o => o
      end
  | Err => Ok [] ts
  | Panic => Panic | Unk => Unk | Fuel => Fuel
  end.

(** [separated_list1(NewLine, Indentation element)] positioned after the first newline: another
    element follows when a newline and an indentation do and the element parses (a recoverable
    error ends the list before that newline) *)
Fixpoint p_lines {A} (pe : list tok -> res A) (fuel : nat) (ts : list tok) : res (list A) :=
  match fuel with
  | O => Fuel
  | S f =>
      match ts with
      | TIndent :: r =>
          bind (pe r) (fun x r1 =>
            match r1 with
            | TNewLine :: TIndent :: r2 =>
                match p_lines pe f (TIndent :: r2) with
                | Ok l r3 => Ok (x :: l) r3
                | Err => Ok [x] r1
                | o => o
                end
            | _ => Ok [x] r1
            end)
      | _ => Err
      end
  end.

Definition p_spec_lines {A} (pe : list tok -> res A) (ts : list tok) : res (list A) :=
  match ts with
  | TNewLine :: r => p_lines pe (S (length r)) r
  | _ => Err
  end.

Fixpoint p_ints_tail (ts : list tok) : list N * list tok :=
  match ts with
  | TComma :: r0 =>
      match r0 with
      | TInt n :: r => let '(l, r') := p_ints_tail r in (n :: l, r')
      | _ => ([], ts)
      end
  | _ => ([], ts)
  end.

Definition p_permutation (ts : list tok) : res (list N) :=
  match ts with
  | TNewLine :: TIndent :: TInt n :: r => let '(l, r') := p_ints_tail r in Ok (n :: l) r'
  | _ => Err
  end.

Fixpoint p_idents (ts : list tok) : list ident * list tok :=
  match ts with
  | TId x :: r => let '(l, r') := p_idents r in (x :: l, r')
  | _ => ([], ts)
  end.

Definition p_pauli_term (ts : list tok) : res (ident * expr * list ident) :=
  match ts with
  | TId w :: TLParen :: r =>
      match p_expr r with
      | Ok e (TRParen :: r1) =>
          match p_idents r1 with
          | ([], _) => Err
          | (args, r2) => Ok (w, e, args) r2
          end
      | Ok _ _ => Err
      | Err => Err | Panic => Panic | Unk => Unk | Fuel => Fuel
      end
  | _ => Err
  end.

Inductive gkind := KMatrix | KPermutation | KPauliSum | KSequence.

Definition p_defgate (ts : list tok) : res item :=
  match ts with
  | TId name :: r =>
      let '(ps, r1) := p_var_params r in
      let '(args, r2) := p_idents r1 in
      let '(kind, r3) :=
        match r2 with
        | TAs :: TMatrix :: r' => (KMatrix, r')
        | TAs :: TPermutation :: r' => (KPermutation, r')
        | TAs :: TPauliSum :: r' => (KPauliSum, r')
        | TAs :: TSequence :: r' => (KSequence, r')
        | _ => (KMatrix, r2)
        end in
      bind (p_colon r3) (fun _ r4 =>
        match kind with
        | KMatrix => bind (p_spec_lines p_row r4) (fun rows r5 => Ok (DefGate name ps (GMatrix rows)) r5)
        | KPermutation => bind (p_permutation r4) (fun p r5 => Ok (DefGate name ps (GPermutation p)) r5)
        | KPauliSum =>
            bind (p_spec_lines p_pauli_term r4) (fun ts r5 => Ok (DefGate name ps (GPauliSum args ts)) r5)
        | KSequence =>
            bind (p_spec_lines p_gate r4) (fun gs r5 => Ok (DefGate name ps (GSequence args gs)) r5)
        end)
  | _ => Err
  end.

(** [parse_instruction] including the definitions *)
Definition p_item (vr : variant) (ts : list tok) : res item :=
  match ts with
  | TCmd CDefCal :: r =>
      match r with
      | TCmd CMeasure :: r' => p_defcal_measure vr r'
      | _ => p_defcal_gate vr r
      end
  | TCmd CDefCircuit :: r => p_defcircuit vr r
  | TCmd CDefFrame :: r => p_defframe r
  | TCmd CDefWaveform :: r => p_defwaveform r
  | TCmd CDefGate :: r => p_defgate r
  | _ => bind (p_instruction vr ts) (fun i r => Ok (Plain i) r)
  end.

Fixpoint p_items_loop (vr : variant) (fuel : nat) (ts : list tok) : res (list item) :=
  match skip ts with
  | [] => Ok [] []
  | ts1 =>
      match fuel with
      | O => Fuel
      | S f =>
          match p_item vr ts1 with
          | Ok i r =>
              match p_items_loop vr f r with
              | Ok l r' => Ok (i :: l) r'
              | o => o
              end
          | Err => Err | Panic => Panic | Unk => Unk | Fuel => Fuel
          end
      end
  end.

Definition p_items (vr : variant) (ts : list tok) : res (list item) :=
  p_items_loop vr (S (length ts)) ts.

(** ** Well-formedness *)
Fixpoint nodup_keys {A} (l : list (ident * A)) : bool :=
  match l with
  | [] => true
  | x :: t => negb (existsb (fun y => ident_eqb (fst x) (fst y)) t) && nodup_keys t
  end.

Definition wf_attr (a : ident * attrval) : bool :=
  match snd a with AVString _ => true | AVExpr e => wf_expr e end.

Definition is_gate (i : instr) : bool := match i with IGate _ _ _ _ => true | _ => false end.

Definition wf_spec (sp : gspec) : bool :=
  match sp with
  | GMatrix rows => nonempty rows && forallb (forallb wf_expr) rows
  | GPermutation perm => nonempty perm
  | GPauliSum _ terms =>
      nonempty terms
      && forallb (fun t : ident * expr * list ident => wf_expr (snd (fst t)) && nonempty (snd t)) terms
  | GSequence _ gates => nonempty gates && forallb (fun g => is_gate g && wf_instr g) gates
  end.

Definition wf_item (it : item) : bool :=
  match it with
  | Plain i => wf_instr i
  | DefGate _ _ sp => wf_spec sp
  | DefCal _ _ ps _ body => forallb wf_expr ps && nonempty body && forallb wf_instr body
  | DefCalMeasure _ _ _ body | DefCircuit _ _ _ body => nonempty body && forallb wf_instr body
  | DefFrame f attrs =>
      nonempty (fst f) && nonempty attrs && nodup_keys attrs && forallb wf_attr attrs
  | DefWaveform _ _ _ entries => nonempty entries && forallb wf_expr entries
  end.

(** the canonical form of what the parser model returns: maps deduplicated *)
Fixpoint amap_insert (x : ident * attrval) (l : list (ident * attrval)) : list (ident * attrval) :=
  match l with
  | [] => [x]
  | y :: t => if ident_eqb (fst x) (fst y) then x :: t else y :: amap_insert x t
  end.

Definition norm_item (it : item) : item :=
  match it with
  | Plain i => Plain (norm_instr i)
  | DefCal m n p q body => DefCal m n p q (map norm_instr body)
  | DefCalMeasure n q t body => DefCalMeasure n q t (map norm_instr body)
  | DefCircuit n p q body => DefCircuit n p q (map norm_instr body)
  | DefFrame f attrs => DefFrame f (fold_left (fun acc x => amap_insert x acc) attrs [])
  | DefWaveform _ _ _ _ | DefGate _ _ _ => it
  end.

(** * Instance checker and case-file entry point *)

Definition flit_eqb (a b : flit) : bool :=
  match a, b with
  | FInt n, FInt m | FLex n, FLex m | FBig n, FBig m => N.eqb n m
  | _, _ => false
  end.

Definition tok_eqb (a b : tok) : bool :=
  match a, b with
  | TCmd c, TCmd d => cmd_beq c d
  | TNonBlocking, TNonBlocking | TAs, TAs | TMatrix, TMatrix | TMutable, TMutable
  | TOffset, TOffset | TPauliSum, TPauliSum | TPermutation, TPermutation | TSequence, TSequence
  | TSharing, TSharing | TBang, TBang | TColon, TColon | TComma, TComma | TLBracket, TLBracket
  | TRBracket, TRBracket | TLParen, TLParen | TRParen, TRParen | TSemicolon, TSemicolon
  | TNewLine, TNewLine | TIndent, TIndent | TComment, TComment => true
  | TDataType c, TDataType d => dtype_beq c d
  | TModifier c, TModifier d => modifier_beq c d
  | TOp c, TOp d => iop_beq c d
  | TId x, TId y | TVar x, TVar y => ident_eqb x y
  | TInt n, TInt m | TTarget n, TTarget m | TString n, TString m => N.eqb n m
  | TFloat f, TFloat g => flit_eqb f g
  | _, _ => false
  end.

Fixpoint toks_eqb (a b : list tok) : bool :=
  match a, b with
  | [], [] => true
  | x :: a', y :: b' => tok_eqb x y && toks_eqb a' b'
  | _, _ => false
  end.

(** A fragment case: the real lexer's tokens of the input text, the implementation's AST of it
    (one instruction), the real lexer's tokens of the implementation's printed text, and the two
    observations of the real chain text1 -> P1 -> text2 -> P2 -> text3 made by the harness
    ([P1 = P2], [text2 = text3]).  The instance checker re-parses the implementation's printed
    tokens with the parser model and requires the implementation's AST back: it is the round-trip
    property on this instance, decided by comparing the printed tokens with [print_instr] of the
    AST (soundness: [print_instr i = t2 -> wf_instr i = true -> parse t2 = i], the C02 theorem).

    An opaque case (instruction kinds outside the fragment, whole programs) carries only the
    observations of the real chain. *)
Inductive case :=
| CFrag (t1 : list tok) (i1 : instr) (t2 : list tok) (p1_eq_p2 t2_eq_t3 : bool)
| CItem (t1 : list tok) (it1 : item) (t2 : list tok) (p1_eq_p2 t2_eq_t3 : bool)
| CProg (its : list item) (t2 : list tok) (p1_eq_p2 t2_eq_t3 : bool)
| COpaque (print_ok p1_eq_p2 t2_eq_t3 : bool).

(** the verified checker: the implementation's output tokens are the model's print of a
    well-formed fragment instruction (hence re-parse to it, by the theorem), and the real chain
    agrees *)
Definition chk_roundtrip (i1 : instr) (t2 : list tok) (p1_eq_p2 t2_eq_t3 : bool) : bool :=
  wf_instr i1 && toks_eqb (print_instr i1) t2 && p1_eq_p2 && t2_eq_t3.

Definition parses_to (ts : list tok) (i : instr) : bool :=
  match p_program Repaired ts with
  | Ok [j] [] => toks_eqb (print_instr (norm_instr j)) (print_instr i)
  | _ => false
  end.

(** the same for a block definition ([CItem]) *)
Definition parses_to_item (ts : list tok) (it : item) : bool :=
  match p_items Repaired ts with
  | Ok [j] [] => toks_eqb (print_item (norm_item j)) (print_item it)
  | _ => false
  end.

(** a whole program ([CProg]): the instruction list [Program::to_instructions] of the parsed
    program (the container's order, which is the order in which it is printed) and the tokens of
    the printed text *)
Definition parses_to_items (ts : list tok) (its : list item) : bool :=
  match p_items Repaired ts with
  | Ok js [] => toks_eqb (print_items (map norm_item js)) (print_items its)
  | _ => false
  end.

(** code 2: the round trip fails on the implementation's own output (the printed tokens do not
    re-parse to the AST, or the real chain reports a difference); code 1: model and
    implementation differ (parser model on the input, or printer model on the AST) although the
    implementation's output does round-trip *)
Definition case_code (c : case) : N :=
  match c with
  | COpaque a b d => if a && b && d then 0%N else 2%N
  | CFrag t1 i1 t2 b d =>
      if negb (b && d) then 2%N
      else if negb (parses_to t2 i1) then 2%N
      else if negb (wf_instr i1 && toks_eqb (print_instr i1) t2) then 1%N
      else if negb (parses_to t1 i1) then 1%N
      else 0%N
  | CItem t1 it1 t2 b d =>
      if negb (b && d) then 2%N
      else if negb (parses_to_item t2 it1) then 2%N
      else if negb (wf_item it1 && toks_eqb (print_item it1) t2) then 1%N
      else if negb (parses_to_item t1 it1) then 1%N
      else 0%N
  | CProg its t2 b d =>
      if negb (b && d) then 2%N
      else if negb (parses_to_items t2 its) then 2%N
      else if negb (forallb wf_item its && toks_eqb (print_items its) t2) then 1%N
      else 0%N
  end.

Fixpoint failing_from (i : N) (l : list case) : list (N * N) :=
  match l with
  | [] => []
  | c :: t =>
      let code := case_code c in
      if N.eqb code 0 then failing_from (N.succ i) t
      else (i, code) :: failing_from (N.succ i) t
  end.

Definition failing (l : list case) : list (N * N) := failing_from 0 l.

(** * C04: placeholders and the fallible serializer [Quil::to_quil]

    An instruction tree built through the API, abstracted to what the serializer's error behaviour
    depends on: the qubit and label-target positions in the order in which [Quil::write] visits
    them, each either concrete or a placeholder, with nested instruction bodies (DEFCAL, DEFCAL
    MEASURE, DEFCIRCUIT) as subtrees.  [write] visits positions left to right and returns the
    first error ([UnresolvedQubitPlaceholder] / [UnresolvedLabelPlaceholder]); with
    [fall_back_to_debug] it never fails. *)
Inductive node :=
| NQ (placeholder : bool)          (* a qubit position *)
| NL (placeholder : bool)          (* a jump / label target position *)
| NB (children : list node).       (* an instruction or a block of instructions *)

Inductive qerr := EQubit | ELabel.

(** [to_quil]: [None] = [Ok text] *)
Fixpoint to_quil_model (n : node) : option qerr :=
  match n with
  | NQ true => Some EQubit
  | NL true => Some ELabel
  | NQ false | NL false => None
  | NB l =>
      (fix go (l : list node) : option qerr :=
         match l with
         | [] => None
         | x :: t => match to_quil_model x with Some e => Some e | None => go t end
         end) l
  end.

Fixpoint has_placeholder (n : node) : bool :=
  match n with
  | NQ b | NL b => b
  | NB l => (fix go (l : list node) : bool :=
               match l with [] => false | x :: t => has_placeholder x || go t end) l
  end.

(** the positions in visiting order *)
Fixpoint leaves (n : node) : list (option qerr) :=
  match n with
  | NQ b => [if b then Some EQubit else None]
  | NL b => [if b then Some ELabel else None]
  | NB l => (fix go (l : list node) : list (option qerr) :=
               match l with [] => [] | x :: t => leaves x ++ go t end) l
  end.

Fixpoint first_some (l : list (option qerr)) : option qerr :=
  match l with [] => None | Some e :: _ => Some e | None :: t => first_some t end.

(** observed result of [to_quil] *)
Inductive qres := QOk | QErrQubit | QErrLabel | QErrOther.

Definition qres_of (o : option qerr) : qres :=
  match o with None => QOk | Some EQubit => QErrQubit | Some ELabel => QErrLabel end.

Definition qres_eqb (a b : qres) : bool :=
  match a, b with
  | QOk, QOk | QErrQubit, QErrQubit | QErrLabel, QErrLabel | QErrOther, QErrOther => true
  | _, _ => false
  end.

(** A C04 case: the tree, the observed [to_quil] result, whether [to_quil_or_debug] returned
    (did not panic), and for placeholder-free trees whether the text re-parsed to an equivalent
    instruction ([None] when there is a placeholder: nothing to re-parse). *)
Definition ph_case := (node * qres * bool * option bool)%type.

(** the property on one instance: error iff placeholder, the error names the kind of the first
    placeholder in visiting order, debug serializer total, and the re-parse of a placeholder-free
    tree is equivalent *)
Definition chk_placeholder (c : ph_case) : bool :=
  let '(n, r, dbg, rp) := c in
  Bool.eqb (negb (qres_eqb r QOk)) (has_placeholder n)
  && qres_eqb r (qres_of (first_some (leaves n)))
  && dbg
  && match rp with Some b => b | None => has_placeholder n end.

Definition ph_code (c : ph_case) : N :=
  let '(n, r, dbg, rp) := c in
  if negb (chk_placeholder c) then 2%N
  else if negb (qres_eqb (qres_of (to_quil_model n)) r) then 1%N
  else 0%N.

Fixpoint ph_failing_from (i : N) (l : list ph_case) : list (N * N) :=
  match l with
  | [] => []
  | c :: t =>
      let code := ph_code c in
      if N.eqb code 0 then ph_failing_from (N.succ i) t
      else (i, code) :: ph_failing_from (N.succ i) t
  end.

Definition ph_failing (l : list ph_case) : list (N * N) := ph_failing_from 0 l.

(** A C04 case extended with the model comparison for a placeholder-free tree that the model AST
    can represent: the tree [a] as built through the API, the real lexer's tokens [t] of the text
    [to_quil] returned, and the abstraction [j] of the real re-parse of that text (if it parsed
    and is representable).  Code 2: the printed tokens do not parse (in the parser model) to the
    tree; code 1: the printer model and the serializer differ on the tree, or the real and the
    model parser differ on the text. *)
Definition frag := (item * list tok * option item)%type.

Definition frag_code (f : frag) : N :=
  let '(a, t, j) := f in
  if negb (parses_to_item t a) then 2%N
  else if negb (wf_item a && toks_eqb (print_item a) t) then 1%N
  else match j with
       | Some j => if toks_eqb (print_item j) (print_item a) then 0%N else 1%N
       | None => 1%N
       end.

Definition phx_case := (ph_case * option frag)%type.

Definition phx_code (c : phx_case) : N :=
  N.max (ph_code (fst c)) (match snd c with Some f => frag_code f | None => 0%N end).

Fixpoint phx_failing_from (i : N) (l : list phx_case) : list (N * N) :=
  match l with
  | [] => []
  | c :: t =>
      let code := phx_code c in
      if N.eqb code 0 then phx_failing_from (N.succ i) t
      else (i, code) :: phx_failing_from (N.succ i) t
  end.

Definition phx_failing (l : list phx_case) : list (N * N) := phx_failing_from 0 l.
