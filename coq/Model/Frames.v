(** Model of quil-rs default frame matching:
    - [FrameSet::get_matching_keys_for_condition] / [FrameSet::filter]  (program/frame.rs)
    - [Instruction::default_frame_match_condition]                       (instruction/mod.rs)
    - [DefaultHandler::matching_frames]                                  (instruction/mod.rs)

    Executable definitions only (no proofs).  Qubits are fixed qubits [N]; frame names are
    interned to [N].  A frame identifier is (qubit *list*, name): the Rust key is
    [FrameIdentifier { name, qubits : Vec<Qubit> }], so [0 1 "x"] and [1 0 "x"] are different
    frames.  The frame set (a HashMap keyed by identifiers) is the list [keys] of its keys; results
    (HashSets) are lists compared as sets. *)
From Coq Require Import List NArith Bool.
Import ListNotations.

Definition frame := (list N * N)%type.
Definition fq (f : frame) : list N := fst f.
Definition fnm (f : frame) : N := snd f.

Fixpoint memN (n : N) (l : list N) : bool :=
  match l with [] => false | x :: t => if N.eqb n x then true else memN n t end.

Fixpoint listN_eqb (a b : list N) : bool :=
  match a, b with
  | [], [] => true
  | x :: a', y :: b' => N.eqb x y && listN_eqb a' b'
  | _, _ => false
  end.

Definition frame_eqb (f g : frame) : bool := listN_eqb (fq f) (fq g) && N.eqb (fnm f) (fnm g).

Fixpoint memF (f : frame) (l : list frame) : bool :=
  match l with [] => false | g :: t => if frame_eqb f g then true else memF f t end.

(** [HashSet<&Qubit>] equality of the frame's qubits (collected into a set) with a qubit set *)
Definition subsetN (a b : list N) : bool := forallb (fun x => memN x b) a.
Definition same_qubits (a b : list N) : bool := subsetN a b && subsetN b a.
Definition shares_qubit (a b : list N) : bool := existsb (fun q => memN q b) a.

(** collecting an iterator into a HashSet: first occurrences kept *)
Fixpoint dedupF (l : list frame) : list frame :=
  match l with
  | [] => []
  | f :: t => if memF f t then dedupF t else f :: dedupF t
  end.

(** [enum FrameMatchCondition] *)
Inductive cond :=
| CAll
| CAnyOfNames (names : list N)
| CAnyOfQubits (qs : list N)
| CExactQubits (qs : list N)
| CSpecific (f : frame)
| CAnd (cs : list cond)
| COr (cs : list cond).

Definition inter (acc el : list frame) : list frame := filter (fun v => memF v el) acc.

(** [get_matching_keys_for_condition] *)
Fixpoint matching (keys : list frame) (c : cond) : list frame :=
  match c with
  | CAll => keys
  | CAnyOfNames names => filter (fun f => memN (fnm f) names) keys
  | CAnyOfQubits qs => filter (fun f => shares_qubit (fq f) qs) keys
  | CExactQubits qs => filter (fun f => same_qubits (fq f) qs) keys
  | CSpecific g => filter (fun f => frame_eqb g f) keys   (* get_key_value: the stored key, if any *)
  | CAnd cs =>
      match cs with
      | [] => []                                            (* reduce(..).unwrap_or_default() *)
      | c0 :: rest => fold_left inter (map (matching keys) rest) (matching keys c0)
      end
  | COr cs => dedupF (flat_map (matching keys) cs)
  end.

(** [FrameSet::filter]: (used, blocked) *)
Definition is_nil {A} (l : list A) : bool := match l with [] => true | _ => false end.

Definition filter_frames (keys : list frame) (cs : option cond * option cond) : list frame * list frame :=
  let '(cu, cb) := cs in
  let used := match cu with None => [] | Some c => matching keys c end in
  let blocked :=
    match cb with
    | None => []
    | Some c =>
        let b := matching keys c in
        if is_nil used then b else filter (fun f => negb (memF f used)) b
    end in
  (used, blocked).

(** The frame-relevant part of an instruction.  The three playing kinds share one match arm in
    the Rust code, as do the five frame updates; the kind is kept so that the correspondence
    exercises each [Instruction] variant. *)
Inductive play_kind := KPulse | KCapture | KRawCapture.
Inductive upd_kind := KSetFrequency | KSetPhase | KSetScale | KShiftFrequency | KShiftPhase.

Inductive finstr :=
| FPlay (k : play_kind) (blocking : bool) (f : frame)
| FDelay (qs : list N) (names : list N)
| FFence (qs : list N)
| FReset (q : option N)
| FUpdate (k : upd_kind) (f : frame)
| FSwapPhases (f1 f2 : frame)
| FOther.   (* every other [Instruction] variant *)

(** [default_frame_match_condition]; [avail] = the program's used-qubit set.
    Result: None, or Some (used, blocked). *)
Definition default_conds (avail : list N) (i : finstr) : option (option cond * option cond) :=
  match i with
  | FPlay _ blocking f =>
      Some (Some (CSpecific f), if blocking then Some (CAnyOfQubits (fq f)) else None)
  | FDelay qs names =>
      Some (Some (if is_nil names then CExactQubits qs
                  else CAnd [CExactQubits qs; CAnyOfNames names]), None)
  | FFence qs => Some (Some (if is_nil qs then CAll else CAnyOfQubits qs), None)
  | FReset q =>
      let qs := match q with Some x => [x] | None => avail end in
      Some (Some (CExactQubits qs), Some (CAnyOfQubits qs))
  | FUpdate _ f => Some (Some (CSpecific f), None)
  | FSwapPhases f1 f2 => Some (Some (COr [CSpecific f1; CSpecific f2]), None)
  | FOther => None
  end.

(** [DefaultHandler::matching_frames] *)
Definition matching_frames (keys : list frame) (avail : list N) (i : finstr)
  : option (list frame * list frame) :=
  option_map (filter_frames keys) (default_conds avail i).

(** ** The property, in its own words, as decidable predicates on one frame.

    [spec_used avail i f] / [spec_blocked avail i f]: whether a *defined* frame [f] is to be
    reported as used / blocked by [i]. *)
Definition spec_used (avail : list N) (i : finstr) (f : frame) : bool :=
  match i with
  | FPlay _ _ g | FUpdate _ g => frame_eqb g f
  | FSwapPhases g1 g2 => frame_eqb g1 f || frame_eqb g2 f
  | FFence qs => if is_nil qs then true else shares_qubit (fq f) qs
  | FDelay qs names => same_qubits (fq f) qs && (is_nil names || memN (fnm f) names)
  | FReset (Some q) => same_qubits (fq f) [q]
  | FReset None => same_qubits (fq f) avail
  | FOther => false
  end.

Definition spec_blocked (avail : list N) (i : finstr) (f : frame) : bool :=
  match i with
  | FPlay _ blocking g => blocking && negb (frame_eqb g f) && shares_qubit (fq f) (fq g)
  | FReset (Some q) => memN q (fq f) && negb (same_qubits (fq f) [q])
  | FReset None => shares_qubit (fq f) avail && negb (same_qubits (fq f) avail)
  | _ => false
  end.

Definition frame_related (i : finstr) : bool := match i with FOther => false | _ => true end.

(** ** Verified instance checker: decide the property on a concrete reported result. *)
Definition subsetF (a b : list frame) : bool := forallb (fun f => memF f b) a.

Definition chk_frames (keys : list frame) (avail : list N) (i : finstr)
           (obs : option (list frame * list frame)) : bool :=
  match obs with
  | None => negb (frame_related i)
  | Some (u, b) =>
      frame_related i
      && subsetF u keys && subsetF b keys
      && forallb (fun f => negb (memF f b)) u
      && forallb (fun f => Bool.eqb (memF f u) (spec_used avail i f)
                           && Bool.eqb (memF f b) (spec_blocked avail i f)) keys
  end.

(** ** Case files.  A case: frame keys, used-qubit set, instruction, the implementation's result
    (each set sorted by the harness).  Verdict 0 = model and implementation agree and the checker
    accepts; 1 = they differ though the checker accepts; 2 = the checker rejects the
    implementation's result. *)
Definition setF_eqb (a b : list frame) : bool := subsetF a b && subsetF b a.

Definition res_eqb (x y : option (list frame * list frame)) : bool :=
  match x, y with
  | None, None => true
  | Some (u, b), Some (u', b') => setF_eqb u u' && setF_eqb b b'
  | _, _ => false
  end.

Definition case := (list frame * list N * finstr * option (list frame * list frame))%type.

Definition case_verdict (c : case) : N :=
  let '(keys, avail, i, obs) := c in
  if negb (chk_frames keys avail i obs) then 2%N
  else if res_eqb (matching_frames keys avail i) obs then 0%N else 1%N.

Fixpoint failing_from (n : N) (cs : list case) : list (N * N) :=
  match cs with
  | [] => []
  | c :: t =>
      let v := case_verdict c in
      (if N.eqb v 0 then [] else [(n, v)]) ++ failing_from (N.succ n) t
  end.

Definition failing (cs : list case) : list (N * N) := failing_from 0%N cs.

(** ** Pointwise meaning of a condition (used to state what [matching] computes):
    [sat c f] — does frame [f] satisfy condition [c]. *)
Fixpoint sat (c : cond) (f : frame) : bool :=
  match c with
  | CAll => true
  | CAnyOfNames names => memN (fnm f) names
  | CAnyOfQubits qs => shares_qubit (fq f) qs
  | CExactQubits qs => same_qubits (fq f) qs
  | CSpecific g => frame_eqb g f
  | CAnd cs => negb (is_nil cs) && forallb (fun c' => sat c' f) cs
  | COr cs => existsb (fun c' => sat c' f) cs
  end.

Definition osat (c : option cond) (f : frame) : bool :=
  match c with None => false | Some c => sat c f end.
