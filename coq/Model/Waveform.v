(** Model of quil-rs built-in waveform sampling (waveform/builtin.rs, builtin/partiality.rs,
    sampling.rs) — the LOGIC only:

    - [sample_count]  = CommonBuiltinParameters::raw_resolve_with_sample_rate (duration x rate,
      round half away from zero, range check, misalignment check) over exact rationals [Q];
    - [pad_samples]   = `(pad * sample_rate).ceil() as usize` (saturating cast);
    - [resolve]       = defaults + partiality of scale / phase / detuning;
    - [sample]        = the seven `raw_iq_values_at_sample_rate` functions, generic in the
      `WaveformData` (Concrete: every real is known; Partial: a real may be missing), with the common
      post-processing  s_k |-> (scale * base_k) * cis(2 pi (detuning * k / rate + phase)),
      the zero-scale shortcut and the placeholder logic.

    NOT modelled: the envelopes (exp / erf / cos — [envelope] is a Section variable), IEEE rounding
    of `duration * sample_rate` and of everything else (reals are an abstract type [R], complex
    numbers an abstract type [C]; sample counts are computed over [Q]), NaN / infinities.
    Definitions only; the proofs are in Proofs/WaveformProofs.v. *)
From Coq Require Import List NArith ZArith QArith Qround Qabs Bool.
Import ListNotations.

(** ** Sample counts over Q *)

Inductive err := ErrRange | ErrMisaligned.

Definition U32_MAX : Z := 4294967295.

(** f64::round: to nearest, ties away from zero. *)
Definition round_half_away (q : Q) : Z :=
  if Qle_bool 0 q then Qfloor (q + (1 # 2)) else Z.opp (Qfloor ((- q) + (1 # 2))).

(** `misalignment.abs() >= max_misalignment` with (after /repo commit b8fb6ef) both in seconds:
    `misalignment = (duration * rate - count) / rate`, `max_misalignment = 1.0 / (rate * 100.0)`,
    i.e. 1% of a sample for a positive rate.  [mis] is the misalignment in samples.  For rate 0 the
    quotient is NaN and the comparison false. *)
Definition misaligned (mis r : Q) : bool :=
  if Qeq_bool r 0 then false else Qle_bool (/ (r * 100)) (Qabs (mis / r)).

(** The rule before that fix compared the misalignment in SAMPLES with the tolerance in seconds. *)
Definition misaligned_unfixed (mis r : Q) : bool :=
  if Qeq_bool r 0 then false else Qle_bool (/ (r * 100)) (Qabs mis).

Definition sample_count (d r : Q) : err + N :=
  let f := d * r in
  let n := round_half_away f in
  let mis := f - inject_Z n in
  if (n <? 0)%Z || (U32_MAX <=? n)%Z then inl ErrRange
  else if misaligned mis r then inl ErrMisaligned
  else inr (Z.to_N n).

Definition sample_count_unfixed (d r : Q) : err + N :=
  let f := d * r in
  let n := round_half_away f in
  let mis := f - inject_Z n in
  if (n <? 0)%Z || (U32_MAX <=? n)%Z then inl ErrRange
  else if misaligned_unfixed mis r then inl ErrMisaligned
  else inr (Z.to_N n).

(** `(pad * sample_rate).ceil() as usize`: the cast saturates, negative values become 0. *)
Definition pad_samples (pad r : Q) : N := Z.to_N (Qceiling (pad * r)).

(** ** Waveform kinds and results *)

Inductive ekind := EGaussian | EDragGaussian | EHermiteGaussian.   (* one sample per time step *)
Inductive pkind := PErfSquare | PRaisedCosine.                     (* zero padded on both sides *)
Inductive kind := KEnv (k : ekind) | KPad (k : pkind).

(** sampling.rs `IqSamples<T>` *)
Inductive iqs (T : Type) := IFlat (v : T) (n : N) | ISamples (l : list T).
Arguments IFlat {T} v n.
Arguments ISamples {T} l.

Definition count {T} (s : iqs T) : N :=
  match s with IFlat _ n => n | ISamples l => N.of_nat (length l) end.

(** `into_iq_values` *)
Definition to_list {T} (s : iqs T) : list T :=
  match s with IFlat v n => repeat v (N.to_nat n) | ISamples l => l end.

(** The observable shape of a result: everything except the sample values. *)
Inductive shp := SFlat | SSamples.
Inductive oshape := OErr (e : err) | OPlaceholder (s : shp) (n : N) | OSamples (s : shp) (n : N).

Definition shp_of {T} (s : iqs T) : shp := match s with IFlat _ _ => SFlat | ISamples _ => SSamples end.

Definition ocount (o : oshape) : option N :=
  match o with OErr _ => None | OPlaceholder _ n => Some n | OSamples _ n => Some n end.

Fixpoint mapi_from {A B} (f : nat -> A -> B) (i : nat) (l : list A) : list B :=
  match l with [] => [] | x :: t => f i x :: mapi_from f (S i) t end.

Section Waveform.
  (** Abstract reals and complex numbers; the laws are Section hypotheses of the proofs. *)
  Variables R C : Type.
  Variables rzero rone : R.
  Variables radd rmul rdiv : R -> R -> R.
  Variable ris0 : R -> bool.              (* `x == 0.0` *)
  Variable ofQ : Q -> R.                  (* indices and the sample rate as reals *)
  Variable czero : C.
  Variable cmul : C -> C -> C.
  Variable inj : R -> C.                  (* real -> complex *)
  Variable cisc : R -> C.                 (* cycles |-> cis (2 pi cycles) *)
  (** the un-scaled envelope sample: kind, concrete kind parameters, rate, duration, time step *)
  Variable envelope : kind -> list R -> Q -> Q -> nat -> C.

  (** `IqSamplesFor<T>` after `into_iq_samples_or_placeholder` / `unwrap_total`, plus the error. *)
  Inductive value := VErr (e : err) | VPartial (s : iqs unit) | VTotal (s : iqs C).

  Definition shape_of (v : value) : oshape :=
    match v with
    | VErr e => OErr e
    | VPartial s => OPlaceholder (shp_of s) (count s)
    | VTotal s => OSamples (shp_of s) (count s)
    end.

  Definition ofN (n : N) : R := ofQ (inject_Z (Z.of_N n)).
  Definition ofnat (k : nat) : R := ofQ (inject_Z (Z.of_nat k)).

  (** `detuning * (index as f64) / sample_rate + phase.0` *)
  Definition angle_at (p det : R) (r : Q) (k : nat) : R :=
    radd (rdiv (rmul det (ofnat k)) (ofQ r)) p.
  (** `iq * cis(2 pi phase)` *)
  Definition apply_phase (z : C) (a : R) : C := cmul z (cisc a).
  Definition apply_pd_at (z : C) (p det : R) (r : Q) (k : nat) : C := apply_phase z (angle_at p det r k).
  (** `Complex64::from_polar(magnitude, 2 pi angle)` *)
  Definition polar (m a : R) : C := cmul (inj m) (cisc a).

  (** the loop of `build_samples_and_adjust_for_builtin_parameters` *)
  Definition adjust (s p det : R) (r : Q) (l : list C) : list C :=
    mapi_from (fun k z => apply_pd_at (cmul (inj s) z) p det r k) 0 l.

  Definition time_samples (k : kind) (xs : list R) (r d : Q) (n : N) : list C :=
    map (envelope k xs r d) (seq 0 (N.to_nat n)).

  Definition padded (lp rp : N) (l : list C) : list C :=
    repeat czero (N.to_nat lp) ++ l ++ repeat czero (N.to_nat rp).

  Section Data.
    (** `WaveformData`: the representation of a real / complex parameter and `Sampleable::eval_real`. *)
    Variables RealT CplxT : Type.
    Variable eval_real : RealT -> option R.
    Variable eval_cplx : CplxT -> option C.

    Record common := Common {
      duration : Q;
      scale : option RealT;
      phase : option RealT;
      detuning : option RealT }.

    Inductive waveform :=
    | WFlat (iq : CplxT)
    | WEnv (k : ekind) (ps : list RealT)
    | WPad (k : pkind) (ps : list RealT) (pad_left pad_right : Q)
    | WBoxcar.

    (** `field.map(T::eval_real).unwrap_or(Ok(default))` *)
    Definition evaluate_or (f : option RealT) (d : R) : option R :=
      match f with None => Some d | Some x => eval_real x end.

    Inductive resolved := RErr (e : err) | RPartial (n : N) | RTotal (n : N) (s p d : R).

    (** raw_resolve_with_sample_rate: the count (or the error) first, partiality second. *)
    Definition resolve (c : common) (r : Q) : resolved :=
      match sample_count (duration c) r with
      | inl e => RErr e
      | inr n =>
          match evaluate_or (scale c) rone, evaluate_or (phase c) rzero, evaluate_or (detuning c) rzero with
          | Some s, Some p, Some d => RTotal n s p d
          | _, _, _ => RPartial n
          end
      end.

    (** `common.scale.is_some_and(|scale| T::eval_real(scale) == Ok(0.0))` *)
    Definition scale_is_zero (c : common) : bool :=
      match scale c with
      | Some x => match eval_real x with Some v => ris0 v | None => false end
      | None => false
      end.

    (** `common.detuning.is_none_or(|detuning| T::eval_real(detuning) == Ok(0.0))` *)
    Definition detuning_is_zero (c : common) : bool :=
      match detuning c with
      | Some x => match eval_real x with Some v => ris0 v | None => false end
      | None => true
      end.

    (** the placeholder of `resolve_for_flat_unless_detuned` *)
    Definition placeholder (c : common) (n : N) : value :=
      VPartial (if detuning_is_zero c then IFlat tt n else ISamples (repeat tt (N.to_nat n))).

    (** `transpose` of a waveform's real fields *)
    Fixpoint eval_all (ps : list RealT) : option (list R) :=
      match ps with
      | [] => Some []
      | p :: t => match eval_real p, eval_all t with
                  | Some x, Some xs => Some (x :: xs)
                  | _, _ => None
                  end
      end.

    (** Gaussian / DragGaussian / HermiteGaussian (lp = rp = 0) and ErfSquare / RaisedCosine. *)
    Definition sample_built (k : kind) (ps : list RealT) (lp rp : N) (c : common) (r : Q) : value :=
      let z0 := scale_is_zero c in
      let all_zero n := VTotal (IFlat czero (lp + n + rp)) in
      let partial n :=
        if z0 then all_zero n else VPartial (ISamples (repeat tt (N.to_nat (lp + n + rp)))) in
      match resolve c r with
      | RErr e => VErr e
      | RPartial n => partial n
      | RTotal n s p d =>
          match eval_all ps with
          | None => partial n
          | Some xs =>
              if z0 then all_zero n
              else VTotal (ISamples (adjust s p d r (padded lp rp (time_samples k xs r (duration c) n))))
          end
      end.

    Definition sample (w : waveform) (c : common) (r : Q) : value :=
      match w with
      | WFlat iq =>
          match resolve c r with
          | RErr e => VErr e
          | RPartial n => placeholder c n
          | RTotal n s p d =>
              match eval_cplx iq with
              | None => placeholder c n
              | Some z =>
                  let sc := cmul (inj s) z in
                  VTotal (if ris0 d then IFlat (apply_phase sc p) n
                          else ISamples (mapi_from (fun k v => apply_pd_at v p d r k) 0
                                                   (repeat sc (N.to_nat n))))
              end
          end
      | WBoxcar =>
          match resolve c r with
          | RErr e => VErr e
          | RPartial n => placeholder c n
          | RTotal n s p d =>
              let mag := rdiv s (ofN n) in
              VTotal (if ris0 d then IFlat (polar mag p) n
                      else ISamples (map (fun k => polar mag (angle_at p d r k)) (seq 0 (N.to_nat n))))
          end
      | WEnv k ps => sample_built (KEnv k) ps 0 0 c r
      | WPad k ps pl pr => sample_built (KPad k) ps (pad_samples pl r) (pad_samples pr r) c r
      end.

    (** The padding of a waveform at a rate (0 for the unpadded kinds). *)
    Definition pads (w : waveform) (r : Q) : N * N :=
      match w with
      | WPad _ _ pl pr => (pad_samples pl r, pad_samples pr r)
      | _ => (0%N, 0%N)
      end.

    (** ** The shape computed directly (no sample lists): what the case files evaluate. *)
    Definition placeholder_shape (c : common) (n : N) : oshape :=
      OPlaceholder (if detuning_is_zero c then SFlat else SSamples) n.

    Definition built_shape (ps : list RealT) (lp rp : N) (c : common) (r : Q) : oshape :=
      let z0 := scale_is_zero c in
      let partial n := if z0 then OSamples SFlat (lp + n + rp) else OPlaceholder SSamples (lp + n + rp) in
      match resolve c r with
      | RErr e => OErr e
      | RPartial n => partial n
      | RTotal n s p d =>
          match eval_all ps with
          | None => partial n
          | Some _ => OSamples (if z0 then SFlat else SSamples) (lp + n + rp)
          end
      end.

    Definition sample_shape (w : waveform) (c : common) (r : Q) : oshape :=
      match w with
      | WFlat iq =>
          match resolve c r with
          | RErr e => OErr e
          | RPartial n => placeholder_shape c n
          | RTotal n s p d =>
              match eval_cplx iq with
              | None => placeholder_shape c n
              | Some _ => OSamples (if ris0 d then SFlat else SSamples) n
              end
          end
      | WBoxcar =>
          match resolve c r with
          | RErr e => OErr e
          | RPartial n => placeholder_shape c n
          | RTotal n s p d => OSamples (if ris0 d then SFlat else SSamples) n
          end
      | WEnv k ps => built_shape ps 0 0 c r
      | WPad k ps pl pr => built_shape ps (pad_samples pl r) (pad_samples pr r) c r
      end.
  End Data.

  (** ** The two instances of the generic code: `Concrete` and `Partial<Concrete>`. *)
  Definition c_eval_real (x : R) : option R := Some x.
  Definition c_eval_cplx (z : C) : option C := Some z.
  Definition p_eval_real (x : option R) : option R := x.
  Definition p_eval_cplx (z : option C) : option C := z.

  Definition sample_concrete := sample R C c_eval_real c_eval_cplx.
  Definition sample_partial := sample (option R) (option C) p_eval_real p_eval_cplx.

  (** A concrete waveform seen as a partial one with every parameter present. *)
  Definition embed_c (c : common R) : common (option R) :=
    Common (option R) (duration R c) (option_map Some (scale R c)) (option_map Some (phase R c))
           (option_map Some (detuning R c)).
  Definition embed_w (w : waveform R C) : waveform (option R) (option C) :=
    match w with
    | WFlat _ _ iq => WFlat _ _ (Some iq)
    | WEnv _ _ k ps => WEnv _ _ k (map Some ps)
    | WPad _ _ k ps pl pr => WPad _ _ k (map Some ps) pl pr
    | WBoxcar _ _ => WBoxcar _ _
    end.
End Waveform.

Arguments Common {RealT} _ _ _ _.
Arguments WFlat {RealT CplxT} _.
Arguments WEnv {RealT CplxT} _ _.
Arguments WPad {RealT CplxT} _ _ _ _.
Arguments WBoxcar {RealT CplxT}.

(** ** The instance checker and the case-file entry point

    Case files instantiate the reals with [Q] (every f64 the harness uses is a dyadic rational and is
    printed exactly) and the complex numbers with [unit]: shapes depend on the parameters only
    through "is it known" and "is it zero". *)

Definition q_is0 (x : Q) : bool := Qeq_bool x 0.

Definition shape_c (w : waveform Q unit) (c : common Q) (r : Q) : oshape :=
  sample_shape Q unit 0 1 q_is0 Q unit (fun x => Some x) (fun z => Some z) w c r.
Definition shape_p (w : waveform (option Q) (option unit)) (c : common (option Q)) (r : Q) : oshape :=
  sample_shape Q unit 0 1 q_is0 (option Q) (option unit) (fun x => x) (fun z => z) w c r.

Definition err_eqb (a b : err) : bool :=
  match a, b with ErrRange, ErrRange | ErrMisaligned, ErrMisaligned => true | _, _ => false end.
Definition shp_eqb (a b : shp) : bool :=
  match a, b with SFlat, SFlat | SSamples, SSamples => true | _, _ => false end.
Definition oshape_eqb (a b : oshape) : bool :=
  match a, b with
  | OErr e, OErr f => err_eqb e f
  | OPlaceholder s n, OPlaceholder t m => shp_eqb s t && N.eqb n m
  | OSamples s n, OSamples t m => shp_eqb s t && N.eqb n m
  | _, _ => false
  end.

(** The length clause on one observed output: when the duration aligns (the modelled count logic
    accepts it) the output is not an error and has [lp + n + rp] samples. *)
Definition chk_len (d r : Q) (lp rp : N) (o : oshape) : bool :=
  match sample_count d r with
  | inl _ => true
  | inr n => match ocount o with Some m => N.eqb m (lp + n + rp) | None => false end
  end.

(** A placeholder and the concrete result have the same length (when neither is an error). *)
Definition chk_same_len (a b : oshape) : bool :=
  match ocount a, ocount b with Some n, Some m => N.eqb n m | _, _ => true end.

(** Does the masked (partial) input only forget parameters of the concrete one? *)
Definition mask_real (p : option (option Q)) (q : option Q) : bool :=
  match p, q with
  | None, None => true
  | Some None, Some _ => true
  | Some (Some x), Some y => Qeq_bool x y
  | _, _ => false
  end.
Fixpoint mask_list (ps : list (option Q)) (qs : list Q) : bool :=
  match ps, qs with
  | [], [] => true
  | p :: ps', q :: qs' => (match p with None => true | Some x => Qeq_bool x q end) && mask_list ps' qs'
  | _, _ => false
  end.
Definition ekind_eqb (a b : ekind) : bool :=
  match a, b with
  | EGaussian, EGaussian | EDragGaussian, EDragGaussian | EHermiteGaussian, EHermiteGaussian => true
  | _, _ => false
  end.
Definition pkind_eqb (a b : pkind) : bool :=
  match a, b with PErfSquare, PErfSquare | PRaisedCosine, PRaisedCosine => true | _, _ => false end.
Definition mask_wf (pw : waveform (option Q) (option unit)) (w : waveform Q unit) : bool :=
  match pw, w with
  | WFlat _, WFlat _ => true
  | WEnv k ps, WEnv k' qs => ekind_eqb k k' && mask_list ps qs
  | WPad k ps pl pr, WPad k' qs pl' pr' =>
      pkind_eqb k k' && mask_list ps qs && Qeq_bool pl pl' && Qeq_bool pr pr'
  | WBoxcar, WBoxcar => true
  | _, _ => false
  end.
Definition mask_common (pc : common (option Q)) (c : common Q) : bool :=
  Qeq_bool (duration _ pc) (duration _ c) && mask_real (scale _ pc) (scale _ c)
  && mask_real (phase _ pc) (phase _ c) && mask_real (detuning _ pc) (detuning _ c).

(** One correspondence case.
    - [cw], [cc], [r]: a concrete waveform, its common parameters, the sample rate;
    - [pw], [pc]: the same with some parameters forgotten (a `Partial<Concrete>` waveform);
    - [oc]: observed shape of `iq_values_at_sample_rate` on the concrete input;
    - [ok]: observed shape of `partial_iq_values_at_sample_rate` on the concrete input with every
      parameter present;
    - [om]: observed shape of `partial_iq_values_at_sample_rate` on the masked input;
    - flags computed numerically by the harness (true when the clause does not apply):
      homogeneity in scale, phase rotation, zero scale gives zeros, all-known partial samples equal
      the concrete samples. *)
Record case := Case {
  cw : waveform Q unit; cc : common Q; rate : Q;
  pw : waveform (option Q) (option unit); pc : common (option Q);
  oc : oshape; ok : oshape; om : oshape;
  f_hom : bool; f_phase : bool; f_zero : bool; f_same : bool }.

Definition embed_cq (c : common Q) : common (option Q) :=
  Common (duration _ c) (option_map Some (scale _ c)) (option_map Some (phase _ c))
         (option_map Some (detuning _ c)).
Definition embed_wq (w : waveform Q unit) : waveform (option Q) (option unit) :=
  match w with
  | WFlat iq => WFlat (Some iq)
  | WEnv k ps => WEnv k (map Some ps)
  | WPad k ps pl pr => WPad k (map Some ps) pl pr
  | WBoxcar => WBoxcar
  end.

(** The property on the implementation's observed outputs (verified checker). *)
Definition chk_case (x : case) : N :=
  let d := duration _ (cc x) in
  let '(lp, rp) := pads Q unit (cw x) (rate x) in
  if negb (chk_len d (rate x) lp rp (oc x) && chk_len d (rate x) lp rp (ok x)
           && chk_len d (rate x) lp rp (om x)) then 2%N
  else if negb (f_hom x) then 3%N
  else if negb (f_phase x) then 4%N
  else if negb (f_zero x) then 5%N
  else if negb (f_same x && oshape_eqb (oc x) (ok x)) then 6%N
  else if negb (chk_same_len (om x) (oc x)) then 7%N
  else 0%N.

Definition case_verdict (x : case) : N :=
  if negb (mask_wf (pw x) (cw x) && mask_common (pc x) (cc x)) then 8%N   (* malformed case *)
  else
    let v := chk_case x in
    if negb (N.eqb v 0) then v
    else if oshape_eqb (shape_c (cw x) (cc x) (rate x)) (oc x)
            && oshape_eqb (shape_p (embed_wq (cw x)) (embed_cq (cc x)) (rate x)) (ok x)
            && oshape_eqb (shape_p (pw x) (pc x) (rate x)) (om x) then 0%N
    else 1%N.

Fixpoint failing_from (i : N) (cs : list case) : list (N * N) :=
  match cs with
  | [] => []
  | c :: t =>
      let v := case_verdict c in
      (if N.eqb v 0 then [] else [(i, v)]) ++ failing_from (N.succ i) t
  end.

Definition failing (cs : list case) : list (N * N) := failing_from 0%N cs.
