(** Model of recursive calibration expansion (quil-rs/src/program/calibration.rs:
    [Calibrations::expand_inner] / [recursively_expand_inner] and the per-instruction loop of
    [Program::expand_calibrations_inner]) at the abstraction level property C18 needs.
    Executable definitions only (no proofs); self-contained (does not use Model/Calib.v).

    Abstraction.  An instruction is [INop] or a gate with a name, ONE parameter and ONE qubit.
    A parameter expression is [Lit k] (a number), [PVar] (the variable %t) or [Plus1 p] (the raw
    expression [p + 1]; substitution does not simplify, so expressions can grow).  Equality of
    instructions (the breadcrumb check [previous_calibrations.contains(instruction)]) is structural
    on raw expressions: [Plus1 (Lit 0)] and [Lit 1] are different.  Matching compares simplified
    parameters: [value p] is the number a closed [p] simplifies to.  A calibration has a parameter
    pattern (a literal or the bare variable %t), a qubit pattern (fixed or the variable q) and a
    body; lookup = most fixed qubits, ties to the later definition (as in C16).
    The unbounded recursion takes explicit fuel; [OutOfFuel] is a distinguished outcome. *)
From Coq Require Import List NArith Bool PeanoNat.
Import ListNotations.

Inductive param := Lit (k : N) | PVar | Plus1 (p : param).
Inductive qubit := QF (n : N) | QV.
Inductive instr := INop | IGate (name : N) (p : param) (q : qubit).

Inductive ppat := CLit (k : N) | CVar.
Record cal := { c_name : N; c_ppat : ppat; c_q : qubit; c_body : list instr }.

Fixpoint param_eqb (a b : param) : bool :=
  match a, b with
  | Lit x, Lit y => N.eqb x y
  | PVar, PVar => true
  | Plus1 x, Plus1 y => param_eqb x y
  | _, _ => false
  end.
Definition qubit_eqb (a b : qubit) : bool :=
  match a, b with QF x, QF y => N.eqb x y | QV, QV => true | _, _ => false end.
Definition instr_eqb (a b : instr) : bool :=
  match a, b with
  | INop, INop => true
  | IGate n p q, IGate n' p' q' => N.eqb n n' && param_eqb p p' && qubit_eqb q q'
  | _, _ => false
  end.
Fixpoint mem (i : instr) (l : list instr) : bool :=
  match l with [] => false | x :: t => instr_eqb x i || mem i t end.

(** the number a variable-free expression simplifies to *)
Fixpoint value (p : param) : option N :=
  match p with
  | Lit k => Some k
  | PVar => None
  | Plus1 p => option_map N.succ (value p)
  end.

(** [CalibrationIdentifier::matches] on this alphabet *)
Definition ppat_match (c : ppat) (p : param) : bool :=
  match c with
  | CVar => true
  | CLit k => match value p with Some v => N.eqb k v | None => false end
  end.
Definition q_match (c g : qubit) : bool :=
  match c, g with
  | QF a, QF b => N.eqb a b
  | QV, _ => true
  | QF _, QV => false
  end.
Definition matches (c : cal) (n : N) (p : param) (q : qubit) : bool :=
  N.eqb (c_name c) n && q_match (c_q c) q && ppat_match (c_ppat c) p.

Definition rank (c : cal) : nat := match c_q c with QF _ => 1 | QV => 0 end.

(** [get_match_for_gate] *)
Definition lookup_step (n : N) (p : param) (q : qubit) (acc : option cal) (c : cal) : option cal :=
  if matches c n p q then
    match acc with
    | None => Some c
    | Some prev => if Nat.leb (rank prev) (rank c) then Some c else Some prev
    end
  else acc.
Definition get_match (cs : list cal) (n : N) (p : param) (q : qubit) : option cal :=
  fold_left (lookup_step n p q) cs None.

(** substitution of the gate's parameter / qubit into a calibration body *)
Fixpoint subst_p (arg : param) (p : param) : param :=
  match p with
  | Lit k => Lit k
  | PVar => arg
  | Plus1 p => Plus1 (subst_p arg p)
  end.
Definition subst_instr (c : cal) (arg : param) (gq : qubit) (i : instr) : instr :=
  match i with
  | INop => INop
  | IGate n p q =>
      IGate n
            (match c_ppat c with CVar => subst_p arg p | CLit _ => p end)
            (match c_q c, q with QV, QV => gq | _, _ => q end)
  end.

(** the instructions an instruction is rewritten to by its matching calibration, if any *)
Definition rewrite (cs : list cal) (i : instr) : option (list instr) :=
  match i with
  | INop => None
  | IGate n p q =>
      match get_match cs n p q with
      | Some c => Some (map (subst_instr c p q) (c_body c))
      | None => None
      end
  end.

Inductive outcome :=
| OutOfFuel
| ErrRecursive (i : instr)            (* ProgramError::RecursiveCalibration(i) *)
| Done (r : option (list instr)).     (* Ok(None) = no calibration matched, Ok(Some expansion) *)

Inductive outcomes := LOutOfFuel | LErr (i : instr) | LDone (l : list instr).

(** the loop of [recursively_expand_inner] / [expand_calibrations_inner] over a list of
    instructions, given the expansion function for one instruction: the first error aborts ([?]),
    an unmatched instruction is kept, a matched one is replaced by its expansion. *)
Fixpoint go_list (e : instr -> outcome) (l : list instr) : outcomes :=
  match l with
  | [] => LDone []
  | j :: t =>
      match e j with
      | OutOfFuel => LOutOfFuel
      | ErrRecursive x => LErr x
      | Done r =>
          match go_list e t with
          | LDone rest => LDone (match r with Some l' => l' | None => [j] end ++ rest)
          | other => other
          end
      end
  end.

Definition lift (o : outcomes) : outcome :=
  match o with
  | LOutOfFuel => OutOfFuel
  | LErr x => ErrRecursive x
  | LDone l => Done (Some l)
  end.

(** [expand_inner]: breadcrumb check first, then match, then every body instruction is expanded
    with this instruction pushed on the path. *)
Fixpoint expand (fuel : nat) (cs : list cal) (path : list instr) (i : instr) : outcome :=
  match fuel with
  | O => OutOfFuel
  | S f =>
      if mem i path then ErrRecursive i
      else match rewrite cs i with
           | None => Done None
           | Some body => lift (go_list (expand f cs (i :: path)) body)
           end
  end.

(** [Program::expand_calibrations]: every body instruction with an empty path *)
Definition expand_program (fuel : nat) (cs : list cal) (prog : list instr) : outcomes :=
  go_list (expand fuel cs []) prog.

(** ** The syntactic non-growing class and its fuel bound *)

(** A body parameter is non-growing if it is variable-free or the bare variable. *)
Fixpoint closed (p : param) : bool :=
  match p with Lit _ => true | PVar => false | Plus1 p => closed p end.
Definition ng_param (p : param) : bool := match p with PVar => true | _ => closed p end.
Definition ng_instr (i : instr) : bool := match i with INop => true | IGate _ p _ => ng_param p end.
Definition non_growing (cs : list cal) : bool := forallb (fun c => forallb ng_instr (c_body c)) cs.

(** The known-finding class (complement on bodies that re-invoke a calibrated gate): some
    calibration with a variable pattern whose body contains a gate whose parameter strictly
    contains the variable and whose name has a calibration. *)
Fixpoint has_var (p : param) : bool :=
  match p with Lit _ => false | PVar => true | Plus1 p => has_var p end.
Definition growing_instr (cs : list cal) (i : instr) : bool :=
  match i with
  | INop => false
  | IGate n p _ => has_var p && negb (match p with PVar => true | _ => false end)
                   && existsb (fun c => N.eqb (c_name c) n) cs
  end.
Definition growing (cs : list cal) : bool :=
  existsb (fun c => match c_ppat c with CVar => existsb (growing_instr cs) (c_body c) | CLit _ => false end) cs.

(** finite universe of instructions reachable from [i] under a non-growing set *)
Definition instr_parts (i : instr) : list N * list param * list qubit :=
  match i with INop => ([], [], []) | IGate n p q => ([n], [p], [q]) end.
Definition body_instrs (cs : list cal) : list instr := concat (map c_body cs).
Definition names_of (l : list instr) : list N := concat (map (fun i => fst (fst (instr_parts i))) l).
Definition params_of (l : list instr) : list param := concat (map (fun i => snd (fst (instr_parts i))) l).
Definition qubits_of (l : list instr) : list qubit := concat (map (fun i => snd (instr_parts i)) l).

Definition universe (cs : list cal) (i : instr) : list instr :=
  let l := i :: body_instrs cs in
  INop :: map (fun x : N * (param * qubit) => IGate (fst x) (fst (snd x)) (snd (snd x)))
              (list_prod (names_of l) (list_prod (params_of l) (qubits_of l))).

Definition bound (cs : list cal) (i : instr) : nat := S (S (length (universe cs i))).

(** ** Case files: calibration set, program, the implementation's verdict. *)
Inductive verdict := VOk (body : list instr) | VRecursive.

Definition instrs_eqb (a b : list instr) : bool :=
  (fix go a b := match a, b with
                 | [], [] => true
                 | x :: a', y :: b' => instr_eqb x y && go a' b'
                 | _, _ => false
                 end) a b.

Definition prog_bound (cs : list cal) (prog : list instr) : nat :=
  fold_left Nat.max (map (bound cs) prog) 2.

(** 0 = agree; 1 = model and implementation differ; 2 = the implementation reported (or failed to
    report) a recursive calibration against the model's breadcrumb semantics.  Cases reach a shard
    only when the implementation terminated; the model is run with the proved bound of the
    non-growing class plus 200 (cases outside that class that still terminate, e.g. a growing chain
    caught by a literal calibration, are compared too; [OutOfFuel] there is a disagreement). *)
Definition case_verdict (c : list cal * list instr * verdict) : N :=
  let '(cs, prog, v) := c in
  match expand_program (prog_bound cs prog + 200) cs prog, v with
       | LDone l, VOk l' => if instrs_eqb l l' then 0%N else 1%N
       | LErr _, VRecursive => 0%N
       | LDone _, VRecursive => 2%N
       | LErr _, VOk _ => 2%N
       | LOutOfFuel, _ => 1%N
       end.

Fixpoint failing_from (i : N) (cs : list (list cal * list instr * verdict)) : list (N * N) :=
  match cs with
  | [] => []
  | c :: t =>
      let v := case_verdict c in
      (if N.eqb v 0 then [] else [(i, v)]) ++ failing_from (N.succ i) t
  end.
Definition failing cs := failing_from 0%N cs.
