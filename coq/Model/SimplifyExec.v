(** The simplifier model instantiated for *execution* against the implementation, and the C12
    case-file entry point.  Executable definitions only.

    Carrier [sv]: [SEx g] a double whose value is exactly known (a small dyadic Gaussian
    rational), [SPi] the double nearest to pi (the constant the simplifier substitutes for the
    symbol pi), [SUnk] a double this model does not compute (results of sin/cos/exp/sqrt/cis,
    of powers, of inexact quotients, NaN, anything computed from pi).  Whenever an [SUnk] is
    created it ends up in the memo table, so a run of the model is *exact* iff its final cache and
    result contain no [SUnk]; only exact runs are compared structurally with the implementation
    (the others are covered by the numeric oracle in the harness).

    [is_zero] / [is_one] are the code's TOLERANT tests here ([x.norm() < 1e-10], strict, on the
    norm; [is_one x = is_zero (x - 1)]), so that the thresholds themselves are compared with the
    implementation.  The theorems of C12 are about tests that imply equality; the gap between the
    two (a constant within 1e-10 of 0 or 1 is treated as 0 or 1) is the known finding
    tolerant-zero, which the harness reproduces numerically. *)
From Coq Require Import List NArith ZArith QArith Bool.
From QV Require Import Model.Expr Model.ExactNum Model.Simplify.
Import ListNotations.

Inductive sv := SEx (g : gq) | SPi | SUnk.

Definition sv_of_xc (x : xc) : sv := match x with Some g => SEx g | None => SUnk end.
Definition sv_neg (a : sv) : sv := match a with SEx g => SEx (g_neg g) | _ => SUnk end.
Definition sv_fun (f : efn) (a : sv) : sv := SUnk.
Definition sv_op (o : infix_op) (a b : sv) : sv :=
  match a, b with
  | SEx x, SEx y => sv_of_xc (x_infix o (Some x) (Some y))
  | _, _ => SUnk
  end.
(** (1e-10)^2; [hypot(re, im) < 1e-10] iff [re^2 + im^2 < 1e-20] away from rounding at the boundary *)
Definition tol_sq : Q := 1 # 100000000000000000000.
Definition g_within_tol (re im : Q) : bool := negb (Qle_bool tol_sq (re * re + im * im)).
Definition sv_is_zero (a : sv) : bool :=
  match a with SEx g => g_within_tol (fst g) (snd g) | _ => false end.
Definition sv_is_one (a : sv) : bool :=
  match a with SEx g => g_within_tol (fst g - 1) (snd g) | _ => false end.
Definition sv_eqb (a b : sv) : bool :=
  match a, b with
  | SEx x, SEx y => g_eqb x y
  | SPi, SPi => true
  | SUnk, SUnk => true
  | _, _ => false
  end.

Definition sv_zero := SEx (0, 0).
Definition sv_one := SEx (1, 0).
Definition sv_two := SEx (2 # 1, 0).

Definition sx := expr sv.

(** Evaluation over the same carrier (total operations, as [Expression::evaluate]). *)
Definition sv_alg : alg sv sv Q := {|
  of_lit := fun c => c;
  of_mem := fun m => SEx (Qred m, 0);
  c_pi := SPi;
  c_neg := sv_neg;
  c_fn := sv_fun;
  c_infix := fun o x y => Some (sv_op o x y);
|}.

(** [k] times [0 + _] around [e] *)
Fixpoint zero_plus (k : nat) (e : expr sv) : expr sv :=
  match k with O => e | S k' => Infix (Num sv_zero) Plus (zero_plus k' e) end.

Definition x_run_st : sx -> sx * st sv :=
  run_st sv sv_zero sv_one sv_two SPi SUnk sv_neg sv_fun sv_op sv_is_zero sv_is_one sv_eqb.
Definition x_run (e : sx) : sx := fst (x_run_st e).
Definition x_simplify (limit : nat) : st sv -> sx -> sx * st sv :=
  simplify sv sv_zero sv_one sv_two SPi SUnk sv_neg sv_fun sv_op sv_is_zero sv_is_one sv_eqb limit.

Fixpoint has_unk (e : sx) : bool :=
  match e with
  | Num SUnk => true
  | Num _ | Pi | Var _ | Addr _ _ => false
  | Fn _ a | Prefix _ a => has_unk a
  | Infix l _ r => has_unk l || has_unk r
  end.

Definition inexact_run (res : sx * st sv) : bool :=
  has_unk (fst res) || existsb (fun kv => has_unk (fst kv) || has_unk (snd kv)) (cache (snd res)).

Definition sx_eqb : sx -> sx -> bool := expr_eqb sv_eqb.

(** A case: the input and the implementation's [into_simplified()].
    Verdict: 0 = exact run and the implementation's result is structurally the model's, or an
    inexact run (not compared here); 1 = structural disagreement on an exact run;
    2 = the implementation's result breaks a clause the checker decides without arithmetic:
    it is the symbol pi, or mentions a variable / memory reference the input does not. *)
Definition c12case := (sx * sx)%type.

Fixpoint mem_N (x : N) (l : list N) : bool :=
  match l with [] => false | y :: t => N.eqb x y || mem_N x t end.
Fixpoint mem_ref (x : memref) (l : list memref) : bool :=
  match l with [] => false | y :: t => memref_eqb x y || mem_ref x t end.

Definition chk_c12 (e out : sx) : bool :=
  negb (match out with Pi => true | _ => false end)
  && forallb (fun x => mem_N x (vars e)) (vars out)
  && forallb (fun r => mem_ref r (addrs e)) (addrs out).

Definition case_verdict (c : c12case) : N :=
  let '(e, out) := c in
  if negb (chk_c12 e out) then 2%N
  else
    let res := x_run_st e in
    if inexact_run res then 0%N
    else if sx_eqb (fst res) out then 0%N else 1%N.

Fixpoint failing_from (i : N) (cs : list c12case) : list (N * N) :=
  match cs with
  | [] => []
  | c :: t =>
      let v := case_verdict c in
      (if N.eqb v 0 then [] else [(i, v)]) ++ failing_from (N.succ i) t
  end.
Definition failing (cs : list c12case) : list (N * N) := failing_from 0%N cs.

(** For the evidence: how many cases of a shard were exact runs. *)
Definition exact_runs (cs : list c12case) : N :=
  N.of_nat (length (filter (fun c : c12case => negb (inexact_run (x_run_st (fst c)))) cs)).
