(** C34 — placeholder resolution (program/mod.rs: resolve_placeholders,
    resolve_placeholders_with_custom_resolvers, default_target_resolver, default_qubit_resolver;
    instruction/mod.rs: Instruction::resolve_placeholders, get_qubits, get_qubits_mut;
    qubit.rs / control_flow.rs: Qubit::resolve_placeholder, Target::resolve_placeholder).

    Executable definitions only.  A body instruction is abstracted to what resolution can see or
    touch: its kind (which arm of the Rust [match]es it takes), every qubit occurrence anywhere in
    it, in field order, and every target occurrence.  "Occurs in the instruction" is therefore
    structural ([iqubits], [itargets]) and independent of the arm tables [visible] (= the arms of
    [get_qubits]/[get_qubits_mut] that return the qubits) and [is_target_kind] (= the arms of
    [Program::get_targets] / [Instruction::resolve_placeholders]).

    Placeholder identity is pointer identity of the [Arc] in Rust; here an id of type [N]. *)
From Coq Require Import List NArith Bool String Decimal DecimalString.
Import ListNotations.
Open Scope N_scope.

Inductive qubit := QFixed (n : N) | QPh (id : N) | QVar (v : N).
(** [TPh id base]: a [TargetPlaceholder] with identity [id] wrapping the base label [base]. *)
Inductive target := TFixed (s : string) | TPh (id : N) (base : string).

Inductive kind :=
| KGate | KMeasure | KReset | KDelay | KFence | KPulse | KCapture | KRawCapture
| KSetFrequency | KSetPhase | KSetScale | KShiftFrequency | KShiftPhase | KSwapPhases
| KLabel | KJump | KJumpWhen | KJumpUnless
| KOther.

Record instr := Instr { ikind : kind; iqubits : list qubit; itargets : list target }.

(** Which kinds have qubit fields / a target field in the AST (independent of the code under
    test; this is the well-formedness of the abstraction). *)
Definition carries_qubits (k : kind) : bool :=
  match k with
  | KGate | KMeasure | KReset | KDelay | KFence | KPulse | KCapture | KRawCapture
  | KSetFrequency | KSetPhase | KSetScale | KShiftFrequency | KShiftPhase | KSwapPhases => true
  | _ => false
  end.
Definition carries_target (k : kind) : bool :=
  match k with KLabel | KJump | KJumpWhen | KJumpUnless => true | _ => false end.

Definition wf_instr (i : instr) : bool :=
  (carries_qubits (ikind i) || match iqubits i with [] => true | _ => false end)
  && (if carries_target (ikind i) then Nat.eqb (List.length (itargets i)) 1
      else match itargets i with [] => true | _ => false end).
Definition wf_body (b : list instr) : bool := forallb wf_instr b.

(** ** The code under test *)

(** [Instruction::get_qubits] / [get_qubits_mut]: [true] for the arms that return the
    instruction's qubits, [false] for the [_ => vec![]] arm.  The frame-update arms
    (SET-FREQUENCY … SWAP-PHASES) are those of the repaired code (fix: get_qubits covers the
    frames of frame-update instructions). *)
Definition visible (k : kind) : bool :=
  match k with
  | KGate | KMeasure | KReset | KDelay | KFence | KCapture | KPulse | KRawCapture => true
  | KSetFrequency | KSetPhase | KSetScale | KShiftFrequency | KShiftPhase | KSwapPhases => true
  | _ => false
  end.
Definition get_qubits (i : instr) : list qubit := if visible (ikind i) then iqubits i else [].

(** The four arms shared by [Program::get_targets] and [Instruction::resolve_placeholders]. *)
Definition is_target_kind (k : kind) : bool :=
  match k with KLabel | KJump | KJumpWhen | KJumpUnless => true | _ => false end.
Definition get_targets (b : list instr) : list target :=
  flat_map (fun i => if is_target_kind (ikind i) then itargets i else []) b.

(** Sets: [HashSet] as a list (membership is all that is observed), [IndexSet] as a list in
    insertion order without duplicates. *)
Definition mem (x : N) (l : list N) : bool := existsb (N.eqb x) l.
Definition smem (x : string) (l : list string) : bool := existsb (String.eqb x) l.
Definition iinsert (x : N) (l : list N) : list N := if mem x l then l else l ++ [x].
Definition pmem (x : N) (l : list (N * string)) : bool := existsb (fun p => N.eqb x (fst p)) l.
Definition pinsert (x : N) (b : string) (l : list (N * string)) : list (N * string) :=
  if pmem x l then l else l ++ [(x, b)].

(** The search loops ([(0u64..).filter(..)] and [while fixed_labels.contains(..)]): first index
    from [k] on that is not taken.  Fuel is |taken set| + 1 at the call sites, which suffices
    (pigeonhole, proved). *)
Fixpoint first_free (taken : N -> bool) (fuel : nat) (k : N) : N :=
  match fuel with
  | O => k
  | S f => if taken k then first_free taken f (N.succ k) else k
  end.

(** *** default_qubit_resolver *)
Fixpoint scan_qubits (qs : list qubit) (used phs : list N) : list N * list N :=
  match qs with
  | [] => (used, phs)
  | QFixed n :: t => scan_qubits t (n :: used) phs
  | QPh p :: t => scan_qubits t used (iinsert p phs)
  | QVar _ :: t => scan_qubits t used phs
  end.

(** [qubit_placeholders.into_iter().zip((0u64..).filter(|i| !qubits_used.contains(i)))] *)
Fixpoint zip_free (phs used : list N) (k : N) : list (N * N) :=
  match phs with
  | [] => []
  | p :: t =>
      let v := first_free (fun i => mem i used) (S (List.length used)) k in
      (p, v) :: zip_free t used (N.succ v)
  end.

Definition default_qubit_map (b : list instr) : list (N * N) :=
  let '(used, phs) := scan_qubits (flat_map get_qubits b) [] [] in zip_free phs used 0.

Fixpoint lookupN (m : list (N * N)) (p : N) : option N :=
  match m with [] => None | (k, v) :: t => if N.eqb p k then Some v else lookupN t p end.
Definition default_qubit_resolver (b : list instr) : N -> option N := lookupN (default_qubit_map b).

(** *** default_target_resolver *)
Fixpoint scan_targets (ts : list target) (fixed : list string) (phs : list (N * string))
  : list string * list (N * string) :=
  match ts with
  | [] => (fixed, phs)
  | TFixed s :: t => scan_targets t (s :: fixed) phs
  | TPh p b :: t => scan_targets t fixed (pinsert p b phs)
  end.

(** [format!("{base_label}_{k}")] *)
Definition dec (k : N) : string := NilZero.string_of_uint (N.to_uint k).
Definition label_name (base : string) (k : N) : string := (base ++ "_" ++ dec k)%string.

Fixpoint assign_labels (phs : list (N * string)) (fixed : list string) : list (N * string) :=
  match phs with
  | [] => []
  | (p, base) :: t =>
      let k := first_free (fun i => smem (label_name base i) fixed) (S (List.length fixed)) 0 in
      let l := label_name base k in
      (p, l) :: assign_labels t (l :: fixed)
  end.

Definition default_target_map (b : list instr) : list (N * string) :=
  let '(fixed, phs) := scan_targets (get_targets b) [] [] in assign_labels phs fixed.

Fixpoint lookupS (m : list (N * string)) (p : N) : option string :=
  match m with [] => None | (k, v) :: t => if N.eqb p k then Some v else lookupS t p end.
(** A target resolver sees the placeholder (identity and base label). *)
Definition default_target_resolver (b : list instr) : N -> string -> option string :=
  fun p _ => lookupS (default_target_map b) p.

(** *** Qubit::resolve_placeholder, Target::resolve_placeholder, Instruction::resolve_placeholders *)
Definition resolve_qubit (qr : N -> option N) (q : qubit) : qubit :=
  match q with
  | QPh p => match qr p with Some v => QFixed v | None => q end
  | _ => q
  end.
Definition resolve_target (tr : N -> string -> option string) (t : target) : target :=
  match t with
  | TPh p b => match tr p b with Some s => TFixed s | None => t end
  | _ => t
  end.

Definition resolve_instr (tr : N -> string -> option string) (qr : N -> option N) (i : instr) : instr :=
  if is_target_kind (ikind i)
  then Instr (ikind i) (iqubits i) (map (resolve_target tr) (itargets i))
  else if visible (ikind i)                       (* for qubit in other.get_qubits_mut() *)
       then Instr (ikind i) (map (resolve_qubit qr) (iqubits i)) (itargets i)
       else i.

(** resolve_placeholders_with_custom_resolvers / resolve_placeholders *)
Definition resolve_with tr qr (b : list instr) : list instr := map (resolve_instr tr qr) b.
Definition resolve_default (b : list instr) : list instr :=
  resolve_with (default_target_resolver b) (default_qubit_resolver b) b.

(** ** Independent vocabulary of the property *)
Definition all_qubits (b : list instr) : list qubit := flat_map iqubits b.
Definition all_targets (b : list instr) : list target := flat_map itargets b.
(** Replace at EVERY occurrence, whatever the kind. *)
Definition subst_instr (fq : qubit -> qubit) (ft : target -> target) (i : instr) : instr :=
  Instr (ikind i) (map fq (iqubits i)) (map ft (itargets i)).
Definition subst_body fq ft (b : list instr) : list instr := map (subst_instr fq ft) b.

(** ** Verified instance checker *)
Definition kind_eqb (a b : kind) : bool :=
  match a, b with
  | KGate, KGate | KMeasure, KMeasure | KReset, KReset | KDelay, KDelay | KFence, KFence
  | KPulse, KPulse | KCapture, KCapture | KRawCapture, KRawCapture
  | KSetFrequency, KSetFrequency | KSetPhase, KSetPhase | KSetScale, KSetScale
  | KShiftFrequency, KShiftFrequency | KShiftPhase, KShiftPhase | KSwapPhases, KSwapPhases
  | KLabel, KLabel | KJump, KJump | KJumpWhen, KJumpWhen | KJumpUnless, KJumpUnless
  | KOther, KOther => true
  | _, _ => false
  end.
Definition qubit_eqb (a b : qubit) : bool :=
  match a, b with
  | QFixed x, QFixed y | QPh x, QPh y | QVar x, QVar y => N.eqb x y
  | _, _ => false
  end.
Definition target_eqb (a b : target) : bool :=
  match a, b with
  | TFixed x, TFixed y => String.eqb x y
  | TPh x bx, TPh y by_ => N.eqb x y && String.eqb bx by_
  | _, _ => false
  end.
Fixpoint list_eqb {A} (eqb : A -> A -> bool) (a b : list A) : bool :=
  match a, b with
  | [], [] => true
  | x :: a', y :: b' => eqb x y && list_eqb eqb a' b'
  | _, _ => false
  end.
Definition instr_eqb (a b : instr) : bool :=
  kind_eqb (ikind a) (ikind b) && list_eqb qubit_eqb (iqubits a) (iqubits b)
  && list_eqb target_eqb (itargets a) (itargets b).
Definition body_eqb := list_eqb instr_eqb.

(** Read the assignment off the implementation's output: first (placeholder, fixed value) pair
    per placeholder id, pairing input and output occurrences positionally. *)
Fixpoint extract_q (ins outs : list qubit) (m : list (N * N)) : list (N * N) :=
  match ins, outs with
  | QPh p :: i', QFixed v :: o' =>
      extract_q i' o' (match lookupN m p with Some _ => m | None => m ++ [(p, v)] end)
  | _ :: i', _ :: o' => extract_q i' o' m
  | _, _ => m
  end.
Fixpoint extract_t (ins outs : list target) (m : list (N * string)) : list (N * string) :=
  match ins, outs with
  | TPh p _ :: i', TFixed s :: o' =>
      extract_t i' o' (match lookupS m p with Some _ => m | None => m ++ [(p, s)] end)
  | _ :: i', _ :: o' => extract_t i' o' m
  | _, _ => m
  end.

Definition is_qph (q : qubit) : bool := match q with QPh _ => true | _ => false end.
Definition is_tph (t : target) : bool := match t with TPh _ _ => true | _ => false end.
Definition fixed_qubits (qs : list qubit) : list N :=
  flat_map (fun q => match q with QFixed n => [n] | _ => [] end) qs.
Definition fixed_targets (ts : list target) : list string :=
  flat_map (fun t => match t with TFixed s => [s] | _ => [] end) ts.
Definition ph_ids_q (qs : list qubit) : list N :=
  flat_map (fun q => match q with QPh p => [p] | _ => [] end) qs.
Definition ph_ids_t (ts : list target) : list N :=
  flat_map (fun t => match t with TPh p _ => [p] | _ => [] end) ts.

(** all pairs of ids that occur get different values *)
Definition injective_on {V} (eqb : V -> V -> bool) (f : N -> option V) (ids : list N) : bool :=
  forallb (fun p1 => forallb (fun p2 =>
     match f p1, f p2 with
     | Some v1, Some v2 => N.eqb p1 p2 || negb (eqb v1 v2)
     | _, _ => true
     end) ids) ids.

(** A case's resolver modes: [None] = the default resolver, [Some tbl] = a custom resolver
    returning exactly the table's entries. *)
Definition tmode := option (list (N * string)).
Definition qmode := option (list (N * N)).

(** Verdict code of the checker on input body [b], modes, implementation output [o]:
    0 accepted; 2 output is not "[b] with each placeholder replaced by one value per id, everything
    else unchanged" (for custom sides: by exactly the table); 3 a placeholder of a
    default-resolved sort remains; 4 two placeholders share a value; 5 a resolved qubit equals a
    fixed qubit of the body; 6 a resolved label equals a fixed label / jump target of the body. *)
Definition chk (b : list instr) (tm : tmode) (qm : qmode) (o : list instr) : N :=
  let fq := lookupN (match qm with Some tbl => tbl | None => extract_q (all_qubits b) (all_qubits o) [] end) in
  let ft := lookupS (match tm with Some tbl => tbl | None => extract_t (all_targets b) (all_targets o) [] end) in
  let qfix := fixed_qubits (all_qubits b) in
  let tfix := fixed_targets (all_targets b) in
  let qids := ph_ids_q (all_qubits b) in
  let tids := ph_ids_t (all_targets b) in
  if (match qm with None => existsb is_qph (all_qubits o) | _ => false end)
     || (match tm with None => existsb is_tph (all_targets o) | _ => false end) then 3
  else if negb (body_eqb o (subst_body (resolve_qubit fq) (resolve_target (fun p _ => ft p)) b)) then 2
  else if (match qm with None => negb (injective_on N.eqb fq qids) | _ => false end)
       || (match tm with None => negb (injective_on String.eqb ft tids) | _ => false end) then 4
  else if (match qm with
           | None => existsb (fun p => match fq p with Some v => mem v qfix | None => false end) qids
           | _ => false end) then 5
  else if (match tm with
           | None => existsb (fun p => match ft p with Some s => smem s tfix | None => false end) tids
           | _ => false end) then 6
  else 0.

(** ** Case files: (input body, target mode, qubit mode, implementation's output body). *)
Definition case : Type := list instr * tmode * qmode * list instr.

Definition model_out (b : list instr) (tm : tmode) (qm : qmode) : list instr :=
  resolve_with
    (match tm with Some tbl => (fun p _ => lookupS tbl p) | None => default_target_resolver b end)
    (match qm with Some tbl => lookupN tbl | None => default_qubit_resolver b end) b.

Definition case_verdict (c : case) : N :=
  let '(b, tm, qm, o) := c in
  if negb (wf_body b) then 1
  else
    let v := chk b tm qm o in
    if negb (N.eqb v 0) then v
    else if body_eqb (model_out b tm qm) o then 0 else 1.

Fixpoint failing_from (i : N) (cs : list case) : list (N * N) :=
  match cs with
  | [] => []
  | c :: t =>
      let v := case_verdict c in
      (if N.eqb v 0 then [] else [(i, v)]) ++ failing_from (N.succ i) t
  end.
Definition failing (cs : list case) : list (N * N) := failing_from 0 cs.
