(** C35 — dead-code removal: [Program::simplify] (program/mod.rs), with the frame matching it
    relies on ([FrameSet::filter], [get_matching_keys_for_condition],
    [Instruction::default_frame_match_condition], [DefaultHandler::matching_frames]).

    Executable definitions only.  Names (frame names, waveforms, externs, memory regions, gates,
    circuits) are interned to [N]; the text of a definition / of a body instruction is interned to
    an opaque payload id, so "unchanged" means same key and same payload.  A frame identifier is
    (qubit list, name) as in the Rust key [FrameIdentifier { name, qubits : Vec<Qubit> }].
    Containers: [IndexMap]s are association lists in order, the [FrameSet] ([HashMap]) and all
    [HashSet]s are lists observed through membership only.

    Calibration expansion itself is the subject of C17–C19; here it is a parameter
    [expand : program -> option program] (in the case files: the implementation's own
    [expand_calibrations] result). *)
From Coq Require Import List NArith Bool.
From QV Require Import Model.DepQueue.
Import ListNotations.
Open Scope N_scope.

Definition frame := (list N * N)%type.
Definition fqs (f : frame) : list N := fst f.
Definition fname (f : frame) : N := snd f.

Definition mem (x : N) (l : list N) : bool := existsb (N.eqb x) l.
Fixpoint listN_eqb (a b : list N) : bool :=
  match a, b with
  | [], [] => true
  | x :: a', y :: b' => N.eqb x y && listN_eqb a' b'
  | _, _ => false
  end.
Definition frame_eqb (f g : frame) : bool := listN_eqb (fqs f) (fqs g) && N.eqb (fname f) (fname g).
Definition memF (f : frame) (l : list frame) : bool := existsb (frame_eqb f) l.

(** ** Frame matching *)

(** The leaves of [FrameMatchCondition].  [default_frame_match_condition] only ever builds
    leaves, an [And] of leaves (DELAY with frame names) or an [Or] of leaves (SWAP-PHASES). *)
Inductive acond :=
| AAll
| AAnyOfNames (names : list N)
| AAnyOfQubits (qs : list N)
| AExactQubits (qs : list N)
| ASpecific (f : frame).
Inductive cond := CAtom (a : acond) | CAnd (l : list acond) | COr (l : list acond).

Definition subsetN (a b : list N) : bool := forallb (fun x => mem x b) a.
(** [f.qubits.iter().collect::<HashSet<_>>() == qubits] *)
Definition same_qubits (a b : list N) : bool := subsetN a b && subsetN b a.
(** [f.qubits.iter().any(|q| qubits.contains(&q))] *)
Definition shares_qubit (a b : list N) : bool := existsb (fun q => mem q b) a.

(** Whether one frame identifier satisfies a leaf condition. *)
Definition satA (a : acond) (f : frame) : bool :=
  match a with
  | AAll => true
  | AAnyOfNames names => mem (fname f) names
  | AAnyOfQubits qs => shares_qubit (fqs f) qs
  | AExactQubits qs => same_qubits (fqs f) qs
  | ASpecific g => frame_eqb g f
  end.

(** [get_matching_keys_for_condition], arm by arm. *)
Definition matchA (keys : list frame) (a : acond) : list frame :=
  match a with
  | AAll => keys
  | AAnyOfNames names => filter (fun f => mem (fname f) names) keys
  | AAnyOfQubits qs => filter (fun f => shares_qubit (fqs f) qs) keys
  | AExactQubits qs => filter (fun f => same_qubits (fqs f) qs) keys
  | ASpecific g => filter (fun f => frame_eqb g f) keys     (* get_key_value: the stored key if present *)
  end.
Definition inter (acc el : list frame) : list frame := filter (fun v => memF v el) acc.
Definition matching (keys : list frame) (c : cond) : list frame :=
  match c with
  | CAtom a => matchA keys a
  | CAnd [] => []                                            (* reduce(..).unwrap_or_default() *)
  | CAnd (a0 :: rest) => fold_left inter (map (matchA keys) rest) (matchA keys a0)
  | COr l => flat_map (matchA keys) l
  end.

Definition is_nil {A} (l : list A) : bool := match l with [] => true | _ => false end.

(** [FrameSet::filter]: (used, blocked) *)
Definition filter_frames (keys : list frame) (cs : option cond * option cond) : list frame * list frame :=
  let '(cu, cb) := cs in
  let used := match cu with None => [] | Some c => matching keys c end in
  let blocked :=
    match cb with
    | None => []
    | Some c =>
        let b := matching keys c in
        if is_nil used then b else filter (fun f => negb (memF f used)) b
    end in
  (used, blocked).

(** The frame-relevant part of a body instruction. *)
Inductive finstr :=
| FPlay (blocking : bool) (f : frame)          (* PULSE / CAPTURE / RAW-CAPTURE *)
| FDelay (qs : list N) (names : list N)
| FFence (qs : list N)
| FReset (q : option N)
| FUpdate (f : frame)                          (* SET-/SHIFT-* *)
| FSwapPhases (f1 f2 : frame)
| FOther.

(** [default_frame_match_condition]; [avail] = the program's used-qubit cache. *)
Definition default_conds (avail : list N) (i : finstr) : option (option cond * option cond) :=
  match i with
  | FPlay blocking f =>
      Some (Some (CAtom (ASpecific f)), if blocking then Some (CAtom (AAnyOfQubits (fqs f))) else None)
  | FDelay qs names =>
      Some (Some (if is_nil names then CAtom (AExactQubits qs)
                  else CAnd [AExactQubits qs; AAnyOfNames names]), None)
  | FFence qs => Some (Some (CAtom (if is_nil qs then AAll else AAnyOfQubits qs)), None)
  | FReset q =>
      let qs := match q with Some x => [x] | None => avail end in
      Some (Some (CAtom (AExactQubits qs)), Some (CAtom (AAnyOfQubits qs)))
  | FUpdate f => Some (Some (CAtom (ASpecific f)), None)
  | FSwapPhases f1 f2 => Some (Some (COr [ASpecific f1; ASpecific f2]), None)
  | FOther => None
  end.

(** [DefaultHandler::matching_frames] *)
Definition matching_frames (keys : list frame) (avail : list N) (i : finstr)
  : option (list frame * list frame) :=
  option_map (filter_frames keys) (default_conds avail i).

(** ** Programs and [simplify] *)

(** A body instruction as [simplify] sees it: frame part, [get_waveform_invocation] name, CALL
    name, and the interned text of the whole instruction. *)
Record binstr := BI { bi_frame : finstr; bi_wf : option N; bi_call : option N; bi_text : N }.

Record program := Prog {
  p_body : list binstr;
  p_cals : list N;                      (* calibration definitions (payload ids) *)
  p_frames : list (frame * N);          (* FrameSet: identifier, attributes payload *)
  p_waveforms : list (N * N);           (* name, definition payload *)
  p_externs : list (option N * N);      (* ExternPragmaMap: key (None = pragma without a name), payload *)
  p_decls : list (N * N);
  p_gates : list (N * N);
  p_circuits : list (N * N);
  p_avail : list N                      (* used_qubits cache *)
}.

Definition keys (p : program) : list frame := map fst (p_frames p).

(** the three [HashSet]s filled by the loop over the expanded body *)
Definition frames_used (e : program) : list frame :=
  flat_map (fun bi => match matching_frames (keys e) (p_avail e) (bi_frame bi) with
                      | Some (used, _) => used
                      | None => []
                      end) (p_body e).
Definition opt_list {A} (o : option A) : list A := match o with Some x => [x] | None => [] end.
Definition waveforms_used (e : program) : list N := flat_map (fun bi => opt_list (bi_wf bi)) (p_body e).
Definition externs_used (e : program) : list N := flat_map (fun bi => opt_list (bi_call bi)) (p_body e).

Definition simplify (expand : program -> option program) (p : program) : option program :=
  match expand p with
  | None => None                                       (* expand_calibrations()? *)
  | Some e =>
      Some {| p_body := p_body e;
              p_cals := [];                            (* Calibrations::default() *)
              (* self.frames.intersection(&frames_used): note SELF, not the expanded program *)
              p_frames := filter (fun fd => memF (fst fd) (frames_used e)) (p_frames p);
              p_waveforms := filter (fun w => mem (fst w) (waveforms_used e)) (p_waveforms e);
              p_externs := filter (fun x => match fst x with
                                            | Some n => mem n (externs_used e)
                                            | None => false
                                            end) (p_externs e);
              p_decls := p_decls e;
              p_gates := p_gates e;
              p_circuits := p_circuits e;
              p_avail := p_avail e |}
  end.

(** ** The property's own vocabulary (independent of [matching]): pointwise predicates. *)
Definition sat (c : cond) (f : frame) : bool :=
  match c with
  | CAtom a => satA a f
  | CAnd l => negb (is_nil l) && forallb (fun a => satA a f) l
  | COr l => existsb (fun a => satA a f) l
  end.
(** a defined frame [f] is used / blocked by instruction [i] *)
Definition uses (avail : list N) (i : finstr) (f : frame) : bool :=
  match default_conds avail i with
  | Some (Some c, _) => sat c f
  | _ => false
  end.
Definition blocks (avail : list N) (i : finstr) (f : frame) : bool :=
  match default_conds avail i with
  | Some (_, Some c) => sat c f && negb (uses avail i f)
  | _ => false
  end.

(** ** A frame that is only ever blocked, in the scheduling graph.
    One frame's queue in [ScheduledBasicBlock::build] (DepQueue model of C23; the block start is
    node 0 and is the implicit initial user): the accesses of a never-used frame are all [AR]. *)
Definition blocked_only_edges (blockers : list N) : list edge :=
  edges (Some (AW, 0)) (map (fun n => (n, AR)) blockers).

(** ** Verified instance checker *)
Fixpoint list_eqb {A} (eqb : A -> A -> bool) (a b : list A) : bool :=
  match a, b with
  | [], [] => true
  | x :: a', y :: b' => eqb x y && list_eqb eqb a' b'
  | _, _ => false
  end.
Definition optN_eqb (a b : option N) : bool :=
  match a, b with Some x, Some y => N.eqb x y | None, None => true | _, _ => false end.
Definition finstr_eqb (a b : finstr) : bool :=
  match a, b with
  | FPlay x f, FPlay y g => Bool.eqb x y && frame_eqb f g
  | FDelay q n, FDelay q' n' => listN_eqb q q' && listN_eqb n n'
  | FFence q, FFence q' => listN_eqb q q'
  | FReset q, FReset q' => optN_eqb q q'
  | FUpdate f, FUpdate g => frame_eqb f g
  | FSwapPhases f1 f2, FSwapPhases g1 g2 => frame_eqb f1 g1 && frame_eqb f2 g2
  | FOther, FOther => true
  | _, _ => false
  end.
Definition binstr_eqb (a b : binstr) : bool :=
  finstr_eqb (bi_frame a) (bi_frame b) && optN_eqb (bi_wf a) (bi_wf b)
  && optN_eqb (bi_call a) (bi_call b) && N.eqb (bi_text a) (bi_text b).
Definition pairN_eqb (a b : N * N) : bool := N.eqb (fst a) (fst b) && N.eqb (snd a) (snd b).
Definition ext_eqb (a b : option N * N) : bool := optN_eqb (fst a) (fst b) && N.eqb (snd a) (snd b).
Definition fdef_eqb (a b : frame * N) : bool := frame_eqb (fst a) (fst b) && N.eqb (snd a) (snd b).
Definition memFD (x : frame * N) (l : list (frame * N)) : bool := existsb (fdef_eqb x) l.

(** kept definitions, straight from the property text *)
Definition frame_wanted (e : program) (f : frame) : bool :=
  existsb (fun bi => uses (p_avail e) (bi_frame bi) f) (p_body e).
Definition waveform_wanted (e : program) (w : N) : bool :=
  existsb (fun bi => optN_eqb (bi_wf bi) (Some w)) (p_body e).
Definition extern_wanted (e : program) (x : option N) : bool :=
  match x with
  | Some n => existsb (fun bi => optN_eqb (bi_call bi) (Some n)) (p_body e)
  | None => false
  end.

(** Verdict on the implementation's expanded program [e] and simplified program [s]:
    0 accepted; 2 body differs from the expanded body; 3 calibrations left; 4 frames are not
    exactly the defined frames used by the body; 5 waveforms are not exactly those invoked;
    6 extern pragmas are not exactly those called; 7 declarations / gate definitions / circuits
    changed. *)
Definition chk (e s : program) : N :=
  if negb (list_eqb binstr_eqb (p_body s) (p_body e)) then 2
  else if negb (is_nil (p_cals s)) then 3
  else if negb (forallb (fun fd => memFD fd (p_frames e) && frame_wanted e (fst fd)) (p_frames s)
                && forallb (fun fd => negb (frame_wanted e (fst fd)) || memFD fd (p_frames s)) (p_frames e))
  then 4
  else if negb (list_eqb pairN_eqb (p_waveforms s)
                  (filter (fun w => waveform_wanted e (fst w)) (p_waveforms e))) then 5
  else if negb (list_eqb ext_eqb (p_externs s)
                  (filter (fun x => extern_wanted e (fst x)) (p_externs e))) then 6
  else if negb (list_eqb pairN_eqb (p_decls s) (p_decls e)
                && list_eqb pairN_eqb (p_gates s) (p_gates e)
                && list_eqb pairN_eqb (p_circuits s) (p_circuits e)) then 7
  else 0.

(** ** Case files *)
Definition frames_seteq (a b : list frame) : bool :=
  forallb (fun f => memF f b) a && forallb (fun f => memF f a) b.
Definition fdefs_seteq (a b : list (frame * N)) : bool :=
  forallb (fun f => memFD f b) a && forallb (fun f => memFD f a) b.
Definition obs := option (list frame * list frame).
Definition obs_eqb (a b : obs) : bool :=
  match a, b with
  | Some (u, k), Some (u', k') => frames_seteq u u' && frames_seteq k k'
  | None, None => true
  | _, _ => false
  end.
Definition restrict (kept : list frame) (o : obs) : obs :=
  option_map (fun uk : list frame * list frame =>
                (filter (fun f => memF f kept) (fst uk), filter (fun f => memF f kept) (snd uk))) o.

Definition prog_eqb (a b : program) : bool :=
  list_eqb binstr_eqb (p_body a) (p_body b) && is_nil (p_cals a) && is_nil (p_cals b)
  && fdefs_seteq (p_frames a) (p_frames b)
  && list_eqb pairN_eqb (p_waveforms a) (p_waveforms b)
  && list_eqb ext_eqb (p_externs a) (p_externs b)
  && list_eqb pairN_eqb (p_decls a) (p_decls b)
  && list_eqb pairN_eqb (p_gates a) (p_gates b)
  && list_eqb pairN_eqb (p_circuits a) (p_circuits b).

(** A case: original program, the implementation's [expand_calibrations] and [simplify] results
    ([None] = error), and the implementation's [matching_frames] answers for every instruction of
    the expanded body, asked of the expanded program and of the simplified program.
    Verdict 1: the model disagrees with the implementation (simplified program, or the matching
    answers on the expanded program); 8: expansion and simplification disagree on failing;
    9: a matching answer on the simplified program is not the expanded program's answer restricted
    to the kept frames (the invariance behind schedule equality). *)
Definition case : Type := program * option program * option program * list obs * list obs.

Definition case_verdict (c : case) : N :=
  let '(p, eo, so, obs_e, obs_s) := c in
  match eo, so with
  | None, None => 0
  | Some e, Some s =>
      let v := chk e s in
      if negb (N.eqb v 0) then v
      else
        let kept := keys s in
        if negb (list_eqb obs_eqb obs_s (map (restrict kept) obs_e)) then 9
        else
          match simplify (fun _ => Some e) p with
          | Some m =>
              if prog_eqb m s
                 && list_eqb obs_eqb obs_e
                      (map (fun bi => matching_frames (keys e) (p_avail e) (bi_frame bi)) (p_body e))
              then 0 else 1
          | None => 1
          end
  | _, _ => 8
  end.

Fixpoint failing_from (i : N) (cs : list case) : list (N * N) :=
  match cs with
  | [] => []
  | c :: t =>
      let v := case_verdict c in
      (if N.eqb v 0 then [] else [(i, v)]) ++ failing_from (N.succ i) t
  end.
Definition failing (cs : list case) : list (N * N) := failing_from 0 cs.
