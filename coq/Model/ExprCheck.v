(** C13 — verified instance checker and case-file entry point for
    substitution / evaluation / memory-reference listing.  Executable definitions only. *)
From Coq Require Import List NArith ZArith QArith Bool.
From QV Require Import Model.Expr Model.ExactNum.
Import ListNotations.

(** The environments of a case: variables -> Complex64, regions -> Vec<f64>, and a numeric
    substitution variables -> Number. *)
Definition rv_of (rv : list (N * gq)) : N -> option xc :=
  fun x => option_map (of_lit exact_alg) (assoc rv x).
Definition rm_of (rm : list (N * list Q)) : N -> option (list Q) := assoc rm.
Definition sg_of (sg : list (N * gq)) : N -> option gq := assoc sg.

Definition expr_gq_eqb : expr gq -> expr gq -> bool := expr_eqb g_eqb.

(** What the implementation reported for one case. *)
Record c13obs := {
  o_eval : obs;              (* e.evaluate(rv, rm) *)
  o_sub : expr gq;           (* e.substitute_variables(sg) *)
  o_eval_sub : obs;          (* e.substitute_variables(sg).evaluate(rv, rm) *)
  o_eval_union : obs;        (* e.evaluate(rv ∪ sg, rm) *)
  o_same_bits : bool;        (* the two results above are bit-identical (compared in the harness) *)
  o_mrefs : list memref;     (* e.memory_references().collect() *)
}.

(** The verified checker: the three clauses of the property, decided on the implementation's
    outputs directly from their definitions ([addrs], [supplied]). *)
Definition chk_c13 (e : expr gq) (rv : list (N * gq)) (rm : list (N * list Q)) (o : c13obs) : bool :=
  (* substitute-then-evaluate = evaluate in the union *)
  Bool.eqb (obs_ok (o_eval_sub o)) (obs_ok (o_eval_union o)) && o_same_bits o &&
  (* reported memory references = the address leaves, in pre-order *)
  list_eqb memref_eqb (o_mrefs o) (addrs e) &&
  (* Ok iff everything needed is supplied *)
  Bool.eqb (obs_ok (o_eval o)) (supplied (rv_of rv) (rm_of rm) e).

Definition c13case := (expr gq * list (N * gq) * list (N * list Q) * list (N * gq) * c13obs)%type.

(** Verdict: 0 = model and implementation agree and the checker accepts; 1 = the model's output
    differs from the implementation's; 2 = the checker rejects the implementation's output. *)
Definition case_verdict (c : c13case) : N :=
  let '(e, rv, rm, sg, o) := c in
  if negb (chk_c13 e rv rm o) then 2%N
  else
    let m_sub := subst (num_subst (sg_of sg)) e in
    let m_eval := eval exact_alg (rv_of rv) (rm_of rm) e in
    let m_eval_sub := eval exact_alg (rv_of rv) (rm_of rm) m_sub in
    let m_eval_union := eval exact_alg (env_union exact_alg (rv_of rv) (sg_of sg)) (rm_of rm) e in
    if expr_gq_eqb m_sub (o_sub o)
       && obs_agree m_eval (o_eval o)
       && obs_agree m_eval_sub (o_eval_sub o)
       && obs_agree m_eval_union (o_eval_union o)
       && list_eqb memref_eqb (memrefs e) (o_mrefs o)
    then 0%N else 1%N.

Fixpoint failing_from (i : N) (cs : list c13case) : list (N * N) :=
  match cs with
  | [] => []
  | c :: t =>
      let v := case_verdict c in
      (if N.eqb v 0 then [] else [(i, v)]) ++ failing_from (N.succ i) t
  end.

Definition failing (cs : list c13case) : list (N * N) := failing_from 0%N cs.
