(** Model of calibration lookup in quil-rs:
      src/instruction/calibration.rs   [CalibrationIdentifier::matches], the two signature types
      src/program/calibration.rs       [Calibrations::get_match_for_gate], [get_match_for_measurement]
      src/program/calibration_set.rs   [CalibrationSet::replace] / [extend] / [From<Vec<T>>]

    Executable definitions only (no proofs).

    Abstraction.  Names, memory-region names, qubit variables, placeholders are [N] ids (only their
    equality is used by the code).  A parameter is the id of a *raw* [Expression] (ids are equal iff
    the expressions are equal under [Expression: PartialEq], which is what signature equality
    uses); matching looks at [into_simplified()] of both sides and only asks (a) is the
    calibration's simplified parameter a bare [Expression::Variable], (b) are the two simplified
    expressions equal.  So the simplifier is a parameter [simp : N -> sform] of the model, mapping a
    raw id to [SVar v] (simplifies to the bare variable v) or [SLit k] (simplifies to the k-th
    non-variable expression, ids equal iff expressions equal).  All theorems hold for every [simp];
    the harness instantiates it with a finite table for its expression alphabet. *)
From Coq Require Import List NArith Bool PeanoNat.
Import ListNotations.

Inductive qubit := QFixed (n : N) | QVar (v : N) | QPh (p : N).
Inductive gmod := MControlled | MDagger | MForked.
Inductive sform := SVar (v : N) | SLit (k : N).

Definition qubit_eqb (a b : qubit) : bool :=
  match a, b with
  | QFixed x, QFixed y | QVar x, QVar y | QPh x, QPh y => N.eqb x y
  | _, _ => false
  end.
Definition gmod_eqb (a b : gmod) : bool :=
  match a, b with
  | MControlled, MControlled | MDagger, MDagger | MForked, MForked => true
  | _, _ => false
  end.
Definition sform_eqb (a b : sform) : bool :=
  match a, b with
  | SVar x, SVar y | SLit x, SLit y => N.eqb x y
  | _, _ => false
  end.

Fixpoint list_eqb {A} (e : A -> A -> bool) (a b : list A) : bool :=
  match a, b with
  | [], [] => true
  | x :: a', y :: b' => e x y && list_eqb e a' b'
  | _, _ => false
  end.

Definition optN_eqb (a b : option N) : bool :=
  match a, b with
  | None, None => true
  | Some x, Some y => N.eqb x y
  | _, _ => false
  end.

Definition is_some {A} (o : option A) : bool := match o with Some _ => true | None => false end.

(** [Gate] and [CalibrationIdentifier] have the same four fields. *)
Record gate := { g_name : N; g_mods : list gmod; g_params : list N; g_qubits : list qubit }.

(** A calibration definition: identifier and a body marker (the harness gives every definition a
    distinct body; nothing in lookup inspects the body). *)
Record calib := { c_id : gate; c_body : N }.

(** [Measurement] / [MeasureCalibrationIdentifier]: optional name, qubit, optional target (for the
    identifier the target is the formal name, for a measurement the memory reference; only
    [is_some] of it takes part in matching, the name takes part in the signature). *)
Record meas := { m_name : option N; m_qubit : qubit; m_target : option N }.
Record mcalib := { mc_id : meas; mc_body : N }.

(** ** Signatures: [has_signature] is derived structural equality of the identifier fields. *)
Definition gate_eqb (a b : gate) : bool :=
  list_eqb gmod_eqb (g_mods a) (g_mods b) && N.eqb (g_name a) (g_name b)
  && list_eqb N.eqb (g_params a) (g_params b) && list_eqb qubit_eqb (g_qubits a) (g_qubits b).
Definition meas_eqb (a b : meas) : bool :=
  optN_eqb (m_name a) (m_name b) && qubit_eqb (m_qubit a) (m_qubit b)
  && optN_eqb (m_target a) (m_target b).

Definition calib_sig_eqb (a b : calib) : bool := gate_eqb (c_id a) (c_id b).
Definition mcalib_sig_eqb (a b : mcalib) : bool := meas_eqb (mc_id a) (mc_id b).

(** ** [CalibrationSet<T>]: a vector; [signature_position] = first index with that signature;
    [replace] overwrites in place or pushes. *)
Section CalSet.
  Context {A : Type} (same_sig : A -> A -> bool).

  Fixpoint sig_position (v : A) (l : list A) : option nat :=
    match l with
    | [] => None
    | x :: t => if same_sig x v then Some O else option_map S (sig_position v t)
    end.

  Fixpoint set_nth (i : nat) (v : A) (l : list A) : list A :=
    match l, i with
    | [], _ => []
    | _ :: t, O => v :: t
    | x :: t, S j => x :: set_nth j v t
    end.

  Definition replace (l : list A) (v : A) : list A :=
    match sig_position v l with
    | Some i => set_nth i v l
    | None => l ++ [v]
    end.

  (** [Extend::extend], and with [l = []] [From<Vec<T>>] and a sequence of
      [Program::add_instruction] / [insert_calibration]. *)
  Definition extend (l : list A) (vs : list A) : list A := fold_left replace vs l.
  Definition build (vs : list A) : list A := extend [] vs.
End CalSet.

(** ** [CalibrationIdentifier::matches] *)
Section Lookup.
  Variable simp : N -> sform.

  Definition qubit_match (cq gq : qubit) : bool :=
    match cq, gq with
    | QPh _, _ => false
    | _, QPh _ => false
    | QFixed a, QFixed b => N.eqb a b
    | QVar _, _ => true
    | QFixed _, _ => false
    end.

  Definition param_match (cp gp : N) : bool :=
    match simp cp, simp gp with
    | SVar _, _ => true
    | c, g => sform_eqb c g
    end.

  Definition matches (c g : gate) : bool :=
    if negb (N.eqb (g_name c) (g_name g))
       || negb (list_eqb gmod_eqb (g_mods c) (g_mods g))
       || negb (Nat.eqb (length (g_params c)) (length (g_params g)))
       || negb (Nat.eqb (length (g_qubits c)) (length (g_qubits g)))
    then false
    else if negb (forallb (fun p => qubit_match (fst p) (snd p)) (combine (g_qubits c) (g_qubits g)))
    then false
    else forallb (fun p => param_match (fst p) (snd p)) (combine (g_params c) (g_params g)).

  Definition is_fixed (q : qubit) : bool := match q with QFixed _ => true | _ => false end.
  Definition fixed_count (c : gate) : nat := length (filter is_fixed (g_qubits c)).

  Fixpoint enumerate_from {A} (i : nat) (l : list A) : list (nat * A) :=
    match l with [] => [] | x :: t => (i, x) :: enumerate_from (S i) t end.
  Definition enumerate {A} (l : list A) := enumerate_from 0 l.

  (** [get_match_for_gate]: the loop over the matching calibrations in set order, keeping the new
      candidate when its fixed-qubit count is [>=] the previous one's.  The model returns the
      position in the set together with the definition. *)
  Definition gate_step (acc : option (nat * calib)) (ic : nat * calib) : option (nat * calib) :=
    match acc with
    | None => Some ic
    | Some prev =>
        if Nat.leb (fixed_count (c_id (snd prev))) (fixed_count (c_id (snd ic)))
        then Some ic else Some prev
    end.

  Definition get_match_for_gate (cs : list calib) (g : gate) : option (nat * calib) :=
    fold_left gate_step (filter (fun ic => matches (c_id (snd ic)) g) (enumerate cs)) None.

  (** [get_match_for_measurement]: reverse iteration, [filter_map] to (calibration, exact?),
      [partition_map] into two [First] collectors, [exact.or(wildcard)]. *)
  Definition mclass (c m : meas) : option bool :=
    if negb (optN_eqb (m_name m) (m_name c) && Bool.eqb (is_some (m_target m)) (is_some (m_target c)))
    then None
    else match m_qubit c with
         | QFixed a => if qubit_eqb (m_qubit m) (QFixed a) then Some true else None
         | QVar _ => Some false
         | QPh _ => None
         end.

  Fixpoint filter_map {A B} (f : A -> option B) (l : list A) : list B :=
    match l with
    | [] => []
    | x :: t => match f x with Some y => y :: filter_map f t | None => filter_map f t end
    end.

  Definition get_match_for_measurement (ms : list mcalib) (m : meas) : option (nat * mcalib) :=
    let cands :=
      filter_map (fun ic : nat * mcalib =>
                    option_map (fun e : bool => (ic, e)) (mclass (mc_id (snd ic)) m))
                 (rev (enumerate ms)) in
    let exact := hd_error (filter (fun x => snd x) cands) in
    let wild := hd_error (filter (fun x => negb (snd x)) cands) in
    match exact with
    | Some x => Some (fst x)
    | None => option_map fst wild
    end.

  (** ** Verified instance checkers (soundness in Proofs/CalibProofs.v).
      [chk_best n ok rank ans]: [ans] is the lexicographic maximum of (rank, position) among the
      positions [< n] satisfying [ok], or [None] and nothing satisfies [ok]. *)
  Definition chk_best (n : nat) (ok : nat -> bool) (rank : nat -> nat) (ans : option nat) : bool :=
    match ans with
    | None => forallb (fun j => negb (ok j)) (seq 0 n)
    | Some i =>
        Nat.ltb i n && ok i &&
        forallb (fun j => if ok j
                          then Nat.ltb (rank j) (rank i) || (Nat.eqb (rank j) (rank i) && Nat.leb j i)
                          else true) (seq 0 n)
    end.

  Definition dummy_gate : gate := {| g_name := 0; g_mods := []; g_params := []; g_qubits := [] |}.
  Definition dummy_calib : calib := {| c_id := dummy_gate; c_body := 0 |}.
  Definition dummy_meas : meas := {| m_name := None; m_qubit := QPh 0; m_target := None |}.
  Definition dummy_mcalib : mcalib := {| mc_id := dummy_meas; mc_body := 0 |}.

  Definition chk_gate (cs : list calib) (g : gate) (ans : option nat) : bool :=
    chk_best (length cs)
             (fun j => matches (c_id (nth j cs dummy_calib)) g)
             (fun j => fixed_count (c_id (nth j cs dummy_calib))) ans.

  Definition mrank (c : meas) : nat := if is_fixed (m_qubit c) then 1 else 0.

  Definition chk_meas (ms : list mcalib) (m : meas) (ans : option nat) : bool :=
    chk_best (length ms)
             (fun j => is_some (mclass (mc_id (nth j ms dummy_mcalib)) m))
             (fun j => mrank (mc_id (nth j ms dummy_mcalib))) ans.
End Lookup.

(** [chk_set same_sig defs s]: the set [s] is what a sequence of [replace] calls must leave:
    pairwise distinct signatures, every definition's signature present, each element is the LAST
    definition with its signature, and elements are ordered by the FIRST definition with their
    signature.  Elements of [s] are given as positions in [defs]. *)
Section ChkSet.
  Context {A : Type} (same_sig : A -> A -> bool) (d : A).

  Fixpoint first_pos (v : A) (l : list A) (i : nat) : nat :=
    match l with
    | [] => i
    | x :: t => if same_sig x v then i else first_pos v t (S i)
    end.

  Fixpoint last_pos (v : A) (l : list A) (i : nat) (acc : nat) : nat :=
    match l with
    | [] => acc
    | x :: t => last_pos v t (S i) (if same_sig x v then i else acc)
    end.

  Fixpoint increasing (l : list nat) : bool :=
    match l with
    | a :: ((b :: _) as t) => Nat.ltb a b && increasing t
    | _ => true
    end.

  Definition chk_set (defs : list A) (s : list nat) : bool :=
    forallb (fun k => Nat.ltb k (length defs)) s
    && forallb (fun k => Nat.eqb (last_pos (nth k defs d) defs 0 k) k) s
    && increasing (map (fun k => first_pos (nth k defs d) defs 0) s)
    && forallb (fun v => existsb (fun k => same_sig (nth k defs d) v) s) defs.
End ChkSet.

(** ** Case files.  One case = a definition sequence (in program order), the implementation's
    resulting set (positions in the definition sequence, identified by the body markers), a query
    list and the implementation's answers (positions in ITS set, or [None]). *)
Inductive case :=
| GateCase (defs : list calib) (set_obs : list N) (queries : list gate) (answers : list (option N))
| MeasCase (defs : list mcalib) (set_obs : list N) (queries : list meas) (answers : list (option N)).

Definition tbl_simp (tbl : list (N * sform)) (e : N) : sform :=
  match find (fun p => N.eqb (fst p) e) tbl with
  | Some p => snd p
  | None => SLit (1000 + e)
  end.

Definition optnat_eqb (a b : option nat) : bool :=
  match a, b with
  | None, None => true
  | Some x, Some y => Nat.eqb x y
  | _, _ => false
  end.

Definition to_nat_opt (o : option N) : option nat := option_map N.to_nat o.

Fixpoint all2 {A B} (f : A -> B -> bool) (a : list A) (b : list B) : bool :=
  match a, b with
  | [], [] => true
  | x :: a', y :: b' => f x y && all2 f a' b'
  | _, _ => false
  end.

(** Verdict: 0 ok; 2 the implementation's set is not what replace-in-place prescribes; 3 a gate
    lookup answer violates the precedence rule; 4 a measurement lookup answer does; 1 the model
    differs from the implementation although the checkers accept. *)
Definition case_verdict (simp : N -> sform) (c : case) : N :=
  match c with
  | GateCase defs so qs ans =>
      let s := map N.to_nat so in
      if negb (chk_set calib_sig_eqb dummy_calib defs s) then 2%N
      else
        let cs := map (fun k => nth k defs dummy_calib) s in
        if negb (all2 (fun g a => chk_gate simp cs g (to_nat_opt a)) qs ans) then 3%N
        else if list_eqb N.eqb (map c_body cs) (map c_body (build calib_sig_eqb defs))
                && all2 (fun g a => optnat_eqb (option_map fst (get_match_for_gate simp cs g)) (to_nat_opt a)) qs ans
             then 0%N else 1%N
  | MeasCase defs so qs ans =>
      let s := map N.to_nat so in
      if negb (chk_set mcalib_sig_eqb dummy_mcalib defs s) then 2%N
      else
        let ms := map (fun k => nth k defs dummy_mcalib) s in
        if negb (all2 (fun m a => chk_meas ms m (to_nat_opt a)) qs ans) then 4%N
        else if list_eqb N.eqb (map mc_body ms) (map mc_body (build mcalib_sig_eqb defs))
                && all2 (fun m a => optnat_eqb (option_map fst (get_match_for_measurement ms m)) (to_nat_opt a)) qs ans
             then 0%N else 1%N
  end.

Fixpoint failing_from (simp : N -> sform) (i : N) (cs : list case) : list (N * N) :=
  match cs with
  | [] => []
  | c :: t =>
      let v := case_verdict simp c in
      (if N.eqb v 0 then [] else [(i, v)]) ++ failing_from simp (N.succ i) t
  end.

Definition failing (tbl : list (N * sform)) (cs : list case) : list (N * N) :=
  failing_from (tbl_simp tbl) 0%N cs.
