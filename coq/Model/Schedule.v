(** Model of [ScheduledBasicBlock::as_schedule] (schedule.rs) and [BasicBlock::as_schedule]
    (control_flow_graph.rs).  Executable definitions only.

    Time is an abstract structure [T] with [zero], [add], [sub] and a strict comparison [ltb]
    (Section variables; the laws the theorems need are hypotheses in Proofs/ScheduleProofs.v).
    The implementation's [fold(zero, |acc, el| if el > acc { el } else { acc })] is
    [fold_left tmax _ zero].  The case files instantiate [T := Z] (times in units of 2^-10 s,
    exact in f64 for the generated programs).

    Nodes as in Model/Graph.v: block start = 0, instruction index [i] = node [i+1], block end =
    [n+1].  An item is (node, (start, duration)). *)
From Coq Require Import List NArith ZArith Bool.
From QV Require Import Model.DepQueue Model.Graph.
Import ListNotations.

Inductive serr := EUnknownDuration | EInvalidGraph | EPanic | EBuild | ECalibration.

Section Time.
  Variable T : Type.
  Variables (zero : T) (add sub : T -> T -> T) (ltb : T -> T -> bool).

  (** [if el > acc { el } else { acc }] *)
  Definition tmax (acc el : T) : T := if ltb acc el then el else acc.
  Definition leb (a b : T) : bool := negb (ltb b a).

  Definition item := (N * (T * T))%type.
  Definition item_node (x : item) : N := fst x.
  Definition item_start (x : item) : T := fst (snd x).
  Definition item_dur (x : item) : T := snd (snd x).
  Definition item_end (x : item) : T := add (item_start x) (item_dur x).

  (** sources of the incoming edges that carry [Scheduled] *)
  Definition spreds (E : list gedge) (node : N) : list N :=
    map gsrc (filter (fun e => kind_eqb (gkind e) KSched && N.eqb (gdst e) node) E).

  Fixpoint lookup (ends : list (N * T)) (n : N) : option T :=
    match ends with
    | [] => None
    | (k, v) :: t => if N.eqb n k then Some v else lookup t n
    end.

  Definition pred_end (endn : N) (ends : list (N * T)) (p : N) : serr + T :=
    if N.eqb p 0 then inr zero
    else if N.eqb p endn then inl EPanic          (* unreachable!() *)
    else match lookup ends p with Some e => inr e | None => inl EInvalidGraph end.

  (** [collect::<Result<Vec<_>, _>>()] *)
  Fixpoint pred_ends (endn : N) (ends : list (N * T)) (ps : list N) : serr + list T :=
    match ps with
    | [] => inr []
    | p :: t =>
        match pred_end endn ends p with
        | inl e => inl e
        | inr x => match pred_ends endn ends t with inl e => inl e | inr l => inr (x :: l) end
        end
    end.

  Definition dur_at (durs : list (option T)) (node : N) : option (option T) :=
    nth_error durs (N.to_nat (node - 1)).

  (** The traversal loop over a given node order (petgraph's [Topo] yields some topological order
      of the Scheduled-filtered graph). *)
  Fixpoint sched_loop (E : list gedge) (durs : list (option T)) (endn : N) (order : list N)
           (ends : list (N * T)) (items : list item) (total : T) : serr + (list item * T) :=
    match order with
    | [] => inr (items, total)
    | node :: rest =>
        if N.eqb node 0 || N.eqb node endn then sched_loop E durs endn rest ends items total
        else
          match dur_at durs node with
          | None => inl EInvalidGraph
          | Some None => inl EUnknownDuration
          | Some (Some d) =>
              match pred_ends endn ends (spreds E node) with
              | inl e => inl e
              | inr l =>
                  let start := fold_left tmax l zero in
                  let e := add start d in
                  sched_loop E durs endn rest ((node, e) :: ends) (items ++ [(node, (start, d))])
                             (tmax total e)
              end
          end
    end.

  Definition end_of (durs : list (option T)) : N := N.succ (N.of_nat (length durs)).

  (** canonical order: by C22 every Scheduled edge goes forward, so 0, 1, ..., n+1 is topological *)
  Definition schedule (E : list gedge) (durs : list (option T)) : serr + (list item * T) :=
    sched_loop E durs (end_of durs) (nseq 0%N (S (S (length durs)))) [] [] zero.

  (** ** BasicBlock::as_schedule: calibration expansion, scheduling, mapping back *)

  (** the BTreeMap first-expanded-index -> source index, as the list of insertions *)
  Fixpoint smap_build (groups : list nat) (first k : nat) : list (nat * nat) :=
    match groups with
    | [] => []
    | g :: t => (first, k) :: smap_build t (first + g) (S k)
    end.

  (** [range(..=idx).next_back()]: the entry with the greatest key <= idx; a later insertion with
      the same key overwrote the earlier one *)
  Fixpoint source_of (entries : list (nat * nat)) (idx : nat) (best : option (nat * nat))
    : option (nat * nat) :=
    match entries with
    | [] => best
    | (key, v) :: t =>
        let best' :=
          if Nat.leb key idx
          then match best with
               | None => Some (key, v)
               | Some (bk, _) => if Nat.leb bk key then Some (key, v) else best
               end
          else best in
        source_of t idx best'
    end.

  (** [TimeSpan::union] on (start, duration) *)
  Definition span_union (a b : T * T) : T * T :=
    let start := if ltb (fst b) (fst a) then fst b else fst a in
    let a_end := add (fst a) (snd a) in
    let b_end := add (fst b) (snd b) in
    let e := if ltb a_end b_end then b_end else a_end in
    (start, sub e start).

  Fixpoint hmap_update (m : list (nat * (T * T))) (k : nat) (sp : T * T) : list (nat * (T * T)) :=
    match m with
    | [] => [(k, sp)]
    | (k', sp') :: t =>
        if Nat.eqb k k' then (k', span_union sp' sp) :: t else (k', sp') :: hmap_update t k sp
    end.

  Definition hull_fold (entries : list (nat * nat)) (items : list item) : list (nat * (T * T)) :=
    fold_left (fun m (x : item) =>
                 match source_of entries (N.to_nat (item_node x - 1)) None with
                 | Some (_, src) => hmap_update m src (snd x)
                 | None => m
                 end) items [].

  (** source-level items (node = source index + 1) and [Schedule::from] *)
  Definition hull_schedule (groups : list nat) (items : list item) : list item * T :=
    let h := hull_fold (smap_build groups 0 0) items in
    let its := map (fun ks : nat * (T * T) => (N.succ (N.of_nat (fst ks)), snd ks)) h in
    (its, fold_left tmax (map item_end its) zero).

  (** whole pipeline of [BasicBlock::as_schedule] from the expanded block's summaries *)
  Definition block_schedule (is : list info) (term : option info) (groups : list nat)
             (durs : list (option T)) : serr + (list item * T) :=
    match build is term with
    | inl _ => inl EBuild
    | inr E =>
        match schedule E durs with
        | inl e => inl e
        | inr (items, _) => inr (hull_schedule groups items)
        end
    end.

  (** ** instance checker on an observed schedule of a block (no expansion) *)

  Definition count_node (items : list item) (n : N) : nat :=
    length (filter (fun x : item => N.eqb (item_node x) n) items).

  Definition find_item (items : list item) (n : N) : option item :=
    find (fun x : item => N.eqb (item_node x) n) items.

  Definition teqb (a b : T) : bool := negb (ltb a b) && negb (ltb b a).

  (** each instruction exactly once with the expected duration *)
  Definition chk_once (durs : list (option T)) (items : list item) : bool :=
    Nat.eqb (length items) (length durs) &&
    forallb (fun n => Nat.eqb (count_node items n) 1) (nseq 1%N (length durs)) &&
    forallb (fun x : item =>
               match dur_at durs (item_node x) with
               | Some (Some d) => teqb (item_dur x) d
               | _ => false
               end) items.

  (** start = max(0, ends of the Scheduled predecessors) *)
  Definition chk_asap (E : list gedge) (endn : N) (items : list item) : bool :=
    forallb (fun x : item =>
               forallb (fun p => negb (N.eqb p endn) &&
                                 (N.eqb p 0 || match find_item items p with Some _ => true | None => false end))
                       (spreds E (item_node x)) &&
               let ends := map (fun p => if N.eqb p 0 then zero
                                         else match find_item items p with
                                              | Some y => item_end y | None => zero end)
                               (spreds E (item_node x)) in
               teqb (item_start x) (fold_left tmax ends zero)) items.

  (** conflicting scheduled RF instructions do not overlap *)
  Definition chk_exclusive (is : list info) (items : list item) : bool :=
    forallb (fun p : (N * info) * (N * info) =>
               let '((m, i), (n, j)) := p in
               if fconflict i j && i_sched i && i_sched j
               then match find_item items m, find_item items n with
                    | Some x, Some y => leb (item_end x) (item_start y)
                    | _, _ => false
                    end
               else true)
            (pairs (number 1%N is)).

  (** duration = latest end *)
  Definition chk_total (items : list item) (total : T) : bool :=
    forallb (fun x : item => leb (item_end x) total) items &&
    leb zero total &&
    (teqb total zero || existsb (fun x : item => teqb total (item_end x)) items).

  Definition nonneg_durs (durs : list (option T)) : bool :=
    forallb (fun d => match d with Some d => leb zero d | None => true end) durs.

  Definition chk_sched (is : list info) (E : list gedge) (durs : list (option T))
             (items : list item) (total : T) : N :=
    if negb (chk_once durs items) then 2%N
    else if negb (chk_asap E (end_of durs) items) then 3%N
    else if nonneg_durs durs && negb (chk_exclusive is items) then 4%N
    else if negb (chk_total items total) then 5%N
    else 0%N.

  (** source-level result of a calibrated block: every source instruction with a non-empty
      expansion exactly once, none other; total = latest end *)
  Definition chk_hull (groups : list nat) (items : list item) (total : T) : N :=
    let expect := map (fun kg : nat * nat => N.succ (N.of_nat (fst kg)))
                      (filter (fun kg : nat * nat => negb (Nat.eqb (snd kg) 0))
                              (combine (seq 0 (length groups)) groups)) in
    if negb (Nat.eqb (length items) (length expect) &&
             forallb (fun n => Nat.eqb (count_node items n) 1) expect) then 6%N
    else if negb (chk_total items total) then 5%N
    else 0%N.

  (** ** case files *)
  Definition item_eqb (a b : item) : bool :=
    N.eqb (item_node a) (item_node b) && teqb (item_start a) (item_start b) && teqb (item_dur a) (item_dur b).

  Definition items_eqb (A B : list item) : bool :=
    Nat.eqb (length A) (length B) &&
    forallb (fun a => existsb (item_eqb a) B) A && forallb (fun b => existsb (item_eqb b) A) B.

  Definition serr_eqb (a b : serr) : bool :=
    match a, b with
    | EUnknownDuration, EUnknownDuration | EInvalidGraph, EInvalidGraph | EPanic, EPanic
    | EBuild, EBuild | ECalibration, ECalibration => true
    | _, _ => false
    end.

  Definition sres_eqb (a b : serr + (list item * T)) : bool :=
    match a, b with
    | inl x, inl y => serr_eqb x y
    | inr (A, ta), inr (B, tb) => items_eqb A B && teqb ta tb
    | _, _ => false
    end.

  (** (summaries, terminator, observed edges, groups ([] = plain block), expected durations,
      observed schedule).  For a plain block the model schedules the implementation's own graph;
      for a calibrated block ([groups] non-empty: expansion sizes per source instruction, the
      summaries / durations are those of the expanded block) the whole pipeline is modelled. *)
  Definition scase :=
    (list info * option info * list gedge * list nat * list (option T) * (serr + (list item * T)))%type.

  Definition scase_verdict (c : scase) : N :=
    let '(is, term, E, groups, durs, obs) := c in
    match groups with
    | [] =>
        let pv := match obs with inr (items, total) => chk_sched is E durs items total | inl _ => 0%N end in
        if negb (N.eqb pv 0) then pv
        else if sres_eqb (schedule E durs) obs then 0%N else 1%N
    | _ =>
        let pv := match obs with inr (items, total) => chk_hull groups items total | inl _ => 0%N end in
        if negb (N.eqb pv 0) then pv
        else if sres_eqb (block_schedule is term groups durs) obs then 0%N else 1%N
    end.

  Fixpoint sfailing_from (i : N) (cs : list scase) : list (N * N) :=
    match cs with
    | [] => []
    | c :: t =>
        let v := scase_verdict c in
        (if N.eqb v 0 then [] else [(i, v)]) ++ sfailing_from (N.succ i) t
    end.
End Time.

(** instance used by the generated case files: integer multiples of 2^-10 s *)
Definition zfailing (cs : list (scase Z)) : list (N * N) :=
  sfailing_from Z 0%Z Z.add Z.sub Z.ltb 0%N cs.
