(** Byte-level model of the WHOLE quil-rs lexer (quil-rs/src/parser/lexer/{mod,quoted_strings,
    wrapped_parsers}.rs and parser/token.rs), property C01.  Executable definitions only.

    The input is the byte list of the [&str] handed to [lex]; [lex] below is [all_consuming(_lex)]
    followed by [Finish::finish]: a token list or an error, never anything else.  The three proved
    partial models are reused unchanged (by qualified name):
      - [QuotedString.lex_string]   = [quoted_strings::unescaped_quoted_string]          (C07)
      - [LexNum.lex_number]         = [lex_number] (lexical + the two workarounds)        (C05)
      - [LexIdent.lex_ident_raw] and the reserved-word tables = [lex_identifier_raw],
        [KeywordToken] / [Command] / [DataType] / [Modifier] [from_str]                   (C06)
    Everything else is transliterated here, combinator by combinator:

      _lex       = terminated(many0(alt(lex_indent, preceded(many0(tag(SPACE)), lex_token))),
                              many0(one_of(NEWLINE TAB SPACE)))
      lex_indent = four spaces | one tab            -- tried FIRST at every iteration of the loop,
                                                       not only at the start of a line
      lex_token  = alt(comment, punctuation, target, string, operator, variable,
                       keyword-or-identifier, number)          -- in this order
    nom's three-way result is kept: [PErr] (recoverable [Err::Error]: [alt] tries the next
    alternative, [many0] stops and succeeds) versus [PFail] ([Err::Failure] from the [cut] in the
    number lexer: propagates through [alt], [expecting], [many0], [terminated], [all_consuming]).
    [many0]'s guard against a parser that succeeds without consuming ([ErrorKind::Many0], compared
    on [input_len]) is transliterated too ([StopMany0]); Proofs/LexProofs.v shows it is dead code.
    [Err::Incomplete] (on which [Finish::finish] panics) cannot arise: every combinator used is
    the [complete] variant, so it is not part of the result type.

    Characters.  The Rust code works on [char]s of a valid UTF-8 [&str].  Every predicate it uses
    is ASCII-only: [char::is_ascii_alphabetic], [char::is_ascii_digit], comparisons with ASCII
    literals, [one_of] / [is_a] with ASCII sets, [tag] with ASCII literals (byte comparison),
    lexical (bytes; digits, separator, point, exponent and sign are ASCII).  A byte >= 128 therefore
    satisfies none of them, exactly like the non-ASCII [char] it belongs to, and is
      - copied opaquely inside comments ([take_till(c == NEWLINE)]) and strings ([char_indices]
        loop looking for the ASCII quote and backslash only),
      - a lex error everywhere else (no alternative of [lex_token] starts with it).
    [tag_no_case(0b / 0o / 0x)] is Unicode-aware ([char::to_lowercase]) but sits under [peek], and
    no non-ASCII character lower-cases to [b], [o], [x] or [0], so the byte comparison of
    [LexNum.lex_prefixed] is exact.

    Slicing.  The real lexer cuts its [&str] by BYTE offsets ([LocatedSpan::slice], nom's
    [take_split]); cutting off a character boundary panics.  [lex_spans] records, for every token,
    the byte offsets where its item starts (before the skipped spaces), where the token starts and
    where it ends -- the [location_offset] of [TokenWithLocation.original_input] is the first of
    these.  [lex_cuts] lists every offset at which the real code slices (a superset, see there);
    Proofs/LexProofs.v proves that on valid UTF-8 all of them are character boundaries. *)
From Coq Require Import List NArith ZArith Bool.
From QV Require Model.QuotedString Model.LexNum Model.LexIdent.
Import ListNotations.
Open Scope N_scope.

(** ** Tokens ([parser/token.rs], [enum Token]) *)

(** a float token: the model knows the exact decimal value [m * 10^e] of the literal, the
    implementation's observed token is a binary64 bit pattern *)
Inductive fval := FDec (m : N) (e : Z) | FBits (bits : N).

Inductive ltoken :=
| LtKeyword (name : list N)       (* As Matrix Mutable NonBlocking Offset PauliSum Permutation Sequence Sharing *)
| LtCommand (name : list N)       (* Command(_), by spelling *)
| LtDataType (name : list N)
| LtModifier (name : list N)
| LtIdentifier (name : list N)
| LtTarget (name : list N)
| LtVariable (name : list N)
| LtString (s : list N)
| LtComment (s : list N)
| LtInteger (v : N)
| LtFloat (f : fval)
| LtOperator (c : N)              (* the operator's byte: caret minus plus slash star *)
| LtBang | LtColon | LtComma | LtIndent | LtLBracket | LtLParen | LtNewLine | LtRBracket | LtRParen
| LtSemicolon.

(** ** nom results and combinators *)
Inductive pres (A : Type) :=
| POk (a : A) (rest : list N)
| PErr        (* nom::Err::Error: recoverable *)
| PFail.      (* nom::Err::Failure *)
Arguments POk {A} a rest.
Arguments PErr {A}.
Arguments PFail {A}.

(** [nom::branch::alt] (and [wrapped_parsers::alt], which only replaces the error value): the first
    alternative that does not return a recoverable error decides *)
Fixpoint alt {A} (ps : list (list N -> pres A)) (inp : list N) : pres A :=
  match ps with
  | [] => PErr
  | p :: ps' => match p inp with PErr => alt ps' inp | r => r end
  end.

(** [tag(lit)]: byte-wise prefix comparison; the remaining input on a match *)
Fixpoint tag (lit inp : list N) : option (list N) :=
  match lit with
  | [] => Some inp
  | p :: lit' => match inp with c :: t => if c =? p then tag lit' t else None | [] => None end
  end.

(** [value(t, tag(lit))] *)
Definition value_tag (t : ltoken) (lit : list N) (inp : list N) : pres ltoken :=
  match tag lit inp with Some r => POk t r | None => PErr end.

(** [take_while(p)] is [LexIdent.span p]; [take_till(p)] is [take_while (not p)];
    [is_a(set)] = one or more characters of the set *)
Definition take_while := LexIdent.span.
Definition is_a (p : N -> bool) (inp : list N) : option (list N) :=
  match take_while p inp with
  | ([], _) => None
  | (_, r) => Some r
  end.

(** ** Characters *)
Definition c_TAB : N := 9.
Definition c_LF : N := 10.
Definition c_CR : N := 13.
Definition c_SP : N := 32.
Definition c_HASH : N := 35.
Definition c_PERCENT : N := 37.
Definition c_AT : N := 64.
Definition is_space (c : N) : bool := c =? c_SP.
Definition is_lf (c : N) : bool := c =? c_LF.
Definition is_cr_or_lf (c : N) : bool := (c =? c_CR) || (c =? c_LF).
(** [one_of(NEWLINE TAB SPACE)] *)
Definition is_trailing_ws (c : N) : bool := (c =? c_LF) || (c =? c_TAB) || (c =? c_SP).
Definition is_ascii (c : N) : bool := c <? 128.

Definition four_spaces : list N := [c_SP; c_SP; c_SP; c_SP].

(** ** The alternatives of [lex_token] *)

(** [lex_comment]: the hash sign, then everything up to (not including) the next LINE FEED; a
    CARRIAGE RETURN is part of the comment *)
Definition lex_comment (inp : list N) : pres ltoken :=
  match tag [c_HASH] inp with
  | Some r => let '(content, rest) := take_while (fun c => negb (is_lf c)) r in POk (LtComment content) rest
  | None => PErr
  end.

(** [recognize_newlines] = alt(is_a(LF), is_a(CR LF)): a run of line feeds, or -- when the input
    does not start with a line feed -- a run of carriage returns and line feeds in any mixture *)
Definition lex_newlines (inp : list N) : pres ltoken :=
  match is_a is_lf inp with
  | Some r => POk LtNewLine r
  | None => match is_a is_cr_or_lf inp with Some r => POk LtNewLine r | None => PErr end
  end.

(** [lex_punctuation], in the order of its [alt] *)
Definition lex_punctuation : list N -> pres ltoken :=
  alt [ value_tag LtBang [33];
        value_tag LtColon [58];
        value_tag LtComma [44];
        alt [value_tag LtIndent four_spaces; value_tag LtIndent [c_TAB]];
        value_tag LtLBracket [91];
        value_tag LtLParen [40];
        lex_newlines;
        value_tag LtRBracket [93];
        value_tag LtRParen [41];
        value_tag LtSemicolon [59] ].

(** [lex_target] / [lex_variable]: a sigil, then [lex_identifier_raw] (no keyword check) *)
Definition lex_sigil (sigil : N) (mk : list N -> ltoken) (inp : list N) : pres ltoken :=
  match tag [sigil] inp with
  | Some r =>
      match LexIdent.lex_ident_raw r with
      | Some (name, rest) => POk (mk name) rest
      | None => PErr
      end
  | None => PErr
  end.
Definition lex_target : list N -> pres ltoken := lex_sigil c_AT LtTarget.
Definition lex_variable : list N -> pres ltoken := lex_sigil c_PERCENT LtVariable.

(** [lex_string] *)
Definition lex_string (inp : list N) : pres ltoken :=
  match QuotedString.lex_string inp with
  | QuotedString.SOk s rest => POk (LtString s) rest
  | _ => PErr
  end.

(** [lex_operator], in the order of its [alt]: caret minus plus slash star *)
Definition lex_operator : list N -> pres ltoken :=
  alt [ value_tag (LtOperator 94) [94];
        value_tag (LtOperator 45) [45];
        value_tag (LtOperator 43) [43];
        value_tag (LtOperator 47) [47];
        value_tag (LtOperator 42) [42] ].

(** [keyword_or_identifier]: KeywordToken, then Command, DataType, Modifier [from_str] (exact,
    case-sensitive spellings), otherwise an identifier *)
Definition keyword_or_identifier (name : list N) : ltoken :=
  if LexIdent.mem_bytes name LexIdent.keywords then LtKeyword name
  else if LexIdent.mem_bytes name LexIdent.commands then LtCommand name
  else if LexIdent.mem_bytes name LexIdent.data_types then LtDataType name
  else if LexIdent.mem_bytes name LexIdent.modifiers then LtModifier name
  else LtIdentifier name.

Definition lex_keyword_or_identifier (inp : list N) : pres ltoken :=
  match LexIdent.lex_ident_raw inp with
  | Some (name, rest) => POk (keyword_or_identifier name) rest
  | None => PErr
  end.

(** [lex_number]: the only source of [Err::Failure] *)
Definition lex_number (inp : list N) : pres ltoken :=
  match LexNum.lex_number inp with
  | LexNum.NOk (LexNum.TInt v) rest => POk (LtInteger v) rest
  | LexNum.NOk (LexNum.TFloat m e) rest => POk (LtFloat (FDec m e)) rest
  | LexNum.NErr => PErr
  | LexNum.NFail => PFail
  end.

Definition lex_token : list N -> pres ltoken :=
  alt [ lex_comment; lex_punctuation; lex_target; lex_string; lex_operator; lex_variable;
        lex_keyword_or_identifier; lex_number ].

(** [lex_indent] *)
Definition lex_indent : list N -> pres ltoken :=
  alt [value_tag LtIndent four_spaces; value_tag LtIndent [c_TAB]].

(** One iteration of the [many0] loop of [_lex]:
    alt(lex_indent, preceded(many0(tag(SPACE)), lex_token)).  The value is the token together with
    the input at which the token itself starts (after the skipped spaces). *)
Definition lex_item (inp : list N) : pres (ltoken * list N) :=
  match lex_indent inp with
  | POk t rest => POk (t, inp) rest
  | PFail => PFail
  | PErr =>
      let at_ := snd (take_while is_space inp) in
      match lex_token at_ with
      | POk t rest => POk (t, at_) rest
      | PErr => PErr
      | PFail => PFail
      end
  end.

(** ** The loop *)

(** why the [many0] loop ended *)
Inductive lstop :=
| StopErr     (* the item parser returned a recoverable error: many0 succeeds with what it has *)
| StopFail    (* Err::Failure from the number lexer *)
| StopMany0   (* nom's infinite-loop guard: an item succeeded without consuming input *)
| StopFuel.   (* the model's explicit fuel ran out *)

(** token, offset of the item start (before skipped spaces), of the token start, of the token end *)
Definition lspan := (ltoken * nat * nat * nat)%type.
Definition span_tok (s : lspan) : ltoken := let '(t, _, _, _) := s in t.

(** [total] is the length of the whole input: the offset of a suffix [r] is [total - length r] *)
Fixpoint lex_loop (fuel : nat) (total : nat) (inp : list N) : list lspan * lstop * list N :=
  match fuel with
  | O => ([], StopFuel, inp)
  | S f =>
      match lex_item inp with
      | PErr => ([], StopErr, inp)
      | PFail => ([], StopFail, inp)
      | POk (t, at_) rest =>
          if Nat.eqb (length rest) (length inp) then ([], StopMany0, inp)
          else
            let '(sps, st, r) := lex_loop f total rest in
            ((t, (total - length inp)%nat, (total - length at_)%nat, (total - length rest)%nat) :: sps,
             st, r)
      end
  end.

Definition lex_spans (bytes : list N) : list lspan * lstop * list N :=
  lex_loop (S (length bytes)) (length bytes) bytes.

Inductive lerr :=
| ELeftover   (* all_consuming: input left after the tokens and the trailing whitespace *)
| EFailure    (* a malformed number (overflow, empty exponent, lone point, prefix without digits) *)
| EMany0      (* never: see C01_lex_progress *)
| EFuel.      (* never: see C01_lex_fuel_sufficient *)

Inductive lres := LexOk (ts : list ltoken) | LexErr (e : lerr).

(** [lex] = [all_consuming(_lex)(input).finish()] *)
Definition lex (bytes : list N) : lres :=
  let '(sps, st, r) := lex_spans bytes in
  match st with
  | StopErr =>
      match snd (take_while is_trailing_ws r) with
      | [] => LexOk (map span_tok sps)
      | _ => LexErr ELeftover
      end
  | StopFail => LexErr EFailure
  | StopMany0 => LexErr EMany0
  | StopFuel => LexErr EFuel
  end.

(** ** UTF-8 *)

(** a continuation byte 10xxxxxx *)
Definition is_cont (b : N) : bool := (128 <=? b) && (b <? 192).

(** [str::is_char_boundary]: offset 0, the end, or a byte that is not a continuation byte *)
Definition utf8_boundary (bytes : list N) (k : nat) : bool :=
  Nat.eqb k 0 || Nat.eqb k (length bytes) ||
  match nth_error bytes k with Some b => negb (is_cont b) | None => false end.

(** second byte of a three- / four-byte sequence (Unicode Table 3-7: no overlong forms, no
    surrogates, nothing above U+10FFFF) *)
Definition second3 (b0 b1 : N) : bool :=
  if b0 =? 224 then (160 <=? b1) && (b1 <=? 191)
  else if b0 =? 237 then (128 <=? b1) && (b1 <=? 159)
  else is_cont b1.
Definition second4 (b0 b1 : N) : bool :=
  if b0 =? 240 then (144 <=? b1) && (b1 <=? 191)
  else if b0 =? 244 then (128 <=? b1) && (b1 <=? 143)
  else is_cont b1.

(** well-formed UTF-8 (what a Rust [&str] always is) *)
Fixpoint valid_utf8 (l : list N) : bool :=
  match l with
  | [] => true
  | b0 :: t0 =>
      if b0 <? 128 then valid_utf8 t0
      else
        match t0 with
        | [] => false
        | b1 :: t1 =>
            if (194 <=? b0) && (b0 <=? 223) then is_cont b1 && valid_utf8 t1
            else
              match t1 with
              | [] => false
              | b2 :: t2 =>
                  if (224 <=? b0) && (b0 <=? 239) then second3 b0 b1 && is_cont b2 && valid_utf8 t2
                  else
                    match t2 with
                    | [] => false
                    | b3 :: t3 =>
                        if (240 <=? b0) && (b0 <=? 244)
                        then second4 b0 b1 && is_cont b2 && is_cont b3 && valid_utf8 t3
                        else false
                    end
              end
        end
  end.

(** ** Where the real lexer slices its input

    Slicing sites in the Rust code, relative to an item that starts at offset [g], whose token
    starts at [s] (after the spaces) and ends at [e]:
      - [many0(tag(SPACE))]: after every skipped space: [g .. s];
      - [tag] / [take_while] / [take_while1] / [is_a] / [one_of] / lexical's consumed count /
        [slice(..integer_len + 1)] in every alternative, INCLUDING alternatives that fail after a
        partial match and are backtracked (sigil without a name, the dashes of an unfinished dash
        group [a-], the peeked base prefix): all of these offsets lie at the token start or right
        after a matched ASCII byte, i.e. within [s .. s + (length of the ASCII run at s)];
      - a comment: after the hash sign ([s + 1]) and at the line feed / end of input ([e]);
      - a string: [slice(1..i)] and [slice(i + 1..)], [i] the offset of the closing quote:
        [s + 1], [e - 1], [e];
      - the trailing [many0(one_of(..))] and the item on which the loop stops: within the ASCII run
        at the stop offset.
    [lex_cuts] lists all of them (for tokens other than comments and strings every offset of
    [s .. e]). *)
Definition ascii_cuts (bytes : list N) (s : nat) : list nat :=
  seq s (S (length (fst (take_while is_ascii (skipn s bytes))))).

Definition token_cuts (t : ltoken) (s e : nat) : list nat :=
  match t with
  | LtComment _ => [s; S s; e]
  | LtString _ => [s; S s; (e - 1)%nat; e]
  | _ => seq s (S (e - s))
  end.

Definition span_cuts (bytes : list N) (sp : lspan) : list nat :=
  let '(t, g, s, e) := sp in
  seq g (S (s - g)) ++ ascii_cuts bytes s ++ token_cuts t s e.

Definition lex_cuts (bytes : list N) : list nat :=
  let '(sps, _, r) := lex_spans bytes in
  flat_map (span_cuts bytes) sps ++ ascii_cuts bytes (length bytes - length r)%nat.

(** ** Case verdict (used by the [CLex] case of Model/ParsePanic.v) *)

(** what the real lexer (hook [quil_rs::verif::lex_debug]) did with the text *)
Inductive lobs :=
| LxToks (ts : list ltoken)   (* floats as [FBits] *)
| LxErr                       (* [Err(LexError)] *)
| LxPanic.                    (* the call panicked (caught by the harness) *)

Definition fval_match (m o : fval) : bool :=
  match m, o with
  | FDec m e, FBits bits => LexNum.chk_nearest m e bits
  | FDec m e, FDec m' e' => (m =? m') && (e =? e')%Z
  | FBits a, FBits b => a =? b
  | _, _ => false
  end.

Definition tok_match (m o : ltoken) : bool :=
  match m, o with
  | LtKeyword a, LtKeyword b | LtCommand a, LtCommand b | LtDataType a, LtDataType b
  | LtModifier a, LtModifier b | LtIdentifier a, LtIdentifier b | LtTarget a, LtTarget b
  | LtVariable a, LtVariable b | LtString a, LtString b | LtComment a, LtComment b =>
      LexIdent.bytes_eqb a b
  | LtInteger a, LtInteger b => a =? b
  | LtFloat a, LtFloat b => fval_match a b
  | LtOperator a, LtOperator b => a =? b
  | LtBang, LtBang | LtColon, LtColon | LtComma, LtComma | LtIndent, LtIndent
  | LtLBracket, LtLBracket | LtLParen, LtLParen | LtNewLine, LtNewLine | LtRBracket, LtRBracket
  | LtRParen, LtRParen | LtSemicolon, LtSemicolon => true
  | _, _ => false
  end.

Fixpoint toks_match (ms os : list ltoken) : bool :=
  match ms, os with
  | [], [] => true
  | m :: ms', o :: os' => tok_match m o && toks_match ms' os'
  | _, _ => false
  end.

(** the property on one instance: the lexer returned (tokens or an error) *)
Definition chk_lex_outcome (o : lobs) : bool :=
  match o with LxPanic => false | _ => true end.

(** 2: the implementation panicked; 3: the harness shipped bytes that are not well-formed UTF-8
    (cannot happen for a Rust [&str]: the check ties [valid_utf8] to Rust's notion on every case);
    1: model and implementation differ; 0: agree *)
Definition lex_code (bytes : list N) (o : lobs) : N :=
  if negb (chk_lex_outcome o) then 2
  else if negb (valid_utf8 bytes) then 3
  else
    match lex bytes, o with
    | LexOk ms, LxToks ts => if toks_match ms ts then 0 else 1
    | LexErr _, LxErr => 0
    | _, _ => 1
    end.
