(** Model of [Program::wrap_in_loop] (quil-rs/src/program/mod.rs) and a small-step interpreter of
    the control-flow skeleton of a program body.

    Executable definitions only (no proofs).

    Body instructions are abstracted to
    - [IEvent e]        any instruction that is not one of the below (gate, pragma, pulse, classical
                        instruction on other memory, ...): executing it appends [e] to the trace;
    - [IUse e]          like [IEvent], but the instruction mentions the loop counter's region in a
                        way the skeleton does not interpret (e.g. [ADD c[0] x[0]]); such bodies are
                        outside the theorem's precondition;
    - [IMove r v]       MOVE r v      with an integer literal;
    - [ISub r v]        SUB r v       with an integer literal;
    - [ILabel l], [IJump l], [IJumpWhen l r], [IJumpUnless l r], [IHalt].
    A memory reference is (region name, index). *)
From Coq Require Import List NArith ZArith Bool Arith.
Import ListNotations.

Definition ref := (N * N)%type.

Definition ref_eqb (a b : ref) : bool := N.eqb (fst a) (fst b) && N.eqb (snd a) (snd b).

Inductive instr :=
| IEvent (e : N)
| IUse (e : N)
| IMove (r : ref) (v : Z)
| ISub (r : ref) (v : Z)
| ILabel (l : N)
| IJump (l : N)
| IJumpWhen (l : N) (r : ref)
| IJumpUnless (l : N) (r : ref)
| IHalt.

(** A declaration: region name, scalar type (0 BIT, 1 INTEGER, 2 OCTET, 3 REAL), length. *)
Definition decl := (N * (N * N))%type.
Definition T_INTEGER : N := 1%N.

(** A program: its memory declarations in order ([IndexMap]), all its other definitions
    (calibrations, frames, waveforms, gate definitions, circuits, extern signatures) as opaque
    ids in serialisation order, and its body. *)
Record program := mkprog {
  p_decls : list decl;
  p_defs : list N;
  p_body : list instr }.

(** [IndexMap::insert]: replace the value in place if the key exists, else append. *)
Fixpoint insert_decl (name : N) (v : N * N) (ds : list decl) : list decl :=
  match ds with
  | [] => [(name, v)]
  | (n', v') :: t => if N.eqb n' name then (name, v) :: t else (n', v') :: insert_decl name v t
  end.

(** [Program::wrap_in_loop(loop_count_reference = c, start_target = l, iterations = n)]
    (with the repaired SUB destination and declaration length). *)
Definition wrap (p : program) (c : ref) (l : N) (n : N) : program :=
  if N.eqb n 0 then mkprog (p_decls p) (p_defs p) []
  else if N.eqb n 1 then p
  else mkprog (insert_decl (fst c) (T_INTEGER, (snd c + 1)%N) (p_decls p))
              (p_defs p)
              ([IMove c (Z.of_N n); ILabel l] ++ p_body p ++ [ISub c 1%Z; IJumpWhen l c]).

(** The snapshot's version: SUB on index 0 of the region, declaration of length 1. *)
Definition wrap_unfixed (p : program) (c : ref) (l : N) (n : N) : program :=
  if N.eqb n 0 then mkprog (p_decls p) (p_defs p) []
  else if N.eqb n 1 then p
  else mkprog (insert_decl (fst c) (T_INTEGER, 1%N) (p_decls p))
              (p_defs p)
              ([IMove c (Z.of_N n); ILabel l] ++ p_body p
               ++ [ISub (fst c, 0%N) 1%Z; IJumpWhen l c]).

(** ** Interpreter *)

Definition mem := list (ref * Z).

Fixpoint get (r : ref) (m : mem) : Z :=
  match m with
  | [] => 0%Z
  | (r', v) :: t => if ref_eqb r r' then v else get r t
  end.

Definition set (r : ref) (v : Z) (m : mem) : mem := (r, v) :: m.

(** Position of the first [LABEL l]. *)
Fixpoint find_label (l : N) (prog : list instr) (i : nat) : option nat :=
  match prog with
  | [] => None
  | ILabel l' :: t => if N.eqb l l' then Some i else find_label l t (S i)
  | _ :: t => find_label l t (S i)
  end.

Inductive outcome :=
| Done (pc : nat) (m : mem) (trace : list N)   (* ran off the end ([pc = length]) or HALT *)
| OutOfFuel
| BadLabel.

(** [exec fuel prog pc m rtr]: run from [pc]; [rtr] is the trace so far, most recent first. *)
Fixpoint exec (fuel : nat) (prog : list instr) (pc : nat) (m : mem) (rtr : list N) : outcome :=
  match fuel with
  | O => OutOfFuel
  | S f =>
      match nth_error prog pc with
      | None => Done pc m (rev rtr)
      | Some i =>
          match i with
          | IEvent e | IUse e => exec f prog (S pc) m (e :: rtr)
          | IMove r v => exec f prog (S pc) (set r v m) rtr
          | ISub r v => exec f prog (S pc) (set r (get r m - v)%Z m) rtr
          | ILabel _ => exec f prog (S pc) m rtr
          | IJump l =>
              match find_label l prog 0 with
              | Some t => exec f prog t m rtr
              | None => BadLabel
              end
          | IJumpWhen l r =>
              if Z.eqb (get r m) 0 then exec f prog (S pc) m rtr
              else match find_label l prog 0 with
                   | Some t => exec f prog t m rtr
                   | None => BadLabel
                   end
          | IJumpUnless l r =>
              if Z.eqb (get r m) 0
              then match find_label l prog 0 with
                   | Some t => exec f prog t m rtr
                   | None => BadLabel
                   end
              else exec f prog (S pc) m rtr
          | IHalt => Done pc m (rev rtr)
          end
      end
  end.

(** ** Specification vocabulary *)

(** Straight-line body that does not mention the counter region [cname] or the start label [l]:
    events, MOVE/SUB on other regions, other labels. *)
Definition ok_instr (cname l : N) (i : instr) : bool :=
  match i with
  | IEvent _ => true
  | IMove r _ | ISub r _ => negb (N.eqb (fst r) cname)
  | ILabel l' => negb (N.eqb l' l)
  | _ => false
  end.
Definition ok_body (cname l : N) (b : list instr) : bool := forallb (ok_instr cname l) b.

(** The events a straight-line body emits when run once. *)
Fixpoint events (b : list instr) : list N :=
  match b with
  | [] => []
  | IEvent e :: t | IUse e :: t => e :: events t
  | _ :: t => events t
  end.

Fixpoint repeat_list {A} (l : list A) (n : nat) : list A :=
  match n with O => [] | S k => l ++ repeat_list l k end.

(** Fuel that suffices for the wrapped program: MOVE, then per iteration LABEL + body + SUB +
    JUMP-WHEN, then the step that finds the end. *)
Definition loop_fuel (b : list instr) (n : nat) : nat := n * (length b + 3) + 2.

(** ** Instance checker *)

Fixpoint listN_eqb (a b : list N) : bool :=
  match a, b with
  | [], [] => true
  | x :: a', y :: b' => N.eqb x y && listN_eqb a' b'
  | _, _ => false
  end.

(** Run the (implementation's) wrapped body [w] from the all-zero memory and require: it stops by
    running off the end, the trace is [n] copies of the original body's events, the counter is 0. *)
Definition chk_run (b w : list instr) (c : ref) (n : nat) : bool :=
  match exec (loop_fuel b n) w 0 [] [] with
  | Done pc m tr =>
      Nat.eqb pc (length w) && listN_eqb tr (repeat_list (events b) n) && Z.eqb (get c m) 0
  | _ => false
  end.

(** ** Comparison helpers and the case-file entry point *)

Definition instr_eqb (a b : instr) : bool :=
  match a, b with
  | IEvent x, IEvent y => N.eqb x y
  | IUse x, IUse y => N.eqb x y
  | IMove r v, IMove s u => ref_eqb r s && Z.eqb v u
  | ISub r v, ISub s u => ref_eqb r s && Z.eqb v u
  | ILabel x, ILabel y => N.eqb x y
  | IJump x, IJump y => N.eqb x y
  | IJumpWhen x r, IJumpWhen y s => N.eqb x y && ref_eqb r s
  | IJumpUnless x r, IJumpUnless y s => N.eqb x y && ref_eqb r s
  | IHalt, IHalt => true
  | _, _ => false
  end.

Fixpoint instrs_eqb (a b : list instr) : bool :=
  match a, b with
  | [], [] => true
  | x :: a', y :: b' => instr_eqb x y && instrs_eqb a' b'
  | _, _ => false
  end.

Definition decl_eqb (a b : decl) : bool :=
  N.eqb (fst a) (fst b) && N.eqb (fst (snd a)) (fst (snd b)) && N.eqb (snd (snd a)) (snd (snd b)).

Fixpoint decls_eqb (a b : list decl) : bool :=
  match a, b with
  | [], [] => true
  | x :: a', y :: b' => decl_eqb x y && decls_eqb a' b'
  | _, _ => false
  end.

Definition program_eqb (a b : program) : bool :=
  decls_eqb (p_decls a) (p_decls b) && listN_eqb (p_defs a) (p_defs b)
  && instrs_eqb (p_body a) (p_body b).

(** A case: the original program, counter reference, start label, iteration count, and the
    implementation's wrapped program.
    Verdict 0 = equal to the model's output and (for 2 <= n <= 6 and an admissible body) the
    interpreter run on the implementation's output repeats the body n times;
    1 = the structure differs from the model but the run (where applicable) is right;
    2 = the run of the implementation's wrapped program does not execute the body exactly n
        times and stop with the counter at 0, or for n < 2 the body / definitions are not as
        required. *)
Definition case := (program * ref * N * N * program)%type.

Definition run_checked (n : N) : bool := N.leb 2 n && N.leb n 6.

Definition case_verdict (c : case) : N :=
  let '(p, cr, l, n, w) := c in
  let admissible := ok_body (fst cr) l (p_body p) in
  let prop_ok :=
    if N.eqb n 0 then instrs_eqb (p_body w) [] && decls_eqb (p_decls w) (p_decls p)
                      && listN_eqb (p_defs w) (p_defs p)
    else if N.eqb n 1 then program_eqb w p
    else listN_eqb (p_defs w) (p_defs p)
         && (if admissible && run_checked n
             then chk_run (p_body p) (p_body w) cr (N.to_nat n) else true) in
  if negb prop_ok then 2%N
  else if program_eqb (wrap p cr l n) w then 0%N else 1%N.

Fixpoint failing_from (i : N) (cs : list case) : list (N * N) :=
  match cs with
  | [] => []
  | c :: t =>
      let v := case_verdict c in
      (if N.eqb v 0 then [] else [(i, v)]) ++ failing_from (N.succ i) t
  end.

Definition failing (cs : list case) : list (N * N) := failing_from 0%N cs.
