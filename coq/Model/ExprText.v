(** Model of the expression printer ([Quil for Expression], [format_inner_expression],
    [format_complex] in expression/mod.rs, as of fixes 9bfdd6e and 1e769e0) and of the Pratt parser
    (parser/expression.rs).  Executable definitions only.

    Literals.  A real literal is a sign and a magnitude, [slit := bool * mag] ([true] =
    negative); a complex literal is a pair of those.  The type [mag] of magnitudes is a parameter:
    how a double is turned into digits (the `lexical` crate) and back is an oracle outside this
    model; only [is_mzero] (the magnitude is 0.0), a distinguished [mzero], and the embedding of
    memory indices (integer tokens) are used.

    Two printers are defined in parallel over the same case analysis: [ptoks] (the token sequence
    the lexer produces from the printed text; the theorems are about it) and [pbytes] (the text
    itself, given formatting functions for magnitudes and names; compared byte-for-byte with the
    implementation).  That lexing the text gives the tokens is checked against the real lexer in
    the correspondence run (hook [quil_rs::verif::lex_debug]). *)
From Coq Require Import List NArith Bool Arith.
From QV Require Import Model.Expr.
Import ListNotations.

Section Text.
  Variable mag : Type.
  Variable mzero : mag.
  Variable is_mzero : mag -> bool.
  Variable mag_of_index : N -> mag.            (* the Integer token of a memory index *)
  Variable index_of_mag : mag -> option N.     (* is this number token an Integer token? *)

  Definition slit := (bool * mag)%type.
  Definition lit := (slit * slit)%type.
  Notation ex := (expr lit).

  (** identifiers as the parser classifies them *)
  Inductive ident := IdI | IdPi | IdFn (f : efn) | IdName (n : N).

  Inductive tok :=
  | TNum (m : mag)                 (* Integer or Float token *)
  | TIdent (i : ident)
  | TVar (x : N)
  | TLParen | TRParen | TLBracket | TRBracket
  | TOp (o : infix_op).            (* Operator token; prefix minus is the same token as infix *)

  Definition pos (m : mag) : slit := (false, m).
  Definition real_lit (m : mag) : lit := (pos m, pos mzero).   (* real!(m) *)
  Definition imag_lit (m : mag) : lit := (pos mzero, pos m).   (* imag!(m) *)

  Definition sl_zero (s : slit) : bool := is_mzero (snd s).
  Definition sl_neg (s : slit) : bool := fst s && negb (sl_zero s).

  (** A literal written with both parts ([format_complex]'s last case). *)
  Definition composite (c : lit) : bool := negb (sl_zero (fst c)) && negb (sl_zero (snd c)).
  (** A one-part literal whose text starts with '-'. *)
  Definition neg_simple (c : lit) : bool :=
    if sl_zero (snd c) then sl_neg (fst c)
    else if sl_zero (fst c) then sl_neg (snd c) else false.

  Definition sign_toks (s : slit) : list tok := if sl_neg s then [TOp Minus] else [].

  (** [format_complex] at token level. *)
  Definition lit_toks (c : lit) : list tok :=
    let '(re, im) := c in
    if sl_zero re && sl_zero im then [TNum mzero]
    else if sl_zero im then sign_toks re ++ [TNum (snd re)]
    else if sl_zero re then sign_toks im ++ [TNum (snd im); TIdent IdI]
    else sign_toks re ++ [TNum (snd re)] ++ [TOp (if sl_neg im then Minus else Plus)]
         ++ [TNum (snd im); TIdent IdI].

  Definition paren {X} (l r : X) (body : list X) : list X := [l] ++ body ++ [r].

  (** [format_inner_expression] parenthesises infix nodes and composite literals. *)
  Definition needs_paren (e : ex) : bool :=
    match e with
    | Infix _ _ _ => true
    | Num c => composite c
    | _ => false
    end.
  (** the operand of a prefix operator "starts with a sign": it is a prefix node, or a literal
      whose text starts with '-' (composite literals are parenthesised anyway) *)
  Definition is_prefix (e : ex) : bool :=
    match e with
    | Prefix _ _ => true
    | Num c => neg_simple c
    | _ => false
    end.

  (** [Quil::write] for expressions.  Prefix plus prints nothing; a prefix operator whose operand
      starts with a sign parenthesises it; otherwise the operand goes through
      [format_inner_expression]. *)
  Fixpoint ptoks (e : ex) : list tok :=
    match e with
    | Num c => lit_toks c
    | Pi => [TIdent IdPi]
    | Var x => [TVar x]
    | Addr n i => [TIdent (IdName n); TLBracket; TNum (mag_of_index i); TRBracket]
    | Fn f a => [TIdent (IdFn f); TLParen] ++ ptoks a ++ [TRParen]
    | Prefix o a =>
        (match o with PMinus => [TOp Minus] | PPlus => [] end)
        ++ (if is_prefix a || needs_paren a then paren TLParen TRParen (ptoks a) else ptoks a)
    | Infix l o r =>
        (if needs_paren l then paren TLParen TRParen (ptoks l) else ptoks l)
        ++ [TOp o]
        ++ (if needs_paren r then paren TLParen TRParen (ptoks r) else ptoks r)
    end.

  (** *** The text itself *)
  Variable fmt_real : mag -> list N.    (* lexical, FORMAT_REAL_OPTIONS (trim_floats) *)
  Variable fmt_imag : mag -> list N.    (* lexical, FORMAT_IMAGINARY_OPTIONS *)
  Variable fmt_index : N -> list N.     (* u64 Display *)
  Variable vname : N -> list N.
  Variable rname : N -> list N.

  Local Open Scope N_scope.
  Definition b_minus : N := 45. Definition b_plus : N := 43. Definition b_lp : N := 40.
  Definition b_rp : N := 41. Definition b_i : N := 105. Definition b_sp : N := 32.

  Definition sign_bytes (s : slit) : list N := if sl_neg s then [b_minus] else [].

  Definition lit_bytes (c : lit) : list N :=
    let '(re, im) := c in
    if sl_zero re && sl_zero im then [48]
    else if sl_zero im then sign_bytes re ++ fmt_real (snd re)
    else if sl_zero re then sign_bytes im ++ fmt_imag (snd im) ++ [b_i]
    else sign_bytes re ++ fmt_real (snd re) ++ (if sl_neg im then [b_minus] else [b_plus])
         ++ fmt_imag (snd im) ++ [b_i].

  Definition fn_bytes (f : efn) : list N :=
    match f with
    | Cis => [99; 105; 115] | Cos => [99; 111; 115] | Exp => [101; 120; 112]
    | Sin => [115; 105; 110] | Sqrt => [115; 113; 114; 116]
    end.
  (** [Display for InfixOperator]: minus is written with spaces *)
  Definition op_bytes (o : infix_op) : list N :=
    match o with
    | Caret => [94] | Plus => [43] | Minus => [32; 45; 32] | Slash => [47] | Star => [42]
    end.

  Fixpoint pbytes (e : ex) : list N :=
    match e with
    | Num c => lit_bytes c
    | Pi => [112; 105]
    | Var x => 37 :: vname x
    | Addr n i => rname n ++ [91] ++ fmt_index i ++ [93]
    | Fn f a => fn_bytes f ++ [b_lp] ++ pbytes a ++ [b_rp]
    | Prefix o a =>
        (match o with PMinus => [b_minus] | PPlus => [] end)
        ++ (if is_prefix a || needs_paren a then paren b_lp b_rp (pbytes a) else pbytes a)
    | Infix l o r =>
        (if needs_paren l then paren b_lp b_rp (pbytes l) else pbytes l)
        ++ op_bytes o
        ++ (if needs_paren r then paren b_lp b_rp (pbytes r) else pbytes r)
    end.

  Local Close Scope N_scope.

  (** *** The Pratt parser.

      [Precedence]: Lowest < Sum < Product < Exponentiation < Call.  [parse(input, precedence)]:
      an optional prefix minus, then an immediate value or a variable / identifier form / group;
      the prefix is applied to that atom only; then [while get_precedence(input) > precedence]
      an infix operator is consumed and its right operand parsed AT THE OPERATOR'S OWN precedence,
      which makes every operator, [^] included, left-associative.  Recursion is on fuel ([None] =
      error or out of fuel); the loop runs at most once per remaining token. *)
  Definition prec_of (o : infix_op) : nat :=
    match o with Plus | Minus => 1 | Star | Slash => 2 | Caret => 3 end.

  (** the part of [parse] before the loop, given the parser for nested full expressions *)
  Definition parse_primary (full : list tok -> option (ex * list tok)) (ts : list tok)
    : option (ex * list tok) :=
    match ts with
    (* parse_immediate_value: Integer/Float optionally followed by the identifier i *)
    | TNum m :: TIdent IdI :: t => Some (Num (imag_lit m), t)
    | TNum m :: t => Some (Num (real_lit m), t)
    | TVar x :: t => Some (Var x, t)
    (* parse_expression_identifier: brackets first, then the reserved words, else a bare region *)
    | TIdent (IdName n) :: TLBracket :: TNum m :: TRBracket :: t =>
        match index_of_mag m with Some i => Some (Addr n i, t) | None => Some (Addr n 0%N, TLBracket :: TNum m :: TRBracket :: t) end
    | TIdent (IdFn f) :: TLParen :: t =>
        match full t with
        | Some (a, TRParen :: t') => Some (Fn f a, t')
        | _ => None
        end
    | TIdent (IdFn f) :: _ => None
    | TIdent IdI :: t => Some (Num (imag_lit (mag_of_index 1%N)), t)
    | TIdent IdPi :: t => Some (Pi, t)
    | TIdent (IdName n) :: t => Some (Addr n 0%N, t)
    | TLParen :: t =>
        match full t with
        | Some (a, TRParen :: t') => Some (a, t')
        | _ => None
        end
    | _ => None
    end.

  Definition parse_atom (full : list tok -> option (ex * list tok)) (ts : list tok)
    : option (ex * list tok) :=
    match ts with
    | TOp Minus :: t =>
        match parse_primary full t with
        | Some (a, t') => Some (Prefix PMinus a, t')
        | None => None
        end
    | _ => parse_primary full ts
    end.

  Fixpoint parse_loop (operand : nat -> list tok -> option (ex * list tok))
           (k : nat) (prec : nat) (left : ex) (ts : list tok) : option (ex * list tok) :=
    match k with
    | O => None
    | S k' =>
        match ts with
        | TOp o :: t =>
            if Nat.ltb prec (prec_of o) then
              match operand (prec_of o) t with
              | Some (r, ts') => parse_loop operand k' prec (Infix left o r) ts'
              | None => None
              end
            else Some (left, ts)
        | _ => Some (left, ts)
        end
    end.

  Fixpoint parse (fuel : nat) (prec : nat) (ts : list tok) : option (ex * list tok) :=
    match fuel with
    | O => None
    | S f =>
        match parse_atom (parse f 0) ts with
        | Some (a, ts1) => parse_loop (parse f) (S (length ts1)) prec a ts1
        | None => None
        end
    end.

  (** [Expression::from_str] on the token level: parse at the lowest precedence, no leftover. *)
  Definition parse_expr (fuel : nat) (ts : list tok) : option ex :=
    match parse fuel 0 ts with
    | Some (e, []) => Some e
    | _ => None
    end.

  (** *** What the text denotes: the expression the parser rebuilds from [ptoks e]. *)
  Definition signed (s : slit) (e : ex) : ex := if sl_neg s then Prefix PMinus e else e.
  Definition lit_expr (c : lit) : ex :=
    let '(re, im) := c in
    if sl_zero re && sl_zero im then Num (real_lit mzero)
    else if sl_zero im then signed re (Num (real_lit (snd re)))
    else if sl_zero re then signed im (Num (imag_lit (snd im)))
    else Infix (signed re (Num (real_lit (snd re)))) (if sl_neg im then Minus else Plus)
               (Num (imag_lit (snd im))).

  Fixpoint norm (e : ex) : ex :=
    match e with
    | Num c => lit_expr c
    | Pi => Pi
    | Var x => Var x
    | Addr n i => Addr n i
    | Fn f a => Fn f (norm a)
    | Prefix PPlus a => norm a
    | Prefix PMinus a => Prefix PMinus (norm a)
    | Infix l o r => Infix (norm l) o (norm r)
    end.

End Text.

Arguments TNum {mag} m.
Arguments TIdent {mag} i.
Arguments TVar {mag} x.
Arguments TLParen {mag}.
Arguments TRParen {mag}.
Arguments TLBracket {mag}.
Arguments TRBracket {mag}.
Arguments TOp {mag} o.
