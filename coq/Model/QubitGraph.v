(** Model of quil-rs/src/program/analysis/qubit_graph.rs: [QubitGraph::new] (edge construction
    through [last_instruction_for_qubit]), [path_fold] and [gate_depth].

    Executable definitions only (no proofs).

    An instruction of the basic block is abstracted to its [kind] and its qubit list
    ([Instruction::get_qubits], in order, WITH repetitions); its identity is its position.
    - [KGate]         [Instruction::Gate]; the qubit list is [gate.qubits];
    - [KMeasure]      [Instruction::Measurement] (role ProgramComposition, one qubit);
    - [KOther]        any other instruction the handler accepts that has qubits (only possible with
                      a custom [InstructionHandler], e.g. one giving FENCE the role ClassicalCompute);
    - [KClassical]    accepted instructions without qubits (ClassicalCompute except PRAGMA; WAIT);
    - [KUnsupported]  PRAGMA, RF-control instructions (incl. RESET, DELAY, FENCE with the default
                      handler) and jumps: [QubitGraph::new] returns [UnsupportedInstruction]. *)
From Coq Require Import List NArith Bool Arith.
Import ListNotations.

Inductive kind := KGate | KMeasure | KOther | KClassical | KUnsupported.

Record instr := mkI { i_kind : kind; i_qubits : list N }.

Definition is_unsupported (x : instr) : bool :=
  match i_kind x with KUnsupported => true | _ => false end.
Definition is_gate (x : instr) : bool :=
  match i_kind x with KGate => true | _ => false end.

(** [last_instruction_for_qubit]: an association list, most recent binding first. *)
Definition lastmap := list (N * nat).

Fixpoint lookup (q : N) (m : lastmap) : option nat :=
  match m with
  | [] => None
  | (q', j) :: t => if N.eqb q q' then Some j else lookup q t
  end.

Definition edge := (nat * nat)%type.

(** One iteration of [for qubit in qubits]: [insert(qubit, node)] returns the previous binding;
    an edge previous -> node is added — since the repair only when previous <> node
    ([allow_self = false]); the snapshot code added it unconditionally ([allow_self = true]). *)
Definition add_qubit (allow_self : bool) (i : nat) (st : lastmap * list edge) (q : N)
  : lastmap * list edge :=
  let '(m, E) := st in
  ((q, i) :: m,
   match lookup q m with
   | Some j => if allow_self || negb (Nat.eqb j i) then E ++ [(j, i)] else E
   | None => E
   end).

(** [QubitGraph::new]: [inl i] = [Err(UnsupportedInstruction(instruction i))], [inr E] = the edge
    list (a multigraph: parallel edges are kept, as petgraph keeps them). *)
Fixpoint build_from (allow_self : bool) (prog : list instr) (i : nat) (st : lastmap * list edge)
  : nat + list edge :=
  match prog with
  | [] => inr (snd st)
  | x :: t =>
      if is_unsupported x then inl i
      else build_from allow_self t (S i) (fold_left (add_qubit allow_self i) (i_qubits x) st)
  end.

Definition build_gen (allow_self : bool) (prog : list instr) : nat + list edge :=
  build_from allow_self prog 0 ([], []).

Definition build (prog : list instr) : nat + list edge := build_gen false prog.

(** [neighbors_directed(node, Outgoing)] (one entry per edge) and [externals(Incoming)]. *)
Definition succs (E : list edge) (i : nat) : list nat :=
  map snd (filter (fun e => Nat.eqb (fst e) i) E).

Definition sources (n : nat) (E : list edge) : list nat :=
  filter (fun i => negb (existsb (fun e => Nat.eqb (snd e) i) E)) (seq 0 n).

(** [path_fold] specialised to an additive accumulator: the accumulated values of all paths from
    [node] to a sink.  The Rust uses an explicit stack; only the multiset of results matters and
    only its maximum is observable.  [fuel] bounds the path length; with forward edges
    [number of nodes] is enough and the [O] branch is never reached (QubitGraphProofs.dfs_fuel). *)
Fixpoint dfs (fuel : nat) (sc : nat -> list nat) (w : nat -> nat) (acc node : nat) : list nat :=
  match fuel with
  | O => []
  | S f =>
      let acc' := acc + w node in
      match sc node with
      | [] => [acc']
      | _ :: _ => flat_map (dfs f sc w acc') (sc node)
      end
  end.

Definition max_list (l : list nat) : nat := fold_right Nat.max 0 l.

(** The closure of [gate_depth]: +1 for a gate with at least [k] qubit arguments. *)
Definition weight (prog : list instr) (k : nat) (i : nat) : nat :=
  match nth_error prog i with
  | Some x => if is_gate x && Nat.leb k (length (i_qubits x)) then 1 else 0
  | None => 0
  end.

Definition depth_of (n : nat) (E : list edge) (w : nat -> nat) : nat :=
  max_list (flat_map (dfs n (succs E) w 0) (sources n E)).

(** [QubitGraph::try_from_basic_block(..).map(|g| g.gate_depth(k))]; [None] = the error. *)
Definition gate_depth (prog : list instr) (k : nat) : option nat :=
  match build prog with
  | inl _ => None
  | inr E => Some (depth_of (length prog) E (weight prog k))
  end.

(** ** Verified instance checker: the longest chain computed from the definition of a chain *)

Fixpoint memN (q : N) (l : list N) : bool :=
  match l with [] => false | x :: t => N.eqb q x || memN q t end.

Definition qubits_at (prog : list instr) (i : nat) : list N :=
  match nth_error prog i with Some x => i_qubits x | None => [] end.

(** [linkb prog a b]: [a] before [b], they share a qubit, and no instruction strictly between
    them uses that qubit. *)
Definition linkb (prog : list instr) (a b : nat) : bool :=
  Nat.ltb a b
  && existsb (fun q => memN q (qubits_at prog b)
                       && forallb (fun c => negb (memN q (qubits_at prog c)))
                                  (seq (S a) (b - S a)))
             (qubits_at prog a).

Definition succs_link (prog : list instr) (a : nat) : list nat :=
  filter (linkb prog a) (seq (S a) (length prog - S a)).

Definition chain_max (prog : list instr) (k : nat) : nat :=
  max_list (flat_map (dfs (length prog) (succs_link prog) (weight prog k) 0)
                     (seq 0 (length prog))).

(** The same maximum by dynamic programming over positions: [nth i (dp_from ..)] is the largest
    count over chains ENDING at position [i] (polynomial; used by the checker). *)
Fixpoint dp_from (prog : list instr) (k : nat) (todo i : nat) (done : list nat) : list nat :=
  match todo with
  | O => done
  | S t =>
      let preds := filter (fun a => linkb prog a i) (seq 0 i) in
      let b := weight prog k i + max_list (map (fun a => nth a done 0) preds) in
      dp_from prog k t (S i) (done ++ [b])
  end.

Definition chain_max_dp (prog : list instr) (k : nat) : nat :=
  max_list (dp_from prog k (length prog) 0 []).

Definition supported (prog : list instr) : bool := forallb (fun x => negb (is_unsupported x)) prog.

Definition chk_depth (prog : list instr) (k d : nat) : bool :=
  supported prog && Nat.eqb d (chain_max_dp prog k).

(** first unsupported instruction *)
Fixpoint first_unsupported (prog : list instr) (i : nat) : option nat :=
  match prog with
  | [] => None
  | x :: t => if is_unsupported x then Some i else first_unsupported t (S i)
  end.

(** ** Case-file entry point *)

Inductive obs :=
| ObsErr (i : nat)             (* UnsupportedInstruction, position of the reported instruction *)
| ObsDepths (ds : list nat).   (* gate_depth k for each requested k *)

Definition case := (list instr * list nat * obs)%type.

Fixpoint list_nat_eqb (a b : list nat) : bool :=
  match a, b with
  | [], [] => true
  | x :: a', y :: b' => Nat.eqb x y && list_nat_eqb a' b'
  | _, _ => false
  end.

Fixpoint all2 (f : nat -> nat -> bool) (a b : list nat) : bool :=
  match a, b with
  | [], [] => true
  | x :: a', y :: b' => f x y && all2 f a' b'
  | _, _ => false
  end.

(** 0 = agrees with the model (and, for depths, the checker accepts); 1 = the model differs
    (including a wrong error verdict); 2 = a reported depth is not the longest chain. *)
Definition case_verdict (c : case) : N :=
  let '(prog, ks, o) := c in
  match o with
  | ObsErr i =>
      match build prog with
      | inl j => if Nat.eqb i j then 0%N else 1%N
      | inr _ => 1%N
      end
  | ObsDepths ds =>
      if supported prog then
        if negb (all2 (chk_depth prog) ks ds) then 2%N
        else match build prog with
             | inl _ => 1%N
             | inr E =>
                 if list_nat_eqb ds (map (fun k => depth_of (length prog) E (weight prog k)) ks)
                 then 0%N else 1%N
             end
      else 1%N
  end.

Fixpoint failing_from (i : N) (cs : list case) : list (N * N) :=
  match cs with
  | [] => []
  | c :: t =>
      let v := case_verdict c in
      (if N.eqb v 0 then [] else [(i, v)]) ++ failing_from (N.succ i) t
  end.

Definition failing (cs : list case) : list (N * N) := failing_from 0%N cs.
