(** Executable helper definitions for the unitarity part of C15 (proofs: Proofs/UnitarityProofs.v).

    - the inverse of the specification's index split: [gather qs] reads the bits of a basis index at
      the gate's qubits; [scatter qs a x] writes the bits of [a] there and keeps the other bits of [x];
    - block-diagonal matrices (the shape of CONTROLLED / FORKED);
    - the standard gate tables as a [base] family for Modifiers.v, the lifted matrices of a gate as
      total functions, and the predicate "a gate record is well formed";
    - a concrete scalar structure: the cyclotomic field Q(zeta_8) = Q(sqrt 2, i) over the canonical
      rationals [Qc] (Leibniz equality, no axioms), used to show the hypotheses of the table
      theorem are satisfiable.
    Definitions only. *)
From Coq Require Import List NArith Bool QArith Qcanon.
From QV Require Import Model.Unitary Model.Modifiers.
Import ListNotations.
Open Scope N_scope.

(** * Index split *)

(** [gather] with the LAST listed qubit first (least significant bit of the gate index first):
    [gather qs x = gat (rev qs) x]. *)
Fixpoint gat (l : list N) (x : N) : N :=
  match l with
  | [] => 0
  | q :: t => N.b2n (N.testbit x q) + 2 * gat t x
  end.

(** write bit i of [a] at position [nth i l] of [x] *)
Fixpoint scat (l : list N) (a x : N) : N :=
  match l with
  | [] => x
  | q :: t => scat t (a / 2) (setbit x q (N.odd a))
  end.

Definition scatter (qs : list N) (a x : N) : N := scat (rev qs) a x.

(** the positions of an n-qubit index that the gate does not touch (as in [lift_idx_spec]) *)
Definition others_of (qs : list N) (n : N) : list N :=
  filter (fun p => negb (memN p qs)) (range 0 n).

Section Scalars.
  Variable C : Type.
  Variables (c0 c1 : C) (cadd cmul : C -> C -> C) (cconj : C -> C).

  (** * Block-diagonal matrices: |0><0| (x) A0 + |1><1| (x) A1 with blocks of dimension d *)
  Definition blk (d : N) (A0 A1 : N -> N -> C) (r c : N) : C :=
    if (r <? d) && (c <? d) then A0 r c
    else if (d <=? r) && (d <=? c) then A1 (r - d) (c - d)
    else c0.

  (** * The specification's lifting of a matrix, and the literal model's (total: 0 on a panic) *)
  Definition lift_spec (M : N -> N -> C) (qs : list N) (n : N) (r c : N) : C :=
    lifted c0 M (lift_idx_spec qs n r c).
  Definition lift_model (M : N -> N -> C) (qs : list N) (k n : N) (r c : N) : C :=
    match lift_idx_model qs k n r c with
    | Done idx => lifted c0 M idx
    | _ => c0
    end.

  (** * Gates *)
  Variable P : Type.
  Variable base : gate -> option P -> N -> N -> C.

  (** `Gate::to_unitary` as a total function (0 where the model reports an error or a panic) *)
  Definition gate_unitary_model (n : N) (x : mgate P) (r c : N) : C :=
    match to_unitary_model C c0 c1 cadd cmul cconj P base x n r c with
    | Ok (Done v) => v
    | _ => c0
    end.
  Definition gate_unitary_spec (n : N) (x : mgate P) (r c : N) : C :=
    match to_unitary_spec C c0 c1 cadd cmul cconj P base x n r c with
    | Ok v => v
    | Err _ => c0
    end.

  (** A gate record on which `to_unitary(n)` is defined: gate_matrix succeeds, one qubit per matrix
      qubit, the qubits are distinct and below n. *)
  Definition gate_ok (n : N) (x : mgate P) : Prop :=
    (exists m, gate_matrix C c0 c1 cadd cmul cconj P base (g_name P x) (g_mods P x) (g_params P x) = Ok m) /\
    N.of_nat (length (g_qubits P x)) = arity (g_name P x) + mod_count (g_mods P x) /\
    NoDup (g_qubits P x) /\ (forall q, In q (g_qubits P x) -> q < n).
End Scalars.

(** * The standard tables as a [base] family: the parameter is the angle; [theta0] is used where a
    table is read without a parameter (the constant tables do not mention the angle). *)
Section StdBase.
  Variables (C A : Type).
  Variables (c0 c1 ci cs ccis4 : C) (cadd cmul csub : C -> C -> C) (copp : C -> C).
  Variables (half aneg : A -> A) (ccos csin ccis : A -> C) (theta0 : A).

  Definition table_matrix (t : table) (theta : A) (a b : N) : C :=
    denote C A c0 c1 ci cs ccis4 cadd cmul csub copp theta half aneg ccos csin ccis (tget t a b).

  Definition std_base (g : gate) (p : option A) : N -> N -> C :=
    table_matrix (model_table g) (match p with Some t => t | None => theta0 end).
  Definition std_base_spec (g : gate) (p : option A) : N -> N -> C :=
    table_matrix (spec_table g) (match p with Some t => t | None => theta0 end).
End StdBase.

(** * A concrete scalar structure: Q(zeta_8), zeta_8 = e^{i pi/4}

    Elements a + b z + c z^2 + d z^3 with z^4 = -1 and a, b, c, d canonical rationals.
    i = z^2, sqrt 2 = z - z^3, complex conjugation sends z to z^{-1} = -z^3. *)
Record K8 := MkK8 { k8a : Qc; k8b : Qc; k8c : Qc; k8d : Qc }.

Definition K8_0 : K8 := MkK8 0%Qc 0%Qc 0%Qc 0%Qc.
Definition K8_1 : K8 := MkK8 1%Qc 0%Qc 0%Qc 0%Qc.
Definition K8_add (x y : K8) : K8 :=
  MkK8 (k8a x + k8a y)%Qc (k8b x + k8b y)%Qc (k8c x + k8c y)%Qc (k8d x + k8d y)%Qc.
Definition K8_opp (x : K8) : K8 := MkK8 (- k8a x)%Qc (- k8b x)%Qc (- k8c x)%Qc (- k8d x)%Qc.
Definition K8_sub (x y : K8) : K8 := K8_add x (K8_opp y).
Definition K8_mul (x y : K8) : K8 :=
  let (a, b, c, d) := x in
  let (e, f, g, h) := y in
  MkK8 (a * e - b * h - c * g - d * f)%Qc
       (a * f + b * e - c * h - d * g)%Qc
       (a * g + b * f + c * e - d * h)%Qc
       (a * h + b * g + c * f + d * e)%Qc.
Definition K8_conj (x : K8) : K8 := MkK8 (k8a x) (- k8d x)%Qc (- k8c x)%Qc (- k8b x)%Qc.

Definition K8_i : K8 := MkK8 0%Qc 0%Qc 1%Qc 0%Qc.
Definition qhalf : Qc := Q2Qc (1 # 2).
Definition K8_s : K8 := MkK8 0%Qc qhalf 0%Qc (- qhalf)%Qc.          (* 1/sqrt 2 = (z - z^3)/2 *)
Definition K8_cis4 : K8 := MkK8 0%Qc 1%Qc 0%Qc 0%Qc.                  (* z *)
Definition K8_of_Qc (q : Qc) : K8 := MkK8 q 0%Qc 0%Qc 0%Qc.

(** Angles with rational cosine and sine: the multiples k * phi of phi = atan(4/3), i.e.
    e^{i k phi} = ((3 + 4i)/5)^k; k is an integer, negation is -k, "half" is any function (no law about
    halving is needed by the theorems), here k |-> k (theta/2 ranges over the same set). *)
Definition q35 : Qc := Q2Qc (3 # 5).
Definition q45 : Qc := Q2Qc (4 # 5).
(** (c, s) |-> (c, s) * (3/5, 4/5) as complex numbers *)
Definition rot_step (cs : Qc * Qc) : Qc * Qc :=
  (fst cs * q35 - snd cs * q45, fst cs * q45 + snd cs * q35)%Qc.
Fixpoint rot_nat (k : nat) : Qc * Qc :=
  match k with O => (1%Qc, 0%Qc) | S j => rot_step (rot_nat j) end.
Definition rot (k : Z) : Qc * Qc :=
  match k with
  | Z0 => (1%Qc, 0%Qc)
  | Zpos p => rot_nat (Pos.to_nat p)
  | Zneg p => let cs := rot_nat (Pos.to_nat p) in (fst cs, (- snd cs)%Qc)
  end.
Definition K8_cos (k : Z) : K8 := K8_of_Qc (fst (rot k)).
Definition K8_sin (k : Z) : K8 := K8_of_Qc (snd (rot k)).
Definition K8_cis (k : Z) : K8 := K8_add (K8_cos k) (K8_mul K8_i (K8_sin k)).

(** the standard tables over Q(zeta_8), and the coefficients of an element as (numerator,
    denominator) pairs — for the concrete non-vacuity example of C15 *)
Definition K8_base : gate -> option Z -> N -> N -> K8 :=
  std_base K8 Z K8_0 K8_1 K8_i K8_s K8_cis4 K8_add K8_mul K8_sub K8_opp (fun k => k) Z.opp
           K8_cos K8_sin K8_cis 0%Z.
Definition K8_coeffs (x : K8) : list (Z * positive) :=
  map (fun q : Qc => (Qnum (this q), Qden (this q))) [k8a x; k8b x; k8c x; k8d x].
