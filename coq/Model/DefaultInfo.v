(** Glue between the model of the DEFAULT instruction handler (Model/Frames.v: which frames an
    instruction uses / blocks) and the per-instruction summary [info] that the model of
    [ScheduledBasicBlock::build] (Model/Graph.v) consumes.

    Executable definitions only (no proofs).

    [default_info keys avail d] is what [DefaultHandler] reports for the instruction [d] of a
    program whose frame set has the keys [keys] (an IndexMap: no duplicate keys) and whose
    used-qubit cache is [avail]:

    - [role]         quil-rs/src/instruction/mod.rs, [impl InstructionHandler for DefaultHandler]
    - [is_scheduled] same place: RESET -> false, WAIT -> true, otherwise role == RFControl
    - [matching_frames] -> [Frames.matching_frames]; [None] becomes "both sets empty", exactly as
      graph.rs treats it ([matched_frames.used] / [.blocked] are only visited under [Some]).

    Frames are numbered by their POSITION in [keys] ([findex]).  The harness (graphgen.rs,
    [e2e_blocks]) numbers the program's frames by position in the sorted list of its frame keys;
    any injective numbering gives the same graph up to the frame labels, which [build] erases.

    Memory accesses are not modelled here (C27, Model/MemAccess.v does that for the full
    instruction AST): an instruction carries what the handler answered, [None] = the handler
    returned an error ([CALL] to an unknown extern). *)
From Coq Require Import List NArith Bool.
From QV Require Import Model.DepQueue Model.Frames Model.Graph.
Import ListNotations.

(** position of [f] in [keys] (first occurrence); [length keys] if absent *)
Fixpoint findex (keys : list frame) (f : frame) : N :=
  match keys with
  | [] => 0%N
  | g :: t => if frame_eqb f g then 0%N else N.succ (findex t f)
  end.

(** The [Instruction] variants that are not frame-related ([FOther] of Frames.v), by the arm of
    [DefaultHandler::role] they fall in; WAIT apart because [is_scheduled] singles it out.
    - [OClassical]: Arithmetic, Call, Comparison, Convert, BinaryLogic, UnaryLogic, Move, Exchange,
                    Load, Nop, Pragma, Store
    - [OCompose]:   DEFCAL, DEFCIRCUIT, DECLARE, DEFFRAME, Gate, DEFGATE, INCLUDE, LABEL,
                    DEFCAL MEASURE, MEASURE, DEFWAVEFORM
    - [OJump]:      HALT, JUMP, JUMP-WHEN, JUMP-UNLESS
    - [OWait]:      WAIT *)
Inductive okind := OClassical | OCompose | OJump | OWait.

(** reads, writes, captures; [None] = [memory_accesses] returned [Err] *)
Definition dmem := option (list N * list N * list N).

(** One instruction as the default handler sees it.  [d_other] is consulted only when
    [d_frame = FOther]. *)
Record dinstr := MkD { d_frame : finstr; d_other : okind; d_mem : dmem }.

(** [DefaultHandler::role] *)
Definition d_role (d : dinstr) : role :=
  match d_frame d with
  | FOther =>
      match d_other d with
      | OClassical => RClassical
      | OCompose => RCompose
      | OJump | OWait => RControl
      end
  | _ => RRF        (* Reset, Capture, Delay, Fence, Pulse, RawCapture, Set-/Shift-*, SwapPhases *)
  end.

(** [DefaultHandler::is_scheduled] *)
Definition d_sched (d : dinstr) : bool :=
  match d_frame d with
  | FReset _ => false
  | FOther => match d_other d with OWait => true | _ => false end
  | _ => true
  end.

(** [matching_frames] with the frames numbered by position; [None] = both empty *)
Definition default_frames_info (keys : list frame) (avail : list N) (i : finstr) : list N * list N :=
  match matching_frames keys avail i with
  | Some (u, b) => (map (findex keys) u, map (findex keys) b)
  | None => ([], [])
  end.

Definition default_info (keys : list frame) (avail : list N) (d : dinstr) : info :=
  let '(u, b) := default_frames_info keys avail (d_frame d) in
  let '(r, w, c) := match d_mem d with Some m => m | None => ([], [], []) end in
  MkInfo (d_role d) (match d_mem d with None => true | Some _ => false end) r w c u b (d_sched d).

(** A block as the default handler summarises it, and its graph. *)
Definition default_block (keys : list frame) (avail : list N) (ds : list dinstr) : list info :=
  map (default_info keys avail) ds.
Definition default_term (keys : list frame) (avail : list N) (t : option dinstr) : option info :=
  option_map (default_info keys avail) t.
Definition default_build (keys : list frame) (avail : list N) (ds : list dinstr) (t : option dinstr)
  : result :=
  build (default_block keys avail ds) (default_term keys avail t).

(** the terminator, if it has an instruction form, is a control-flow instruction *)
Definition term_ok (t : option dinstr) : bool :=
  match t with
  | None => true
  | Some d => match d_role d with RControl => true | _ => false end
  end.

(** "the instruction matches at least one defined frame" (vacuous for non-frame instructions) *)
Definition d_matches_some (keys : list frame) (avail : list N) (d : dinstr) : bool :=
  match matching_frames keys avail (d_frame d) with
  | Some (u, b) => negb (is_nil (u ++ b))
  | None => true
  end.

(** "one of the two uses a frame the other uses or blocks", on the frames themselves *)
Definition d_conflict (keys : list frame) (avail : list N) (d e : dinstr) : bool :=
  match matching_frames keys avail (d_frame d), matching_frames keys avail (d_frame e) with
  | Some (ud, bd), Some (ue, be) =>
      existsb (fun f => memF f ue || memF f be) ud || existsb (fun f => memF f ud || memF f bd) ue
  | _, _ => false
  end.

(** no duplicate keys, decidable form (for concrete examples) *)
Fixpoint nodupF (l : list frame) : bool :=
  match l with [] => true | f :: t => negb (memF f t) && nodupF t end.

(** ** Case files: validation of the glue against the real [DefaultHandler].

    A case: frame keys (in the order the harness numbers them), used-qubit set, the block's
    instructions and terminator as [dinstr], and the summaries the real handler reported (frame
    and region lists sorted by the harness).  Verdict 0 = [default_info] reproduces every
    reported summary (lists compared as sets) and the keys are duplicate-free; 1 = it does not. *)
Definition setN_eqb (a b : list N) : bool :=
  forallb (fun x => DepQueue.memN x b) a && forallb (fun x => DepQueue.memN x a) b.

Definition role_eqb (a b : role) : bool :=
  match a, b with
  | RClassical, RClassical | RRF, RRF | RControl, RControl | RCompose, RCompose => true
  | _, _ => false
  end.

Definition info_eqb (a b : info) : bool :=
  role_eqb (i_role a) (i_role b) && Bool.eqb (i_memerr a) (i_memerr b)
  && setN_eqb (i_reads a) (i_reads b) && setN_eqb (i_writes a) (i_writes b)
  && setN_eqb (i_caps a) (i_caps b)
  && setN_eqb (i_used a) (i_used b) && setN_eqb (i_blocked a) (i_blocked b)
  && Bool.eqb (i_sched a) (i_sched b).

Fixpoint infos_eqb (a b : list info) : bool :=
  match a, b with
  | [], [] => true
  | x :: a', y :: b' => info_eqb x y && infos_eqb a' b'
  | _, _ => false
  end.

Definition dcase :=
  (list frame * list N * list dinstr * option dinstr * list info * option info)%type.

Definition dcase_verdict (c : dcase) : N :=
  let '(keys, avail, ds, t, obs, obst) := c in
  if nodupF keys
     && infos_eqb (default_block keys avail ds) obs
     && infos_eqb (opt_list (default_term keys avail t)) (opt_list obst)
  then 0%N else 1%N.

Fixpoint dfailing_from (n : N) (cs : list dcase) : list (N * N) :=
  match cs with
  | [] => []
  | c :: t =>
      let v := dcase_verdict c in
      (if N.eqb v 0 then [] else [(n, v)]) ++ dfailing_from (N.succ n) t
  end.

Definition dfailing (cs : list dcase) : list (N * N) := dfailing_from 0%N cs.
