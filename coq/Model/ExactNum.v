(** Exact arithmetic used to *execute* the expression models against the implementation.

    A finite IEEE double is a dyadic rational; on small dyadic rationals the double operations
    +, -, * and division with a dyadic quotient are exact.  The executable carrier is therefore
    [xc := option (Q * Q)]: [Some (re, im)] is a complex number whose parts are exactly known,
    [None] is "a double this model does not compute" (pi, the transcendental functions, a power
    with non-zero exponent, a quotient that is not a small dyadic, an overflowing mantissa).
    [None] is absorbing.  The case files compare values only where the model yields [Some].

    Executable definitions only. *)
From Coq Require Import List NArith ZArith QArith Bool.
From QV Require Import Model.Expr.
Import ListNotations.

Definition gq := (Q * Q)%type.
Definition xc := option gq.

Fixpoint is_pow2 (p : positive) : bool :=
  match p with xH => true | xO p' => is_pow2 p' | xI _ => false end.

(** [q] (reduced) is a double with room to spare: odd part of at most 40 bits (so that one more
    product of two such literals still fits the 53-bit mantissa), exponent within 2^-200..2^200. *)
Definition small_dyadic (q : Q) : bool :=
  let r := Qred q in
  is_pow2 (Qden r) && (Z.abs (Qnum r) <? 2 ^ 200)%Z && (Z.pos (Qden r) <? 2 ^ 200)%Z.

Definition mant_ok (q : Q) : bool :=
  let r := Qred q in
  (* numerator over a power-of-two denominator: mantissa = numerator without trailing zeros *)
  is_pow2 (Qden r) &&
  (Z.abs (Qnum r) / 2 ^ (Z.log2 (Z.land (Z.abs (Qnum r)) (- Z.abs (Qnum r)))) <? 2 ^ 53)%Z &&
  (Z.abs (Qnum r) <? 2 ^ 200)%Z && (Z.pos (Qden r) <? 2 ^ 200)%Z.

(** One real operation, checked. *)
Definition ck (q : Q) : option Q := let r := Qred q in if mant_ok r then Some r else None.

Definition obind {X Y} (o : option X) (k : X -> option Y) : option Y :=
  match o with Some x => k x | None => None end.

Definition q_is_zero (q : Q) : bool := Qeq_bool q 0.

Definition g_add (a b : gq) : xc :=
  obind (ck (fst a + fst b)) (fun re => obind (ck (snd a + snd b)) (fun im => Some (re, im))).
Definition g_sub (a b : gq) : xc :=
  obind (ck (fst a - fst b)) (fun re => obind (ck (snd a - snd b)) (fun im => Some (re, im))).
(** num_complex: (a*c - b*d, a*d + b*c) *)
Definition g_mul (a b : gq) : xc :=
  obind (ck (fst a * fst b)) (fun ac => obind (ck (snd a * snd b)) (fun bd =>
  obind (ck (fst a * snd b)) (fun ad => obind (ck (snd a * fst b)) (fun bc =>
  obind (ck (ac - bd)) (fun re => obind (ck (ad + bc)) (fun im => Some (re, im))))))).
(** num_complex: n = c*c + d*d; ((a*c + b*d)/n, (b*c - a*d)/n); a zero divisor gives inf/NaN *)
Definition g_div (a b : gq) : xc :=
  obind (ck (fst b * fst b)) (fun cc => obind (ck (snd b * snd b)) (fun dd =>
  obind (ck (cc + dd)) (fun n =>
  if q_is_zero n then None else
  obind (ck (fst a * fst b)) (fun ac => obind (ck (snd a * snd b)) (fun bd =>
  obind (ck (snd a * fst b)) (fun bc => obind (ck (fst a * snd b)) (fun ad =>
  obind (ck (ac + bd)) (fun x => obind (ck (bc - ad)) (fun y =>
  obind (ck (x / n)) (fun re => obind (ck (y / n)) (fun im => Some (re, im)))))))))))).
Definition g_neg (a : gq) : gq := (Qred (- fst a), Qred (- snd a)).
Definition g_is_zero (a : gq) : bool := q_is_zero (fst a) && q_is_zero (snd a).
(** Complex64::powc: an exponent equal to zero gives one; anything else goes through exp/ln. *)
Definition g_pow (a b : gq) : xc := if g_is_zero b then Some (1, 0) else None.

Definition g_eqb (a b : gq) : bool := Qeq_bool (fst a) (fst b) && Qeq_bool (snd a) (snd b).
Definition xc_eqb (a b : xc) : bool :=
  match a, b with Some x, Some y => g_eqb x y | None, None => true | _, _ => false end.

Definition x_lift2 (f : gq -> gq -> xc) (a b : xc) : xc :=
  match a, b with Some x, Some y => f x y | _, _ => None end.

Definition x_infix (o : infix_op) : xc -> xc -> xc :=
  x_lift2 (match o with
           | Plus => g_add | Minus => g_sub | Star => g_mul | Slash => g_div | Caret => g_pow
           end).

(** The evaluation algebra of [Expression::evaluate] on exactly-known doubles: literals are [gq],
    memory cells are [Q]; every operation is total (as in IEEE arithmetic). *)
Definition exact_alg : alg gq xc Q := {|
  of_lit := fun c => Some (Qred (fst c), Qred (snd c));
  of_mem := fun m => Some (Qred m, 0);
  c_pi := None;
  c_neg := option_map g_neg;
  c_fn := fun _ _ => None;
  c_infix := fun o x y => Some (x_infix o x y);
|}.

(** What the harness observed for one evaluation: [None] = Err(Incomplete); [Some None] = Ok of a
    value outside the exactly-known range; [Some (Some v)] = Ok v. *)
Definition obs := option xc.

(** Agreement of a model value with an observed value: same Ok/Err class, and equal values
    wherever the model knows the value exactly. *)
Definition obs_agree (model observed : obs) : bool :=
  match model, observed with
  | None, None => true
  | Some None, Some _ => true
  | Some (Some v), Some (Some w) => g_eqb v w
  | _, _ => false
  end.

Definition obs_ok (o : obs) : bool := match o with Some _ => true | None => false end.

Definition memref_eqb (a b : memref) : bool := N.eqb (fst a) (fst b) && N.eqb (snd a) (snd b).
Fixpoint list_eqb {X} (eqb : X -> X -> bool) (a b : list X) : bool :=
  match a, b with
  | [], [] => true
  | x :: a', y :: b' => eqb x y && list_eqb eqb a' b'
  | _, _ => false
  end.
