(** Model of [DefaultHandler::memory_accesses] (instruction/mod.rs), the memory-reference iterator
    of expressions (program/memory.rs) and [Call::default_memory_accesses]
    (instruction/extern_call.rs).

    Executable definitions only.  Region names, extern names, operators and literals are interned
    to [N].  An access set (a [HashSet<String>]) is a list of regions compared as a set. *)
From Coq Require Import List NArith Bool.
Import ListNotations.

Definition mref := (N * N)%type.          (* region, index *)
Definition mreg (m : mref) : N := fst m.

(** [enum Expression] *)
Inductive expr :=
| ENum (k : N)
| EPi
| EVar (v : N)
| EAddr (m : mref)
| EFun (f : N) (e : expr)
| EPrefix (o : N) (e : expr)
| EInfix (o : N) (l r : expr).

(** [Expression::memory_references] — the specification given in the comment of the iterator
    ([collect_into]): left-to-right. *)
Fixpoint memrefs (e : expr) : list mref :=
  match e with
  | ENum _ | EPi | EVar _ => []
  | EAddr m => [m]
  | EFun _ e | EPrefix _ e => memrefs e
  | EInfix _ l r => memrefs l ++ memrefs r
  end.

(** The iterator itself ([MemoryReferences::next]): an explicit stack of pending expressions.
    [mr_next fuel stack] = the next reference and the remaining stack.  One unit of fuel per
    expression node visited. *)
Fixpoint mr_walk (fuel : nat) (e : expr) (stack : list expr) : option (mref * list expr) :=
  match fuel with
  | O => None
  | S fuel' =>
      match e with
      | ENum _ | EPi | EVar _ =>
          match stack with
          | [] => None
          | e' :: stack' => mr_walk fuel' e' stack'            (* continue 'stack_search *)
          end
      | EAddr m => Some (m, stack)
      | EFun _ e' | EPrefix _ e' => mr_walk fuel' e' stack       (* expr = expression *)
      | EInfix _ l r => mr_walk fuel' l (r :: stack)             (* stack.push(right); expr = left *)
      end
  end.

Fixpoint esize (e : expr) : nat :=
  match e with
  | ENum _ | EPi | EVar _ | EAddr _ => 1
  | EFun _ e | EPrefix _ e => S (esize e)
  | EInfix _ l r => S (esize l + esize r)
  end.

Definition stack_size (st : list expr) : nat := fold_right (fun e n => esize e + n) 0 st.

(** collect the whole iterator *)
Fixpoint mr_collect (rounds : nat) (stack : list expr) : list mref :=
  match rounds with
  | O => []
  | S r =>
      match stack with
      | [] => []
      | e :: st =>
          match mr_walk (stack_size stack) e st with
          | None => []
          | Some (m, st') => m :: mr_collect r st'
          end
      end
  end.

Definition memrefs_iter (e : expr) : list mref := mr_collect (S (esize e)) [e].

(** classical operands: a literal or a memory reference *)
Inductive operand := OLit (k : N) | ORef (m : mref).

Definition operand_ref (o : operand) : option mref :=
  match o with OLit _ => None | ORef m => Some m end.

(** CALL arguments ([UnresolvedCallArgument]) *)
Inductive callarg := AIdent (r : N) | ARef (m : mref) | AImm (k : N).

(** An extern signature as far as accesses and the call semantics need it: whether it has a
    return type, and per parameter (mutable, is_vector). *)
Definition esig := (bool * list (bool * bool))%type.
Definition sigmap := list (N * esig).

Fixpoint sig_lookup (sigs : sigmap) (name : N) : option esig :=
  match sigs with
  | [] => None
  | (n, s) :: t => if N.eqb n name then Some s else sig_lookup t name
  end.

Inductive ekind :=
| KGate | KDelay | KSetFrequency | KSetPhase | KSetScale | KShiftFrequency | KShiftPhase
| KPulse | KDefWaveform | KDefGateMatrix
| KFrameDefinition      (* DEFFRAME: its expression-valued attributes (scanned since fix 5c78b87) *)
| KDefGatePauliSum.     (* DEFGATE ... AS PAULI-SUM: its term coefficients (scanned since fix 5c78b87) *)

Inductive nkind :=
| KDeclaration | KFence | KHalt | KWait | KInclude | KJump | KLabel | KNop
| KPragma | KReset | KSwapPhases | KDefGatePermutation.

Inductive bkind := KDefCal | KDefCircuit | KDefMeasureCal.

(** The memory-relevant content of an [Instruction]. *)
Inductive instr :=
| IConvert (d s : mref)
| IMove (d : mref) (s : operand)
| IBinaryLogic (op : N) (d : mref) (s : operand)
| IArithmetic (op : N) (d : mref) (s : operand)
| IUnaryLogic (op : N) (m : mref)
| IExchange (l r : mref)
| IJumpWhen (c : mref)
| IJumpUnless (c : mref)
| IComparison (op : N) (d l : mref) (r : operand)
| IExprs (k : ekind) (es : list expr)        (* instructions that only read expressions *)
| ICapture (t : mref) (es : list expr)       (* CAPTURE: target, waveform parameters *)
| IRawCapture (t : mref) (dur : expr)
| IMeasure (t : option mref)
| ICall (name : N) (args : list callarg)
| ILoad (d : mref) (src : N) (off : mref)
| IStore (dst : N) (off : mref) (s : operand)
| INoAccess (k : nkind)
| IDefGateSeq (gates : list (list expr))     (* DEFGATE ... AS SEQUENCE: parameters of each gate *)
| IBlock (k : bkind) (params : list expr) (body : list instr).

(** [MemoryAccesses]: (reads, writes, captures) *)
Definition acc := (list N * list N * list N)%type.
Definition a_reads (a : acc) : list N := fst (fst a).
Definition a_writes (a : acc) : list N := snd (fst a).
Definition a_captures (a : acc) : list N := snd a.

Definition acc_none : acc := ([], [], []).
Definition acc_union (a b : acc) : acc :=
  (a_reads a ++ a_reads b, a_writes a ++ a_writes b, a_captures a ++ a_captures b).

(** the helper closures of [memory_accesses], under their Rust names *)
Definition access (m : mref) : list N := [mreg m].
Definition accesses2 (m1 m2 : mref) : list N := [mreg m1; mreg m2].
Definition access_opt (o : option mref) : list N := match o with None => [] | Some m => access m end.
Definition access_operand (o : operand) : list N := access_opt (operand_ref o).
Definition accesses_with_operand (m : mref) (o : operand) : list N :=
  match operand_ref o with Some other => accesses2 m other | None => access m end.

Definition like_move (d : mref) (src : list N) : acc := (src, access d, []).
Definition binary (d : mref) (s : operand) : acc := (accesses_with_operand d s, access d, []).
Definition read_write (places : list N) : acc := (places, places, []).
Definition read_one (m : mref) : acc := (access m, [], []).
Definition read_all (ms : list mref) : acc := (map mreg ms, [], []).
Definition exprs_refs (es : list expr) : list mref := flat_map memrefs es.

(** [Call::default_memory_accesses] *)
Fixpoint call_params (args : list callarg) (params : list (bool * bool)) (rw : list N * list N)
  : list N * list N :=
  match args, params with
  | a :: args', (mutable, _) :: params' =>     (* std::iter::zip: stops at the shorter *)
      let rw' :=
        match a with
        | ARef m => (fst rw ++ [mreg m], if mutable then snd rw ++ [mreg m] else snd rw)
        | AIdent r => (fst rw ++ [r], if mutable then snd rw ++ [r] else snd rw)
        | AImm _ => rw
        end in
      call_params args' params' rw'
  | _, _ => rw
  end.

Definition call_accesses (sigs : sigmap) (name : N) (args : list callarg) : option acc :=
  match sig_lookup sigs name with
  | None => None                                   (* NoMatchingExternInstruction *)
  | Some (has_ret, params) =>
      let '(rw, rest) :=
        if has_ret then
          match args with
          | [] => (([], []), [])
          | ARef m :: rest => (([mreg m], [mreg m]), rest)
          | AIdent r :: rest => (([r], [r]), rest)
          | AImm _ :: rest => (([], []), rest)
          end
        else (([], []), args) in
      let rw' := call_params rest params rw in
      Some (fst rw', snd rw', [])
  end.

(** [DefaultHandler::memory_accesses]; [None] = Err *)
Fixpoint accesses (sigs : sigmap) (i : instr) : option acc :=
  match i with
  | IConvert d s => Some (like_move d (access s))
  | IMove d s => Some (like_move d (access_operand s))
  | IBinaryLogic _ d s => Some (binary d s)
  | IArithmetic _ d s => Some (binary d s)
  | IUnaryLogic _ m => Some (read_write (access m))
  | IExchange l r => Some (read_write (accesses2 l r))
  | IJumpWhen c | IJumpUnless c => Some (read_one c)
  | IComparison _ d l r => Some (accesses_with_operand l r, access d, [])
  | IExprs _ es => Some (read_all (exprs_refs es))
  | ICapture t es => Some (map mreg (exprs_refs es), [], access t)
  | IRawCapture t dur => Some (map mreg (memrefs dur), [], access t)
  | IMeasure t => Some ([], [], access_opt t)
  | ICall name args => call_accesses sigs name args
  | ILoad d src off => Some ([src; mreg off], access d, [])
  | IStore dst off s => Some (accesses_with_operand off s, [dst], [])
  | INoAccess _ => Some acc_none
  | IDefGateSeq gates =>
      Some (fold_left acc_union (map (fun ps => read_all (exprs_refs ps)) gates) acc_none)
  | IBlock k params body =>
      let init := match k with KDefCal => read_all (exprs_refs params) | _ => acc_none end in
      (fix go (l : list instr) (a : acc) : option acc :=     (* fold_ok(init, union) *)
         match l with
         | [] => Some a
         | x :: t => match accesses sigs x with None => None | Some b => go t (acc_union a b) end
         end) body init
  end.

(** ** Case files *)
Fixpoint memN (n : N) (l : list N) : bool :=
  match l with [] => false | x :: t => if N.eqb n x then true else memN n t end.
Definition subsetN (a b : list N) : bool := forallb (fun x => memN x b) a.
Definition setN_eqb (a b : list N) : bool := subsetN a b && subsetN b a.

(** The table as it was before fix 5c78b87 (quil-rs 6d06b71): DEFFRAME and DEFGATE AS PAULI-SUM
    were listed among the instructions that "can't contain any memory references".  Kept only for
    the regression statement [C27_unfixed_table_refuted]; nothing else uses it. *)
Definition accesses_unfixed (sigs : sigmap) (i : instr) : option acc :=
  match i with
  | IExprs KFrameDefinition _ | IExprs KDefGatePauliSum _ => Some acc_none
  | _ => accesses sigs i
  end.

(** Verified instance checker: compares a reported result with the access table.
    0 = exactly the table; 2 = unsound (error/ok mismatch, or some consulted / assigned / captured
    region is missing); 3 = sound but not exact (reports a region the instruction does not touch). *)
Definition chk_access (sigs : sigmap) (i : instr) (obs : option acc) : N :=
  match accesses sigs i, obs with
  | None, None => 0
  | Some a, Some o =>
      if subsetN (a_reads a) (a_reads o) && subsetN (a_writes a) (a_writes o)
         && subsetN (a_captures a) (a_captures o)
      then if subsetN (a_reads o) (a_reads a) && subsetN (a_writes o) (a_writes a)
              && subsetN (a_captures o) (a_captures a)
           then 0 else 3
      else 2
  | _, _ => 2
  end%N.

(** A case also carries the references yielded by the real iterator for every expression of the
    instruction (in order), compared with the stack-machine model [memrefs_iter]; code 4 = the
    iterator differs. *)
Fixpoint listM_eqb (a b : list mref) : bool :=
  match a, b with
  | [], [] => true
  | (r, i) :: a', (r', i') :: b' => N.eqb r r' && N.eqb i i' && listM_eqb a' b'
  | _, _ => false
  end.

Fixpoint iter_ok (l : list (expr * list mref)) : bool :=
  match l with
  | [] => true
  | (e, ms) :: t => listM_eqb (memrefs_iter e) ms && iter_ok t
  end.

Definition case := (sigmap * instr * option acc * list (expr * list mref))%type.

Definition case_verdict (c : case) : N :=
  let '(sigs, i, obs, its) := c in
  let v := chk_access sigs i obs in
  if negb (N.eqb v 0) then v else if iter_ok its then 0%N else 4%N.

Fixpoint failing_from (n : N) (cs : list case) : list (N * N) :=
  match cs with
  | [] => []
  | c :: t =>
      let v := case_verdict c in
      (if N.eqb v 0 then [] else [(n, v)]) ++ failing_from (N.succ n) t
  end.

Definition failing (cs : list case) : list (N * N) := failing_from 0%N cs.
