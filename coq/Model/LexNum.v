(** Model of numeric-literal lexing and of the literal-consuming operand parsers (property C05).

    Lexer side (quil-rs/src/parser/lexer/mod.rs): [lex_number] = alt(binary, octal, hexadecimal,
    decimal).  The numbers themselves are read by the [lexical] crate configured by
    [number_format]: digit separator [_] allowed inside / after / repeatedly in every digit run
    (and, as observed, also directly after a base prefix and at the start of the exponent digits;
    a separator directly after the decimal point ends the number at the point -- the lexer's
    workaround for a lexical bug), optional fraction,
    optional exponent [e|E] [+|-] digits with at least one digit, no special values, partial
    parsing (the longest well-formed prefix is consumed and lexing continues right after it).
    The transliteration below is at byte level; it is tied to the real lexer by the exhaustive
    correspondence run of harness/src/bin/c05.rs (hook verif::lex_debug).

    Parser side (parser/common.rs, after the fix): [signed_operand] = parse_signed_integer,
    [arith_operand] / [logic_operand] = the alt(...) of parse_arithmetic_operand (identical to
    parse_comparison_operand) / parse_binary_logic_operand over a token list.

    Reals are never computed: a float token carries its exact decimal value [m * 10^e]; which
    binary64 the lexer produced for it is an observation, judged by [chk_nearest].
    Executable definitions only (no proofs). *)
From Coq Require Import List NArith ZArith Bool.
Import ListNotations.
Open Scope N_scope.

(** ** Characters *)
Definition c_US : N := 95.    (* underscore *)
Definition c_DOT : N := 46.
Definition c_PLUS : N := 43.
Definition c_MINUS : N := 45.
Definition c_0 : N := 48.
Definition c_e : N := 101.
Definition c_E : N := 69.

Definition digit_val (c : N) : option N :=
  if (48 <=? c) && (c <=? 57) then Some (c - 48)
  else if (97 <=? c) && (c <=? 102) then Some (c - 87)
  else if (65 <=? c) && (c <=? 70) then Some (c - 55)
  else None.

(** the value of [c] as a digit of radix [r] (2, 8, 10 or 16) *)
Definition digit (r c : N) : option N :=
  match digit_val c with
  | Some d => if d <? r then Some d else None
  | None => None
  end.

(** A digit run: the maximal prefix made of radix-[r] digits and separators.  Returns the digit
    values (separators dropped), the number of bytes consumed, and the remaining input. *)
Fixpoint run (r : N) (l : list N) : list N * N * list N :=
  match l with
  | [] => ([], 0, [])
  | c :: t =>
      if c =? c_US then let '(ds, k, rest) := run r t in (ds, k + 1, rest)
      else
        match digit r c with
        | Some d => let '(ds, k, rest) := run r t in (d :: ds, k + 1, rest)
        | None => ([], 0, l)
        end
  end.

(** Unbounded value of a digit list (most significant first), from accumulator [acc]. *)
Fixpoint horner (r acc : N) (ds : list N) : N :=
  match ds with [] => acc | d :: t => horner r (acc * r + d) t end.

Definition two64 : N := 18446744073709551616.

(** [u64] accumulation with overflow detection: [None] as soon as the value leaves the range. *)
Fixpoint acc_u64 (r acc : N) (ds : list N) : option N :=
  match ds with
  | [] => Some acc
  | d :: t => let a := acc * r + d in if a <? two64 then acc_u64 r a t else None
  end.

(** ** Tokens and results *)
Inductive ntok :=
| TInt (v : N)                 (* Token::Integer(v) *)
| TFloat (m : N) (e : Z).      (* Token::Float(x) where x is the binary64 chosen for m * 10^e *)

Inductive nres :=
| NOk (t : ntok) (rest : list N)
| NErr                         (* nom::Err::Error: not a number here, other alternatives may apply *)
| NFail.                       (* nom::Err::Failure: it was a number, but a bad one (cut) *)

(** [raw_lex_integer] with a base prefix: peek the case-insensitive prefix, then the cut lexical
    parse; a parse that consumed no digit after the two prefix bytes (nothing, or separators
    only) is the EmptyInteger error. *)
Definition lex_prefixed (r p_lower : N) (l : list N) : nres :=
  match l with
  | c0 :: c1 :: t =>
      if (c0 =? c_0) && ((c1 =? p_lower) || (c1 =? p_lower - 32)) then
        let '(ds, _, rest) := run r t in
        match ds with
        | [] => NFail
        | _ => match acc_u64 r 0 ds with Some v => NOk (TInt v) rest | None => NFail end
        end
      else NErr
  | _ => NErr
  end.

(** *** Floats *)
Definition pow10 (k : N) : N := 10 ^ k.

(** [m * 10^e >= a * 2^b] decided exactly (callers keep [e] and [b] moderate) *)
Definition ge_scaled (m : N) (e : Z) (a : N) (b : Z) : bool :=
  let lhs := (m * pow10 (Z.to_N e) * 2 ^ (Z.to_N (- b)))%N in
  let rhs := (a * 2 ^ (Z.to_N b) * pow10 (Z.to_N (- e)))%N in
  rhs <=? lhs.

(** number of binary digits of [m] *)
Definition bits_of (m : N) : N := match m with 0 => 0 | _ => N.log2 m + 1 end.

(** The literal's value rounds to infinity: [m * 10^e >= 2^1024 - 2^970] (the midpoint between the
    largest finite binary64 and 2^1024; the tie goes to the even neighbour, i.e. infinity). *)
Definition float_overflows (m : N) (e : Z) : bool :=
  if m =? 0 then false
  else if (400 <? e)%Z then true
  else if (e <? 0)%Z && (Z.of_N (bits_of m) <? - e)%Z then false   (* m * 10^e < 1 *)
  else ge_scaled m e (2 ^ 54 - 1) 970.

Definition is_exp_char (c : N) : bool := (c =? c_e) || (c =? c_E).

(** [parse_float]: the number is first cut right after a decimal point that is directly followed
    by a separator (the lexer's workaround for lexical accepting a separator there), then
    lexical's partial f64 parse, then the finiteness check.  Every error is a Failure (the call
    sits under [cut]). *)
Definition starts_with_sep (t : list N) : bool :=
  match t with c' :: _ => c' =? c_US | [] => false end.

Definition lex_float (l : list N) : nres :=
  let '(ids, _, r1) := run 10 l in
  match r1 with
  | c :: t =>
      if (c =? c_DOT) && starts_with_sep t then
        (* cut: the number is the integer digits and the dot *)
        match ids with
        | [] => NFail                                                      (* EmptyMantissa *)
        | _ =>
            let m := horner 10 0 ids in
            if float_overflows m 0 then NFail else NOk (TFloat m 0) t
        end
      else
        (* optional fraction *)
        let '(fds, r2) :=
          if c =? c_DOT then let '(fds, _, r2) := run 10 t in (fds, r2) else ([], r1) in
        match ids ++ fds with
        | [] => NFail                                                      (* EmptyMantissa *)
        | _ =>
            (* optional exponent: e|E, optional sign, digits (at least one) *)
            match r2 with
            | c2 :: t2 =>
                if is_exp_char c2 then
                  let '(neg, t') :=
                    match t2 with
                    | s :: t' =>
                        if s =? c_MINUS then (true, t') else if s =? c_PLUS then (false, t') else (false, t2)
                    | [] => (false, t2)
                    end in
                  let '(eds, _, r3) := run 10 t' in
                  match eds with
                  | [] => NFail                                            (* EmptyExponent *)
                  | _ =>
                      let m := horner 10 0 (ids ++ fds) in
                      let x := Z.of_N (horner 10 0 eds) in
                      let e := ((if neg then - x else x) - Z.of_nat (length fds))%Z in
                      if float_overflows m e then NFail else NOk (TFloat m e) r3
                  end
                else
                  let m := horner 10 0 (ids ++ fds) in
                  let e := (- Z.of_nat (length fds))%Z in
                  if float_overflows m e then NFail else NOk (TFloat m e) r2
            | [] =>
                let m := horner 10 0 (ids ++ fds) in
                let e := (- Z.of_nat (length fds))%Z in
                if float_overflows m e then NFail else NOk (TFloat m e) []
            end
        end
  | [] =>
      match ids with
      | [] => NFail
      | _ => let m := horner 10 0 ids in if float_overflows m 0 then NFail else NOk (TFloat m 0) []
      end
  end.

(** [lex_decimal_number] *)
Definition lex_decimal (l : list N) : nres :=
  match l with
  | [] => NErr
  | c :: _ =>
      if c =? c_DOT then lex_float l
      else
        match digit 10 c with
        | None => NErr
        | Some _ =>
            let '(ds, _, rest) := run 10 l in
            match acc_u64 10 0 ds with
            | None => NFail                              (* Overflow: no backtracking *)
            | Some v =>
                match rest with
                | c' :: _ =>
                    if (c' =? c_DOT) || is_exp_char c' then lex_float l   (* a float all along *)
                    else NOk (TInt v) rest
                | [] => NOk (TInt v) []
                end
            end
        end
  end.

Definition lex_number (l : list N) : nres :=
  match lex_prefixed 2 98 l with      (* 0b *)
  | NErr =>
      match lex_prefixed 8 111 l with  (* 0o *)
      | NErr =>
          match lex_prefixed 16 120 l with  (* 0x *)
          | NErr => lex_decimal l
          | r => r
          end
      | r => r
      end
  | r => r
  end.

(** ** Operand parsers over tokens *)
Inductive tok :=
| KMinus | KPlus
| KNum (t : ntok)
| KIdent (name : list N)
| KLBracket | KRBracket
| KOther.

Definition two63 : Z := 9223372036854775808%Z.

(** [parse_signed_integer]'s conversion: the exact value in i128, then [i64::try_from]. *)
Definition signed_operand (neg : bool) (v : N) : option Z :=
  let z := if neg then (- Z.of_N v)%Z else Z.of_N v in
  if ((- two63 <=? z) && (z <? two63))%Z then Some z else None.

Inductive operand :=
| OInt (z : Z)                        (* LiteralInteger *)
| OReal (neg : bool) (m : N) (e : Z)  (* LiteralReal: sign * (the token's binary64) *)
| OMem (name : list N) (idx : N).     (* MemoryReference *)

(** [opt(token!(Operator(Minus)))] *)
Definition opt_minus (ts : list tok) : bool * list tok :=
  match ts with KMinus :: t => (true, t) | _ => (false, ts) end.

Definition parse_memref (ts : list tok) : option (operand * list tok) :=
  match ts with
  | KIdent n :: KLBracket :: KNum (TInt i) :: KRBracket :: rest => Some (OMem n i, rest)
  | KIdent n :: rest => Some (OMem n 0, rest)
  | _ => None
  end.

(** [parse_arithmetic_operand] and [parse_comparison_operand] (same shape) *)
Definition arith_operand (ts : list tok) : option (operand * list tok) :=
  let '(neg, t1) := opt_minus ts in
  match t1 with
  | KNum (TFloat m e) :: rest => Some (OReal neg m e, rest)
  | KNum (TInt v) :: rest =>
      match signed_operand neg v with
      | Some z => Some (OInt z, rest)
      | None => parse_memref ts              (* map_res error is recoverable: next alternative *)
      end
  | _ => parse_memref ts
  end.

(** [parse_binary_logic_operand] *)
Definition logic_operand (ts : list tok) : option (operand * list tok) :=
  let '(neg, t1) := opt_minus ts in
  match t1 with
  | KNum (TInt v) :: rest =>
      match signed_operand neg v with
      | Some z => Some (OInt z, rest)
      | None => parse_memref ts
      end
  | _ => parse_memref ts
  end.

(** ** binary64 and the nearest-value instance checker

    A finite non-negative binary64 with bit pattern [bits] < 2^63 has the value
    [fst (decode bits) * 2^(snd (decode bits) - 1074)]; i.e. in units of 2^-1074 it is the natural
    number [fixed bits]. *)
Definition two52 : N := 4503599627370496.
Definition decode (bits : N) : N * N :=
  let E := bits / two52 in
  let f := bits mod two52 in
  if E =? 0 then (f, 0) else (two52 + f, E - 1).

Definition fixed (bits : N) : N := let '(k, j) := decode bits in k * 2 ^ j.

Definition is_finite (bits : N) : bool := bits / two52 <? 2047.

(** Exact comparison of distances.  The literal value in units of 2^-1074 is the rational
    [num / den]; [x] is nearest when no neighbour ([x-], [x+] = adjacent bit patterns) is strictly
    closer, and on a tie the significand of [x] is even. *)
Definition absdiff (a b : N) : N := if a <? b then b - a else a - b.

Definition chk_nearest_frac (num den bits : N) : bool :=
  is_finite bits &&
  let x := fixed bits * den in
  let up := fixed (bits + 1) * den in        (* bits+1 = 0x7FF0.. decodes to 2^1024 in these units *)
  let d := absdiff num x in
  let dup := absdiff num up in
  let ok_up := (d <? dup) || ((d =? dup) && N.even bits) in
  let ok_down :=
    if bits =? 0 then true
    else
      let down := fixed (bits - 1) * den in
      let ddn := absdiff num down in
      (d <? ddn) || ((d =? ddn) && N.even bits) in
  ok_up && ok_down.

(** [bits] (sign bit cleared) is the binary64 nearest to [m * 10^e] (ties to even).  Values far
    below the smallest subnormal must give 0 (guard avoids astronomically large powers). *)
Definition chk_nearest (m : N) (e : Z) (bits : N) : bool :=
  if m =? 0 then bits =? 0
  else if (e <? 0)%Z && (Z.of_N (bits_of m) + 1080 <=? 3 * - e)%Z then bits =? 0
  else if (400 <? e)%Z then false
  else
    let num := m * pow10 (Z.to_N e) * 2 ^ 1074 in
    let den := pow10 (Z.to_N (- e)) in
    chk_nearest_frac num den bits.

(** ** Case files *)

(** What the real lexer did with the first token of a text: integer / float (bit pattern of the
    f64) with the number of bytes it spans, or a lex error. *)
Inductive lexobs := LInt (v k : N) | LFloat (bits k : N) | LErr.

Definition consumed (l rest : list N) : N := N.of_nat (length l) - N.of_nat (length rest).

(** literals in which a base prefix is followed by separators only (no digit at all): they used
    to lex as 0 (finding c05-prefix-without-digits, fixed); an accepted one is a violation *)
Definition prefix_without_digits (l : list N) : bool :=
  match l with
  | c0 :: c1 :: t =>
      (c0 =? c_0) &&
      ((c1 =? 98) || (c1 =? 66) || (c1 =? 111) || (c1 =? 79) || (c1 =? 120) || (c1 =? 88)) &&
      (let r := if (c1 =? 98) || (c1 =? 66) then 2 else if (c1 =? 111) || (c1 =? 79) then 8 else 16 in
       let '(ds, k, _) := run r t in (0 <? k) && (N.of_nat (length ds) =? 0))
  | _ => false
  end.

(** Verdict of a lexer case: 2 = the implementation produced a token whose value is not the
    literal's mathematical value; 1 = model and implementation differ otherwise; 0 = agree. *)
Definition lex_verdict (l : list N) (o : lexobs) : N :=
  match lex_number l, o with
  | NOk (TInt v) rest, LInt v' k =>
      if negb (v =? v') then 2
      else if prefix_without_digits l then 2
      else if consumed l rest =? k then 0 else 1
  | NOk (TFloat m e) rest, LFloat bits k =>
      if negb (chk_nearest m e bits) then 2
      else if consumed l rest =? k then 0 else 1
  | NErr, LErr | NFail, LErr => 0
  | NOk _ _, LErr => 1
  | _, _ => 2
  end.

(** Position classes: 0 arithmetic / comparison operand, 1 binary-logic operand, 2 unsigned
    integer position (memory index, qubit, DECLARE length, PRAGMA argument, permutation entry,
    SHARING offset), 3 expression literal, 4 CALL immediate.  Signs: 0 none, 1 minus, 2 plus. *)
Inductive posobs :=
| PErr
| PInt (z : Z)           (* a signed integer operand *)
| PU64 (v : N)           (* an unsigned integer field *)
| PReal (bits : N)       (* a real number (operand, expression number, immediate): f64 bits *)
| PNegExpr (bits : N)    (* expression: prefix minus applied to the number with these bits *)
| POther.                (* the literal ended up as something else (a memory reference, ...) *)

Inductive expect :=
| XErr | XInt (z : Z) | XU64 (v : N) | XReal (neg : bool) (m : N) (e : Z) | XNegExpr (m : N) (e : Z).

Definition sign_toks (sign : N) : list tok :=
  match sign with 0 => [] | 1 => [KMinus] | _ => [KPlus] end.

Definition expect_of_operand (r : option (operand * list tok)) : expect :=
  match r with
  | Some (OInt z, []) => XInt z
  | Some (OReal neg m e, []) => XReal neg m e
  | _ => XErr
  end.

Definition expected (cls sign : N) (l : list N) : expect :=
  match lex_number l with
  | NOk t [] =>
      match cls with
      | 0 => expect_of_operand (arith_operand (sign_toks sign ++ [KNum t]))
      | 1 => expect_of_operand (logic_operand (sign_toks sign ++ [KNum t]))
      | 2 => match sign, t with 0, TInt v => XU64 v | _, _ => XErr end
      | 3 =>
          match sign, t with
          | 0, TInt v => XReal false v 0
          | 0, TFloat m e => XReal false m e
          | 1, TInt v => XNegExpr v 0
          | 1, TFloat m e => XNegExpr m e
          | _, _ => XErr
          end
      | _ =>
          match sign, t with
          | 0, TInt v => XReal false v 0
          | 0, TFloat m e => XReal false m e
          | _, _ => XErr
          end
      end
  | _ => XErr
  end.

Definition two63N : N := 9223372036854775808.

Definition real_matches (neg : bool) (m : N) (e : Z) (bits : N) : bool :=
  if neg then (two63N <=? bits) && chk_nearest m e (bits - two63N)
  else (bits <? two63N) && chk_nearest m e bits.

(** the verified instance checker: the implementation's outcome is the literal's exact value in
    the right kind, or a rejection *)
Definition chk_outcome (x : expect) (o : posobs) : bool :=
  match o, x with
  | PErr, _ => true
  | PInt z, XInt z' => (z =? z')%Z
  | PU64 v, XU64 v' => v =? v'
  | PReal bits, XReal neg m e => real_matches neg m e bits
  | PNegExpr bits, XNegExpr m e => real_matches false m e bits
  | _, _ => false
  end.

Definition pos_verdict (cls sign : N) (l : list N) (o : posobs) : N :=
  let x := expected cls sign l in
  if negb (chk_outcome x o) then 2
  else
    match o, x with
    | PErr, XErr => 0
    | PErr, _ => 1
    | _, _ => if prefix_without_digits l then 2 else 0
    end.

Inductive case :=
| LexC (text : list N) (o : lexobs)
| PosC (cls sign : N) (text : list N) (o : posobs).

Definition case_verdict (c : case) : N :=
  match c with
  | LexC l o => lex_verdict l o
  | PosC cls sign l o => pos_verdict cls sign l o
  end.

Fixpoint failing_from (i : N) (cs : list case) : list (N * N) :=
  match cs with
  | [] => []
  | c :: t =>
      let v := case_verdict c in
      (if v =? 0 then [] else [(i, v)]) ++ failing_from (N.succ i) t
  end.

Definition failing (cs : list case) : list (N * N) := failing_from 0 cs.
