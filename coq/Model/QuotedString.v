(** Model of quoted-string printing and lexing in quil-rs (property C07).

    - [escape] / [quote]: [impl Display for QuotedString] (quil-rs/src/instruction/mod.rs), the
      escaping used by every string-bearing printer (PRAGMA data, INCLUDE, frame identifiers,
      string frame attributes, and -- after the fix -- DELAY frame names).
    - [scan]: the loop of [surrounded(QUOTE, QUOTE, true)] (parser/lexer/quoted_strings.rs): the
      [is_escaped] flag is toggled by every backslash, cleared by any other character when set,
      and an unescaped quote ends the string.
    - [unescape]: [parsed.replace(BACKSLASH QUOTE, QUOTE).replace(BACKSLASH BACKSLASH, BACKSLASH)], two *sequential* passes of
      [str::replace] (left-to-right, non-overlapping), modelled as such by [replace_pair].

    Strings are byte lists ([N] < 256, UTF-8).  The Rust code iterates over [char]s; the only
    characters it inspects are the ASCII quote and backslash, which never occur inside a multi-byte
    UTF-8 sequence, so the byte-level transliteration is exact on valid UTF-8.
    Executable definitions only (no proofs). *)
From Coq Require Import List NArith Bool.
Import ListNotations.
Open Scope N_scope.

Definition DQ : N := 34.  (* the double quote *)
Definition BS : N := 92.  (* the backslash *)
Definition SP : N := 32.

Fixpoint bytes_eqb (a b : list N) : bool :=
  match a, b with
  | [], [] => true
  | x :: a', y :: b' => N.eqb x y && bytes_eqb a' b'
  | _, _ => false
  end.

(** ** Printer *)

Fixpoint escape (s : list N) : list N :=
  match s with
  | [] => []
  | c :: t =>
      if c =? DQ then BS :: DQ :: escape t
      else if c =? BS then BS :: BS :: escape t
      else c :: escape t
  end.

Definition quote (x : list N) : list N := DQ :: x ++ [DQ].

(** [QuotedString(s).to_string()] *)
Definition print_string (s : list N) : list N := quote (escape s).

(** ** Lexer *)

(** The [for (i, c) in iter] loop of [surrounded] with [allow_escaping = true], started after the
    opening quote: [Some (inner, rest)] when the closing quote is found, [None] at end of input. *)
Fixpoint scan (esc : bool) (l : list N) : option (list N * list N) :=
  match l with
  | [] => None
  | c :: t =>
      if c =? BS then
        match scan (negb esc) t with Some (i, r) => Some (c :: i, r) | None => None end
      else if esc then
        match scan false t with Some (i, r) => Some (c :: i, r) | None => None end
      else if c =? DQ then Some ([], t)
      else
        match scan esc t with Some (i, r) => Some (c :: i, r) | None => None end
  end.

(** [str::replace] for a two-byte pattern [a b]: scan left to right, on a match emit [to] and
    continue *after* the match (non-overlapping), otherwise copy one byte. *)
Fixpoint replace_pair (a b : N) (to : list N) (s : list N) : list N :=
  match s with
  | [] => []
  | x :: t' =>
      match t' with
      | [] => [x]
      | y :: t =>
          if (x =? a) && (y =? b) then to ++ replace_pair a b to t
          else x :: replace_pair a b to t'
      end
  end.

Definition unescape (inner : list N) : list N :=
  replace_pair BS BS [BS] (replace_pair BS DQ [DQ] inner).

Inductive sres :=
| SOk (s rest : list N)     (* the token's string and the remaining input *)
| SErrEOF                   (* LexErrorKind::UnexpectedEOF: empty input or no closing quote *)
| SErrNoQuote.              (* LexErrorKind::ExpectedChar(QUOTE) *)

(** [unescaped_quoted_string] = [lex_string] up to the [Token::String] wrapper *)
Definition lex_string (inp : list N) : sres :=
  match inp with
  | [] => SErrEOF
  | c :: t =>
      if c =? DQ then
        match scan false t with
        | Some (inner, rest) => SOk (unescape inner) rest
        | None => SErrEOF
        end
      else SErrNoQuote
  end.

(** A run of string tokens each preceded by exactly one space, as the DELAY / frame-identifier
    printers emit them and as [preceded(many0(tag(SPACE)), lex_token)] consumes them.  Stops at the
    first position that is not (spaces followed by) an opening quote; an unterminated string is an
    error ([None]).  [fuel] bounds the number of strings (any value >= the input length works). *)
Fixpoint skip_spaces (l : list N) : list N :=
  match l with c :: t => if c =? SP then skip_spaces t else l | [] => [] end.

Fixpoint lex_strings (fuel : nat) (inp : list N) : option (list (list N) * list N) :=
  match fuel with
  | O => Some ([], inp)
  | S f =>
      match skip_spaces inp with
      | c :: t =>
          if c =? DQ then
            match lex_string (c :: t) with
            | SOk s rest =>
                match lex_strings f rest with
                | Some (ss, r) => Some (s :: ss, r)
                | None => None
                end
            | _ => None
            end
          else Some ([], inp)
      | [] => Some ([], inp)
      end
  end.

(** ** Verified instance checker and case verdicts *)

(** The property on one concrete instance: the string recovered by re-parsing the printed text is
    exactly the string put in ([None] = the printed text did not parse, or parsed to something
    without a string in that position). *)
Definition chk_recovered (put : list N) (got : option (list N)) : bool :=
  match got with Some g => bytes_eqb put g | None => false end.

(** A round-trip case: the string [s] and the observations, grouped: each group is a list of
    position codes (0 PRAGMA data, 1 INCLUDE file name, 2 PULSE frame name, 3 DEFFRAME frame name,
    4 DEFFRAME string attribute, 5 / 7 first / second frame name of a DELAY, 6 SET-PHASE frame
    name) that all showed the same printed quoted text (the instruction text minus the constant
    context, which the harness strips) and the same recovered string.
    Verdict 2: some position does not recover the string (property violated on this input);
    1: recovered fine but the printed text differs from the model printer; 0: agree. *)
Definition rt_obs := (list N * list N * option (list N))%type.
Definition rt_case := (list N * list rt_obs)%type.

Definition rt_verdict (c : rt_case) : N :=
  let '(s, obs) := c in
  if negb (forallb (fun o : rt_obs => let '(_, _, got) := o in chk_recovered s got) obs) then 2
  else if forallb (fun o : rt_obs => let '(_, printed, _) := o in bytes_eqb printed (print_string s)) obs
       then 0 else 1.

(** A lexer case: an arbitrary input starting anywhere, and what the real lexer did with its first
    string token: [Some (consumed, string)] or [None] (no prefix of the input lexes as one string).
    Verdict 1 when the model's [lex_string] disagrees. *)
Definition lx_case := (list N * option (N * list N))%type.

Definition lx_verdict (c : lx_case) : N :=
  let '(inp, obs) := c in
  match lex_string inp, obs with
  | SOk s rest, Some (k, s') =>
      if (N.of_nat (length inp) - N.of_nat (length rest) =? k) && bytes_eqb s s' then 0 else 1
  | SErrEOF, None | SErrNoQuote, None => 0
  | _, _ => 1
  end.

Inductive case := RT (c : rt_case) | LX (c : lx_case).

Definition case_verdict (c : case) : N :=
  match c with RT c => rt_verdict c | LX c => lx_verdict c end.

Fixpoint failing_from (i : N) (cs : list case) : list (N * N) :=
  match cs with
  | [] => []
  | c :: t =>
      let v := case_verdict c in
      (if v =? 0 then [] else [(i, v)]) ++ failing_from (N.succ i) t
  end.

Definition failing (cs : list case) : list (N * N) := failing_from 0 cs.
