(** The printer / parser model instantiated for execution, and the C03 case-file entry point.
    Executable definitions only.

    Magnitudes are finite decimals [dec := (integer part, fractional digits)]: the harness
    restricts generated literals to small dyadic rationals in [1e-5, 1e15) whose shortest decimal
    text is predictable ("2", "0.5", "1.25"); the imaginary format appends ".0" to integers.
    Formatting of other doubles (exponent notation, 17-digit expansions) is an oracle outside the
    model.  Names are the fixed tables of harness/src/exprgen.rs. *)
From Coq Require Import List NArith Bool Arith.
From QV Require Import Model.Expr Model.ExactNum Model.ExprText.
Import ListNotations.

Definition dec := (N * list N)%type.
Definition dec_zero : dec := (0%N, []).
Definition dec_is_zero (d : dec) : bool := N.eqb (fst d) 0 && forallb (fun x => N.eqb x 0) (snd d).
Definition dec_of_index (i : N) : dec := (i, []).
Definition index_of_dec (d : dec) : option N := match snd d with [] => Some (fst d) | _ => None end.
Definition dec_eqb (a b : dec) : bool := N.eqb (fst a) (fst b) && list_eqb N.eqb (snd a) (snd b).

(** decimal digits of a natural number, as ASCII *)
Fixpoint digits_fuel (fuel : nat) (n : N) (acc : list N) : list N :=
  match fuel with
  | O => acc
  | S f =>
      let acc' := (48 + N.modulo n 10)%N :: acc in
      if N.ltb n 10 then acc' else digits_fuel f (N.div n 10) acc'
  end.
Definition digits (n : N) : list N := digits_fuel 40 n [].

Definition frac_bytes (ds : list N) : list N := map (fun d => (48 + d)%N) ds.
Definition fmt_real (d : dec) : list N :=
  digits (fst d) ++ match snd d with [] => [] | ds => 46%N :: frac_bytes ds end.
Definition fmt_imag (d : dec) : list N :=
  digits (fst d) ++ 46%N :: match snd d with [] => [48%N] | ds => frac_bytes ds end.

(** name tables (harness/src/exprgen.rs: VAR_NAMES, REGION_NAMES) *)
Definition vname (x : N) : list N :=
  match x with 0 => [120] | 1 => [121] | 2 => [122] | 3 => [119] | _ => [63] end%N.
Definition rname (n : N) : list N :=
  match n with 0 => [97] | 1 => [98] | 2 => [116; 104; 101; 116; 97] | _ => [63] end%N.

Definition tlit := lit dec.
Definition tex := expr tlit.
Definition ttok := tok dec.

Definition x_ptoks : tex -> list ttok := ptoks dec dec_zero dec_is_zero dec_of_index.
Definition x_pbytes : tex -> list N :=
  pbytes dec dec_is_zero fmt_real fmt_imag digits vname rname.
Definition x_parse_expr (fuel : nat) : list ttok -> option tex :=
  parse_expr dec dec_zero dec_of_index index_of_dec fuel.
Definition x_norm : tex -> tex := norm dec dec_zero dec_is_zero.

Definition slit_eqb (a b : slit dec) : bool := Bool.eqb (fst a) (fst b) && dec_eqb (snd a) (snd b).
Definition tlit_eqb (a b : tlit) : bool := slit_eqb (fst a) (fst b) && slit_eqb (snd a) (snd b).
Definition tex_eqb : tex -> tex -> bool := expr_eqb tlit_eqb.

Definition ident_eqb (a b : ident) : bool :=
  match a, b with
  | IdI, IdI | IdPi, IdPi => true
  | IdFn f, IdFn g => efn_eqb f g
  | IdName n, IdName m => N.eqb n m
  | _, _ => false
  end.
Definition ttok_eqb (a b : ttok) : bool :=
  match a, b with
  | TNum m, TNum m' => dec_eqb m m'
  | TIdent i, TIdent j => ident_eqb i j
  | TVar x, TVar y => N.eqb x y
  | TLParen, TLParen | TRParen, TRParen | TLBracket, TLBracket | TRBracket, TRBracket => true
  | TOp o, TOp o' => infix_eqb o o'
  | _, _ => false
  end.

(** What the implementation produced for one expression [e]: its text, the lexer's tokens for
    that text ([None] = lex error), and the expression parsed back from it ([None] = error). *)
Record c03obs := {
  o_text : list N;
  o_toks : option (list ttok);
  o_reparsed : option tex;
}.
Definition c03case := (tex * c03obs)%type.

(** The verified instance checker: the implementation's own re-parse of its own text is the
    normal form [norm e], which denotes the value of [e] (Proofs/ExprTextProofs.v). *)
Definition chk_reparse (e : tex) (o : c03obs) : bool :=
  match o_reparsed o with
  | Some e' => tex_eqb (x_norm e) e'
  | None => false
  end.

Definition opt_eqb {X} (eqb : X -> X -> bool) (a b : option X) : bool :=
  match a, b with Some x, Some y => eqb x y | None, None => true | _, _ => false end.

(** 0 = agreement; 1 = the model's text / tokens / parse differ from the implementation's;
    2 = the checker rejects (the text does not parse back to an expression of the same value). *)
Definition case_verdict (c : c03case) : N :=
  let '(e, o) := c in
  if negb (chk_reparse e o) then 2%N
  else
    let toks := x_ptoks e in
    if list_eqb N.eqb (x_pbytes e) (o_text o)
       && opt_eqb (list_eqb ttok_eqb) (Some toks) (o_toks o)
       && opt_eqb tex_eqb (x_parse_expr (S (length toks)) toks) (o_reparsed o)
    then 0%N else 1%N.

Fixpoint failing_from (i : N) (cs : list c03case) : list (N * N) :=
  match cs with
  | [] => []
  | c :: t =>
      let v := case_verdict c in
      (if N.eqb v 0 then [] else [(i, v)]) ++ failing_from (N.succ i) t
  end.
Definition failing (cs : list c03case) : list (N * N) := failing_from 0%N cs.
