(** Model of quil-rs gate unitaries (instruction/gate.rs), for C14 (and the lifting part of C15).

    (a) The gate tables CONSTANT_GATE_MATRICES / PARAMETERIZED_GATE_MATRICES as SYMBOLIC matrices
        over a small entry language ([model_table], transliterating the Rust expressions of the
        FIXED tables: commits 3fa2e59 (RZ) and f4dcc9f (PSWAP)), next to the tables of the Quil
        specification section 4.3 written independently ([spec_table]).
    (b) `lifted_gate_matrix` on basis INDICES: `permutation_arbitrary` literally (sort, median,
        start, the left/right sweeping loop — with fuel —, `two_swap_helper` as adjacent
        transpositions acting on the qubit map and on the bits of an index) and
        `qubit_adjacent_lifted_gate` as an index predicate.  A matrix product with a permutation
        matrix is replaced by index reasoning: (P^dagger V P)[r][c] = V[pi r][pi c].
    Definitions only; proofs are in Proofs/UnitaryProofs.v. *)
From Coq Require Import List NArith Bool.
Import ListNotations.
Open Scope N_scope.

(** * (a) Tables *)

Inductive gate :=
| GI | GX | GY | GZ | GH | GS | GT | GCNOT | GCCNOT | GCZ | GSWAP | GCSWAP | GISWAP
| GRX | GRY | GRZ | GPHASE | GCPHASE | GCPHASE00 | GCPHASE01 | GCPHASE10 | GPSWAP.

Definition arity (g : gate) : N :=
  match g with
  | GI | GX | GY | GZ | GH | GS | GT | GRX | GRY | GRZ | GPHASE => 1
  | GCNOT | GCZ | GSWAP | GISWAP | GCPHASE | GCPHASE00 | GCPHASE01 | GCPHASE10 | GPSWAP => 2
  | GCCNOT | GCSWAP => 3
  end.

Definition parameterised (g : gate) : bool :=
  match g with
  | GRX | GRY | GRZ | GPHASE | GCPHASE | GCPHASE00 | GCPHASE01 | GCPHASE10 | GPSWAP => true
  | _ => false
  end.

(** Angles: the parameter theta and theta / 2. *)
Inductive ang := Theta | HalfTheta.

(** Matrix entries. [Es] = 1/sqrt 2, [Ecis4] = cis(pi/4), [Ecis a] = e^{i a}, [Ecisneg a] = e^{-i a}. *)
Inductive entry :=
| E0 | E1 | Ei | Es | Ecis4
| Ecos (a : ang) | Esin (a : ang) | Ecis (a : ang) | Ecisneg (a : ang)
| Eneg (e : entry) | Eadd (e f : entry) | Esub (e f : entry) | Emul (e f : entry).

Definition table := list (list entry).

Definition eye2 : table := [[E1; E0]; [E0; E1]].
Definition eye4 : table := [[E1; E0; E0; E0]; [E0; E1; E0; E0]; [E0; E0; E1; E0]; [E0; E0; E0; E1]].

(** `p[[i, i]] = v` on an identity matrix *)
Fixpoint set_nth {A} (l : list A) (i : nat) (v : A) : list A :=
  match l, i with
  | [], _ => []
  | _ :: t, O => v :: t
  | x :: t, S j => x :: set_nth t j v
  end.
Definition set_entry (t : table) (i j : nat) (v : entry) : table :=
  set_nth t i (set_nth (nth i t []) j v).

(** `array * scalar` *)
Definition scale_table (t : table) (s : entry) : table := map (map (fun e => Emul e s)) t.

(** `alpha.cos() + imag!(1.0) * alpha.sin()` *)
Definition cos_plus_i_sin (a : ang) : entry := Eadd (Ecos a) (Emul Ei (Esin a)).

(** The Rust tables, expression by expression. *)
Definition model_table (g : gate) : table :=
  let _0 := E0 in let _1 := E1 in let _i := Ei in
  match g with
  | GI => eye2
  | GX => [[_0; _1]; [_1; _0]]
  | GY => [[_0; Eneg _i]; [_i; _0]]
  | GZ => [[_1; _0]; [_0; Eneg _1]]
  | GH => scale_table [[_1; _1]; [_1; Eneg _1]] Es
  | GCNOT => [[_1; _0; _0; _0]; [_0; _1; _0; _0]; [_0; _0; _0; _1]; [_0; _0; _1; _0]]
  | GCCNOT =>
      [[_1; _0; _0; _0; _0; _0; _0; _0]; [_0; _1; _0; _0; _0; _0; _0; _0];
       [_0; _0; _1; _0; _0; _0; _0; _0]; [_0; _0; _0; _1; _0; _0; _0; _0];
       [_0; _0; _0; _0; _1; _0; _0; _0]; [_0; _0; _0; _0; _0; _1; _0; _0];
       [_0; _0; _0; _0; _0; _0; _0; _1]; [_0; _0; _0; _0; _0; _0; _1; _0]]
  | GS => [[_1; _0]; [_0; _i]]
  | GT => [[_1; _0]; [_0; Ecis4]]
  | GCZ => set_entry eye4 3 3 (Eneg _1)
  | GSWAP => [[_1; _0; _0; _0]; [_0; _0; _1; _0]; [_0; _1; _0; _0]; [_0; _0; _0; _1]]
  | GCSWAP =>
      [[_1; _0; _0; _0; _0; _0; _0; _0]; [_0; _1; _0; _0; _0; _0; _0; _0];
       [_0; _0; _1; _0; _0; _0; _0; _0]; [_0; _0; _0; _1; _0; _0; _0; _0];
       [_0; _0; _0; _0; _1; _0; _0; _0]; [_0; _0; _0; _0; _0; _0; _1; _0];
       [_0; _0; _0; _0; _0; _1; _0; _0]; [_0; _0; _0; _0; _0; _0; _0; _1]]
  | GISWAP => [[_1; _0; _0; _0]; [_0; _0; _i; _0]; [_0; _i; _0; _0]; [_0; _0; _0; _1]]
  | GRX =>
      let t := HalfTheta in
      [[Ecos t; Emul (Eneg _i) (Esin t)]; [Emul (Eneg _i) (Esin t); Ecos t]]
  | GRY => let t := HalfTheta in [[Ecos t; Eneg (Esin t)]; [Esin t; Ecos t]]
  | GRZ =>
      let t := HalfTheta in
      [[Esub (Ecos t) (Emul _i (Esin t)); _0]; [_0; Eadd (Ecos t) (Emul _i (Esin t))]]
  | GPHASE => set_entry eye2 1 1 (cos_plus_i_sin Theta)
  | GCPHASE00 => set_entry eye4 0 0 (cos_plus_i_sin Theta)
  | GCPHASE01 => set_entry eye4 1 1 (cos_plus_i_sin Theta)
  | GCPHASE10 => set_entry eye4 2 2 (cos_plus_i_sin Theta)
  | GCPHASE => set_entry eye4 3 3 (cos_plus_i_sin Theta)
  | GPSWAP =>
      let _c := cos_plus_i_sin Theta in
      [[_1; _0; _0; _0]; [_0; _0; _c; _0]; [_0; _c; _0; _0]; [_0; _0; _0; _1]]
  end.

(** The Quil specification, section 4.3 "Standard Gate Definitions" (written from the document). *)
Definition spec_table (g : gate) : table :=
  let o := E0 in let l := E1 in
  match g with
  | GI => [[l; o]; [o; l]]
  | GX => [[o; l]; [l; o]]
  | GY => [[o; Eneg Ei]; [Ei; o]]
  | GZ => [[l; o]; [o; Eneg l]]
  | GH => [[Es; Es]; [Es; Eneg Es]]
  | GS => [[l; o]; [o; Ei]]
  | GT => [[l; o]; [o; Ecis4]]
  | GCNOT => [[l; o; o; o]; [o; l; o; o]; [o; o; o; l]; [o; o; l; o]]
  | GCZ => [[l; o; o; o]; [o; l; o; o]; [o; o; l; o]; [o; o; o; Eneg l]]
  | GSWAP => [[l; o; o; o]; [o; o; l; o]; [o; l; o; o]; [o; o; o; l]]
  | GISWAP => [[l; o; o; o]; [o; o; Ei; o]; [o; Ei; o; o]; [o; o; o; l]]
  | GCCNOT =>
      [[l; o; o; o; o; o; o; o]; [o; l; o; o; o; o; o; o]; [o; o; l; o; o; o; o; o];
       [o; o; o; l; o; o; o; o]; [o; o; o; o; l; o; o; o]; [o; o; o; o; o; l; o; o];
       [o; o; o; o; o; o; o; l]; [o; o; o; o; o; o; l; o]]
  | GCSWAP =>
      [[l; o; o; o; o; o; o; o]; [o; l; o; o; o; o; o; o]; [o; o; l; o; o; o; o; o];
       [o; o; o; l; o; o; o; o]; [o; o; o; o; l; o; o; o]; [o; o; o; o; o; o; l; o];
       [o; o; o; o; o; l; o; o]; [o; o; o; o; o; o; o; l]]
  | GRX => [[Ecos HalfTheta; Eneg (Emul Ei (Esin HalfTheta))];
            [Eneg (Emul Ei (Esin HalfTheta)); Ecos HalfTheta]]
  | GRY => [[Ecos HalfTheta; Eneg (Esin HalfTheta)]; [Esin HalfTheta; Ecos HalfTheta]]
  | GRZ => [[Ecisneg HalfTheta; o]; [o; Ecis HalfTheta]]
  | GPHASE => [[l; o]; [o; Ecis Theta]]
  | GCPHASE00 => [[Ecis Theta; o; o; o]; [o; l; o; o]; [o; o; l; o]; [o; o; o; l]]
  | GCPHASE01 => [[l; o; o; o]; [o; Ecis Theta; o; o]; [o; o; l; o]; [o; o; o; l]]
  | GCPHASE10 => [[l; o; o; o]; [o; l; o; o]; [o; o; Ecis Theta; o]; [o; o; o; l]]
  | GCPHASE => [[l; o; o; o]; [o; l; o; o]; [o; o; l; o]; [o; o; o; Ecis Theta]]
  | GPSWAP => [[l; o; o; o]; [o; o; Ecis Theta; o]; [o; Ecis Theta; o; o]; [o; o; o; l]]
  end.

Definition tget (t : table) (a b : N) : entry := nth (N.to_nat b) (nth (N.to_nat a) t []) E0.

(** Denotation in any structure providing the operations (laws are hypotheses of the proofs). *)
Section Denote.
  Variables (C A : Type).
  Variables (c0 c1 ci cs ccis4 : C) (cadd cmul csub : C -> C -> C) (copp : C -> C).
  Variables (theta : A) (half aneg : A -> A) (ccos csin ccis : A -> C).

  Definition dang (a : ang) : A := match a with Theta => theta | HalfTheta => half theta end.

  Fixpoint denote (e : entry) : C :=
    match e with
    | E0 => c0 | E1 => c1 | Ei => ci | Es => cs | Ecis4 => ccis4
    | Ecos a => ccos (dang a) | Esin a => csin (dang a)
    | Ecis a => ccis (dang a) | Ecisneg a => ccis (aneg (dang a))
    | Eneg e => copp (denote e)
    | Eadd e f => cadd (denote e) (denote f)
    | Esub e f => csub (denote e) (denote f)
    | Emul e f => cmul (denote e) (denote f)
    end.

  Definition denote_table (t : table) : list (list C) := map (map denote) t.
End Denote.

(** Syntactic equality of entries and tables (for the case files). *)
Definition ang_eqb (a b : ang) : bool :=
  match a, b with Theta, Theta | HalfTheta, HalfTheta => true | _, _ => false end.
Fixpoint entry_eqb (x y : entry) : bool :=
  match x, y with
  | E0, E0 | E1, E1 | Ei, Ei | Es, Es | Ecis4, Ecis4 => true
  | Ecos a, Ecos b | Esin a, Esin b | Ecis a, Ecis b | Ecisneg a, Ecisneg b => ang_eqb a b
  | Eneg e, Eneg f => entry_eqb e f
  | Eadd a b, Eadd c d | Esub a b, Esub c d | Emul a b, Emul c d => entry_eqb a c && entry_eqb b d
  | _, _ => false
  end.
Fixpoint list_eqb {T} (eqb : T -> T -> bool) (a b : list T) : bool :=
  match a, b with
  | [], [] => true
  | x :: a', y :: b' => eqb x y && list_eqb eqb a' b'
  | _, _ => false
  end.
Definition table_eqb (a b : table) : bool := list_eqb (list_eqb entry_eqb) a b.

(** * (b) Lifting on basis indices *)

Inductive outcome (T : Type) := Done (x : T) | Panic | OutOfFuel.
Arguments Done {T} x.
Arguments Panic {T}.
Arguments OutOfFuel {T}.

(** [a; a+1; ...; b-1] *)
Definition range (a b : N) : list N := map (fun i => a + N.of_nat i) (seq 0 (N.to_nat (b - a))).

Fixpoint insert_sorted (x : N) (l : list N) : list N :=
  match l with
  | [] => [x]
  | y :: t => if x <=? y then x :: l else y :: insert_sorted x t
  end.
Definition sort (l : list N) : list N := fold_right insert_sorted [] l.

Fixpoint position_from (q : N) (arr : list N) (i : N) : option N :=
  match arr with
  | [] => None
  | x :: t => if x =? q then Some i else position_from q t (i + 1)
  end.
Definition position (q : N) (arr : list N) : option N := position_from q arr 0.

(** `qubit_map.swap(i, i + 1)` *)
Fixpoint swap_at (arr : list N) (i : nat) : list N :=
  match i, arr with
  | O, a :: b :: t => b :: a :: t
  | S j, a :: t => a :: swap_at t j
  | _, l => l
  end.

(** two_swap_helper: the positions [i] of the lifted SWAPs (acting on qubits i+1, i), in the order
    they are multiplied onto [perm], and the updated qubit map. *)
Definition two_swap_helper (j k : N) (arr : list N) : list N * list N :=
  match N.compare j k with
  | Eq => ([], arr)
  | Gt => (* for i in (k+1..=j).rev(): SWAP at i-1; qubit_map.swap(i, i-1) *)
      fold_left (fun (st : list N * list N) i =>
                   (fst st ++ [i - 1], swap_at (snd st) (N.to_nat (i - 1))))
                (rev (range (k + 1) (j + 1))) ([], arr)
  | Lt => (* for i in j..k: SWAP at i; qubit_map.swap(i, i+1) *)
      fold_left (fun (st : list N * list N) i =>
                   (fst st ++ [i], swap_at (snd st) (N.to_nat i)))
                (range j k) ([], arr)
  end.

Definition nthN (l : list N) (i : N) : N := nth (N.to_nat i) l 0.

(** the loop's exit test: `(final_map[last]..final_map[0]+1).rev().zip(qubit_inds).all(..)` *)
Definition made_it (final_map qs arr : list N) : bool :=
  forallb (fun fq : N * N => nthN arr (fst fq) =? snd fq)
          (combine (rev (range (last final_map 0) (hd 0 final_map + 1))) qs).

(** One `for i in array` pass. Result: swaps so far, qubit map, whether the loop broke out. *)
Fixpoint pass (order : list N) (qs final_map : list N) (sw arr : list N)
  : option (list N * list N * bool) :=
  match order with
  | [] => Some (sw, arr, false)
  | i :: rest =>
      match position (nthN qs i) arr with
      | None => None                         (* `.expect("These arrays cover the same range.")` *)
      | Some j =>
          let '(s, arr') := two_swap_helper j (nthN final_map i) arr in
          let sw' := sw ++ s in
          if made_it final_map qs arr' then Some (sw', arr', true)
          else pass rest qs final_map sw' arr'
      end
  end.

(** `while !made_it { ... right = !right }` *)
Fixpoint sweep (fuel : nat) (right : bool) (qs final_map : list N) (sw arr : list N)
  : outcome (list N) :=
  match fuel with
  | O => OutOfFuel
  | S f =>
      let idx := range 0 (N.of_nat (length qs)) in
      match pass (if right then idx else rev idx) qs final_map sw arr with
      | None => Panic
      | Some (sw', _, true) => Done sw'
      | Some (sw', arr', false) => sweep f (negb right) qs final_map sw' arr'
      end
  end.

Definition SWEEP_FUEL : nat := 16.

(** permutation_arbitrary: the adjacent transpositions making up `perm`, and `start`. *)
Definition permutation_arbitrary (qs : list N) (n : N) : outcome (list N * N) :=
  let sorted := sort qs in
  let len := N.of_nat (length qs) in
  let med_i := len / 2 in
  match nth_error sorted (N.to_nat med_i) with
  | None => Panic                                     (* index out of bounds on an empty list *)
  | Some med =>
      if med <? med_i then Panic                      (* u64 subtraction overflow *)
      else
        let start := med - med_i in
        if 1 <? len then
          let final_map := rev (range start (start + len)) in
          match sweep SWEEP_FUEL true qs final_map [] (range 0 n) with
          | Done sw => Done (sw, start)
          | Panic => Panic
          | OutOfFuel => OutOfFuel
          end
        else Done ([], start)
  end.

(** A lifted SWAP on qubits (i+1, i) maps basis state x to x with bits i and i+1 exchanged. *)
Definition setbit (x p : N) (b : bool) : N := if b then N.setbit x p else N.clearbit x p.
Definition swap_bits (x i : N) : N :=
  let a := N.testbit x i in
  let b := N.testbit x (i + 1) in
  setbit (setbit x i b) (i + 1) a.
Definition apply_perm (sw : list N) (x : N) : N := fold_left swap_bits sw x.

(** qubit_adjacent_lifted_gate(start, M, n) = I_top (x) M (x) I_bottom, as an index predicate:
    which entry of the k-qubit matrix sits at (a, b), if any. *)
Definition adjacent_idx (start k : N) (a b : N) : option (N * N) :=
  if (a mod 2 ^ start =? b mod 2 ^ start) && (a / 2 ^ (start + k) =? b / 2 ^ (start + k))
  then Some ((a / 2 ^ start) mod 2 ^ k, (b / 2 ^ start) mod 2 ^ k)
  else None.

(** lifted_gate_matrix: `perm^dagger . (v . perm)` at (r, c) is v at (pi r, pi c). [k] is the
    gate size log2(rows of the matrix).  [lift_fn] computes the permutation once. *)
Definition lift_fn (qs : list N) (k n : N) : outcome (N -> N -> option (N * N)) :=
  match permutation_arbitrary qs n with
  | Done (sw, start) =>
      if n <? start + k then Panic                    (* `n_qubits - i - gate_size` overflows *)
      else Done (fun r c => adjacent_idx start k (apply_perm sw r) (apply_perm sw c))
  | Panic => Panic
  | OutOfFuel => OutOfFuel
  end.

Definition lift_idx_model (qs : list N) (k n : N) (r c : N) : outcome (option (N * N)) :=
  match lift_fn qs k n with
  | Done f => Done (f r c)
  | Panic => Panic
  | OutOfFuel => OutOfFuel
  end.

(** The specification: qubit 0 is the least significant bit of a basis index; the first listed
    qubit is the most significant bit of the gate matrix's index. *)
Definition gather (qs : list N) (x : N) : N :=
  fold_left (fun acc q => 2 * acc + N.b2n (N.testbit x q)) qs 0.
Definition memN (p : N) (l : list N) : bool := existsb (N.eqb p) l.
Definition rest_agree (others : list N) (r c : N) : bool :=
  forallb (fun p => Bool.eqb (N.testbit r p) (N.testbit c p)) others.
(** [others] (the positions not in [qs]) is computed once per placement. *)
Definition lift_idx_spec (qs : list N) (n : N) : N -> N -> option (N * N) :=
  let others := filter (fun p => negb (memN p qs)) (range 0 n) in
  fun r c => if rest_agree others r c then Some (gather qs r, gather qs c) else None.

(** Matrices as functions; the lifted matrix from an index function. *)
Definition lifted {T} (zero : T) (M : N -> N -> T) (idx : option (N * N)) : T :=
  match idx with Some (a, b) => M a b | None => zero end.

(** ** The finite sweep used by the proof of C14_lift *)
Fixpoint lists_upto {T} (k : nat) (dom : list T) : list (list T) :=
  match k with
  | O => [[]]
  | S k' => [] :: flat_map (fun q => map (cons q) (lists_upto k' dom)) dom
  end.

Fixpoint nodupb (l : list N) : bool :=
  match l with [] => true | x :: t => negb (memN x t) && nodupb t end.

Definition valid_placement (qs : list N) (n : N) : bool :=
  (1 <=? N.of_nat (length qs)) && (N.of_nat (length qs) <=? 3) && nodupb qs
  && forallb (fun q => q <? n) qs.

Definition idx_eqb (a b : option (N * N)) : bool :=
  match a, b with
  | None, None => true
  | Some (x, y), Some (u, v) => (x =? u) && (y =? v)
  | _, _ => false
  end.
Definition placement_ok (qs : list N) (n : N) : bool :=
  match lift_fn qs (N.of_nat (length qs)) n with
  | Done f =>
      forallb (fun r => forallb (fun c => idx_eqb (f r c) (lift_idx_spec qs n r c)) (range 0 (2 ^ n)))
              (range 0 (2 ^ n))
  | _ => false
  end.

Definition sweep_ok (nmax : N) : bool :=
  forallb (fun n => forallb (fun qs => negb (valid_placement qs n) || placement_ok qs n)
                            (lists_upto 3 (range 0 n)))
          (range 0 (nmax + 1)).

(** * Case files (C14) *)

(** Expected sparse rows of a lifted matrix given the class matrix [bcls] of the base matrix
    (class 0 = numerically zero): for every row r the ascending list of (column, class). *)
Definition cls_get (bcls : list (list N)) (a b : N) : N := nth (N.to_nat b) (nth (N.to_nat a) bcls []) 0.

Definition expected_rows (idx : N -> N -> option (N * N)) (bcls : list (list N)) (n : N)
  : list (list (N * N)) :=
  let all := range 0 (2 ^ n) in
  map (fun r =>
         flat_map (fun c => match idx r c with
                            | Some (a, b) => let k := cls_get bcls a b in if k =? 0 then [] else [(c, k)]
                            | None => []
                            end)
                  all)
      all.

Definition pairN_eqb (a b : N * N) : bool := (fst a =? fst b) && (snd a =? snd b).
Definition rows_eqb (a b : list (list (N * N))) : bool := list_eqb (list_eqb pairN_eqb) a b.

Definition model_idx (qs : list N) (n : N) : N -> N -> option (N * N) :=
  match lift_fn qs (N.of_nat (length qs)) n with
  | Done f => f
  | _ => fun _ _ => Some (999, 999)
  end.

(** One case: gate, placement, n, the harness's own symbolic specification table (compared
    syntactically with [spec_table]), the implementation's base matrix (canonical placement) as
    recognised constants when the gate is constant, the numeric flag "implementation base matrix =
    harness spec formula at theta (1e-12)", the class matrix of the spec matrix at theta, and the
    implementation's lifted matrix as sparse class rows. *)
Record case14 := Case14 {
  c_gate : gate; c_qs : list N; c_n : N;
  c_sym : table;
  c_base : option table;
  c_num : bool;
  c_bcls : list (list N);
  c_rows : list (list (N * N)) }.

Definition chk_table (x : case14) : bool :=
  c_num x && match c_base x with
             | Some t => negb (parameterised (c_gate x)) && table_eqb t (spec_table (c_gate x))
             | None => parameterised (c_gate x)
             end.

Definition chk_lift (x : case14) : bool :=
  rows_eqb (c_rows x) (expected_rows (lift_idx_spec (c_qs x) (c_n x)) (c_bcls x) (c_n x)).

Definition case14_verdict (x : case14) : N :=
  if negb (valid_placement (c_qs x) (c_n x) && (N.of_nat (length (c_qs x)) =? arity (c_gate x))
           && table_eqb (c_sym x) (spec_table (c_gate x))) then 4
  else if negb (chk_table x) then 2
  else if negb (chk_lift x) then 3
  else if rows_eqb (c_rows x) (expected_rows (model_idx (c_qs x) (c_n x)) (c_bcls x) (c_n x)) then 0
  else 1.

Fixpoint failing14_from (i : N) (cs : list case14) : list (N * N) :=
  match cs with
  | [] => []
  | c :: t =>
      let v := case14_verdict c in
      (if v =? 0 then [] else [(i, v)]) ++ failing14_from (N.succ i) t
  end.
Definition failing14 (cs : list case14) : list (N * N) := failing14_from 0 cs.
