(** C22 — every block's dependency graph is a well-formed DAG.
    Pinned statements only; proofs live in Proofs/GraphProofs.v (model: Model/Graph.v). *)
From Coq Require Import List NArith Bool Relations Permutation.
From QV Require Import Model.DepQueue Model.Graph Proofs.GraphProofs Proofs.GraphReachProofs
  Proofs.GraphPermProofs.
Import ListNotations.
Local Open Scope N_scope.

(** For every block (instruction summaries [is], optional terminator summary [term]) whose graph
    builds, with handler answers that are well formed (used/blocked frame sets are disjoint sets,
    the terminator has role ControlFlow): every edge points from an earlier position to a later
    one (start = 0 < instruction i = i+1 < end = length + 1). *)
Theorem C22_edges_forward :
  forall (is : list info) (term : option info) (E : list gedge),
    build is term = inr E -> wf_block is term = true ->
    forall a b k, In (a, b, k) E -> a < b /\ b <= N.succ (N.of_nat (length is)).
Proof. exact build_forward. Qed.

(** Hence the graph is acyclic. *)
Theorem C22_acyclic :
  forall (is : list info) (term : option info) (E : list gedge),
    build is term = inr E -> wf_block is term = true ->
    forall x, ~ clos_trans N (gerel E) x x.
Proof. intros is term E Hb Hwf. exact (forward_acyclic _ _ (build_forward _ _ _ Hb Hwf)). Qed.

(** When moreover every RF-control instruction matches at least one frame, every instruction node
    is reachable from the block start and reaches the block end. *)
Theorem C22_all_reachable :
  forall (is : list info) (term : option info) (E : list gedge),
    build is term = inr E -> wf_block is term = true -> forallb has_frames is = true ->
    forall i, 1 <= i <= N.of_nat (length is) ->
      clos_refl_trans N (gerel E) 0 i /\ clos_refl_trans N (gerel E) i (N.succ (N.of_nat (length is))).
Proof. exact build_reach. Qed.

(** The instance checkers run on the implementation's edge list decide these clauses. *)
Theorem C22_chk_dag_sound :
  forall (n : N) (E : list gedge), chk_dag n E = true ->
    (forall a b k, In (a, b, k) E -> a < b /\ b <= N.succ n) /\ (forall x, ~ clos_trans N (gerel E) x x).
Proof. intros n E H. split; [exact (chk_dag_sound n E H) | exact (forward_acyclic _ _ (chk_dag_sound n E H))]. Qed.

Theorem C22_chk_reach_sound :
  forall (n : nat) (E : list gedge), chk_reach n E = true ->
    forall i, 1 <= i <= N.of_nat n ->
      clos_refl_trans N (gerel E) 0 i /\ clos_refl_trans N (gerel E) i (N.succ (N.of_nat n)).
Proof. exact chk_reach_sound. Qed.

(** Non-vacuity: a block with classical, RF and memory-dependent instructions and a conditional
    jump; it builds, is well formed, and both checkers accept the model's graph. *)
Example C22_nonvacuous :
  let is := [MkInfo RClassical false [] [0] [] [] [] false;
             MkInfo RRF false [0] [] [] [0] [1] true;
             MkInfo RRF false [] [] [1] [1] [] true;
             MkInfo RClassical false [1] [0] [] [] [] false] in
  let term := Some (MkInfo RControl false [0] [] [] [] [] false) in
  wf_block is term = true /\ forallb has_frames is = true /\
  exists E, build is term = inr E /\ chk_dag 4 E = true /\ chk_reach 4 E = true /\ length E = 18%nat.
Proof. vm_compute. repeat split. eexists. repeat split. Qed.

(** Independence of the HashSet iteration orders.  The implementation visits the regions an
    instruction reads / writes / captures and the frames it uses / blocks in the arbitrary order
    of a [HashSet]; the model takes lists.  [info_perm i i'] (Proofs/GraphPermProofs.v): same
    role, same memory-access error flag, same is_scheduled, and each of the five lists of [i'] is
    a [Permutation] of the corresponding list of [i] (no duplicate-freeness needed);
    [term_perm]: both terminators absent, or both present and related by [info_perm].
    For every two blocks related pointwise: [build] fails on one iff it fails on the other, with
    the same error at the same node; otherwise the two graphs have the same (source, target,
    kind) edges.  (The same holds with the ghost labels kept: [build_l_perm].) *)
Theorem C22_build_order_independent :
  forall (is is' : list info) (term term' : option info),
    Forall2 info_perm is is' -> term_perm term term' ->
    match build is term, build is' term' with
    | inl e, inl e' => e = e'
    | inr E, inr E' => forall x : gedge, In x E <-> In x E'
    | _, _ => False
    end.
Proof. exact build_perm. Qed.

(** The well-formedness premise of the other C22 / C24 theorems does not depend on the orders. *)
Theorem C22_wf_order_independent :
  forall (is is' : list info) (term term' : option info),
    Forall2 info_perm is is' -> term_perm term term' ->
    wf_block is term = true -> wf_block is' term' = true.
Proof. exact wf_block_perm. Qed.

(** Non-vacuity: two classical writers of regions 0 and 1, then an RF instruction reading both
    regions, using frames 0, 1 and blocking frames 2, 3, and a terminator reading both regions -
    once visited in the orders 0,1 / 0,1 / 2,3 and once in the orders 1,0 / 1,0 / 3,2.  The blocks
    are related, both build, the edge LISTS differ, the edge SETS are equal. *)
Example C22_order_nonvacuous :
  let is := [MkInfo RClassical false [] [0] [] [] [] false;
             MkInfo RClassical false [] [1] [] [] [] false;
             MkInfo RRF false [0; 1] [] [] [0; 1] [2; 3] true] in
  let is' := [MkInfo RClassical false [] [0] [] [] [] false;
              MkInfo RClassical false [] [1] [] [] [] false;
              MkInfo RRF false [1; 0] [] [] [1; 0] [3; 2] true] in
  let term := Some (MkInfo RControl false [0; 1] [] [] [] [] false) in
  let term' := Some (MkInfo RControl false [1; 0] [] [] [] [] false) in
  Forall2 info_perm is is' /\ term_perm term term' /\ wf_block is term = true /\
  exists E E', build is term = inr E /\ build is' term' = inr E' /\ E <> E' /\
               length E = 26%nat /\ forall x, In x E <-> In x E'.
Proof.
  cbv zeta. split; [repeat constructor|]. split; [repeat constructor|]. split; [reflexivity|].
  eexists. eexists. split; [vm_compute; reflexivity|]. split; [vm_compute; reflexivity|].
  split; [vm_compute; discriminate|]. split; [reflexivity|].
  intros x. cbn [In]. tauto.
Qed.

(** ** The DEFAULT handler needs no well-formedness premise

    So far the handler's answers were data ([info]) assumed well formed.  Here they are COMPUTED
    by the model of [DefaultHandler] (Model/DefaultInfo.v on top of the C26 model Model/Frames.v):
    a program is its frame keys [keys] (an IndexMap, hence duplicate-free) and its used-qubit set
    [avail]; an instruction [dinstr] is its frame-relevant part ([Frames.finstr]: PULSE / CAPTURE /
    RAW-CAPTURE with their NONBLOCKING flag, DELAY, FENCE, RESET, SET-/SHIFT-*, SWAP-PHASES), or
    for the other variants the arm of [DefaultHandler::role] it falls in, and the memory accesses
    the handler reported (any lists, or an error).  [default_block] / [default_term] turn a block
    into summaries: role and is_scheduled as in [impl InstructionHandler for DefaultHandler]
    (RESET is RF-control but not scheduled, WAIT is control flow and scheduled),
    used / blocked = [Frames.matching_frames], frames numbered by position in [keys].
    [default_build] = [build] on those summaries.  [term_ok t]: the terminator, if it has an
    instruction form, is control flow (JUMP / JUMP-WHEN / JUMP-UNLESS / HALT - all the CFG
    construction produces). *)
From QV Require Model.Frames.
From QV Require Import Model.DefaultInfo Proofs.DefaultInfoProofs.

(** The summaries of the default handler satisfy [wf_block], for every program, every block. *)
Theorem C22_default_info_wf :
  forall (keys : list Frames.frame) (avail : list N) (ds : list dinstr) (t : option dinstr),
    NoDup keys -> term_ok t = true ->
    wf_block (default_block keys avail ds) (default_term keys avail t) = true.
Proof. exact default_info_wf. Qed.

(** Hence [C22_edges_forward] and [C22_acyclic] hold of every block scheduled with the default
    handler, with no premise on the handler left. *)
Theorem C22_default_handler_dag :
  forall (keys : list Frames.frame) (avail : list N) (ds : list dinstr) (t : option dinstr)
         (E : list gedge),
    NoDup keys -> term_ok t = true -> default_build keys avail ds t = inr E ->
    (forall a b k, In (a, b, k) E -> a < b /\ b <= N.succ (N.of_nat (length ds))) /\
    (forall x, ~ clos_trans N (gerel E) x x).
Proof.
  intros keys avail ds t E Hk Ht Hb. split.
  - exact (default_build_forward keys avail ds t E Hk Ht Hb).
  - exact (default_build_acyclic keys avail ds t E Hk Ht Hb).
Qed.

(** And [C22_all_reachable]: the only premise left is the property's own - every frame-related
    instruction matches (uses or blocks) at least one frame defined in the program. *)
Theorem C22_default_handler_reachable :
  forall (keys : list Frames.frame) (avail : list N) (ds : list dinstr) (t : option dinstr)
         (E : list gedge),
    NoDup keys -> term_ok t = true -> default_build keys avail ds t = inr E ->
    (forall d, In d ds -> d_frame d <> Frames.FOther ->
       exists u b f, Frames.matching_frames keys avail (d_frame d) = Some (u, b) /\
                     (In f u \/ In f b)) ->
    forall i, 1 <= i <= N.of_nat (length ds) ->
      clos_refl_trans N (gerel E) 0 i /\
      clos_refl_trans N (gerel E) i (N.succ (N.of_nat (length ds))).
Proof.
  intros keys avail ds t E Hk Ht Hb Hm.
  exact (default_build_reach keys avail ds t E Hk Ht Hb (d_matches_some_block keys avail ds Hm)).
Qed.

(** Non-vacuity: frames 0 "a" (number 0), 0 1 "ab" (1), 1 "a" (2); used qubits {0, 1}; the block
      PULSE 0 "a" w ; NONBLOCKING PULSE 1 "a" w ; FENCE 1 ; RESET 0
    followed by JUMP-WHEN reading region 0.  The default-handler model reports: the pulse uses
    frame 0 and blocks frame 1; the nonblocking pulse uses frame 2; the fence uses frames 1, 2;
    RESET 0 uses frame 0 and blocks frame 1 and is not scheduled.  The block builds; the edges
    (start = 0, instructions 1..4, end = 5; an edge produced once per frame appears once per
    frame in the model's list, the implementation stores a set) are as listed. *)
Example C22_default_handler_nonvacuous :
  let keys := [([0], 0); ([0; 1], 1); ([1], 0)] in
  let avail := [0; 1] in
  let nomem := Some ([], [], []) in
  let ds := [MkD (Frames.FPlay Frames.KPulse true ([0], 0)) OClassical nomem;
             MkD (Frames.FPlay Frames.KPulse false ([1], 0)) OClassical nomem;
             MkD (Frames.FFence [1]) OClassical nomem;
             MkD (Frames.FReset (Some 0)) OClassical nomem] in
  let t := Some (MkD Frames.FOther OJump (Some ([0], [], []))) in
  NoDup keys /\ term_ok t = true /\
  default_block keys avail ds =
    [MkInfo RRF false [] [] [] [0] [1] true;
     MkInfo RRF false [] [] [] [2] [] true;
     MkInfo RRF false [] [] [] [1; 2] [] true;
     MkInfo RRF false [] [] [] [0] [1] false] /\
  forallb (d_matches_some keys avail) ds = true /\
  default_build keys avail ds t =
    inr [(0, 1, KSched); (0, 1, KStable); (0, 1, KSched); (0, 1, KStable);
         (0, 2, KSched); (0, 2, KStable);
         (0, 3, KSched); (1, 3, KSched); (2, 3, KSched);
         (0, 3, KStable); (1, 3, KStable); (2, 3, KStable);
         (1, 4, KStable); (3, 4, KStable);
         (1, 5, KSched); (3, 5, KSched); (3, 5, KSched);
         (4, 5, KStable); (4, 5, KStable); (3, 5, KStable); (3, 5, KStable)].
Proof.
  cbv zeta. split; [apply nodupF_NoDup; reflexivity|].
  vm_compute. repeat split.
Qed.
