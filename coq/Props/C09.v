(** C09 — all instruction views of a program agree.
    Pinned statements only; proofs live in Proofs/ProgramProofs.v. *)
From Coq Require Import List NArith Bool.
From QV Require Import Model.Program Proofs.ProgramProofs.
Import ListNotations.

(** The consuming and the copying listing return the same sequence, for every program. *)
Theorem C09_into_is_to : forall p : program, into_instructions p = to_instructions p.
Proof. exact into_is_to. Qed.

(** Rebuilding a (well-formed, i.e. reachable: [C09_built_programs_wf]) program from its listing
    gives the same definitions of every kind, the same body, and an identical listing
    (hence identical serialization). *)
Theorem C09_roundtrip_fields :
  forall p : program, WF p ->
    (forall kd, defs kd (from_instructions (to_instructions p)) = defs kd p) /\
    body (from_instructions (to_instructions p)) = body p /\
    to_instructions (from_instructions (to_instructions p)) = to_instructions p.
Proof. exact roundtrip_fields. Qed.

(** The rebuilt cache is the set of qubits [get_qubits] reports on the listing; so the rebuilt
    program equals the original field-wise (cache as a set) exactly when the original's cache is
    in that state ([InvG], the invariant of C10), and then the implementation's [==] holds. *)
Theorem C09_roundtrip_equal :
  forall p : program, WF p -> InvG p ->
    prog_equiv (from_instructions (to_instructions p)) p /\
    prog_eqb (from_instructions (to_instructions p)) p = true.
Proof. exact roundtrip_equal. Qed.

(** Every built program has its cache in that state (repair 1fc8c68 rebuilds it when a
    calibration is replaced), so every built program equals its rebuild. *)
Theorem C09_built_cache_in_step : forall is : list instr, InvG (from_instructions is).
Proof. exact InvG_from. Qed.

(** The body keeps the order in which body instructions were added. *)
Theorem C09_body_is_insertion_order :
  forall is : list instr, body (from_instructions is) = filter is_body is.
Proof. exact body_from. Qed.

(** Each keyed definition keeps only the last value bound to its key; keys are distinct and appear
    in first-insertion order. *)
Theorem C09_last_value :
  forall (is : list instr) (kd : kind) (k : N),
    lookup k (defs kd (from_instructions is)) = last_value k (sel kd is).
Proof. intros is kd k. exact (lookup_from kd k is). Qed.

Theorem C09_keys_distinct :
  forall (is : list instr) (kd : kind),
    NoDup (keys (defs kd (from_instructions is))) /\
    keys (defs kd (from_instructions is)) = first_keys (sel kd is).
Proof. exact keys_distinct_from. Qed.

(** Normalisation (build, then list) is idempotent: listing a rebuilt program changes nothing. *)
Theorem C09_norm_idempotent : forall is : list instr, norm (norm is) = norm is.
Proof. exact norm_idem. Qed.

Theorem C09_built_programs_wf : forall is : list instr, WF (from_instructions is).
Proof. exact WF_from_instructions. Qed.

(** The instance checker decides the clauses on the implementation's views, and the model's own
    views pass it. *)
Theorem C09_checker_sound :
  forall is toi intoi bodyi rt : list instr,
    chk_views is toi intoi bodyi rt = true -> Views_ok is toi intoi bodyi rt.
Proof. exact chk_views_sound. Qed.

Theorem C09_model_passes :
  forall is : list instr,
    let p := from_instructions is in
    Views_ok is (to_instructions p) (into_instructions p) (body_instructions p)
             (to_instructions (from_instructions (to_instructions p))).
Proof. exact model_views_ok. Qed.

(** Non-vacuity: named, unnamed and duplicate PRAGMA EXTERN, a redeclaration, body instructions. *)
Example C09_nonvacuous :
  let is := [Body 0 [0]; ExternPragma (Some 1) 0; Decl 0 0; ExternPragma None 3; CircuitDef 0 1 [1000; 4];
             ExternPragma (Some 1) 2; Body 28 []; Decl 0 5; ExternPragma None 4]%N in
  let p := from_instructions is in
  to_instructions p =
    [ExternPragma (Some 1) 2; ExternPragma None 4; Decl 0 5; CircuitDef 0 1 [1000; 4]; Body 0 [0]; Body 28 []]%N
  /\ into_instructions p = to_instructions p
  /\ chk_views is (to_instructions p) (into_instructions p) (body_instructions p)
               (to_instructions (from_instructions (to_instructions p))) = true
  /\ prog_eqb (from_instructions (to_instructions p)) p = true.
Proof. vm_compute. repeat split; reflexivity. Qed.
