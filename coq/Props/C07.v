(** C07 -- quoted strings survive printing and parsing unchanged.
    Pinned statements only; proofs live in Proofs/QuotedStringProofs.v.
    Model: Model/QuotedString.v ([print_string] = the printer's QuotedString, [lex_string] = the
    lexer's unescaped_quoted_string: the surrounded state machine followed by two sequential,
    non-overlapping replace passes). *)
From Coq Require Import List NArith Bool.
From QV Require Import Model.QuotedString Proofs.QuotedStringProofs.
Import ListNotations.
Open Scope N_scope.

(** For EVERY byte string [s] (quotes, backslashes, newlines, anything) and EVERY continuation
    [rest] of the input, lexing the printed form of [s] followed by [rest] yields the string token
    [s] and leaves exactly [rest].  No side condition on [rest] is needed: the scanner stops at the
    first unescaped quote, which is the closing quote the printer wrote. *)
Theorem C07_string : forall s rest : list N, lex_string (print_string s ++ rest) = SOk s rest.
Proof. exact lex_print_string. Qed.

(** The unescaping passes invert the escaping (alignment: after pass 1 every backslash belongs
    to a doubled pair, so the left-to-right non-overlapping pass 2 halves each run exactly). *)
Theorem C07_unescape_escape : forall s : list N, unescape (escape s) = s.
Proof. exact unescape_escape. Qed.

(** The scanner finds the closing quote of a printed string wherever it is embedded. *)
Theorem C07_scan_closing_quote : forall s rest : list N,
  scan false (escape s ++ DQ :: rest) = Some (escape s, rest).
Proof. exact scan_escape. Qed.

(** Printed strings are uniquely decodable: distinct strings never print to texts one of which
    could be read as the other, whatever follows. *)
Theorem C07_print_injective : forall s1 s2 r1 r2 : list N,
  print_string s1 ++ r1 = print_string s2 ++ r2 -> s1 = s2 /\ r1 = r2.
Proof. exact print_string_inj. Qed.

(** A run of printed strings separated by single spaces (the frame names of DELAY, after the
    fix that escapes them) lexes back to the same list of strings, provided what follows the run
    does not itself open a string (after optional spaces). *)
Theorem C07_string_run : forall (ss : list (list N)) (fuel : nat) (rest : list N),
  (length ss < fuel)%nat -> no_string_ahead rest ->
  lex_strings fuel (print_strings ss ++ rest) = Some (ss, rest).
Proof. exact lex_strings_print. Qed.

(** The instance checker run on the implementation's recovered strings decides the property. *)
Theorem C07_checker_sound : forall (put : list N) (got : option (list N)),
  chk_recovered put got = true -> got = Some put.
Proof. exact chk_recovered_sound. Qed.

(** Non-vacuity: a string with a quote, backslashes before a quote, a backslash followed by the
    letter n, and a newline; its printed form; and the round trip in a DELAY-like context. *)
Example C07_nonvacuous :
  let s := [97; 34; 92; 92; 34; 92; 110; 10; 35] in
  print_string s = [34; 97; 92; 34; 92; 92; 92; 92; 92; 34; 92; 92; 110; 10; 35; 34]
  /\ lex_string (print_string s ++ [32; 49]) = SOk s [32; 49]
  /\ lex_strings 3 (print_strings [s; s] ++ [32; 49]) = Some ([s; s], [32; 49])
  /\ lex_string [34; 97; 92; 34] = SErrEOF.
Proof. vm_compute. repeat split; reflexivity. Qed.
