(** C11 — program concatenation appends bodies and merges definitions.
    Pinned statements only; proofs live in Proofs/ProgramProofs.v.

    [WF p] (keys of every definition map are distinct, every entry sits in the map its kind routes
    to, the body holds only body instructions) holds of every program built by the public
    operations ([C11_built_programs_wf]; [C11_closed]). *)
From Coq Require Import List NArith Bool.
From QV Require Import Model.Program Proofs.ProgramProofs.
Import ListNotations.

(** The body of A+B is A's body followed by B's. *)
Theorem C11_body : forall a b : program, body (add a b) = body a ++ body b.
Proof. exact body_add. Qed.

(** [IndexMap::extend] / [CalibrationSet::extend] / [FrameSet::merge] (a fold of insert) compute the
    independently defined [merge]: keys of A in place, with B's value if rebound, then B's new keys
    in B's order. *)
Theorem C11_extend_is_merge :
  forall a b : alist, NoDup (keys a) -> NoDup (keys b) -> extend a b = merge a b.
Proof. exact extend_merge. Qed.

(** Per definition kind, the definitions of A+B are the merge of A's and B's. *)
Theorem C11_defs :
  forall (a b : program) (kd : kind), WF a -> WF b ->
    defs kd (add a b) = merge (defs kd a) (defs kd b).
Proof. intros a b kd. exact (defs_add kd a b). Qed.

(** Each key bound in B takes B's value; every other key keeps A's. *)
Theorem C11_lookup :
  forall (a b : program) (kd : kind) (k : N), WF a -> WF b ->
    lookup k (defs kd (add a b)) =
    match lookup k (defs kd b) with Some v => Some v | None => lookup k (defs kd a) end.
Proof. intros a b kd k. exact (lookup_defs_add a b kd k). Qed.

(** The used-qubit set of A+B is the union — unless a calibration of A was replaced by one of B
    (the implementation's test: the calibration count shrank, [replaced]); then (repair 1fc8c68)
    the cache is rebuilt from the listing, because the union may contain qubits mentioned only by
    the replaced calibration. *)
Theorem C11_used :
  forall a b : program,
    used (add a b) =
    if replaced a b then listing_gq (to_instructions (add a b)) else used a ++ used b.
Proof. exact used_add. Qed.

Theorem C11_used_union :
  forall (a b : program) (q : N), replaced a b = false ->
    (In q (used (add a b)) <-> In q (used a) \/ In q (used b)).
Proof. exact used_add_union. Qed.

(** [replaced a b = false] means exactly that no calibration key of B is bound in A. *)
Theorem C11_not_replaced_disjoint :
  forall (a b : program) (kd : kind) (k : N) (v : instr),
    WF a -> WF b -> replaced a b = false -> is_cal_kind kd = true ->
    In (k, v) (defs kd b) -> lookup k (defs kd a) = None.
Proof. exact replaced_false_disjoint. Qed.

(** In both cases the cache of A+B stays in step with its content when those of A and B are. *)
Theorem C11_used_content :
  forall a b : program, WF a -> WF b -> InvG a -> InvG b -> InvG (add a b).
Proof. exact InvG_add. Qed.

(** Concatenation with the empty program is an identity on both sides. *)
Theorem C11_empty_right : forall a : program, add a empty = a.
Proof. exact add_empty_r. Qed.

Theorem C11_empty_left : forall b : program, WF b -> add empty b = b.
Proof. exact add_empty_l. Qed.

(** [+] and [+=] coincide. *)
Theorem C11_add_assign : forall a b : program, add a b = add_assign a b.
Proof. exact add_is_add_assign. Qed.

(** The hypotheses are met by every built program, and concatenation preserves them. *)
Theorem C11_built_programs_wf : forall is : list instr, WF (from_instructions is).
Proof. exact WF_from_instructions. Qed.

Theorem C11_closed : forall a b : program, WF a -> WF b -> WF (add a b).
Proof. exact WF_add. Qed.

(** The instance checker run on the implementation's listings decides the three clauses, and the
    model's own output passes it. *)
Theorem C11_checker_sound :
  forall a b ab : obs, chk_concat a b ab = true -> Concat_ok a b ab.
Proof. exact chk_concat_sound. Qed.

Theorem C11_model_passes :
  forall a b : program, WF a -> WF b -> replaced a b = false ->
    Concat_ok (obs_of a) (obs_of b) (obs_of (add a b)).
Proof. exact model_concat_ok. Qed.

(** The union clause taken literally is REFUTED of the faithful model (and of the implementation,
    after repair 1fc8c68): when B replaces a calibration of A whose old body mentions a qubit that
    nothing else mentions, that qubit is in used(A) ∪ used(B) but not in used(A+B).  This is the
    flip side of the C09/C10 repair (the union would be a stale cache); known finding
    [union-after-calibration-replacement], class [union_class]. *)
Definition C11_union_full : Prop :=
  forall (a b : program) (q : N), WF a -> WF b ->
    (In q (used (add a b)) <-> In q (used a) \/ In q (used b)).

Theorem C11_union_refuted : ~ C11_union_full.
Proof.
  intros H.
  specialize (H (from_instructions [Calib 0 1 [0; 5]]%N) (from_instructions [Calib 0 0 [0; 0]]%N) 5%N
                (WF_from_instructions _) (WF_from_instructions _)).
  assert (Hin : In 5%N (used (add (from_instructions [Calib 0 1 [0; 5]]%N) (from_instructions [Calib 0 0 [0; 0]]%N)))).
  { apply H. left. vm_compute. tauto. }
  vm_compute in Hin. intuition discriminate.
Qed.

(** Outside that class nothing else can go wrong with the cache: with the operands' caches in step,
    used(A+B) is always a subset of the union. *)
Theorem C11_used_subset_union :
  forall a b : program, WF a -> WF b -> InvG a -> InvG b -> incl (used (add a b)) (used a ++ used b).
Proof. exact used_add_incl. Qed.

(** Non-vacuity: B rebinds a declaration and a calibration of A and adds a frame; A's keys stay in
    place with B's values, B's new key follows, bodies are appended; the calibration replacement
    makes the cache the rebuilt one (qubit 5 of the replaced calibration is dropped: the strict
    checker rejects, the pair is in [union_class]). *)
Example C11_nonvacuous :
  let a := from_instructions [Decl 0 0; Calib 0 0 [0; 5]; Decl 1 0; Body 0 [0]]%N in
  let b := from_instructions [Decl 1 7; FrameDef 0 0 [0]; Calib 0 1 [0; 6]; Body 1 [1; 2]; Decl 2 0]%N in
  to_instructions (add a b) =
    [Decl 0 0; Decl 1 7; Decl 2 0; FrameDef 0 0 [0]; Calib 0 1 [0; 6]; Body 0 [0]; Body 1 [1; 2]]%N
  /\ replaced a b = true /\ used (add a b) = [0; 6; 0; 1; 2]%N
  /\ chk_concat (obs_of a) (obs_of b) (obs_of (add a b)) = false
  /\ union_class (obs_of a) (obs_of b) (obs_of (add a b)) = true
  /\ chk_concat (obs_of a) (obs_of empty) (obs_of (add a empty)) = true.
Proof. vm_compute. repeat split; reflexivity. Qed.
