(** C04 — programs built through the API serialize to text that parses back; placeholder error iff
    placeholder.  Pinned statements only; proofs live in Proofs/PrintParseProofs.v.

    The placeholder theorems are about [to_quil_model] (Model/PrintParse.v): the serializer's
    traversal of the qubit / target positions of an instruction tree in writing order.  The
    re-parse clause is proved for the fragment of Props/C02.v (exact equality) and covered by the
    harness oracle (equality with expressions compared by value) for all API-built trees. *)
From Coq Require Import List NArith ZArith Bool.
From QV Require Import Model.ParsePanic Model.PrintParse Proofs.PrintParseProofs.
Import ListNotations.

(** [to_quil] fails exactly when a placeholder is present, for every tree (any nesting). *)
Theorem C04_placeholder :
  forall n : node, (exists e, to_quil_model n = Some e) <-> has_placeholder n = true.
Proof. exact placeholder_iff. Qed.

(** ... and the error it returns is the kind of the first placeholder in writing order. *)
Theorem C04_first_placeholder :
  forall n : node, to_quil_model n = first_some (leaves n).
Proof. exact to_quil_model_leaves. Qed.

(** Placeholder-free, well-formed fragment instructions: the printed text parses back to exactly
    the instruction (the C02 theorem; API-built trees of the fragment whose literals are in
    parsed form). *)
Theorem C04_fragment_roundtrip :
  forall i : instr, wf_instr i = true -> p_program Repaired (print_instr i) = Ok [i] [].
Proof. exact single_rt. Qed.

(** ... and so does every well-formed block definition (DEFCAL, DEFCAL MEASURE, DEFCIRCUIT with a
    non-empty body of fragment instructions, DEFFRAME, DEFWAVEFORM, DEFGATE in its four forms),
    as [Instruction::to_quil] prints it. *)
Theorem C04_item_roundtrip :
  forall it : item, wf_item it = true -> p_items Repaired (print_item it) = Ok [it] [].
Proof. exact single_item_rt. Qed.

(** CALL built through the API (immediates are arbitrary complex numbers, printed by
    [format_complex]): outside the open findings [call-immediate-sign] and
    [call-immediate-then-i] the printed tokens parse back to the call. *)
Theorem C04_call_roundtrip :
  forall (name : ident) (args : list xarg) (rest : list tok),
    wf_xcall args = true -> line_end rest ->
    p_instruction Repaired (print_xcall name args ++ rest)
    = Ok (ICall name (map xarg_parsed args)) rest.
Proof. exact xcall_rt. Qed.

(** ... and both classes are real: a negative immediate, a two-part immediate, and a real
    immediate followed by an argument spelled [i] print to tokens that do not parse back. *)
Theorem C04_call_immediate_sign_refuted :
  exists a b : xarg,
    call_immediate_sign a = true /\ call_immediate_sign b = true /\
    wf_xarg a = true /\ wf_xarg b = true /\
    p_program Repaired (print_xcall (IdName 0) [a]) = Err /\
    p_program Repaired (print_xcall (IdName 0) [b]) = Err.
Proof.
  exists (XImm {| re_neg := true; re_abs := VInt 1; im_neg := false; im_abs := VInt 0 |}),
         (XImm {| re_neg := false; re_abs := VInt 1; im_neg := false; im_abs := VInt 2 |}).
  vm_compute. repeat split.
Qed.

Theorem C04_call_immediate_then_i_refuted :
  exists args : list callarg,
    call_immediate_then_i args = true /\ forallb wf_callarg args = true /\
    (p_program Repaired (print_instr (ICall (IdName 0) args)) <> Ok [ICall (IdName 0) args] []).
Proof.
  exists [CAImm false (VInt 2); CAId (IdRes RI)]. vm_compute. repeat split; discriminate.
Qed.

(** The instance checker: a case with code 0 has: error iff placeholder, the error kind the
    model predicts, a debug serialization that returned, and — without placeholders — an
    equivalent re-parse. *)
Theorem C04_checker_sound :
  forall n r dbg rp, ph_code (n, r, dbg, rp) = 0%N ->
    (r = QOk <-> has_placeholder n = false) /\
    r = qres_of (to_quil_model n) /\ dbg = true /\
    (has_placeholder n = false -> rp = Some true).
Proof. exact ph_code_sound. Qed.

(** The model comparison attached to a placeholder-free, representable tree: code 0 means the
    tree is well-formed, the serializer's tokens are the model's print of it, they parse back to
    exactly the tree, and the real re-parse is the same tree. *)
Theorem C04_fragment_checker_sound :
  forall a t j, frag_code (a, t, j) = 0%N ->
    wf_item a = true /\ t = print_item a /\ p_items Repaired t = Ok [a] [] /\
    exists j', j = Some j' /\ print_item j' = print_item a.
Proof. exact frag_code_sound. Qed.

Theorem C04_extended_checker_sound :
  forall c f, phx_code (c, f) = 0%N ->
    ph_code c = 0%N /\ match f with Some fr => frag_code fr = 0%N | None => True end.
Proof. exact phx_code_sound. Qed.

(** Non-vacuity: a DEFCAL whose body holds a label placeholder before a qubit placeholder. *)
Example C04_nonvacuous :
  let n := NB [NQ false; NB [NL true]; NB [NQ true]] in
  to_quil_model n = Some ELabel /\ has_placeholder n = true /\
  to_quil_model (NB [NQ false; NB [NL false]]) = None.
Proof. vm_compute. repeat split. Qed.
