(** C19 — the calibration source map exactly accounts for every expansion.
    Pinned statements only; proofs live in Proofs/CalExpandFullProofs.v.

    [expand_program_sm] models [Program::expand_calibrations_with_source_map] (including
    [append_calibration_expansion_output_inner] and [CalibrationExpansion::remove_target_index],
    literally); [expand_d] models [Calibrations::expand_with_detail]; an [entry] is a
    [SourceMapEntry] ([EUnmod s t] = Unmodified target, [ERewr s cal lo hi sub] = Rewritten with
    calibration, range and nested map).

    [WFmap inst src out m] (via [WFwalk] / [WFentry]): walking the entries in order with a cursor,
    source indices strictly increase; an Unmodified entry points exactly at the cursor and at an
    instruction identical to its source; a Rewritten entry starts at the cursor, its range is
    contiguous and inside the output, names the calibration that matches its source instruction,
    and its nested entries are, recursively, a well-formed map from that calibration's substituted
    body to exactly that range (indices relative to the range); at the end the cursor is the output
    length (ranges and unmodified targets partition the output). *)
From Coq Require Import List NArith ZArith Bool Sorted.
From QV Require Import Model.CalExpandFull Proofs.CalExpandFullProofs.
Import ListNotations.

(** The full statement: every source map produced is well formed. *)
Definition C19_wellformed_full : Prop :=
  forall (cs : cals) (fuel : nat) (p p' : program) (m : list entry),
    expand_program_sm (instantiate cs) fuel p = Ok (p', m) ->
    WFmap (instantiate cs) (body p) (body p') m.

(** It holds for every program none of whose expansions emits a hoisted instruction (DECLARE);
    [no_hoist_b] is the decidable complement of the class of the open finding
    hoisted-declaration-in-expansion. *)
Theorem C19_wellformed_restricted :
  forall (cs : cals) (fuel : nat) (p p' : program) (m : list entry),
    expand_program_sm (instantiate cs) fuel p = Ok (p', m) ->
    no_hoist_b (instantiate cs) fuel (body p) = true ->
    WFmap (instantiate cs) (body p) (body p') m.
Proof. intros cs. exact (expand_program_sm_wf (instantiate cs)). Qed.

(** ... and fails inside the class. *)
Theorem C19_refuted :
  exists (cs : cals) (fuel : nat) (p p' : program) (m : list entry),
    expand_program_sm (instantiate cs) fuel p = Ok (p', m) /\
    no_hoist_b (instantiate cs) fuel (body p) = false /\
    ~ WFmap (instantiate cs) (body p) (body p') m.
Proof. exact expand_program_sm_wf_refuted. Qed.

(** The detail returned by [expand_with_detail] for one instruction (no hoisting happens at that
    level) is always a well-formed map from the matched calibration's substituted body to the new
    instructions, at every nesting depth. *)
Theorem C19_detail_wellformed :
  forall (cs : cals) (fuel : nat) (path : list instr) (i : instr)
         (o : list instr) (src : calsrc) (rg : N * N) (sub : list entry),
    expand_d (instantiate cs) fuel path i = Ok (Some (o, (src, rg, sub))) ->
    exists body nsb, instantiate cs i = Some (body, src) /\ rg = (0%N, len o) /\
                     WFwalk (instantiate cs) body o 0 0 sub nsb (len o).
Proof.
  intros cs fuel path i o src rg sub H.
  exact (expand_d_wf (instantiate cs) fuel path i (o, (src, rg, sub)) H).
Qed.

(** Consequences for the queries, at every level of a well-formed map: every target index of the
    level has exactly one source, indices outside have none, every source has at most one entry,
    and entries are in strictly increasing source order. *)
Theorem C19_queries :
  forall (inst : instr -> option (list instr * calsrc)) (srcl outl : list instr)
         (es : list entry) (ns' : N),
    WFwalk inst srcl outl 0 0 es ns' (len outl) ->
    (forall t, (t < len outl)%N -> exists s, list_sources es t = [s]) /\
    (forall t, (len outl <= t)%N -> list_sources es t = []) /\
    (forall s, length (list_targets es s) <= 1) /\
    StronglySorted N.lt (map entry_source es).
Proof.
  intros inst srcl outl es ns' H. apply WFwalk_queries in H.
  destruct H as [_ [_ [Hin [Hout [Hlen [_ [Hsort _]]]]]]]. repeat split; auto.
  - intros t Ht. apply Hin. split; [apply N.le_0_l | exact Ht].
Qed.

(** [list_sources] and [list_targets] are inverse views of the same entries. *)
Theorem C19_sources_targets_inverse :
  forall (m : list entry) (s t : N),
    In s (list_sources m t) <-> exists e, In e (list_targets m s) /\ entry_contains e t = true.
Proof. exact sources_targets_inverse. Qed.

(** A syntactic sufficient condition for the restricted theorem: neither a calibration body nor the
    source body contains a DECLARE. *)
Theorem C19_wellformed_no_declare :
  forall (cs : cals) (fuel : nat) (p p' : program) (m : list entry),
    cals_no_declare cs = true -> forallb not_hoisted (body p) = true ->
    expand_program_sm (instantiate cs) fuel p = Ok (p', m) ->
    WFmap (instantiate cs) (body p) (body p') m.
Proof.
  intros cs fuel p p' m Hc Hb H.
  exact (expand_program_sm_wf (instantiate cs) fuel p p' m H (no_declare_no_hoist cs fuel (body p) Hc Hb)).
Qed.

(** The instance checker run on the implementation's source map decides well-formedness exactly:
    it accepts iff the map is well formed (so a rejection is a violation on that concrete input). *)
Theorem C19_checker_correct :
  forall (inst : instr -> option (list instr * calsrc)) (src out : list instr) (m : list entry),
    chk_wfmap inst src out m = true <-> WFmap inst src out m.
Proof. exact chk_wfmap_iff. Qed.

(** Non-vacuity: nested calibrations [DEFCAL X 0: Y 0; NOP], [DEFCAL Y 0: WAIT; HALT] applied to
    [NOP; X 0; Y 0] (X = 1, Y = 2): the model's map, accepted by the checker. *)
Example C19_nonvacuous :
  let cs := {| gcals := [ {| gc_name := 1; gc_params := []; gc_qubits := [QF 0];
                             gc_body := [IGate 2 [] [QF 0]; IOther 0] |};
                          {| gc_name := 2; gc_params := []; gc_qubits := [QF 0];
                             gc_body := [IOther 2; IOther 1] |} ];
               mcals := [] |}%N in
  let p := {| regions := []; body := [IOther 0; IGate 1 [] [QF 0]; IGate 2 [] [QF 0]] |}%N in
  let out := [IOther 0; IOther 2; IOther 1; IOther 0; IOther 2; IOther 1]%N in
  let m := [EUnmod 0 0;
            ERewr 1 (CSGate 1 [] [QF 0]) 1 4
                  [ERewr 0 (CSGate 2 [] [QF 0]) 0 2 [EUnmod 0 0; EUnmod 1 1]; EUnmod 1 2];
            ERewr 2 (CSGate 2 [] [QF 0]) 4 6 [EUnmod 0 0; EUnmod 1 1]]%N in
  expand_program_sm (instantiate cs) 10 p = Ok ({| regions := []; body := out |}, m)
  /\ no_hoist_b (instantiate cs) 10 (body p) = true
  /\ chk_wfmap (instantiate cs) (body p) out m = true.
Proof. vm_compute. repeat split; reflexivity. Qed.

(** The model reproduces the source map that the pinned quil-rs test
    [program::tests::expand_calibrations] expects ([DEFCAL I 0: DECLAREMEM; NOP; NOP],
    [DEFCAL DECLAREMEM: DECLARE mem BIT[1]; NOP], body [I 0; PULSE ..; I 0]; I = 1, DECLAREMEM = 2,
    mem = 3, the PULSE abstracted as IOther 9) — and the checker rejects it. *)
Example C19_pinned_test_map :
  let cs := {| gcals := [ {| gc_name := 1; gc_params := []; gc_qubits := [QF 0];
                             gc_body := [IGate 2 [] []; IOther 0; IOther 0] |};
                          {| gc_name := 2; gc_params := []; gc_qubits := [];
                             gc_body := [IDeclare 3 0 1; IOther 0] |} ];
               mcals := [] |}%N in
  let p := {| regions := []; body := [IGate 1 [] [QF 0]; IOther 9; IGate 1 [] [QF 0]] |}%N in
  let out := [IOther 0; IOther 0; IOther 0; IOther 9; IOther 0; IOther 0; IOther 0]%N in
  let sub := [ERewr 0 (CSGate 2 [] []) 0 1 [EUnmod 0 0; EUnmod 1 1]; EUnmod 1 2; EUnmod 2 3]%N in
  let m := [ERewr 0 (CSGate 1 [] [QF 0]) 0 3 sub; EUnmod 1 3; ERewr 2 (CSGate 1 [] [QF 0]) 4 7 sub]%N in
  expand_program_sm (instantiate cs) 10 p = Ok ({| regions := [(3, (0, 1))]; body := out |}, m)%N
  /\ chk_wfmap (instantiate cs) (body p) out m = false.
Proof. vm_compute. split; reflexivity. Qed.
