(** C01 — parsing never panics or aborts on any input text.
    Pinned statements only; proofs live in Proofs/ParsePanicProofs.v.

    The theorems are about the token-level model of the parser in Model/ParsePanic.v (operand,
    sign and number-conversion logic, NONBLOCKING and command dispatch, the Pratt expression
    parser, all commands without an indented body).  The parser as a whole — including the
    commands the model leaves out, the lexer, nom and lexical — is covered by the process-level
    oracle of harness/src/bin/c01.rs over the generated input space. *)
From Coq Require Import List NArith ZArith Bool.
From QV Require Import Model.ParsePanic Proofs.ParsePanicProofs.
Import ListNotations.

(** For every token stream and every entry point (program, instruction, expression, memory
    reference, frame identifier) the repaired parser model returns a value, an error, "not
    modelled" or "out of fuel" — never [Panic]. *)
Theorem C01_no_panic : forall (e : entry) (ts : list tok), run Repaired e ts <> OPanic.
Proof. exact run_no_panic. Qed.

(** The explicit recursion fuel the entry points give themselves (input length + 1) always
    suffices: the model's recursion depth is at most linear in the number of tokens, and every
    entry point ends with a verdict. *)
Theorem C01_fuel_sufficient : forall (vr : variant) (e : entry) (ts : list tok), run vr e ts <> OFuel.
Proof. exact run_no_fuel. Qed.

Corollary C01_verdict :
  forall (e : entry) (ts : list tok),
    run Repaired e ts = OOk \/ run Repaired e ts = OErr \/ run Repaired e ts = OUnk.
Proof.
  intros e ts. pose proof (run_no_panic e ts). pose proof (run_no_fuel Repaired e ts).
  destruct (run Repaired e ts); auto; contradiction.
Qed.

(** The same model with the code as it was at the snapshot does panic ([ADD ro +1],
    bare [NONBLOCKING], [MOVE ro -9223372036854775808]): [Panic] is a reachable outcome of the
    model, not a vacuous one. *)
Theorem C01_snapshot_refuted :
  exists ts, run Snapshot EProgram ts = OPanic.
Proof. exists [TCmd CAdd; TId (IdName 0); TOp OPlus; TInt 1]. apply snapshot_panics. Qed.

(** The instance checker: a single case with code 0 has an outcome that is a value or an error,
    and the model (where it covers the input) has the same outcome class. *)
Theorem C01_checker_sound :
  forall (e : entry) (ots : option (list tok)) (o : outcome),
    single_code Repaired e ots o = 0%N ->
    (o = OOk \/ o = OErr) /\
    (forall ts, ots = Some ts -> run Repaired e ts = OUnk \/ run Repaired e ts = o).
Proof. exact single_code_sound. Qed.

(** A grouped case with code 0 stands for one single case with code 0 per alphabet token. *)
Theorem C01_group_checker_sound :
  forall e prefix d ex al, group_code Repaired e prefix d ex 0 al = 0%N ->
    forall k a, nth_error al k = Some a ->
      single_code Repaired e (Some (prefix ++ [a])) (lookup_out (N.of_nat k) ex d) = 0%N.
Proof. intros e prefix d ex al H k a Hk. exact (group_code_sound e prefix d ex al 0 H k a Hk). Qed.

(** Non-vacuity: the repaired model on the former panic witnesses and on accepted inputs. *)
Example C01_nonvacuous :
  run Repaired EProgram [TCmd CAdd; TId (IdName 0); TOp OPlus; TInt 1] = OErr /\
  run Repaired EProgram [TNonBlocking; TId (IdName 0)] = OErr /\
  run Repaired EProgram [TCmd CMove; TId (IdName 0); TOp OMinus; TInt 9223372036854775808] = OOk /\
  run Repaired EProgram [TCmd CMove; TId (IdName 0); TInt 9223372036854775808] = OErr /\
  run Repaired EExpression [TOp OMinus; TLParen; TInt 1; TOp OPlus; TId (IdRes RPi); TRParen] = OOk.
Proof. vm_compute. repeat split. Qed.

(** * The lexer, at byte level (Model/Lex.v, proofs in Proofs/LexProofs.v)

    [Lex.lex] is a transliteration of [parser::lexer::lex] = [all_consuming(_lex)] on the bytes of
    the input text, reusing the proved partial models of string, number and identifier lexing
    (C07, C05, C06).  It is tied to the real lexer by the [CLex] cases of the C01 run: complete
    token streams, lex errors and panics of [quil_rs::verif::lex_debug] on exhaustive short texts
    and sampled long ones. *)
From QV Require Import Model.Lex Proofs.LexProofs.

(** The model is a total function whose only outcomes are: a token list, "input left over" (some
    byte starts no token) or "malformed number" (nom [Failure] from the number lexer).  It never
    runs out of its explicit fuel and never reports nom's [many0] infinite-loop error. *)
Theorem C01_lex_total : forall bytes : list N,
  (exists ts, lex bytes = LexOk ts) \/ lex bytes = LexErr ELeftover \/ lex bytes = LexErr EFailure.
Proof. exact lex_total. Qed.

(** The fuel [lex] gives its token loop (input length + 1) suffices, and any larger fuel computes
    exactly the same spans, stop reason and remaining input. *)
Theorem C01_lex_fuel_sufficient : forall (bytes : list N) (fuel : nat),
  (length bytes < fuel)%nat ->
  lex_loop fuel (length bytes) bytes = lex_spans bytes /\ lex bytes <> LexErr EFuel.
Proof. intros bytes fuel H. split; [exact (lex_fuel_sufficient bytes fuel H) | exact (lex_never_fuel bytes)]. Qed.

(** Progress, the invariant behind the termination of the real [many0] loop: one iteration
    (indentation, or spaces followed by a token) that succeeds leaves strictly less input than the
    token started with, which is at most what the iteration started with.  Hence nom's guard
    [i1.input_len() == i.input_len()] ([ErrorKind::Many0]) never fires. *)
Theorem C01_lex_progress : forall (inp : list N) (t : ltoken) (at_ rest : list N),
  lex_item inp = POk (t, at_) rest ->
  (length rest < length at_ /\ length at_ <= length inp)%nat.
Proof. exact lex_item_progress. Qed.

Corollary C01_lex_many0_guard_dead : forall bytes : list N, lex bytes <> LexErr EMany0.
Proof. exact lex_never_many0. Qed.

(** The recorded spans tile the lexed part of the input in order: item start <= token start <
    token end = next item start; the last token ends where the loop stopped. *)
Theorem C01_lex_spans_chained : forall (bytes : list N) sps st r,
  lex_spans bytes = (sps, st, r) -> chained 0 sps (length bytes - length r).
Proof. exact lex_spans_chained. Qed.

(** Every offset at which the lexer slices its input ([lex_cuts]: token starts and ends, the
    skipped spaces, sigils, the inside ends of string and comment contents, every offset of the
    ASCII run that failing alternatives can have matched, trailing whitespace) is a UTF-8 character
    boundary ([str::is_char_boundary]) whenever the input is well-formed UTF-8.  The real code
    slices its [&str] by these byte offsets, which panics exactly off a boundary. *)
Theorem C01_lex_no_slice_mid_char : forall bytes : list N,
  valid_utf8 bytes = true ->
  forall k, In k (lex_cuts bytes) -> utf8_boundary bytes k = true.
Proof. exact lex_no_slice_mid_char. Qed.

(** Without any assumption on the bytes: every such offset is the start, the end, directly after
    or directly before an ASCII byte. *)
Theorem C01_lex_cuts_ascii_adjacent : forall (bytes : list N) (k : nat),
  In k (lex_cuts bytes) -> good_cut bytes k.
Proof. exact lex_cuts_good. Qed.

(** The lexer case verdict ([CLex] cases, [case_code _ (CLex bytes o) = Lex.lex_code bytes o]): code 0
    means that the real lexer did not panic, the bytes are well-formed UTF-8, the model agrees with
    the observed outcome (an error, or a token list matching token by token -- [tok_match_sound]:
    equal, or for floats the observed binary64 is accepted by C05's nearest-value checker), and all
    slicing offsets of this text are character boundaries. *)
Theorem C01_lex_checker_sound : forall (bytes : list N) (o : lobs),
  ParsePanic.case_code Repaired (CLex bytes o) = 0%N ->
  o <> LxPanic /\ valid_utf8 bytes = true /\
  (o = LxErr -> exists e, lex bytes = LexErr e) /\
  (forall ts, o = LxToks ts -> exists ms, lex bytes = LexOk ms /\ toks_match ms ts = true) /\
  (forall k, In k (lex_cuts bytes) -> utf8_boundary bytes k = true).
Proof. intros bytes o H. exact (lex_code_sound bytes o H). Qed.

(** Non-vacuity: a comment and a string holding 2- and 3-byte characters, CR LF, tab indentation.
    The text is well-formed, lexes to six tokens, all 30-odd cut offsets are boundaries, while the
    offsets inside the multi-byte characters (never cut) are not. *)
Example C01_lex_nonvacuous :
  let text := [35; 195; 169; 13; 10; 9; 34; 230; 151; 165; 92; 34; 34; 32; 64; 97; 45; 49; 32; 46; 53; 101; 49] in
  valid_utf8 text = true /\
  lex text = LexOk [LtComment [195; 169; 13]; LtNewLine; LtIndent; LtString [230; 151; 165; 34];
                    LtTarget [97; 45; 49]; LtFloat (FDec 5 0)] /\
  forallb (utf8_boundary text) (lex_cuts text) = true /\
  existsb (Nat.eqb 7) (lex_cuts text) = true /\
  utf8_boundary text 2 = false /\ utf8_boundary text 8 = false /\ utf8_boundary text 9 = false /\
  lex [34; 195; 169] = LexErr ELeftover /\ lex [49; 101] = LexErr EFailure /\
  valid_utf8 [195] = false /\ valid_utf8 [237; 160; 128] = false /\ valid_utf8 [192; 128] = false.
Proof. vm_compute. repeat split. Qed.

(** * Bytes to outcome: the lexer model composed with the parser models (Model/LexParse.v, proofs in
    Proofs/LexParseProofs.v)

    [conv] is the harness's abstraction of the real lexer's tokens ([quilgen::tok_to_coq]) as a
    Gallina function on the lexer model's tokens: reserved words become constructors, [i pi sin cos
    sqrt exp cis] keep their identity, every other spelling / target / string / non-integral float is
    interned ([conv_with intern] for ANY interning function; [conv tbl] numbers by first occurrence
    like the harness).  [parse_bytes e bytes] = lex the bytes; a lex error makes the entry point
    return an error; otherwise [run Repaired e] on the converted tokens.  The [CBytes] cases of the
    C01 run check on real data that [conv] of the model's tokens IS the token list the harness
    ships, and that the composed model has the outcome class of the real entry point. *)
From QV Require Import Model.LexParse Proofs.LexParseProofs.

(** For every byte list and every entry point the composed model never yields [Panic] ... *)
Theorem C01_bytes_no_panic : forall (e : entry) (bytes : list N), parse_bytes e bytes <> OPanic.
Proof. exact parse_bytes_no_panic. Qed.

(** ... whatever the interning function ... *)
Theorem C01_bytes_no_panic_any_interning :
  forall (intern : ikey -> N) (e : entry) (bytes : list N), parse_bytes_with intern e bytes <> OPanic.
Proof. exact parse_bytes_with_no_panic. Qed.

(** ... and always ends with a verdict: value, error or "command not modelled"; never out of fuel. *)
Theorem C01_bytes_verdict : forall (e : entry) (bytes : list N),
  parse_bytes e bytes = OOk \/ parse_bytes e bytes = OErr \/ parse_bytes e bytes = OUnk.
Proof. exact parse_bytes_verdict. Qed.

(** [conv] is total by a fallback for reserved-word tokens whose spelling is in none of its
    tables; no token the lexer model produces is in that case ([known]): the tables cover the
    spelling lists [keyword_or_identifier] consults and the operator bytes. *)
Theorem C01_conv_fallback_dead : forall (bytes : list N) (ts : list ltoken),
  lex bytes = LexOk ts -> forallb known ts = true.
Proof. exact lex_tokens_known. Qed.

(** The DEF* commands.  [run_full] is [run] with DEFCAL, DEFCAL MEASURE, DEFCIRCUIT, DEFFRAME,
    DEFWAVEFORM and DEFGATE parsed by the grammar of Model/PrintParse.v ([p_items]) instead of being
    answered "not modelled": it never yields [Panic], never runs out of the fuel it gives itself
    ("not modelled" remains only for a definition nested in the body of another definition), and it
    extends [run] conservatively. *)
Theorem C01_full_no_panic : forall (e : entry) (ts : list tok), run_full Repaired e ts <> OPanic.
Proof. exact run_full_no_panic. Qed.

Theorem C01_full_verdict : forall (e : entry) (ts : list tok),
  run_full Repaired e ts = OOk \/ run_full Repaired e ts = OErr \/ run_full Repaired e ts = OUnk.
Proof. exact run_full_verdict. Qed.

Theorem C01_full_fuel_sufficient : forall (vr : variant) (e : entry) (ts : list tok),
  run_full vr e ts <> OFuel.
Proof. exact run_full_no_fuel. Qed.

Theorem C01_full_conservative : forall (vr : variant) (e : entry) (ts : list tok),
  run vr e ts <> OUnk -> run_full vr e ts = run vr e ts.
Proof. exact run_full_conservative. Qed.

(** From bytes, with the DEF* grammar. *)
Theorem C01_bytes_full_no_panic : forall (e : entry) (bytes : list N),
  parse_bytes_full e bytes <> OPanic.
Proof. exact parse_bytes_full_no_panic. Qed.

Theorem C01_bytes_full_verdict : forall (e : entry) (bytes : list N),
  parse_bytes_full e bytes = OOk \/ parse_bytes_full e bytes = OErr \/ parse_bytes_full e bytes = OUnk.
Proof. exact parse_bytes_full_verdict. Qed.

(** The composition case verdict ([CBytes e bytes ots o], code 0): the real outcome [o] is a value
    or an error; if the real lexer rejected the text so does the model and the entry point returned
    an error, as [parse_bytes] says; if it produced tokens, the model lexes the bytes to [ms] with
    [conv_toks ms] EQUAL to the token list the harness derived from the real tokens (so the parser
    cases and the lexer cases talk about the same tokens), every float literal's [round_bits] is
    accepted by C05's verified nearest-value checker, [parse_bytes] is "not modelled" or equals
    [o], and [parse_bytes_full] agrees with [o] ([agree_full]: equal, or "not modelled", or on a
    text containing DEFGATE the model accepts where the implementation's extra validation rejects). *)
Theorem C01_bytes_checker_sound : forall (e : entry) (bytes : list N) (ots : option (list tok)) (o : outcome),
  case_code2 Repaired (CBytes e bytes ots o) = 0%N ->
  (o = OOk \/ o = OErr) /\
  (ots = None -> (exists err, lex bytes = LexErr err) /\ o = OErr /\ parse_bytes e bytes = o) /\
  (forall ts, ots = Some ts ->
     exists ms, lex bytes = LexOk ms /\ conv_toks ms = ts /\
       forallb float_ok ms = true /\
       (parse_bytes e bytes = OUnk \/ parse_bytes e bytes = o) /\
       agree_full (parse_bytes_full e bytes) o ts = true).
Proof. intros e bytes ots o H. exact (bytes_code_sound e bytes ots o H). Qed.

(** The wrapped cases ([CBase c], code 0): the original verdict of [c] is 0, and on a single case
    where [run] answers "not modelled" the DEF*-aware [run_full] agrees with the real outcome. *)
Theorem C01_full_checker_sound : forall (c : ParsePanic.case),
  case_code2 Repaired (CBase c) = 0%N ->
  ParsePanic.case_code Repaired c = 0%N /\
  (forall e ts o, c = CSingle e (Some ts) o -> run Repaired e ts = OUnk ->
     agree_full (run_full Repaired e ts) o ts = true).
Proof.
  intros c H. destruct (case_code2_base Repaired c H) as [H1 H2]. split; [exact H1|].
  intros e ts o -> Hu. exact (full_single_code_sound Repaired e (Some ts) o H2 ts eq_refl Hu).
Qed.

(** Non-vacuity: [conv] on a text with a keyword, a command, the special identifiers in both
    capitalisations, a repeated name, a float that is an integer and one that is not; a DEFCAL that
    [parse_bytes] does not model and [parse_bytes_full] accepts; its body-less variant rejected; a
    lex error. *)
Example C01_bytes_nonvacuous :
  (* "MOVE ro pi\nRX(PI*1.50) q q\nDELAY 0 2.0\nRZ(1.5) q" *)
  let t1 := [77; 79; 86; 69; 32; 114; 111; 32; 112; 105; 10; 82; 88; 40; 80; 73; 42; 49; 46; 53; 48; 41; 32; 113; 32; 113; 10; 68; 69; 76; 65; 89; 32; 48; 32; 50; 46; 48; 10; 82; 90; 40; 49; 46; 53; 41; 32; 113] in
  (match lex t1 with LexOk ms => conv_toks ms | _ => [] end) =
    [TCmd CMove; TId (IdName 0); TId (IdRes RPi); TNewLine; TId (IdName 1); TLParen;
     TId (IdResCase RPi); TOp OStar; TFloat (FLex 2); TRParen; TId (IdName 3); TId (IdName 3);
     TNewLine; TCmd CDelay; TInt 0; TFloat (FInt 2); TNewLine; TId (IdName 4); TLParen;
     TFloat (FLex 2); TRParen; TId (IdName 3)] /\
  parse_bytes EProgram t1 = OOk /\
  (* "DEFCAL X 0:\n\tX 0" *)
  parse_bytes EProgram [68; 69; 70; 67; 65; 76; 32; 88; 32; 48; 58; 10; 9; 88; 32; 48] = OUnk /\
  parse_bytes_full EProgram [68; 69; 70; 67; 65; 76; 32; 88; 32; 48; 58; 10; 9; 88; 32; 48] = OOk /\
  (* "DEFCAL X 0:" *)
  parse_bytes_full EProgram [68; 69; 70; 67; 65; 76; 32; 88; 32; 48; 58] = OErr /\
  (* an unterminated string *)
  parse_bytes EProgram [34; 97; 98; 99] = OErr /\
  round_bits 15 (-1)%Z = 4609434218613702656%N.
Proof. vm_compute. repeat split. Qed.

(** * Recursion depth of the expression parser (Model/ParseDepth.v, proofs in Proofs/ParseDepthProofs.v)

    [C01_fuel_sufficient] bounds the MODEL's recursion by the token count, but the model's infix loop
    [loop_e] is itself a fuel-consuming recursive function (one unit per operator) whereas the Rust
    code runs a [while] loop inside one activation of [parse].  [parse_d] / [loop_d] are
    [parse_e] / [loop_e] instrumented with the maximal number of simultaneously active calls of
    [parse] -- counted only at the model calls that are recursion in expression.rs: after [(]
    ([parse_grouped_expression]), after [fn (] ([parse_function_call]) and for the right operand of
    an infix operator ([parse_infix]).  The prefix operator is not a recursion: [opt(parse_prefix)]
    strips one [-] in the same activation and a second [-] is a parse error. *)
From QV Require Import Model.ParseDepth Proofs.ParseDepthProofs.
Local Open Scope nat_scope.

(** Erasing the instrumentation gives exactly the parser of Model/ParsePanic.v (any fuel, any
    precedence), so the depth statements are about the parser of [C01_no_panic]. *)
Theorem C01_depth_erasure :
  (forall f p ts, fst (parse_d f p ts) = parse_e f p ts) /\
  (forall f p l ts, fst (loop_d f p l ts) = loop_e f p l ts) /\
  (forall ts, fst (p_expr_d ts) = p_expr ts).
Proof.
  split; [|split].
  - intros f p ts. exact (proj1 (parse_d_erase f) p ts).
  - intros f p l ts. exact (proj2 (parse_d_erase f) p l ts).
  - exact p_expr_d_erase.
Qed.

(** For EVERY token list the depth reached by [parse_expression] is at most
    (number of precedence levels = 4: Lowest, Sum, Product, Exponentiation) * (nesting + 1), where
    [paren_depth ts] -- defined on the tokens alone -- is the maximal number of unclosed [(] over the
    prefixes of [ts].  The token count does not occur.  Between two parentheses the recursion can
    only climb the precedence ladder (the right operand of an operator is parsed at that operator's
    precedence and returns at the next operator that does not bind tighter), hence the factor 4; the
    additive form "nesting + levels + c" is false of the model and of the code
    ([C01_depth_examples]: the bound below is attained). *)
Theorem C01_expression_depth : forall ts : list tok, expr_depth ts <= 4 * (paren_depth ts + 1).
Proof. exact expr_depth_bound. Qed.

(** The same for any fuel: the bound is a property of the recursion structure, not of the fuel. *)
Theorem C01_expression_depth_any_fuel : forall (fuel : nat) (ts : list tok),
  snd (parse_d fuel 0 ts) <= 4 * (paren_depth ts + 1).
Proof. exact parse_d_depth_top. Qed.

(** Without parentheses -- whatever the length, the operators and the prefix signs -- at most 4. *)
Corollary C01_expression_depth_no_parens : forall ts : list tok,
  (forall t, In t ts -> t <> TLParen) -> expr_depth ts <= 4.
Proof. exact expr_depth_no_paren. Qed.

(** A chain [1 + 1 + ... + 1] with ANY number [n] of operators is parsed iteratively: depth exactly 2
    for n >= 1 (the top activation, and one activation per right operand, one after the other). *)
Theorem C01_operator_chain_depth : forall n : nat, expr_depth (plus_chain n) = 1 + Nat.min n 1.
Proof. exact plus_chain_depth. Qed.

(** Parenthesis nesting IS recursion: [n] pairs of parentheses around a number reach depth > n. *)
Theorem C01_paren_nesting_depth : forall n : nat, n + 1 <= expr_depth (nested_parens n).
Proof. exact nested_parens_depth. Qed.

(** Concrete instances: 1000 operators (2001 tokens, accepted) at depth 2; 200 nested parentheses at
    depth 201; the precedence ladder [1+1*1^(1+1*1^( ... ))] with 50 parentheses attains the bound
    4*(50+1) = 204 > 50 + 4 + 100; 300 prefix signs: an error found at depth 1. *)
Example C01_depth_examples :
  length (plus_chain 1000) = 2001 /\ all_consumed (p_expr (plus_chain 1000)) = OOk /\
  expr_depth (plus_chain 1000) = 2 /\ paren_depth (plus_chain 1000) = 0 /\
  all_consumed (p_expr (nested_parens 200)) = OOk /\
  expr_depth (nested_parens 200) = 201 /\ paren_depth (nested_parens 200) = 200 /\
  all_consumed (p_expr (ladder 50)) = OOk /\
  expr_depth (ladder 50) = 204 /\ paren_depth (ladder 50) = 50 /\
  minus_run 0 0 (minus_prefix 300) = 300 /\ p_expr_d (minus_prefix 300) = (Err, 1) /\
  p_expr_d (minus_prefix 1) = (Ok (ENeg (ENum false (VInt 1))) [], 1) /\
  expr_depth [TInt 1; TOp OPlus; TOp OMinus; TInt 1] = 2.
Proof. vm_compute. repeat split. Qed.
