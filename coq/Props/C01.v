(** C01 — parsing never panics or aborts on any input text.
    Pinned statements only; proofs live in Proofs/ParsePanicProofs.v.

    The theorems are about the token-level model of the parser in Model/ParsePanic.v (operand,
    sign and number-conversion logic, NONBLOCKING and command dispatch, the Pratt expression
    parser, all commands without an indented body).  The parser as a whole — including the
    commands the model leaves out, the lexer, nom and lexical — is covered by the process-level
    oracle of harness/src/bin/c01.rs over the generated input space. *)
From Coq Require Import List NArith ZArith Bool.
From QV Require Import Model.ParsePanic Proofs.ParsePanicProofs.
Import ListNotations.

(** For every token stream and every entry point (program, instruction, expression, memory
    reference, frame identifier) the repaired parser model returns a value, an error, "not
    modelled" or "out of fuel" — never [Panic]. *)
Theorem C01_no_panic : forall (e : entry) (ts : list tok), run Repaired e ts <> OPanic.
Proof. exact run_no_panic. Qed.

(** The explicit recursion fuel the entry points give themselves (input length + 1) always
    suffices: the model's recursion depth is at most linear in the number of tokens, and every
    entry point ends with a verdict. *)
Theorem C01_fuel_sufficient : forall (vr : variant) (e : entry) (ts : list tok), run vr e ts <> OFuel.
Proof. exact run_no_fuel. Qed.

Corollary C01_verdict :
  forall (e : entry) (ts : list tok),
    run Repaired e ts = OOk \/ run Repaired e ts = OErr \/ run Repaired e ts = OUnk.
Proof.
  intros e ts. pose proof (run_no_panic e ts). pose proof (run_no_fuel Repaired e ts).
  destruct (run Repaired e ts); auto; contradiction.
Qed.

(** The same model with the code as it was at the snapshot does panic ([ADD ro +1],
    bare [NONBLOCKING], [MOVE ro -9223372036854775808]): [Panic] is a reachable outcome of the
    model, not a vacuous one. *)
Theorem C01_snapshot_refuted :
  exists ts, run Snapshot EProgram ts = OPanic.
Proof. exists [TCmd CAdd; TId (IdName 0); TOp OPlus; TInt 1]. apply snapshot_panics. Qed.

(** The instance checker: a single case with code 0 has an outcome that is a value or an error,
    and the model (where it covers the input) has the same outcome class. *)
Theorem C01_checker_sound :
  forall (e : entry) (ots : option (list tok)) (o : outcome),
    single_code Repaired e ots o = 0%N ->
    (o = OOk \/ o = OErr) /\
    (forall ts, ots = Some ts -> run Repaired e ts = OUnk \/ run Repaired e ts = o).
Proof. exact single_code_sound. Qed.

(** A grouped case with code 0 stands for one single case with code 0 per alphabet token. *)
Theorem C01_group_checker_sound :
  forall e prefix d ex al, group_code Repaired e prefix d ex 0 al = 0%N ->
    forall k a, nth_error al k = Some a ->
      single_code Repaired e (Some (prefix ++ [a])) (lookup_out (N.of_nat k) ex d) = 0%N.
Proof. intros e prefix d ex al H k a Hk. exact (group_code_sound e prefix d ex al 0 H k a Hk). Qed.

(** Non-vacuity: the repaired model on the former panic witnesses and on accepted inputs. *)
Example C01_nonvacuous :
  run Repaired EProgram [TCmd CAdd; TId (IdName 0); TOp OPlus; TInt 1] = OErr /\
  run Repaired EProgram [TNonBlocking; TId (IdName 0)] = OErr /\
  run Repaired EProgram [TCmd CMove; TId (IdName 0); TOp OMinus; TInt 9223372036854775808] = OOk /\
  run Repaired EProgram [TCmd CMove; TId (IdName 0); TInt 9223372036854775808] = OErr /\
  run Repaired EExpression [TOp OMinus; TLParen; TInt 1; TOp OPlus; TId (IdRes RPi); TRParen] = OOk.
Proof. vm_compute. repeat split. Qed.

(** * The lexer, at byte level (Model/Lex.v, proofs in Proofs/LexProofs.v)

    [Lex.lex] is a transliteration of [parser::lexer::lex] = [all_consuming(_lex)] on the bytes of
    the input text, reusing the proved partial models of string, number and identifier lexing
    (C07, C05, C06).  It is tied to the real lexer by the [CLex] cases of the C01 run: complete
    token streams, lex errors and panics of [quil_rs::verif::lex_debug] on exhaustive short texts
    and sampled long ones. *)
From QV Require Import Model.Lex Proofs.LexProofs.

(** The model is a total function whose only outcomes are: a token list, "input left over" (some
    byte starts no token) or "malformed number" (nom [Failure] from the number lexer).  It never
    runs out of its explicit fuel and never reports nom's [many0] infinite-loop error. *)
Theorem C01_lex_total : forall bytes : list N,
  (exists ts, lex bytes = LexOk ts) \/ lex bytes = LexErr ELeftover \/ lex bytes = LexErr EFailure.
Proof. exact lex_total. Qed.

(** The fuel [lex] gives its token loop (input length + 1) suffices, and any larger fuel computes
    exactly the same spans, stop reason and remaining input. *)
Theorem C01_lex_fuel_sufficient : forall (bytes : list N) (fuel : nat),
  (length bytes < fuel)%nat ->
  lex_loop fuel (length bytes) bytes = lex_spans bytes /\ lex bytes <> LexErr EFuel.
Proof. intros bytes fuel H. split; [exact (lex_fuel_sufficient bytes fuel H) | exact (lex_never_fuel bytes)]. Qed.

(** Progress, the invariant behind the termination of the real [many0] loop: one iteration
    (indentation, or spaces followed by a token) that succeeds leaves strictly less input than the
    token started with, which is at most what the iteration started with.  Hence nom's guard
    [i1.input_len() == i.input_len()] ([ErrorKind::Many0]) never fires. *)
Theorem C01_lex_progress : forall (inp : list N) (t : ltoken) (at_ rest : list N),
  lex_item inp = POk (t, at_) rest ->
  (length rest < length at_ /\ length at_ <= length inp)%nat.
Proof. exact lex_item_progress. Qed.

Corollary C01_lex_many0_guard_dead : forall bytes : list N, lex bytes <> LexErr EMany0.
Proof. exact lex_never_many0. Qed.

(** The recorded spans tile the lexed part of the input in order: item start <= token start <
    token end = next item start; the last token ends where the loop stopped. *)
Theorem C01_lex_spans_chained : forall (bytes : list N) sps st r,
  lex_spans bytes = (sps, st, r) -> chained 0 sps (length bytes - length r).
Proof. exact lex_spans_chained. Qed.

(** Every offset at which the lexer slices its input ([lex_cuts]: token starts and ends, the
    skipped spaces, sigils, the inside ends of string and comment contents, every offset of the
    ASCII run that failing alternatives can have matched, trailing whitespace) is a UTF-8 character
    boundary ([str::is_char_boundary]) whenever the input is well-formed UTF-8.  The real code
    slices its [&str] by these byte offsets, which panics exactly off a boundary. *)
Theorem C01_lex_no_slice_mid_char : forall bytes : list N,
  valid_utf8 bytes = true ->
  forall k, In k (lex_cuts bytes) -> utf8_boundary bytes k = true.
Proof. exact lex_no_slice_mid_char. Qed.

(** Without any assumption on the bytes: every such offset is the start, the end, directly after
    or directly before an ASCII byte. *)
Theorem C01_lex_cuts_ascii_adjacent : forall (bytes : list N) (k : nat),
  In k (lex_cuts bytes) -> good_cut bytes k.
Proof. exact lex_cuts_good. Qed.

(** The lexer case verdict ([CLex] cases, [case_code _ (CLex bytes o) = Lex.lex_code bytes o]): code 0
    means that the real lexer did not panic, the bytes are well-formed UTF-8, the model agrees with
    the observed outcome (an error, or a token list matching token by token -- [tok_match_sound]:
    equal, or for floats the observed binary64 is accepted by C05's nearest-value checker), and all
    slicing offsets of this text are character boundaries. *)
Theorem C01_lex_checker_sound : forall (bytes : list N) (o : lobs),
  ParsePanic.case_code Repaired (CLex bytes o) = 0%N ->
  o <> LxPanic /\ valid_utf8 bytes = true /\
  (o = LxErr -> exists e, lex bytes = LexErr e) /\
  (forall ts, o = LxToks ts -> exists ms, lex bytes = LexOk ms /\ toks_match ms ts = true) /\
  (forall k, In k (lex_cuts bytes) -> utf8_boundary bytes k = true).
Proof. intros bytes o H. exact (lex_code_sound bytes o H). Qed.

(** Non-vacuity: a comment and a string holding 2- and 3-byte characters, CR LF, tab indentation.
    The text is well-formed, lexes to six tokens, all 30-odd cut offsets are boundaries, while the
    offsets inside the multi-byte characters (never cut) are not. *)
Example C01_lex_nonvacuous :
  let text := [35; 195; 169; 13; 10; 9; 34; 230; 151; 165; 92; 34; 34; 32; 64; 97; 45; 49; 32; 46; 53; 101; 49] in
  valid_utf8 text = true /\
  lex text = LexOk [LtComment [195; 169; 13]; LtNewLine; LtIndent; LtString [230; 151; 165; 34];
                    LtTarget [97; 45; 49]; LtFloat (FDec 5 0)] /\
  forallb (utf8_boundary text) (lex_cuts text) = true /\
  existsb (Nat.eqb 7) (lex_cuts text) = true /\
  utf8_boundary text 2 = false /\ utf8_boundary text 8 = false /\ utf8_boundary text 9 = false /\
  lex [34; 195; 169] = LexErr ELeftover /\ lex [49; 101] = LexErr EFailure /\
  valid_utf8 [195] = false /\ valid_utf8 [237; 160; 128] = false /\ valid_utf8 [192; 128] = false.
Proof. vm_compute. repeat split. Qed.
