(** C01 — parsing never panics or aborts on any input text.
    Pinned statements only; proofs live in Proofs/ParsePanicProofs.v.

    The theorems are about the token-level model of the parser in Model/ParsePanic.v (operand,
    sign and number-conversion logic, NONBLOCKING and command dispatch, the Pratt expression
    parser, all commands without an indented body).  The parser as a whole — including the
    commands the model leaves out, the lexer, nom and lexical — is covered by the process-level
    oracle of harness/src/bin/c01.rs over the generated input space. *)
From Coq Require Import List NArith ZArith Bool.
From QV Require Import Model.ParsePanic Proofs.ParsePanicProofs.
Import ListNotations.

(** For every token stream and every entry point (program, instruction, expression, memory
    reference, frame identifier) the repaired parser model returns a value, an error, "not
    modelled" or "out of fuel" — never [Panic]. *)
Theorem C01_no_panic : forall (e : entry) (ts : list tok), run Repaired e ts <> OPanic.
Proof. exact run_no_panic. Qed.

(** The explicit recursion fuel the entry points give themselves (input length + 1) always
    suffices: the model's recursion depth is at most linear in the number of tokens, and every
    entry point ends with a verdict. *)
Theorem C01_fuel_sufficient : forall (vr : variant) (e : entry) (ts : list tok), run vr e ts <> OFuel.
Proof. exact run_no_fuel. Qed.

Corollary C01_verdict :
  forall (e : entry) (ts : list tok),
    run Repaired e ts = OOk \/ run Repaired e ts = OErr \/ run Repaired e ts = OUnk.
Proof.
  intros e ts. pose proof (run_no_panic e ts). pose proof (run_no_fuel Repaired e ts).
  destruct (run Repaired e ts); auto; contradiction.
Qed.

(** The same model with the code as it was at the snapshot does panic ([ADD ro +1],
    bare [NONBLOCKING], [MOVE ro -9223372036854775808]): [Panic] is a reachable outcome of the
    model, not a vacuous one. *)
Theorem C01_snapshot_refuted :
  exists ts, run Snapshot EProgram ts = OPanic.
Proof. exists [TCmd CAdd; TId (IdName 0); TOp OPlus; TInt 1]. apply snapshot_panics. Qed.

(** The instance checker: a single case with code 0 has an outcome that is a value or an error,
    and the model (where it covers the input) has the same outcome class. *)
Theorem C01_checker_sound :
  forall (e : entry) (ots : option (list tok)) (o : outcome),
    single_code Repaired e ots o = 0%N ->
    (o = OOk \/ o = OErr) /\
    (forall ts, ots = Some ts -> run Repaired e ts = OUnk \/ run Repaired e ts = o).
Proof. exact single_code_sound. Qed.

(** A grouped case with code 0 stands for one single case with code 0 per alphabet token. *)
Theorem C01_group_checker_sound :
  forall e prefix d ex al, group_code Repaired e prefix d ex 0 al = 0%N ->
    forall k a, nth_error al k = Some a ->
      single_code Repaired e (Some (prefix ++ [a])) (lookup_out (N.of_nat k) ex d) = 0%N.
Proof. intros e prefix d ex al H k a Hk. exact (group_code_sound e prefix d ex al 0 H k a Hk). Qed.

(** Non-vacuity: the repaired model on the former panic witnesses and on accepted inputs. *)
Example C01_nonvacuous :
  run Repaired EProgram [TCmd CAdd; TId (IdName 0); TOp OPlus; TInt 1] = OErr /\
  run Repaired EProgram [TNonBlocking; TId (IdName 0)] = OErr /\
  run Repaired EProgram [TCmd CMove; TId (IdName 0); TOp OMinus; TInt 9223372036854775808] = OOk /\
  run Repaired EProgram [TCmd CMove; TId (IdName 0); TInt 9223372036854775808] = OErr /\
  run Repaired EExpression [TOp OMinus; TLParen; TInt 1; TOp OPlus; TId (IdRes RPi); TRParen] = OOk.
Proof. vm_compute. repeat split. Qed.
