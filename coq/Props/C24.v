(** C24 — frame conflicts are ordered and every frame edge is justified.
    Pinned statements only; proofs live in Proofs/GraphBlockProofs.v (model: Model/Graph.v).
    Nodes: block start = 0, instruction at position p = 1 + p, block end = length + 1.
    [fconflict i j] = both are RF-control and one of them uses a frame the other uses or blocks. *)
From Coq Require Import List NArith Bool Relations.
From QV Require Import Model.DepQueue Model.Graph Proofs.GraphProofs Proofs.GraphReachProofs
  Proofs.GraphBlockProofs.
Import ListNotations.
Local Open Scope N_scope.

(** (i) Two RF-control instructions at positions p < q of a block whose graph builds, one using a
    frame the other uses or blocks: the later depends transitively on the earlier through
    StableOrdering edges, and through Scheduled edges when both are scheduled (timed). *)
Theorem C24_conflicts_ordered :
  forall (is : list info) (term : option info) (E : list gedge) (p q : nat) (i j : info),
    build is term = inr E ->
    nth_error is p = Some i -> nth_error is q = Some j -> (p < q)%nat -> fconflict i j = true ->
    clos_trans N (krel KStable E) (1 + N.of_nat p) (1 + N.of_nat q) /\
    (i_sched i = true -> i_sched j = true ->
     clos_trans N (krel KSched E) (1 + N.of_nat p) (1 + N.of_nat q)).
Proof. exact frames_conflicts_ordered. Qed.

(** (ii) Every StableOrdering / Scheduled edge leaves the block start, enters the block end, or
    joins two instructions at positions p < q with a frame conflict (both scheduled for a
    Scheduled edge). *)
Theorem C24_edges_justified :
  forall (is : list info) (term : option info) (E : list gedge) (a b : N) (k : kind),
    build is term = inr E -> wf_block is term = true -> In (a, b, k) E ->
    (k = KStable -> a = 0 \/ b = end_node is \/ frame_pair is false a b) /\
    (k = KSched -> a = 0 \/ b = end_node is \/ frame_pair is true a b).
Proof. exact frames_edges_justified. Qed.

(** (iii) Instructions without a frame conflict — in particular instructions that only block the
    same frames — get no direct frame edge. *)
Theorem C24_nonconflicting_unordered :
  forall (is : list info) (term : option info) (E : list gedge) (p q : nat) (i j : info),
    build is term = inr E -> wf_block is term = true ->
    nth_error is p = Some i -> nth_error is q = Some j -> fconflict i j = false ->
    ~ In (1 + N.of_nat p, 1 + N.of_nat q, KStable) E /\ ~ In (1 + N.of_nat p, 1 + N.of_nat q, KSched) E.
Proof. exact frames_nonconflicting_unordered. Qed.

(** The instance checker run on the implementation's edge list decides (i) and (ii). *)
Theorem C24_checker_sound :
  forall (is : list info) (E : list gedge),
    chk_frames is E = true -> frames_conn_spec is E /\ frames_just_spec is E.
Proof. exact chk_frames_sound. Qed.

(** Non-vacuity: blocking pulse on f0 (blocks f1), two fence-like blockers of f0 and f1, an
    unscheduled user of f1, a pulse on f1: conflicts exist, the two blockers do not conflict, the
    block builds and the checker accepts the model's graph. *)
Example C24_nonvacuous :
  let is := [MkInfo RRF false [] [] [] [0] [1] true;
             MkInfo RRF false [] [] [] [] [0; 1] true;
             MkInfo RRF false [] [] [] [] [0; 1] true;
             MkInfo RRF false [] [] [] [1] [] false;
             MkInfo RRF false [] [] [] [1] [] true] in
  wf_block is None = true /\
  fconflict (nth 0 is (MkInfo RCompose false [] [] [] [] [] false)) (nth 1 is (MkInfo RCompose false [] [] [] [] [] false)) = true /\
  fconflict (nth 1 is (MkInfo RCompose false [] [] [] [] [] false)) (nth 2 is (MkInfo RCompose false [] [] [] [] [] false)) = false /\
  exists E, build is None = inr E /\ chk_frames is E = true /\
            existsb (gedge_eqb (2, 3, KSched)) E = false /\ existsb (gedge_eqb (1, 2, KSched)) E = true.
Proof. vm_compute. repeat split. eexists. repeat split. Qed.
