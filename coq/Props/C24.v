(** C24 — frame conflicts are ordered and every frame edge is justified.
    Pinned statements only; proofs live in Proofs/GraphBlockProofs.v (model: Model/Graph.v).
    Nodes: block start = 0, instruction at position p = 1 + p, block end = length + 1.
    [fconflict i j] = both are RF-control and one of them uses a frame the other uses or blocks. *)
From Coq Require Import List NArith Bool Relations.
From QV Require Import Model.DepQueue Model.Graph Proofs.GraphProofs Proofs.GraphReachProofs
  Proofs.GraphBlockProofs.
Import ListNotations.
Local Open Scope N_scope.

(** (i) Two RF-control instructions at positions p < q of a block whose graph builds, one using a
    frame the other uses or blocks: the later depends transitively on the earlier through
    StableOrdering edges, and through Scheduled edges when both are scheduled (timed). *)
Theorem C24_conflicts_ordered :
  forall (is : list info) (term : option info) (E : list gedge) (p q : nat) (i j : info),
    build is term = inr E ->
    nth_error is p = Some i -> nth_error is q = Some j -> (p < q)%nat -> fconflict i j = true ->
    clos_trans N (krel KStable E) (1 + N.of_nat p) (1 + N.of_nat q) /\
    (i_sched i = true -> i_sched j = true ->
     clos_trans N (krel KSched E) (1 + N.of_nat p) (1 + N.of_nat q)).
Proof. exact frames_conflicts_ordered. Qed.

(** (ii) Every StableOrdering / Scheduled edge leaves the block start, enters the block end, or
    joins two instructions at positions p < q with a frame conflict (both scheduled for a
    Scheduled edge). *)
Theorem C24_edges_justified :
  forall (is : list info) (term : option info) (E : list gedge) (a b : N) (k : kind),
    build is term = inr E -> wf_block is term = true -> In (a, b, k) E ->
    (k = KStable -> a = 0 \/ b = end_node is \/ frame_pair is false a b) /\
    (k = KSched -> a = 0 \/ b = end_node is \/ frame_pair is true a b).
Proof. exact frames_edges_justified. Qed.

(** (iii) Instructions without a frame conflict — in particular instructions that only block the
    same frames — get no direct frame edge. *)
Theorem C24_nonconflicting_unordered :
  forall (is : list info) (term : option info) (E : list gedge) (p q : nat) (i j : info),
    build is term = inr E -> wf_block is term = true ->
    nth_error is p = Some i -> nth_error is q = Some j -> fconflict i j = false ->
    ~ In (1 + N.of_nat p, 1 + N.of_nat q, KStable) E /\ ~ In (1 + N.of_nat p, 1 + N.of_nat q, KSched) E.
Proof. exact frames_nonconflicting_unordered. Qed.

(** The instance checker run on the implementation's edge list decides (i) and (ii). *)
Theorem C24_checker_sound :
  forall (is : list info) (E : list gedge),
    chk_frames is E = true -> frames_conn_spec is E /\ frames_just_spec is E.
Proof. exact chk_frames_sound. Qed.

(** Non-vacuity: blocking pulse on f0 (blocks f1), two fence-like blockers of f0 and f1, an
    unscheduled user of f1, a pulse on f1: conflicts exist, the two blockers do not conflict, the
    block builds and the checker accepts the model's graph. *)
Example C24_nonvacuous :
  let is := [MkInfo RRF false [] [] [] [0] [1] true;
             MkInfo RRF false [] [] [] [] [0; 1] true;
             MkInfo RRF false [] [] [] [] [0; 1] true;
             MkInfo RRF false [] [] [] [1] [] false;
             MkInfo RRF false [] [] [] [1] [] true] in
  wf_block is None = true /\
  fconflict (nth 0 is (MkInfo RCompose false [] [] [] [] [] false)) (nth 1 is (MkInfo RCompose false [] [] [] [] [] false)) = true /\
  fconflict (nth 1 is (MkInfo RCompose false [] [] [] [] [] false)) (nth 2 is (MkInfo RCompose false [] [] [] [] [] false)) = false /\
  exists E, build is None = inr E /\ chk_frames is E = true /\
            existsb (gedge_eqb (2, 3, KSched)) E = false /\ existsb (gedge_eqb (1, 2, KSched)) E = true.
Proof. vm_compute. repeat split. eexists. repeat split. Qed.

(** ** The DEFAULT handler: conflicts of the Quil-T frames themselves, no premise on the handler

    Blocks summarised by the model of [DefaultHandler] (Model/DefaultInfo.v over the C26 model
    Model/Frames.v; see Props/C22.v for the reading of [keys], [avail], [dinstr], [default_build],
    [term_ok]).  [d_conflict keys avail d e]: one of the two instructions uses a frame that the
    other uses or blocks - on the frames [Frames.matching_frames] reports, not on numbers. *)
From QV Require Model.Frames.
From QV Require Import Model.DefaultInfo Proofs.DefaultInfoProofs.

Theorem C24_default_conflict_meaning :
  forall (keys : list Frames.frame) (avail : list N) (d e : dinstr),
    d_conflict keys avail d e = true <->
    exists ud bd ue be f,
      Frames.matching_frames keys avail (d_frame d) = Some (ud, bd) /\
      Frames.matching_frames keys avail (d_frame e) = Some (ue, be) /\
      ((In f ud /\ (In f ue \/ In f be)) \/ (In f ue /\ (In f ud \/ In f bd))).
Proof. exact d_conflict_spec. Qed.

(** The conflict relation [build] sees on the numbered summaries is exactly that one. *)
Theorem C24_default_conflict_is_fconflict :
  forall (keys : list Frames.frame) (avail : list N) (d e : dinstr),
    fconflict (default_info keys avail d) (default_info keys avail e) = d_conflict keys avail d e.
Proof. exact fconflict_default_iff. Qed.

(** (i) for the default handler. *)
Theorem C24_default_handler_conflicts_ordered :
  forall (keys : list Frames.frame) (avail : list N) (ds : list dinstr) (t : option dinstr)
         (E : list gedge) (p q : nat) (d e : dinstr),
    default_build keys avail ds t = inr E ->
    nth_error ds p = Some d -> nth_error ds q = Some e -> (p < q)%nat ->
    d_conflict keys avail d e = true ->
    clos_trans N (krel KStable E) (1 + N.of_nat p) (1 + N.of_nat q) /\
    (d_sched d = true -> d_sched e = true ->
     clos_trans N (krel KSched E) (1 + N.of_nat p) (1 + N.of_nat q)).
Proof. exact default_conflicts_ordered. Qed.

(** (ii) for the default handler, the well-formedness premise discharged ([d_frame_pair]:
    positions p < q of the block holding instructions with [d_conflict], both scheduled when the
    flag is set). *)
Theorem C24_default_handler_edges_justified :
  forall (keys : list Frames.frame) (avail : list N) (ds : list dinstr) (t : option dinstr)
         (E : list gedge) (a b : N) (k : kind),
    NoDup keys -> term_ok t = true -> default_build keys avail ds t = inr E -> In (a, b, k) E ->
    (k = KStable ->
     a = 0 \/ b = N.succ (N.of_nat (length ds)) \/ d_frame_pair keys avail ds false a b) /\
    (k = KSched ->
     a = 0 \/ b = N.succ (N.of_nat (length ds)) \/ d_frame_pair keys avail ds true a b).
Proof. exact default_edges_justified. Qed.

(** (iii) for the default handler. *)
Theorem C24_default_handler_nonconflicting_unordered :
  forall (keys : list Frames.frame) (avail : list N) (ds : list dinstr) (t : option dinstr)
         (E : list gedge) (p q : nat) (d e : dinstr),
    NoDup keys -> term_ok t = true -> default_build keys avail ds t = inr E ->
    nth_error ds p = Some d -> nth_error ds q = Some e -> d_conflict keys avail d e = false ->
    ~ In (1 + N.of_nat p, 1 + N.of_nat q, KStable) E /\ ~ In (1 + N.of_nat p, 1 + N.of_nat q, KSched) E.
Proof. exact default_nonconflicting_unordered. Qed.

(** Non-vacuity: the block of [C22_default_handler_nonvacuous] (frames 0 "a", 0 1 "ab", 1 "a";
    PULSE 0 "a" ; NONBLOCKING PULSE 1 "a" ; FENCE 1 ; RESET 0).  Conflicts, on the frames: the
    two pulses do not conflict, nor do the nonblocking pulse and RESET 0; every other pair does
    (pulse/fence on 0 1 "ab" which the pulse blocks, pulse/reset on 0 "a", nonblocking
    pulse/fence on 1 "a", fence/reset on 0 1 "ab").  The block builds, the checker accepts the
    graph, there is no direct frame edge 1 -> 2, and the unscheduled RESET gets StableOrdering
    but no Scheduled in-edges. *)
Example C24_default_handler_nonvacuous :
  let keys := [([0], 0); ([0; 1], 1); ([1], 0)] in
  let avail := [0; 1] in
  let nomem := Some ([], [], []) in
  let ds := [MkD (Frames.FPlay Frames.KPulse true ([0], 0)) OClassical nomem;
             MkD (Frames.FPlay Frames.KPulse false ([1], 0)) OClassical nomem;
             MkD (Frames.FFence [1]) OClassical nomem;
             MkD (Frames.FReset (Some 0)) OClassical nomem] in
  NoDup keys /\
  map (fun p => d_conflict keys avail (fst p) (snd p)) (pairs ds)
  = [false; true; true; true; false; true] /\
  exists E, default_build keys avail ds None = inr E /\
            chk_frames (default_block keys avail ds) E = true /\
            existsb (gedge_eqb (1, 2, KStable)) E = false /\
            existsb (gedge_eqb (1, 3, KSched)) E = true /\
            existsb (gedge_eqb (3, 4, KStable)) E = true /\
            existsb (fun e => N.eqb (gdst e) 4 && kind_eqb (gkind e) KSched) E = false.
Proof.
  cbv zeta. split; [apply nodupF_NoDup; reflexivity|].
  split; [vm_compute; reflexivity|].
  eexists. split; [vm_compute; reflexivity|]. vm_compute. repeat split.
Qed.
