(** C26 — default frame matching follows the Quil-T frame rules.
    Pinned statements only; proofs live in Proofs/FramesProofs.v.

    [matching_frames keys avail i]: the model of [DefaultHandler::matching_frames] for a program
    whose frame set has the keys [keys] (ANY list of frame identifiers (qubit list, name)), whose
    used-qubit cache is [avail], and the frame-relevant summary [i] of ANY instruction. *)
From Coq Require Import List NArith Bool.
From QV Require Import Model.Frames Proofs.FramesProofs.
Import ListNotations.

(** Used and blocked never overlap. *)
Theorem C26_disjoint :
  forall keys avail i u b,
    matching_frames keys avail i = Some (u, b) ->
    forall f, In f u -> In f b -> False.
Proof. exact matching_frames_disjoint. Qed.

(** Both are subsets of the frames defined in the program. *)
Theorem C26_defined :
  forall keys avail i u b,
    matching_frames keys avail i = Some (u, b) ->
    forall f, In f u \/ In f b -> In f keys.
Proof. exact matching_frames_defined. Qed.

(** [None] exactly for the instructions that are not frame-related. *)
Theorem C26_none_iff_unrelated :
  forall keys avail i, matching_frames keys avail i = None <-> i = FOther.
Proof. exact matching_frames_none. Qed.

(** PULSE / CAPTURE / RAW-CAPTURE use exactly their own frame (if defined); a blocking one blocks
    every OTHER defined frame sharing a qubit with it; a NONBLOCKING one blocks nothing. *)
Theorem C26_pulse_capture :
  forall keys avail k blocking g u b,
    matching_frames keys avail (FPlay k blocking g) = Some (u, b) ->
    forall f,
      (In f u <-> In f keys /\ f = g) /\
      (In f b <-> blocking = true /\ In f keys /\ f <> g /\ touches f g).
Proof. exact play_spec. Qed.

(** SET-FREQUENCY / SET-PHASE / SET-SCALE / SHIFT-FREQUENCY / SHIFT-PHASE use exactly their frame. *)
Theorem C26_frame_update :
  forall keys avail k g u b,
    matching_frames keys avail (FUpdate k g) = Some (u, b) ->
    forall f, (In f u <-> In f keys /\ f = g) /\ ~ In f b.
Proof. exact update_spec. Qed.

(** SWAP-PHASES uses exactly its two frames. *)
Theorem C26_swap_phases :
  forall keys avail g1 g2 u b,
    matching_frames keys avail (FSwapPhases g1 g2) = Some (u, b) ->
    forall f, (In f u <-> In f keys /\ (f = g1 \/ f = g2)) /\ ~ In f b.
Proof. exact swap_phases_spec. Qed.

(** FENCE without qubits uses all frames. *)
Theorem C26_fence_all :
  forall keys avail u b,
    matching_frames keys avail (FFence []) = Some (u, b) ->
    forall f, (In f u <-> In f keys) /\ ~ In f b.
Proof. exact fence_all_spec. Qed.

(** FENCE with qubits uses the frames having at least one of those qubits. *)
Theorem C26_fence_qubits :
  forall keys avail qs u b,
    qs <> [] ->
    matching_frames keys avail (FFence qs) = Some (u, b) ->
    forall f, (In f u <-> In f keys /\ on_some_of f qs) /\ ~ In f b.
Proof. exact fence_qubits_spec. Qed.

(** DELAY uses the frames on exactly its qubits (as a set), restricted to its names if given. *)
Theorem C26_delay :
  forall keys avail qs names u b,
    matching_frames keys avail (FDelay qs names) = Some (u, b) ->
    forall f,
      (In f u <-> In f keys /\ on_exactly f qs /\ (names = [] \/ In (fnm f) names)) /\ ~ In f b.
Proof. exact delay_spec. Qed.

(** RESET q uses the frames on exactly {q} and blocks the other frames touching q. *)
Theorem C26_reset_qubit :
  forall keys avail q u b,
    matching_frames keys avail (FReset (Some q)) = Some (u, b) ->
    forall f,
      (In f u <-> In f keys /\ on_exactly f [q]) /\
      (In f b <-> In f keys /\ In q (fq f) /\ ~ on_exactly f [q]).
Proof. exact reset_qubit_spec. Qed.

(** RESET (all) is relative to the program's used-qubit set [avail]: uses the frames on exactly
    that set, blocks the other frames touching it. *)
Theorem C26_reset_all :
  forall keys avail u b,
    matching_frames keys avail (FReset None) = Some (u, b) ->
    forall f,
      (In f u <-> In f keys /\ on_exactly f avail) /\
      (In f b <-> In f keys /\ on_some_of f avail /\ ~ on_exactly f avail).
Proof. exact reset_all_spec. Qed.

(** The condition evaluator, for EVERY condition tree (arbitrary nesting of And / Or): the keys
    returned are exactly the defined frames satisfying the condition pointwise. *)
Theorem C26_condition_semantics :
  forall keys c f, In f (matching keys c) <-> In f keys /\ sat c f = true.
Proof. exact matching_sat. Qed.

(** The instance checker run on the implementation's result decides exactly the above; and any
    accepted result equals the model's result as sets. *)
Theorem C26_checker_sound :
  forall keys avail i obs, chk_frames keys avail i obs = true -> FramesOK keys avail i obs.
Proof. exact chk_frames_sound. Qed.

Theorem C26_accepted_equals_model :
  forall keys avail i u b u' b',
    chk_frames keys avail i (Some (u, b)) = true ->
    matching_frames keys avail i = Some (u', b') ->
    forall f, (In f u <-> In f u') /\ (In f b <-> In f b').
Proof. exact accepted_equals_model. Qed.

(** Non-vacuity: a blocking pulse on a 2-qubit frame among five frames. *)
Example C26_nonvacuous :
  let keys := [([0], 0); ([1], 0); ([0; 1], 1); ([1; 0], 1); ([2], 0)]%N in
  matching_frames keys [] (FPlay KPulse true ([0; 1], 1)%N)
  = Some ([([0; 1], 1)], [([0], 0); ([1], 0); ([1; 0], 1)])%N
  /\ matching_frames keys [0; 1]%N (FReset None)
     = Some ([([0; 1], 1); ([1; 0], 1)], [([0], 0); ([1], 0)])%N
  /\ chk_frames keys [] (FPlay KPulse true ([0; 1], 1)%N)
       (matching_frames keys [] (FPlay KPulse true ([0; 1], 1)%N)) = true.
Proof. vm_compute. repeat split; reflexivity. Qed.
