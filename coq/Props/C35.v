(** C35 — dead-code removal keeps execution and removes exactly unused definitions.
    Pinned statements only; proofs in Proofs/Simplify35Proofs.v, model in Model/Simplify35.v.

    [expand] stands for [Program::expand_calibrations] (C17–C19) and is arbitrary here.
    [uses avail i f] / [blocks avail i f] say pointwise whether a defined frame [f] is used /
    blocked by instruction [i] ([avail] = the program's used-qubit cache, consulted by RESET). *)
From Coq Require Import List NArith Bool.
From QV Require Import Model.DepQueue Model.Simplify35 Proofs.Simplify35Proofs.
Import ListNotations.
Open Scope N_scope.

(** Simplification fails exactly when calibration expansion fails.  Otherwise the result has the
    expanded body, no calibrations, the expanded program's declarations, gate definitions and
    circuits unchanged (same order, same payloads); its waveforms / extern pragmas are the
    expanded program's, in order, restricted to exactly those invoked by a PULSE/CAPTURE of the
    body / called by a CALL of the body (a pragma without a name is never kept). *)
Theorem C35_shape :
  forall (expand : program -> option program) (p : program),
    (simplify expand p = None <-> expand p = None)
    /\ forall s, simplify expand p = Some s ->
         exists e, expand p = Some e
           /\ p_body s = p_body e /\ p_cals s = []
           /\ p_decls s = p_decls e /\ p_gates s = p_gates e /\ p_circuits s = p_circuits e
           /\ p_waveforms s = filter (fun w => waveform_wanted e (fst w)) (p_waveforms e)
           /\ p_externs s = filter (fun x => extern_wanted e (fst x)) (p_externs e)
           /\ (forall w, waveform_wanted e w = true <-> exists bi, In bi (p_body e) /\ bi_wf bi = Some w)
           /\ (forall x, extern_wanted e x = true <->
                         exists n, x = Some n /\ exists bi, In bi (p_body e) /\ bi_call bi = Some n).
Proof.
  intros expand p. split; [apply simplify_error |].
  intros s Hs. apply simplify_shape in Hs. destruct Hs as (e & He & H1 & H2 & H3 & H4 & H5 & _ & _ & H8 & H9).
  exists e. repeat split; try assumption;
    try (now apply waveform_wanted_spec); try (now apply extern_wanted_spec).
Qed.

(** The kept frame definitions are exactly the defined frames that some instruction of the
    expanded body uses (used, not merely blocked), with their attributes.  Premise: expansion
    leaves the frame definitions alone (the code intersects the ORIGINAL program's frame set
    with the frames matched in the expanded program). *)
Theorem C35_frames_exact :
  forall (expand : program -> option program) (p e s : program),
    expand p = Some e -> simplify expand p = Some s -> p_frames e = p_frames p ->
    forall fd, In fd (p_frames s) <->
               In fd (p_frames e)
               /\ exists bi, In bi (p_body e) /\ uses (p_avail e) (bi_frame bi) (fst fd) = true.
Proof. exact simplify_frames. Qed.

(** [matching_frames] is pointwise: its two result sets are the key set filtered by [uses] and
    [blocks] (so [blocks] excludes used frames). *)
Theorem C35_matching_pointwise :
  forall keys avail i u b,
    matching_frames keys avail i = Some (u, b) ->
    (forall f, In f u <-> In f keys /\ uses avail i f = true)
    /\ (forall f, In f b <-> In f keys /\ blocks avail i f = true).
Proof. exact matching_frames_spec. Qed.

(** Frame-matching invariance: deleting any frames from the key set restricts every
    instruction's used and blocked sets to the remaining frames and changes nothing else. *)
Theorem C35_matching_invariant :
  forall (keep : frame -> bool) keys avail i,
    match matching_frames keys avail i, matching_frames (filter keep keys) avail i with
    | Some (u, b), Some (u', b') =>
        (forall f, In f u' <-> In f u /\ keep f = true) /\ (forall f, In f b' <-> In f b /\ keep f = true)
    | None, None => True
    | _, _ => False
    end.
Proof. exact matching_invariant. Qed.

(** Schedule-equality clause at the level of frame matching: in the simplified program every
    body instruction has the SAME used frames as in the expanded program, and its blocked frames
    are those of the expanded program that were kept. *)
Theorem C35_simplified_matching :
  forall (expand : program -> option program) (p e s : program),
    expand p = Some e -> simplify expand p = Some s -> p_frames e = p_frames p ->
    forall bi, In bi (p_body e) ->
      match matching_frames (keys e) (p_avail e) (bi_frame bi),
            matching_frames (keys s) (p_avail s) (bi_frame bi) with
      | Some (u, b), Some (u', b') =>
          (forall f, In f u' <-> In f u) /\ (forall f, In f b' <-> In f b /\ In f (keys s))
      | None, None => True
      | _, _ => False
      end.
Proof. exact simplify_matching. Qed.

(** A deleted frame is used by nobody, so its dependency queue in the scheduling graph only ever
    saw blockers (reads after the implicit initial use by the block start, node 0): every edge it
    contributed leaves the block start.  Such an edge adds the candidate start time 0, the
    neutral element of the maximum the scheduler takes; the remaining contribution of the queue
    are edges into the block end, which is not a scheduled item. *)
Theorem C35_blocked_only_frame_edges :
  forall (blockers : list N) (e : edge),
    In e (blocked_only_edges blockers) -> e = (0, edge_dst e, AW) /\ In (edge_dst e) blockers.
Proof. exact blocked_only_edges_spec. Qed.

(** The instance checker on the implementation's expanded program [e] and simplified program [s]. *)
Theorem C35_checker_sound :
  forall e s : program,
    chk e s = 0 ->
    p_body s = p_body e
    /\ p_cals s = []
    /\ (forall fd, In fd (p_frames s) <->
                   In fd (p_frames e)
                   /\ exists bi, In bi (p_body e) /\ uses (p_avail e) (bi_frame bi) (fst fd) = true)
    /\ p_waveforms s = filter (fun w => waveform_wanted e (fst w)) (p_waveforms e)
    /\ p_externs s = filter (fun x => extern_wanted e (fst x)) (p_externs e)
    /\ p_decls s = p_decls e /\ p_gates s = p_gates e /\ p_circuits s = p_circuits e.
Proof. exact chk_sound. Qed.

(** Non-vacuity: frames 0 "rf" (name 7), 1 "rf", 0 1 "cz" (name 8); the body (already expanded)
    pulses on 0 "rf" (blocking, hence blocking 0 1 "cz") with waveform 1 and calls extern 4.
    Kept: frame 0 "rf" only, waveform 1 only, extern 4 only. *)
Example C35_nonvacuous :
  let e := Prog [BI (FPlay true ([0], 7)) (Some 1) None 100; BI FOther None (Some 4) 101]
                [50]
                [(([0], 7), 20); (([1], 7), 21); (([0; 1], 8), 22)]
                [(1, 30); (2, 31)]
                [(Some 4, 40); (None, 41); (Some 5, 42)]
                [(9, 60)] [(10, 61)] [(11, 62)] [0] in
  exists s, simplify (fun _ => Some e) e = Some s
            /\ p_frames s = [(([0], 7), 20)] /\ p_waveforms s = [(1, 30)] /\ p_externs s = [(Some 4, 40)]
            /\ chk e s = 0
            /\ matching_frames (keys e) [0] (FPlay true ([0], 7)) = Some ([([0], 7)], [([0; 1], 8)])
            /\ matching_frames (keys s) [0] (FPlay true ([0], 7)) = Some ([([0], 7)], []).
Proof. eexists. vm_compute. repeat split; reflexivity. Qed.
