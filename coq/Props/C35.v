(** C35 — dead-code removal keeps execution and removes exactly unused definitions.
    Pinned statements only; proofs in Proofs/Simplify35Proofs.v, model in Model/Simplify35.v.

    [expand] stands for [Program::expand_calibrations] (C17–C19) and is arbitrary here.
    [uses avail i f] / [blocks avail i f] say pointwise whether a defined frame [f] is used /
    blocked by instruction [i] ([avail] = the program's used-qubit cache, consulted by RESET). *)
From Coq Require Import List NArith Bool.
From QV Require Import Model.DepQueue Model.Simplify35 Proofs.Simplify35Proofs.
Import ListNotations.
Open Scope N_scope.

(** Simplification fails exactly when calibration expansion fails.  Otherwise the result has the
    expanded body, no calibrations, the expanded program's declarations, gate definitions and
    circuits unchanged (same order, same payloads); its waveforms / extern pragmas are the
    expanded program's, in order, restricted to exactly those invoked by a PULSE/CAPTURE of the
    body / called by a CALL of the body (a pragma without a name is never kept). *)
Theorem C35_shape :
  forall (expand : program -> option program) (p : program),
    (simplify expand p = None <-> expand p = None)
    /\ forall s, simplify expand p = Some s ->
         exists e, expand p = Some e
           /\ p_body s = p_body e /\ p_cals s = []
           /\ p_decls s = p_decls e /\ p_gates s = p_gates e /\ p_circuits s = p_circuits e
           /\ p_waveforms s = filter (fun w => waveform_wanted e (fst w)) (p_waveforms e)
           /\ p_externs s = filter (fun x => extern_wanted e (fst x)) (p_externs e)
           /\ (forall w, waveform_wanted e w = true <-> exists bi, In bi (p_body e) /\ bi_wf bi = Some w)
           /\ (forall x, extern_wanted e x = true <->
                         exists n, x = Some n /\ exists bi, In bi (p_body e) /\ bi_call bi = Some n).
Proof.
  intros expand p. split; [apply simplify_error |].
  intros s Hs. apply simplify_shape in Hs. destruct Hs as (e & He & H1 & H2 & H3 & H4 & H5 & _ & _ & H8 & H9).
  exists e. repeat split; try assumption;
    try (now apply waveform_wanted_spec); try (now apply extern_wanted_spec).
Qed.

(** The kept frame definitions are exactly the defined frames that some instruction of the
    expanded body uses (used, not merely blocked), with their attributes.  Premise: expansion
    leaves the frame definitions alone (the code intersects the ORIGINAL program's frame set
    with the frames matched in the expanded program). *)
Theorem C35_frames_exact :
  forall (expand : program -> option program) (p e s : program),
    expand p = Some e -> simplify expand p = Some s -> p_frames e = p_frames p ->
    forall fd, In fd (p_frames s) <->
               In fd (p_frames e)
               /\ exists bi, In bi (p_body e) /\ uses (p_avail e) (bi_frame bi) (fst fd) = true.
Proof. exact simplify_frames. Qed.

(** [matching_frames] is pointwise: its two result sets are the key set filtered by [uses] and
    [blocks] (so [blocks] excludes used frames). *)
Theorem C35_matching_pointwise :
  forall keys avail i u b,
    matching_frames keys avail i = Some (u, b) ->
    (forall f, In f u <-> In f keys /\ uses avail i f = true)
    /\ (forall f, In f b <-> In f keys /\ blocks avail i f = true).
Proof. exact matching_frames_spec. Qed.

(** Frame-matching invariance: deleting any frames from the key set restricts every
    instruction's used and blocked sets to the remaining frames and changes nothing else. *)
Theorem C35_matching_invariant :
  forall (keep : frame -> bool) keys avail i,
    match matching_frames keys avail i, matching_frames (filter keep keys) avail i with
    | Some (u, b), Some (u', b') =>
        (forall f, In f u' <-> In f u /\ keep f = true) /\ (forall f, In f b' <-> In f b /\ keep f = true)
    | None, None => True
    | _, _ => False
    end.
Proof. exact matching_invariant. Qed.

(** Schedule-equality clause at the level of frame matching: in the simplified program every
    body instruction has the SAME used frames as in the expanded program, and its blocked frames
    are those of the expanded program that were kept. *)
Theorem C35_simplified_matching :
  forall (expand : program -> option program) (p e s : program),
    expand p = Some e -> simplify expand p = Some s -> p_frames e = p_frames p ->
    forall bi, In bi (p_body e) ->
      match matching_frames (keys e) (p_avail e) (bi_frame bi),
            matching_frames (keys s) (p_avail s) (bi_frame bi) with
      | Some (u, b), Some (u', b') =>
          (forall f, In f u' <-> In f u) /\ (forall f, In f b' <-> In f b /\ In f (keys s))
      | None, None => True
      | _, _ => False
      end.
Proof. exact simplify_matching. Qed.

(** A deleted frame is used by nobody, so its dependency queue in the scheduling graph only ever
    saw blockers (reads after the implicit initial use by the block start, node 0): every edge it
    contributed leaves the block start.  Such an edge adds the candidate start time 0, the
    neutral element of the maximum the scheduler takes; the remaining contribution of the queue
    are edges into the block end, which is not a scheduled item. *)
Theorem C35_blocked_only_frame_edges :
  forall (blockers : list N) (e : edge),
    In e (blocked_only_edges blockers) -> e = (0, edge_dst e, AW) /\ In (edge_dst e) blockers.
Proof. exact blocked_only_edges_spec. Qed.

(** The instance checker on the implementation's expanded program [e] and simplified program [s]. *)
Theorem C35_checker_sound :
  forall e s : program,
    chk e s = 0 ->
    p_body s = p_body e
    /\ p_cals s = []
    /\ (forall fd, In fd (p_frames s) <->
                   In fd (p_frames e)
                   /\ exists bi, In bi (p_body e) /\ uses (p_avail e) (bi_frame bi) (fst fd) = true)
    /\ p_waveforms s = filter (fun w => waveform_wanted e (fst w)) (p_waveforms e)
    /\ p_externs s = filter (fun x => extern_wanted e (fst x)) (p_externs e)
    /\ p_decls s = p_decls e /\ p_gates s = p_gates e /\ p_circuits s = p_circuits e.
Proof. exact chk_sound. Qed.

(** Non-vacuity: frames 0 "rf" (name 7), 1 "rf", 0 1 "cz" (name 8); the body (already expanded)
    pulses on 0 "rf" (blocking, hence blocking 0 1 "cz") with waveform 1 and calls extern 4.
    Kept: frame 0 "rf" only, waveform 1 only, extern 4 only. *)
Example C35_nonvacuous :
  let e := Prog [BI (FPlay true ([0], 7)) (Some 1) None 100; BI FOther None (Some 4) 101]
                [50]
                [(([0], 7), 20); (([1], 7), 21); (([0; 1], 8), 22)]
                [(1, 30); (2, 31)]
                [(Some 4, 40); (None, 41); (Some 5, 42)]
                [(9, 60)] [(10, 61)] [(11, 62)] [0] in
  exists s, simplify (fun _ => Some e) e = Some s
            /\ p_frames s = [(([0], 7), 20)] /\ p_waveforms s = [(1, 30)] /\ p_externs s = [(Some 4, 40)]
            /\ chk e s = 0
            /\ matching_frames (keys e) [0] (FPlay true ([0], 7)) = Some ([([0], 7)], [([0; 1], 8)])
            /\ matching_frames (keys s) [0] (FPlay true ([0], 7)) = Some ([([0], 7)], []).
Proof. eexists. vm_compute. repeat split; reflexivity. Qed.

(** * The schedule clause: "every computed block schedule is the same as for the expanded program"

    On top of the models of [ScheduledBasicBlock::build] (Model/Graph.v, C22-C24) and of
    [as_schedule] (Model/Schedule.v, C25); proofs in Proofs/Simplify35ScheduleProofs.v.

    A block is given, as in C22-C25, by the handler's per-instruction summaries [info] (role,
    memory accesses, used / blocked frames numbered by [N], is_scheduled) and the optional
    terminator summary.  [D] is the set of deleted frame definitions.  [unused_block D is term]:
    no instruction (or terminator) has a frame of [D] in its used set — which C35_frames_exact
    establishes for the frames [simplify] deletes.  [strip D i] is [i] with the frames of [D]
    removed from the blocked set — which is what C35_simplified_matching says the handler answers
    in the simplified program.  Node 0 is the block start, [end_node is] the block end. *)
From Coq Require Import ZArith.
From QV Require Import Model.Graph Model.Schedule Proofs.ScheduleProofs
  Model.Simplify35Schedule Proofs.Simplify35ScheduleProofs.

(** The builder on the restricted summaries (ANY set [D], removed from used and blocked sets
    alike) fails exactly when the builder on the original summaries fails, with the same error at
    the same node; otherwise its labelled edge list is the original one minus exactly the edges
    produced by the two queues (timed, ordering) of the frames of [D], order kept. *)
Theorem C35_graph_frames_erased :
  forall (D : list N) (is : list info) (term : option info),
    build_l (map (restrictD D) is) (option_map (restrictD D) term) =
    match build_l is term with
    | inl err => inl err
    | inr L => inr (live D L)
    end.
Proof. exact build_l_restrict. Qed.

(** The same for simplification, where only blocked sets shrink because nobody uses [D]. *)
Theorem C35_graph_deleted_frames_erased :
  forall (D : list N) (is : list info) (term : option info),
    unused_block D is term = true ->
    build_l (map (strip D) is) (option_map (strip D) term) =
    match build_l is term with
    | inl err => inl err
    | inr L => inr (live D L)
    end.
Proof. exact build_l_strip. Qed.

(** The erased edges are harmless: the queues of a frame nobody uses only ever hold blockers, so
    every edge they produce leaves the block start (the implicit initial user) or enters the
    block end (final linking of the pending blockers). *)
Theorem C35_deleted_frame_edges_boundary :
  forall (D : list N) (is : list info) (term : option info) (L : list ledge),
    build_l is term = inr L -> unused_block D is term = true ->
    forall m n l, In (m, n, l) L -> label_dead D l = true -> m = 0 \/ n = end_node is.
Proof. exact dead_edges_boundary. Qed.

(** On the graphs as the implementation stores them: same success and same error; the simplified
    block's graph is a subgraph of the expanded block's; every edge it lacks is a frame dependency
    (Scheduled or StableOrdering, never a memory dependency) out of the block start or into the
    block end. *)
Theorem C35_graph_same_up_to_boundary :
  forall (D : list N) (is : list info) (term : option info),
    unused_block D is term = true ->
    match build is term, build (map (strip D) is) (option_map (strip D) term) with
    | inl e, inl e' => e = e'
    | inr E, inr E' =>
        (forall x, In x E' -> In x E) /\
        (forall a b k, In (a, b, k) E ->
           In (a, b, k) E' \/ ((a = 0 \/ b = end_node is) /\ (k = KSched \/ k = KStable)))
    | _, _ => False
    end.
Proof. exact build_strip. Qed.

(** Hence every node other than the block end has the same Scheduled predecessors in both graphs,
    in the same order, once occurrences of the block start are dropped ([nz]). *)
Theorem C35_same_scheduled_predecessors :
  forall (D : list N) (is : list info) (term : option info) (E : list gedge),
    unused_block D is term = true -> build is term = inr E ->
    exists E', build (map (strip D) is) (option_map (strip D) term) = inr E' /\
      (forall x, In x E' -> In x E) /\
      forall node, node <> end_node is -> nz (spreds E' node) = nz (spreds E node).
Proof. exact build_strip_spreds. Qed.

Section C35_schedule.
  (** abstract time structure of Model/Schedule.v with the two laws of C25 (a total preorder);
      durations are arbitrary (not even assumed non-negative or known) *)
  Variable T : Type.
  Variables (zero : T) (add sub : T -> T -> T) (ltb : T -> T -> bool).
  Notation le := (le T ltb).
  Hypothesis ltb_asym : forall a b, ltb a b = true -> ltb b a = false.
  Hypothesis le_trans : forall a b c, le a b -> le b c -> le a c.

  (** The scheduler returns literally the same result on both graphs — the same items (node,
      start, duration) in the same order, the same total duration (= the latest item end; the
      block end is not a scheduled item and its incoming edges are never read), or the same error
      — for the canonical traversal [schedule] and for the traversal over ANY node order, from any
      intermediate state.  [durs] has one (optional) duration per instruction.  No side condition
      on the total duration is needed: it holds for empty blocks and for instructions that touch
      only deleted frames as well. *)
  Theorem C35_schedule_equal :
    forall (D : list N) (is : list info) (term : option info) (E : list gedge) (durs : list (option T)),
      unused_block D is term = true -> build is term = inr E -> length durs = length is ->
      exists E', build (map (strip D) is) (option_map (strip D) term) = inr E' /\
        schedule T zero add ltb E' durs = schedule T zero add ltb E durs /\
        forall order ends items total,
          sched_loop T zero add ltb E' durs (end_of T durs) order ends items total =
          sched_loop T zero add ltb E durs (end_of T durs) order ends items total.
  Proof. exact (strip_schedule_equal T zero add ltb ltb_asym le_trans). Qed.

  (** The whole pipeline of [BasicBlock::as_schedule] (graph construction, scheduling, hull over
      the source instructions [groups]): identical results, failures included. *)
  Theorem C35_block_schedule_equal :
    forall (D : list N) (is : list info) (term : option info) (groups : list nat) (durs : list (option T)),
      unused_block D is term = true -> length durs = length is ->
      block_schedule T zero add sub ltb (map (strip D) is) (option_map (strip D) term) groups durs =
      block_schedule T zero add sub ltb is term groups durs.
  Proof. exact (strip_block_schedule_equal T zero add sub ltb ltb_asym le_trans). Qed.

  (** Declaratively (C25's [cstart] / [cend]: start = max (zero, ends of the Scheduled
      predecessors)): every instruction has the same ASAP start and end time in both graphs, for
      every duration assignment. *)
  Theorem C35_asap_times_equal :
    forall (D : list N) (is : list info) (term : option info) (E : list gedge) (durs : list (option T)),
      unused_block D is term = true -> build is term = inr E -> wf_block is term = true ->
      exists E', build (map (strip D) is) (option_map (strip D) term) = inr E' /\
        forall node, node < end_node is ->
          cstart T zero add ltb E' durs node = cstart T zero add ltb E durs node /\
          cend T zero add ltb E' durs node = cend T zero add ltb E durs node.
  Proof. exact (strip_asap_equal T zero add ltb ltb_asym le_trans). Qed.
End C35_schedule.

(** Non-vacuity: frames 0, 2 are used, frame 1 is only ever blocked and is deleted ([D = [1]]).
    Instruction 1 uses 0 and blocks 1, 2; instruction 2 uses 2 and blocks 1; instruction 3 blocks
    only the deleted frame (after deletion it matches no frame at all).  The premise holds, both
    graphs build, they differ (the expanded block's has the Scheduled edges 0->3 and 3->end, the
    simplified block's has neither), and the schedules coincide: starts 0, 2, 0, total 5. *)
Example C35_schedule_nonvacuous :
  let is := [MkInfo RRF false [] [] [] [0] [1; 2] true;
             MkInfo RRF false [] [] [] [2] [1] true;
             MkInfo RRF false [] [] [] [] [1] true] in
  let durs := [Some 2%Z; Some 3%Z; Some 1%Z] in
  unused_block [1] is None = true /\ wf_block is None = true /\
  exists E E', build is None = inr E /\ build (map (strip [1]) is) None = inr E' /\
    In (0, 3, KSched) E /\ In (3, 4, KSched) E /\ ~ In (0, 3, KSched) E' /\ ~ In (3, 4, KSched) E' /\
    schedule Z 0%Z Z.add Z.ltb E durs = inr ([(1, (0%Z, 2%Z)); (2, (2%Z, 3%Z)); (3, (0%Z, 1%Z))], 5%Z) /\
    schedule Z 0%Z Z.add Z.ltb E' durs = schedule Z 0%Z Z.add Z.ltb E durs.
Proof.
  cbv zeta. split; [reflexivity|]. split; [reflexivity|].
  eexists. eexists. split; [vm_compute; reflexivity|]. split; [vm_compute; reflexivity|].
  repeat split; try (vm_compute; tauto); try (vm_compute; intuition congruence).
Qed.

(** * The schedule clause, end to end from the program model

    [num] is any numbering of frame identifiers injective on the expanded program's frame set;
    [base bi] supplies the summary fields that depend on the instruction alone (role, memory
    accesses, is_scheduled) — the same function for both programs, since the body is the same;
    [binfo num base P bi] is the summary of [bi] in program [P]: those fields plus the handler's
    [matching_frames] answer in [P]. *)

(** As lists (not only as sets, C35_simplified_matching): in the simplified program the handler
    answers the same used list and the expanded program's blocked list with the deleted frames
    filtered out, order kept. *)
Theorem C35_simplified_matching_lists :
  forall (expand : program -> option program) (p e s : program),
    expand p = Some e -> simplify expand p = Some s -> p_frames e = p_frames p ->
    forall bi, In bi (p_body e) ->
      matching_frames (keys s) (p_avail s) (bi_frame bi) =
      match matching_frames (keys e) (p_avail e) (bi_frame bi) with
      | Some (u, b) => Some (u, filter (fun f => memF f (keys s)) b)
      | None => None
      end.
Proof. exact simplify_matching_lists. Qed.

(** Hence the two premises of the block-level theorems hold for [D] = the deleted frames: every
    body instruction's summary in the simplified program is its summary in the expanded program
    stripped of [D], and it uses no frame of [D]. *)
Theorem C35_simplified_summaries :
  forall (expand : program -> option program) (p e s : program),
    expand p = Some e -> simplify expand p = Some s -> p_frames e = p_frames p ->
    forall (num : frame -> N),
      (forall f g, In f (keys e) -> In g (keys e) -> num f = num g -> f = g) ->
      forall (base : binstr -> info) (bi : binstr), In bi (p_body e) ->
        binfo num base s bi = strip (deleted num e s) (binfo num base e bi)
        /\ unused (deleted num e s) (binfo num base e bi) = true.
Proof. exact simplified_binfo. Qed.

(** Every computed block schedule is the same for the simplified and for the expanded program:
    for every block [blk] (+ optional terminator instruction [tb]) of the body, every grouping
    into source instructions and every duration list (one entry per instruction, shared by the
    two programs), the whole [BasicBlock::as_schedule] pipeline returns the same items, the same
    total duration, or the same error. *)
Theorem C35_program_block_schedule_equal :
  forall (T : Type) (zero : T) (add sub : T -> T -> T) (ltb : T -> T -> bool),
    (forall a b, ltb a b = true -> ltb b a = false) ->
    (forall a b c, le T ltb a b -> le T ltb b c -> le T ltb a c) ->
    forall (expand : program -> option program) (p e s : program)
           (num : frame -> N) (base : binstr -> info)
           (blk : list binstr) (tb : option binstr) (groups : list nat) (durs : list (option T)),
      expand p = Some e -> simplify expand p = Some s -> p_frames e = p_frames p ->
      (forall f g, In f (keys e) -> In g (keys e) -> num f = num g -> f = g) ->
      (forall bi, In bi (blk ++ Simplify35.opt_list tb) -> In bi (p_body e)) ->
      length durs = length blk ->
      block_schedule T zero add sub ltb (map (binfo num base s) blk) (option_map (binfo num base s) tb) groups durs =
      block_schedule T zero add sub ltb (map (binfo num base e) blk) (option_map (binfo num base e) tb) groups durs.
Proof. exact simplify_block_schedule_equal. Qed.

(** Non-vacuity at program level: the program of C35_nonvacuous (frames 0 "rf", 1 "rf",
    0 1 "cz"; a blocking pulse on 0 "rf", a CALL), numbering 710 / 711 / 820.  The hypotheses hold
    together, frames 711 and 820 are deleted, the pulse's summary loses the blocked frame 820,
    the graphs differ, and the block schedule is the same. *)
Example C35_program_schedule_nonvacuous :
  let e := Prog [BI (FPlay true ([0], 7)) (Some 1) None 100; BI FOther None (Some 4) 101]
                [50]
                [(([0], 7), 20); (([1], 7), 21); (([0; 1], 8), 22)]
                [(1, 30); (2, 31)]
                [(Some 4, 40); (None, 41); (Some 5, 42)]
                [(9, 60)] [(10, 61)] [(11, 62)] [0] in
  let num := fun f : frame => fname f * 100 + N.of_nat (length (fqs f)) * 10 + hd 0 (fqs f) in
  let base := fun bi : binstr =>
                match bi_frame bi with
                | FOther => MkInfo RClassical false [] [] [] [] [] false
                | _ => MkInfo RRF false [] [] [] [] [] true
                end in
  exists s, simplify (fun _ => Some e) e = Some s
    /\ (forall f g, In f (keys e) -> In g (keys e) -> num f = num g -> f = g)
    /\ deleted num e s = [711; 820]
    /\ map (binfo num base e) (p_body e) =
         [MkInfo RRF false [] [] [] [710] [820] true; MkInfo RClassical false [] [] [] [] [] false]
    /\ map (binfo num base s) (p_body e) =
         [MkInfo RRF false [] [] [] [710] [] true; MkInfo RClassical false [] [] [] [] [] false]
    /\ build (map (binfo num base e) (p_body e)) None <> build (map (binfo num base s) (p_body e)) None
    /\ block_schedule Z 0%Z Z.add Z.sub Z.ltb (map (binfo num base e) (p_body e)) None [1; 1]%nat [Some 3%Z; Some 1%Z]
       = inr ([(1, (0%Z, 3%Z)); (2, (0%Z, 1%Z))], 3%Z)
    /\ block_schedule Z 0%Z Z.add Z.sub Z.ltb (map (binfo num base s) (p_body e)) None [1; 1]%nat [Some 3%Z; Some 1%Z]
       = inr ([(1, (0%Z, 3%Z)); (2, (0%Z, 1%Z))], 3%Z).
Proof.
  cbv zeta. eexists. split; [vm_compute; reflexivity|]. split.
  - intros f g [<-|[<-|[<-|[]]]] [<-|[<-|[<-|[]]]]; vm_compute; congruence.
  - repeat split; try (vm_compute; reflexivity). vm_compute. discriminate.
Qed.

(** * Independence of the HashSet order of the matched frames (and of the accessed regions)

    The handler's used / blocked frame sets (and the read / written / captured regions) are
    [HashSet]s, visited by the graph builder in arbitrary order; the model takes lists.
    [info_perm i i'] (Proofs/GraphPermProofs.v, pinned as C22_build_order_independent): same role,
    memory-access error flag and is_scheduled, each of the five lists of [i'] a [Permutation] of
    the corresponding list of [i]; [term_perm] likewise for the optional terminator.  For blocks
    related pointwise (well formed: used/blocked disjoint sets, terminator a control-flow
    instruction) the whole [BasicBlock::as_schedule] pipeline returns literally the same result —
    items, total duration or error — and on the two graphs (same edge SET, in general different
    edge LISTS, so different predecessor orders in the start-time maximum) [schedule] and the
    traversal loop over any node order from any state agree.  The scheduler reads the graph only
    through the sets of Scheduled predecessors and takes a maximum over them; for the maximum of
    a set to be unique this needs [le] antisymmetric, a law on top of C25's total preorder
    (premise below; true of Z, Q; of non-NaN f64 up to the sign of zero).  Proofs in
    Proofs/GraphPermScheduleProofs.v. *)
From Coq Require Import Permutation.
From QV Require Import Proofs.GraphPermProofs Proofs.GraphPermScheduleProofs.

Theorem C35_matched_frame_order_irrelevant :
  forall (T : Type) (zero : T) (add sub : T -> T -> T) (ltb : T -> T -> bool),
    (forall a b, ltb a b = true -> ltb b a = false) ->
    (forall a b c, le T ltb a b -> le T ltb b c -> le T ltb a c) ->
    (forall a b, le T ltb a b -> le T ltb b a -> a = b) ->
    forall (is is' : list info) (term term' : option info) (groups : list nat) (durs : list (option T)),
      Forall2 info_perm is is' -> term_perm term term' ->
      wf_block is term = true -> length durs = length is ->
      block_schedule T zero add sub ltb is' term' groups durs =
      block_schedule T zero add sub ltb is term groups durs
      /\ forall E, build is term = inr E ->
           exists E', build is' term' = inr E' /\ (forall x, In x E <-> In x E') /\
             schedule T zero add ltb E' durs = schedule T zero add ltb E durs /\
             forall order ends items total,
               sched_loop T zero add ltb E' durs (end_of T durs) order ends items total =
               sched_loop T zero add ltb E durs (end_of T durs) order ends items total.
Proof.
  intros T zero add sub ltb Ha Ht Hs is is' term term' groups durs His Htm Hwf Hlen. split.
  - exact (perm_block_schedule_equal T zero add sub ltb Ha Ht Hs is is' term term' groups durs His Htm Hwf Hlen).
  - intros E Hb. exact (perm_schedule_equal T zero add ltb Ha Ht Hs is is' term term' E durs His Htm Hwf Hb Hlen).
Qed.

(** Non-vacuity: the antisymmetry law holds for the integers; instructions 1 and 2 use frames 0
    and 1, instruction 3 uses both and blocks 2, 3 - visited once as 0,1 / 2,3 and once as
    1,0 / 3,2.  The hypotheses hold, both graphs build, the Scheduled predecessors of node 3 come
    in different orders ([1; 2] vs [2; 1]), the schedules coincide: starts 0, 0, 4, total 5. *)
Example C35_order_nonvacuous :
  (forall a b : Z, le Z Z.ltb a b -> le Z Z.ltb b a -> a = b) /\
  let is := [MkInfo RRF false [] [] [] [0] [] true;
             MkInfo RRF false [] [] [] [1] [] true;
             MkInfo RRF false [] [] [] [0; 1] [2; 3] true] in
  let is' := [MkInfo RRF false [] [] [] [0] [] true;
              MkInfo RRF false [] [] [] [1] [] true;
              MkInfo RRF false [] [] [] [1; 0] [3; 2] true] in
  let durs := [Some 2%Z; Some 4%Z; Some 1%Z] in
  Forall2 info_perm is is' /\ wf_block is None = true /\
  exists E E', build is None = inr E /\ build is' None = inr E' /\
    spreds E 3 = [1; 2; 0; 0] /\ spreds E' 3 = [2; 1; 0; 0] /\
    schedule Z 0%Z Z.add Z.ltb E durs = inr ([(1, (0%Z, 2%Z)); (2, (0%Z, 4%Z)); (3, (4%Z, 1%Z))], 5%Z) /\
    schedule Z 0%Z Z.add Z.ltb E' durs = schedule Z 0%Z Z.add Z.ltb E durs.
Proof.
  split.
  - intros a b H1 H2. unfold le in *. apply Z.ltb_ge in H1, H2. apply Z.le_antisymm; assumption.
  - cbv zeta. split; [repeat constructor|]. split; [reflexivity|].
    eexists. eexists. split; [vm_compute; reflexivity|]. split; [vm_compute; reflexivity|].
    repeat split; vm_compute; reflexivity.
Qed.
