(** C02 — parsed programs print to text that re-parses to the same program, byte-stable.
    Pinned statements only; proofs live in Proofs/PrintParseProofs.v.

    Level: proof for the fragment, correspondence for the rest.  The fragment (Model/PrintParse.v):
    ADD SUB MUL DIV, AND IOR XOR SHL SHR ASHR, EQ GE GT LE LT, NEG NOT, MOVE, EXCHANGE, CONVERT,
    LOAD, STORE, DECLARE, gate applications (modifiers, expression parameters, qubits), MEASURE,
    RESET, DELAY, FENCE, HALT NOP WAIT, LABEL JUMP JUMP-WHEN JUMP-UNLESS, PRAGMA, INCLUDE,
    SET-/SHIFT-FREQUENCY/-PHASE/-SCALE, SWAP-PHASES, PULSE / CAPTURE / RAW-CAPTURE (NONBLOCKING
    prefix, frame identifiers, waveform invocations with named parameters), CALL (identifier,
    memory-reference and immediate arguments) — at token level (the lexer is C05-C07's).
    Block definitions ([item], [C02_item_roundtrip] ff.): DEFCAL, DEFCAL MEASURE, DEFCIRCUIT with
    non-empty bodies of fragment instructions (indentation tokens), DEFFRAME (string / expression
    attributes), DEFWAVEFORM, DEFGATE AS MATRIX / PERMUTATION / PAULI-SUM / SEQUENCE.  Excluded by
    named decidable classes (open findings): [rawcapture_region_i], [call_immediate_then_i]; by
    the type of bodies: [nested-block-definition]; by [nonempty]: [empty-definition-body].  The
    program container (definition order, deduplication) is covered by the harness: the model
    starts from [Program::to_instructions]. *)
From Coq Require Import List NArith ZArith Bool.
From QV Require Import Model.ParsePanic Model.PrintParse Proofs.PrintParseProofs.
Import ListNotations.

(** Expressions: for every well-formed expression (any nesting), the printed tokens followed by
    anything that cannot continue an expression parse back to exactly that expression. *)
Theorem C02_expression_roundtrip :
  forall (e : expr) (rest : list tok), wf_expr e = true -> stop rest ->
    p_expr (print_e e ++ rest) = Ok e rest.
Proof. exact p_expr_rt. Qed.

(** Refined: the identifier [i] may follow a printed expression unless the print ends in a real
    number literal (what RAW-CAPTURE's [<duration> <memory reference>] needs). *)
Theorem C02_expression_roundtrip_refined :
  forall (e : expr) (rest : list tok), wf_expr e = true -> okG (ends_num e) rest -> no_op rest ->
    p_expr (print_e e ++ rest) = Ok e rest.
Proof. exact p_expr_rt_gen. Qed.

(** Instructions: every well-formed fragment instruction, printed and followed by a line end,
    parses back to exactly that instruction, consuming exactly its own tokens. *)
Theorem C02_instruction_roundtrip :
  forall (i : instr) (rest : list tok), wf_instr i = true -> line_end rest ->
    p_instruction Repaired (print_instr i ++ rest) = Ok i rest.
Proof. exact instr_rt. Qed.

(** Programs: any list of well-formed fragment instructions printed one per line parses back to
    the same list; hence printing the result again gives the same tokens (byte-stability at token
    level). *)
Theorem C02_program_roundtrip :
  forall l : list instr, forallb wf_instr l = true ->
    p_program Repaired (print_program l) = Ok l [].
Proof. exact program_rt. Qed.

Corollary C02_print_stable :
  forall l : list instr, forallb wf_instr l = true ->
    forall l', p_program Repaired (print_program l) = Ok l' [] -> print_program l' = print_program l.
Proof. intros l H l' H'. rewrite (program_rt l H) in H'. now injection H' as <-. Qed.

(** Block definitions: every well-formed item (a fragment instruction, or a DEFCAL / DEFCAL
    MEASURE / DEFCIRCUIT with a non-empty body of fragment instructions, a DEFFRAME with a
    non-empty duplicate-free attribute list, a DEFWAVEFORM with at least one entry, a DEFGATE with
    at least one matrix row / permutation entry / Pauli term / sequence gate), printed and
    followed by the end of input or an unindented line, parses back to exactly that item. *)
Theorem C02_item_roundtrip :
  forall (it : item) (rest : list tok), wf_item it = true -> block_end rest ->
    p_item Repaired (print_core it ++ rest) = Ok it rest.
Proof. exact item_rt. Qed.

(** Programs with definitions, printed as [Program::to_quil] prints that list of instructions
    (one newline after every item; consecutive newlines are one token) parse back to the same
    list, and printing is stable. *)
Theorem C02_items_roundtrip :
  forall l : list item, forallb wf_item l = true -> p_items Repaired (print_items l) = Ok l [].
Proof. exact items_rt. Qed.

Corollary C02_items_print_stable :
  forall l : list item, forallb wf_item l = true ->
    forall l', p_items Repaired (print_items l) = Ok l' [] -> print_items l' = print_items l.
Proof. intros l H l' H'. rewrite (items_rt l H) in H'. now injection H' as <-. Qed.

(** Open finding [empty-definition-body]: the class excluded by [nonempty] is real — a DEFCAL
    with an empty body prints to tokens the parser rejects. *)
Theorem C02_empty_definition_body_refuted :
  p_items Repaired (print_item (DefCal [] (IdName 0) [] [QFixed 0] [])) = Err /\
  p_items Repaired (print_item (DefCircuit (IdName 0) [] [] [])) = Err /\
  p_items Repaired (print_item (DefFrame ([QFixed 0], 0%N) [])) = Err /\
  p_items Repaired (print_item (DefWaveform (IdName 0) None [] [])) = Err /\
  p_items Repaired (print_item (DefGate (IdName 0) [] (GMatrix []))) = Err /\
  p_items Repaired (print_item (DefGate (IdName 0) [] (GPermutation []))) = Err.
Proof. vm_compute. repeat split. Qed.

(** Open finding [rawcapture-region-i]: the class excluded by [wf_instr] is not vacuous — inside
    it the printed tokens do not parse back (everything else about the instruction is
    well-formed); outside it, with the same region name, they do. *)
Theorem C02_rawcapture_region_i_refuted :
  exists (d : expr) (m : memref),
    let i := IRawCapture true ([QFixed 0], 0%N) d m in
    rawcapture_region_i d m = true /\ wf_expr d = true /\
    (p_program Repaired (print_instr i) <> Ok [i] []) /\
    wf_instr (IRawCapture true ([QFixed 0], 0%N) EPi m) = true.
Proof.
  exists (ENum false (VInt 2)), (IdRes RI, 0%N). vm_compute. repeat split; discriminate.
Qed.

(** The instance checker run on the implementation's output: a fragment case with code 0 means the
    tokens the implementation printed are the model's print of a well-formed instruction, they
    parse to exactly the implementation's AST, and the real chain agreed. *)
Theorem C02_checker_sound :
  forall t1 i1 t2 b d, PrintParse.case_code (CFrag t1 i1 t2 b d) = 0%N ->
    wf_instr i1 = true /\ t2 = print_instr i1 /\
    p_program Repaired t2 = Ok [i1] [] /\ b = true /\ d = true.
Proof. exact case_code_sound. Qed.

Theorem C02_item_checker_sound :
  forall t1 it1 t2 b d, PrintParse.case_code (CItem t1 it1 t2 b d) = 0%N ->
    wf_item it1 = true /\ t2 = print_item it1 /\
    p_items Repaired t2 = Ok [it1] [] /\ b = true /\ d = true.
Proof. exact item_code_sound. Qed.

Theorem C02_program_checker_sound :
  forall its t2 b d, PrintParse.case_code (CProg its t2 b d) = 0%N ->
    forallb wf_item its = true /\ t2 = print_items its /\
    p_items Repaired t2 = Ok its [] /\ b = true /\ d = true.
Proof. exact prog_code_sound. Qed.

Theorem C02_opaque_checker_sound :
  forall a b d, PrintParse.case_code (COpaque a b d) = 0%N -> a = true /\ b = true /\ d = true.
Proof. exact opaque_code_sound. Qed.

(** Non-vacuity: a nested expression in a gate, a signed operand, a DELAY. *)
Example C02_nonvacuous :
  let g := IGate [MDagger] (IdName 0)
             [EInfix (ENeg (ENeg EPi)) OSlash (EInfix (ENum false (VInt 2)) OCaret (EVar (IdName 1)))]
             [QFixed 0; QVar (IdName 2)] in
  let m := IMove (IdName 3, 0%N) (OInt (-9223372036854775808)) in
  let d := IDelay [QFixed 0] [] EPi in
  forallb wf_instr [g; m; d] = true /\
  print_instr g = [TModifier MDagger; TId (IdName 0); TLParen; TOp OMinus; TLParen; TOp OMinus;
                   TId (IdRes RPi); TRParen; TOp OSlash; TLParen; TInt 2; TOp OCaret;
                   TVar (IdName 1); TRParen; TRParen; TInt 0; TId (IdName 2)] /\
  p_program Repaired (print_program [g; m; d]) = Ok [g; m; d] [].
Proof. vm_compute. repeat split. Qed.

(** Non-vacuity for the Quil-T / CALL part: a NONBLOCKING PULSE with an extended waveform name and
    two named parameters, a CAPTURE with a bare waveform, a RAW-CAPTURE into region [i] whose
    duration does not end in a number, a CALL with all three argument kinds. *)
Example C02_nonvacuous_quilt :
  let w := {| wname := IdName 0; wext := Some (IdName 1);
              wparams := [(IdName 2, EInfix (ENum false (VInt 2)) OStar EPi); (IdName 3, ENum true (VLex 0))] |} in
  let p := IPulse false ([QFixed 0; QVar (IdName 4)], 0%N) w in
  let c := ICapture true ([QFixed 1], 1%N) {| wname := IdName 0; wext := None; wparams := [] |} (IdName 5, 0%N) in
  let r := IRawCapture false ([QFixed 0], 0%N) (EInfix (ENum false (VInt 2)) OStar EPi) (IdRes RI, 3%N) in
  let k := ICall (IdName 6) [CAId (IdRes RI); CAImm false (VInt 2); CAMem (IdName 5, 1%N); CAImm true (VLex 1); CAId (IdRes RI)] in
  forallb wf_instr [p; c; r; k] = true /\
  print_instr p = [TNonBlocking; TCmd CPulse; TInt 0; TId (IdName 4); TString 0; TId (IdName 0);
                   TOp OSlash; TId (IdName 1); TLParen; TId (IdName 2); TColon; TInt 2; TOp OStar;
                   TId (IdRes RPi); TComma; TId (IdName 3); TColon; TFloat (FLex 0); TId (IdRes RI);
                   TRParen] /\
  p_program Repaired (print_program [p; c; r; k]) = Ok [p; c; r; k] [].
Proof. vm_compute. repeat split. Qed.

(** Non-vacuity for block definitions: a DEFCAL with a modifier, a parameter and a Quil-T body, a
    DEFCAL MEASURE, a DEFCIRCUIT, a DEFFRAME, a DEFWAVEFORM and the four DEFGATE forms in one
    program. *)
Example C02_nonvacuous_items :
  let w := {| wname := IdName 0; wext := None; wparams := [(IdName 2, EVar (IdName 1))] |} in
  let c := DefCal [MDagger] (IdName 3) [EVar (IdName 1)] [QFixed 0]
             [IPulse false ([QFixed 0], 0%N) w; IFence [QFixed 0]] in
  let m := DefCalMeasure (Some (IdName 4)) (QVar (IdName 5)) (Some (IdName 6))
             [ICapture true ([QVar (IdName 5)], 1%N) w (IdName 6, 0%N)] in
  let d := DefCircuit (IdName 7) [IdName 1] [IdName 5; IdName 8]
             [IGate [] (IdName 3) [EVar (IdName 1)] [QVar (IdName 5)]; IMeasure None (QVar (IdName 8)) None] in
  let f := DefFrame ([QFixed 0; QFixed 1], 2%N)
             [(IdName 9, AVString 3%N); (IdName 10, AVExpr (EInfix (ENum false (VLex 0)) OPlus (ENum false (VInt 2))))] in
  let v := DefWaveform (IdName 0) (Some (IdName 11)) [IdName 1]
             [ENum false (VInt 1); ENum true (VInt 2); EInfix (EVar (IdName 1)) OStar (ENum false (VInt 2))] in
  let g1 := DefGate (IdName 12) [IdName 1]
              (GMatrix [[ENum false (VInt 1); ENum false (VInt 0)];
                        [ENum false (VInt 0); EFn RCos (EVar (IdName 1))]]) in
  let g2 := DefGate (IdName 12) [] (GPermutation [0%N; 1%N; 3%N; 2%N]) in
  let g3 := DefGate (IdName 12) [IdName 1] (GPauliSum [IdName 5; IdName 8]
              [(IdName 13, EInfix (EVar (IdName 1)) OSlash (ENum false (VInt 2)), [IdName 5; IdName 8]);
               (IdName 14, ENum false (VInt 1), [IdName 8])]) in
  let g4 := DefGate (IdName 12) [IdName 1] (GSequence [IdName 5; IdName 8]
              [IGate [] (IdName 15) [] [QVar (IdName 5)];
               IGate [MDagger] (IdName 3) [EVar (IdName 1)] [QVar (IdName 8)]]) in
  let l := [c; Plain IHalt; m; d; f; v; g1; g2; g3; g4; Plain (IReset None)] in
  forallb wf_item l = true /\
  print_item m = [TCmd CDefCal; TCmd CMeasure; TBang; TId (IdName 4); TId (IdName 5); TId (IdName 6); TColon;
                  TNewLine; TIndent; TCmd CCapture; TId (IdName 5); TString 1; TId (IdName 0); TLParen;
                  TId (IdName 2); TColon; TVar (IdName 1); TRParen; TId (IdName 6); TLBracket; TInt 0;
                  TRBracket; TNewLine] /\
  p_items Repaired (print_items l) = Ok l [].
Proof. vm_compute. repeat split. Qed.
