(** C10 — a program's used-qubit set and equality depend only on its content.
    Pinned statements only; proofs live in Proofs/ProgramProofs.v.

    State machine: [run ops] applies the public operations [op] (Model/Program.v) to the empty
    program.  [Inv p]: the cached used-qubit set equals the set of ALL qubits occurring in the
    instructions of [to_instructions p] ([listing_qubits], built from [qubits_of], the independent
    reference carried by every abstract instruction).

    The full statement [C10_full] is FALSE of the faithful model (and of the implementation): see
    the three [C10_refuted_*] witnesses.  [all_hits ops] computes, along the run, the decidable known
    classes: 1 = clone-without-body-cache (the cache is emptied while retained definitions report
    qubits: clone_without_body_instructions, expand_calibrations, expand_defgate_sequences,
    wrap_in_loop with iterations <> 1; simplify only if the expansion output itself contains such a
    calibration definition), (2 = redefinition-stale-qubits was repaired by 1fc8c68 and is no longer
    a class: [add_instruction] and [+=] now rebuild the cache when a calibration is replaced), 3 =
    framedef-qubits-uncounted, 4 = circuitdef-qubits-uncounted (an added DEFFRAME / DEFCIRCUIT /
    DEFGATE AS SEQUENCE mentions qubits that get_qubits does not report). *)
From Coq Require Import List NArith Bool.
From QV Require Import Model.Program Proofs.ProgramProofs.
Import ListNotations.

Definition C10_full : Prop :=
  (forall ops : list op, Inv (run ops)) /\
  (forall ops1 ops2 : list op,
     to_instructions (run ops1) = to_instructions (run ops2) -> prog_equiv (run ops1) (run ops2)).

(** The invariant holds initially. *)
Theorem C10_inv_init : Inv empty.
Proof. exact (Good_Inv empty Good_empty). Qed.

(** Every step outside the known classes preserves the strengthened invariant [Good]
    (well-formed, cache = what get_qubits reports on the listing, every instruction reports all of
    its qubits), which implies [Inv]. *)
Theorem C10_step_preserves :
  forall (p : program) (o : op), Good p -> hits p o = [] -> Good (step p o).
Proof. exact Good_step. Qed.

Theorem C10_good_inv : forall p : program, Good p -> Inv p.
Proof. exact Good_Inv. Qed.

(** Hence for every history outside the known classes the cache equals the qubits of the listing. *)
Theorem C10_invariant_partial :
  forall ops : list op, all_hits ops = [] -> Inv (run ops).
Proof. exact inv_run. Qed.

(** Equality: two reachable programs (outside the classes) with the same listing are equal field by
    field (cache as a set), and compare equal with the implementation's derived [==]. *)
Theorem C10_equality_partial :
  forall ops1 ops2 : list op,
    all_hits ops1 = [] -> all_hits ops2 = [] ->
    to_instructions (run ops1) = to_instructions (run ops2) ->
    prog_equiv (run ops1) (run ops2) /\ prog_eqb (run ops1) (run ops2) = true.
Proof. exact equal_run. Qed.

(** Placeholder resolution and a rebuild from the listing re-establish the cache from ANY
    well-formed state whose instructions report their qubits, whatever happened before. *)
Theorem C10_rebuild_restores :
  forall p : program, WF p -> Counted p ->
    Inv (resolve_placeholders p) /\ Inv (from_instructions (to_instructions p)).
Proof. exact rebuild_restores. Qed.

(** The cache's observable consequence: which frames a bare RESET uses / blocks
    ([DefaultHandler::matching_frames]) is determined by the listing alone whenever the invariant
    holds — in particular for every history outside the classes. *)
Theorem C10_reset_frames_by_content :
  forall p : program, WF p -> Inv p -> reset_match p = content_reset_match (to_instructions p).
Proof. exact reset_match_content. Qed.

(** The full statement is refuted, once per class, by concrete histories (replayed against the
    implementation by the harness, see known_findings.json). *)
Theorem C10_refuted_clone :
  exists ops, all_hits ops = [K_RESET] /\ ~ Inv (run ops).
Proof.
  exists [OAdd (Calib 0 0 [0; 0]); OAdd (Body 0 [1]); OCloneWithoutBody]%N.
  split; [reflexivity|]. apply not_inv_of_inv_b. vm_compute. reflexivity.
Qed.

(** The former class 2 (redefinition-stale-qubits) is repaired (1fc8c68): its witness now satisfies
    the invariant (regression). *)
Example C10_stale_repaired :
  let ops := [OAdd (Calib 0 1 [0; 5]); OAdd (Calib 0 0 [0; 0])]%N in
  all_hits ops = [] /\ inv_b (run ops) = true
  /\ inv_b (step (run [OAdd (Calib 0 1 [0; 5])]%N) (OConcat [Calib 0 0 [0; 0]]%N)) = true.
Proof. vm_compute. repeat split; reflexivity. Qed.

Theorem C10_refuted_framedef :
  exists ops, all_hits ops = [K_FRAME] /\ ~ Inv (run ops).
Proof.
  exists [OAdd (FrameDef 4 0 [2])]%N.
  split; [reflexivity|]. apply not_inv_of_inv_b. vm_compute. reflexivity.
Qed.

Theorem C10_refuted_circuitdef :
  exists ops, all_hits ops = [K_CIRC] /\ ~ Inv (run ops).
Proof.
  exists [OAdd (CircuitDef 0 1 [1000; 4])]%N.
  split; [reflexivity|]. apply not_inv_of_inv_b. vm_compute. reflexivity.
Qed.

Theorem C10_refuted : ~ C10_full.
Proof.
  intros [H _]. destruct C10_refuted_clone as [ops [_ Hn]]. apply Hn. apply H.
Qed.

(** ... and so is the equality clause: same listing, different programs (emptied cache vs rebuilt). *)
Theorem C10_equality_refuted :
  exists ops1 ops2,
    to_instructions (run ops1) = to_instructions (run ops2) /\ prog_eqb (run ops1) (run ops2) = false.
Proof.
  exists [OAdd (Calib 0 0 [0; 0]); OAdd (Body 0 [1]); OCloneWithoutBody]%N.
  exists [OAdd (Calib 0 0 [0; 0]); OAdd (Body 0 [1]); OCloneWithoutBody; ORoundTrip]%N.
  vm_compute. split; reflexivity.
Qed.

(** The instance checker of the case files: cache = qubits of the observed listing. *)
Theorem C10_checker_sound :
  forall o : obs, chk_cache o = true -> forall q, In q (snd o) <-> In q (listing_qubits (fst o)).
Proof. intros o H. exact (chk_cache_sound o H). Qed.

(** Non-vacuity: a history through most operations, outside every class, with a non-trivial cache. *)
Example C10_nonvacuous :
  let ops := [OAdd (Decl 0 0); OAdd (Body 0 [2000]); OAddMany [Body 1 [0; 2001]; Decl 0 1; Body 16 [3]];
              OConcat [Body 0 [1000]; Decl 1 0; WaveDef 0 0]; OResolve; OExpandCal [Body 0 [1]; Body 1 [0; 2]];
              OWrapInLoop 3 [Decl 9 0; Body 25 []; Body 26 []] [Body 40 []; Body 41 []]; ORoundTrip;
              OSimplify [] [] [] [Body 0 [1]]; OConcatSelf]%N in
  all_hits ops = [] /\ inv_b (run ops) = true /\ used (run ops) = [1; 1]%N
  /\ to_instructions (run ops) = [Decl 0 1; Decl 1 0; Decl 9 0; Body 0 [1]; Body 0 [1]]%N.
Proof. vm_compute. repeat split; reflexivity. Qed.
