(** C33 — wrapping a program in a loop repeats its body exactly n times.
    Pinned statements only; proofs live in Proofs/LoopProofs.v.

    [wrap p c l n] models [p.wrap_in_loop(c, l, n)] (repaired: SUB on the given reference,
    declaration of length index+1).  [exec fuel body pc mem rtrace] is the small-step interpreter of
    the control-flow skeleton (labels, jumps, MOVE/SUB with integer literals, every other
    instruction emits an event).  [ok_body (fst c) l B]: [B] is straight-line (no jump, no HALT),
    does not mention the counter's region and does not define the start label. *)
From Coq Require Import List NArith ZArith Bool Arith.
From QV Require Import Model.Loop Proofs.LoopProofs.
Import ListNotations.

(** For every admissible body, every counter reference (any index), every start label, every
    n >= 2 and every initial memory: run with [loop_fuel] steps (or more), the wrapped program stops
    by running off its end, has emitted exactly n copies of the body's events, in order, and the
    counter cell holds 0.  (n is not bounded; in the Rust it is a u32.) *)
Theorem C33_loop_runs_body_n_times :
  forall (p : program) (c : ref) (l : N) (n : N) (m : mem) (extra : nat),
    ok_body (fst c) l (p_body p) = true -> (2 <= n)%N ->
    let w := p_body (wrap p c l n) in
    exists m',
      exec (loop_fuel (p_body p) (N.to_nat n) + extra) w 0 m [] =
        Done (length w) m' (repeat_list (events (p_body p)) (N.to_nat n))
      /\ get c m' = 0%Z.
Proof. exact wrap_runs. Qed.

(** n = 1: the program is unchanged.  n = 0: only the body is removed. *)
Theorem C33_one_and_zero :
  forall (p : program) (c : ref) (l : N),
    wrap p c l 1 = p /\ wrap p c l 0 = mkprog (p_decls p) (p_defs p) [].
Proof. intros. split; reflexivity. Qed.

(** All definitions other than memory declarations are preserved, for every n. *)
Theorem C33_definitions_preserved :
  forall (p : program) (c : ref) (l : N) (n : N), p_defs (wrap p c l n) = p_defs p.
Proof. exact wrap_defs. Qed.

(** Memory declarations: unchanged for n < 2.  For n >= 2 the counter's region is declared
    INTEGER[index+1] — OVERWRITING an existing declaration of that name in place, else appended —
    and every other declaration and the declaration order are preserved. *)
Theorem C33_declarations :
  forall (p : program) (c : ref) (l : N) (n : N),
    ((n < 2)%N -> p_decls (wrap p c l n) = p_decls p)
    /\ ((2 <= n)%N ->
        (forall name, find_decl name (p_decls (wrap p c l n)) =
                      if N.eqb (fst c) name then Some (T_INTEGER, (snd c + 1)%N)
                      else find_decl name (p_decls p))
        /\ map fst (p_decls (wrap p c l n)) =
           if existsb (fun d => N.eqb (fst d) (fst c)) (p_decls p)
           then map fst (p_decls p) else map fst (p_decls p) ++ [fst c]).
Proof. exact wrap_decls. Qed.

(** The instance checker (interpreter run on a concrete wrapped body, e.g. the implementation's)
    accepts only bodies whose run repeats the original body's events n times and ends with the
    counter at 0 ... *)
Theorem C33_checker_sound :
  forall (b w : list instr) (c : ref) (n : nat),
    chk_run b w c n = true ->
    exists m', exec (loop_fuel b n) w 0 [] [] = Done (length w) m' (repeat_list (events b) n)
               /\ get c m' = 0%Z.
Proof. exact chk_run_sound. Qed.

(** ... and it accepts the model's output for every admissible body. *)
Theorem C33_checker_accepts_model :
  forall (p : program) (c : ref) (l : N) (n : N),
    ok_body (fst c) l (p_body p) = true -> (2 <= n)%N ->
    chk_run (p_body p) (p_body (wrap p c l n)) c (N.to_nat n) = true.
Proof. exact chk_run_wrap. Qed.

(** Non-vacuity: body [X 0; MOVE x[1] 7; LABEL @other; PRAGMA foo], counter c[3], n = 3. *)
Example C33_nonvacuous :
  let p := mkprog [(5, (0, 4))]%N [7%N] [IEvent 1; IMove (5, 1)%N 7; ILabel 2; IEvent 2]%N in
  let c := (0, 3)%N in
  ok_body (fst c) 0%N (p_body p) = true
  /\ wrap p c 0%N 3 =
       mkprog [(5, (0, 4)); (0, (1, 4))]%N [7%N]
              [IMove c 3; ILabel 0; IEvent 1; IMove (5, 1)%N 7; ILabel 2; IEvent 2;
               ISub c 1; IJumpWhen 0 c]%N
  /\ exec (loop_fuel (p_body p) 3) (p_body (wrap p c 0%N 3)) 0 [] [] =
       Done 8 [(c, 0%Z); ((5, 1)%N, 7%Z); (c, 1%Z); ((5, 1)%N, 7%Z); (c, 2%Z); ((5, 1)%N, 7%Z);
               (c, 3%Z)]
            [1; 2; 1; 2; 1; 2]%N.
Proof. vm_compute. repeat split; reflexivity. Qed.

(** The snapshot's version (SUB on index 0, declaration of length 1) violates the property for a
    counter reference with a non-zero index: the tested cell is never decremented, the run does
    not terminate within the fuel bound (here: nor within 1000 steps). *)
Example C33_unfixed_refuted :
  let p := mkprog [] [] [IEvent 1%N] in
  let c := (0, 3)%N in
  p_body (wrap_unfixed p c 0%N 2) =
    [IMove c 2; ILabel 0%N; IEvent 1%N; ISub (0, 0)%N 1; IJumpWhen 0%N c]
  /\ chk_run (p_body p) (p_body (wrap_unfixed p c 0%N 2)) c 2 = false
  /\ exec 1000 (p_body (wrap_unfixed p c 0%N 2)) 0 [] [] = OutOfFuel
  /\ chk_run (p_body p) (p_body (wrap p c 0%N 2)) c 2 = true.
Proof. vm_compute. repeat split; reflexivity. Qed.
