(** C06 -- names are preserved exactly and consistently by parsing.
    Pinned statements only; proofs in Proofs/LexIdentProofs.v; model in Model/LexIdent.v. *)
From Coq Require Import List NArith Bool.
From QV Require Import Model.LexIdent Proofs.LexIdentProofs.
Import ListNotations.
Open Scope N_scope.

(** The raw identifier lexer copies EVERY well-formed identifier (a leading letter or underscore,
    letters / digits / underscores, then groups of dashes followed by such characters -- any case,
    any length) byte for byte, and leaves exactly the rest, whenever the rest cannot extend the
    identifier (after any dashes it shows no identifier character). *)
Theorem C06_raw_identifier : forall name rest : list N,
  valid_ident name -> ident_stops rest -> lex_ident_raw (name ++ rest) = Some (name, rest).
Proof. exact lex_ident_raw_valid. Qed.

(** A well-formed name that is not (exactly, case-sensitively) a reserved spelling becomes the
    Identifier token with that name; with the sigils it becomes the Target / Variable token with
    that name (reserved or not). *)
Theorem C06_identifier_token : forall name rest : list N,
  valid_ident name -> reserved name = false -> ident_stops rest ->
  lex_name_token (name ++ rest) = Some (ITok 0 name, rest).
Proof. exact lex_identifier_token. Qed.

Theorem C06_target_token : forall name rest : list N,
  valid_ident name -> ident_stops rest ->
  lex_name_token (64 :: name ++ rest) = Some (ITok 2 name, rest).
Proof. exact lex_target_token. Qed.

Theorem C06_variable_token : forall name rest : list N,
  valid_ident name -> ident_stops rest ->
  lex_name_token (37 :: name ++ rest) = Some (ITok 3 name, rest).
Proof. exact lex_variable_token. Qed.

(** Keyword / command / data-type / modifier recognition is by exact spelling: a name is turned
    into a reserved token iff it is literally in the tables. *)
Theorem C06_reserved_exact_case : forall name : list N,
  reserved name = true <-> In name (keywords ++ commands ++ data_types ++ modifiers).
Proof. exact reserved_exact. Qed.

(** Inside an expression a bare identifier that becomes a memory reference keeps its spelling. *)
Theorem C06_expression_name_exact : forall n r : list N,
  expression_identifier n = EAddress r -> r = n.
Proof. exact expression_identifier_exact. Qed.

(** The same spelling denotes the same region in DECLARE and inside an expression, except for
    the reserved words. *)
Theorem C06_consistent : forall n : list N,
  expr_reserved n = false -> region_of_expression n = Some (region_of_declare n).
Proof. exact region_consistent. Qed.

(** The exception is exactly: the lower-cased name is one of cis cos exp i pi sin sqrt. *)
Theorem C06_expression_reserved_words : forall n : list N,
  expr_reserved n = true <-> In (to_lower n) [w_cis; w_cos; w_exp; w_i; w_pi; w_sin; w_sqrt].
Proof. exact expr_reserved_iff. Qed.

(** Every position class (0 identifier positions, 1 targets, 2 percent-variables, 3 bare name in
    an expression, 4 indexed memory reference in an expression, 5 DECLARE + use + type check)
    holds exactly the name written, for every well-formed name that is not reserved there. *)
Theorem C06_preserve : forall (cls : N) (name : list N),
  cls <= 5 ->
  valid_ident name ->
  (cls = 1 \/ cls = 2 \/ reserved name = false) ->
  (cls = 3 \/ cls = 5 -> expr_reserved name = false) ->
  expected cls name = OName name.
Proof. exact position_preserves. Qed.

(** The instance checker: a name reaching the AST is the name written. *)
Theorem C06_checker_sound : forall (name : list N) (o : outcome) (n : list N),
  chk_name name o = true -> o = OName n -> n = name.
Proof. exact chk_name_sound. Qed.

(** Non-vacuity: Theta-1--x_9 is well formed, not reserved, survives in every class; declare
    (lower case) is an identifier while DECLARE is reserved; Pi is the constant in an expression. *)
Example C06_nonvacuous :
  let name := [84;104;101;116;97;45;49;45;45;120;95;57] in
  lex_name_token (name ++ [91;49;93]) = Some (ITok 0 name, [91;49;93]) /\
  expected 0 name = OName name /\ expected 3 name = OName name /\ expected 5 name = OName name /\
  lex_name_token [100;101;99;108;97;114;101] = Some (ITok 0 [100;101;99;108;97;114;101], []) /\
  lex_name_token [68;69;67;76;65;82;69] = Some (ITok 1 [68;69;67;76;65;82;69], []) /\
  lex_name_token [97;45] = Some (ITok 0 [97], [45]) /\
  expected 3 [80;105] = OConst 1 /\ expected 0 [80;105] = OName [80;105].
Proof. vm_compute. repeat split; reflexivity. Qed.

Example C06_valid_example : valid_ident [84;104;101;116;97;45;49;45;45;120;95;57].
Proof.
  apply (VI 84 [104;101;116;97] [[45;49]; [45;45;120;95;57]]).
  - reflexivity.
  - repeat constructor.
  - constructor; [apply (DG [45] [49]); try discriminate; repeat constructor|].
    constructor; [apply (DG [45;45] [120;95;57]); try discriminate; repeat constructor|].
    constructor.
Qed.
