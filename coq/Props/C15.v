(** C15 — gate modifiers, daggers and program unitaries compose correctly.
    Pinned statements only; proofs live in Proofs/ModifiersProofs.v.

    Scalars: any commutative ring [C] with a conjugation that is an involutive ring homomorphism
    (no real-number axioms).  [gate_matrix] is the literal recursion of instruction/gate.rs
    (modifiers POPPED FROM THE BACK of the list, each popped modifier becoming the outermost
    Kronecker block); [spec_matrix] is the Quil semantics (the FIRST modifier is the outermost one
    and pairs with the first qubit — also what `Gate::dagger/controlled/forked`, which insert at the
    front, intend).

    FINDING (known finding `mixed-controlled-forked`): the two differ on stacks that contain both
    CONTROLLED and FORKED — `RX(a).forked(1,[b]).controlled(2)` puts the control on qubit 1 and the
    fork on qubit 2.  [C15_modifiers] is therefore stated for all other stacks (of ANY depth), and
    [C15_mixed_refuted] exhibits the difference.

    PARTIAL: "every computed unitary is unitary" is proved for what programs add (adjoints,
    products, whole programs of unitary gates: [C15_unitary_partial]); unitarity of the 22 tables,
    of CONTROLLED / FORKED blocks and of the lifting is checked numerically by the harness
    (||U^dagger U - I|| < 1e-10) on every case; the full statement is [C15_full_unitarity]. *)
From Coq Require Import List NArith Bool Ring ZArith.
From QV Require Import Model.Unitary Model.Modifiers Proofs.ModifiersProofs.
Import ListNotations.
Open Scope N_scope.

Section C15.
  Variable C : Type.
  Variables (c0 c1 : C) (cadd cmul csub : C -> C -> C) (copp : C -> C) (cconj : C -> C).
  Hypothesis Cring : ring_theory c0 c1 cadd cmul csub copp (@eq C).
  Hypothesis conj_0 : cconj c0 = c0.
  Hypothesis conj_1 : cconj c1 = c1.
  Hypothesis conj_add : forall a b, cconj (cadd a b) = cadd (cconj a) (cconj b).
  Hypothesis conj_mul : forall a b, cconj (cmul a b) = cmul (cconj a) (cconj b).
  Hypothesis conj_invol : forall a, cconj (cconj a) = a.

  (** the gate tables: any family of matrices indexed by gate and optional parameter *)
  Variable P : Type.
  Variable base : gate -> option P -> N -> N -> C.

  Notation mat := (mat C).
  Notation req := (req C).
  Notation gate_matrix := (gate_matrix C c0 c1 cadd cmul cconj P base).
  Notation spec_matrix := (spec_matrix C c0 c1 cadd cmul cconj P base).
  Notation dagger := (dagger C cconj).
  Notation controlled := (controlled C c0 c1 cadd cmul).
  Notation forked := (forked C c0 c1 cadd cmul).
  Notation eye := (eye C c0 c1).
  Notation mmul := (mmul C c0 cadd cmul).
  Notation madj := (madj C cconj).

  (** The Quil semantics, clause by clause: DAGGER conjugate-transposes; CONTROLLED adds a leading
      qubit; FORKED on a leading qubit takes the first half of the parameters for |0> and the second
      half for |1>. *)
  Theorem C15_spec_clauses :
    forall g s p,
      spec_matrix g (MDagger :: s) p = rmap C dagger (spec_matrix g s p) /\
      spec_matrix g (MControlled :: s) p = rmap C controlled (spec_matrix g s p) /\
      (Nat.odd (length p) = false ->
       spec_matrix g (MForked :: s) p
       = rfork C c0 c1 cadd cmul (spec_matrix g s (firstn (Nat.div (length p) 2) p))
                                 (spec_matrix g s (skipn (Nat.div (length p) 2) p))).
  Proof.
    intros g s p. repeat split. intros H. unfold Modifiers.spec_matrix. cbn [gm]. now rewrite H.
  Qed.

  (** CONTROLLED = |0><0| (x) I + |1><1| (x) U: the identity when the leading qubit is 0, the base
      gate when it is 1.  (d = dimension of U; indices below 2d.) *)
  Theorem C15_controlled_blocks :
    forall (m : mat) (r c : N),
      let d := mdim C m in
      r < 2 * d -> c < 2 * d ->
      ment C (controlled m) r c
      = if (r <? d) && (c <? d) then eye r c
        else if (d <=? r) && (d <=? c) then ment C m (r - d) (c - d)
        else c0.
  Proof. exact (controlled_blocks C c0 c1 cadd cmul csub copp Cring). Qed.

  (** FORKED = |0><0| (x) U(p1) + |1><1| (x) U(p2). *)
  Theorem C15_forked_blocks :
    forall (m0 m1 : mat) (r c : N),
      let d := mdim C m0 in
      r < 2 * d -> c < 2 * d ->
      ment C (forked m0 m1) r c
      = if (r <? d) && (c <? d) then ment C m0 r c
        else if (d <=? r) && (d <=? c) then ment C m1 (r - d) (c - d)
        else c0.
  Proof. exact (forked_blocks C c0 c1 cadd cmul csub copp Cring). Qed.

  (** For EVERY modifier stack (any depth) that does not contain both CONTROLLED and FORKED, every
      gate and all parameters: the code's recursion yields the Quil semantics — the same error, or
      a matrix of the same size with the same entries. *)
  Theorem C15_modifiers :
    forall (g : gate) (s : list modifier) (p : list P),
      mixed s = false -> req (gate_matrix g s p) (spec_matrix g s p).
  Proof.
    intros g s p H. revert p.
    exact (gate_matrix_spec C c0 c1 cadd cmul cconj conj_0 conj_1 conj_add conj_mul P base g s H).
  Qed.

  (** Adding DAGGER to ANY gate (mixed stacks included) conjugate-transposes its matrix, although
      `Gate::dagger` inserts the modifier at the front and gate_matrix evaluates it innermost. *)
  Theorem C15_dagger :
    forall (g : gate) (s : list modifier) (p : list P),
      req (gate_matrix g (MDagger :: s) p) (rmap C dagger (gate_matrix g s p)).
  Proof.
    exact (gate_matrix_dagger C c0 c1 cadd cmul cconj conj_0 conj_1 conj_add conj_mul P base).
  Qed.

  (** Programs.  [U] gives each instruction's lifted unitary on a d-dimensional space. *)
  Section Programs.
    Variable G : Type.
    Variable U : G -> N -> N -> C.
    Variable d : nat.
    Notation PU := (program_unitary C c0 c1 cadd cmul U d).

    (** The program's unitary is the product of its gates' unitaries in order (later gates on the
        left), starting from the identity. *)
    Theorem C15_program_product :
      PU [] = eye /\ forall p g, PU (p ++ [g]) = mmul d (U g) (PU p).
    Proof.
      split; [reflexivity|].
      exact (program_unitary_snoc C c0 c1 cadd cmul G U d).
    Qed.

    (** The unitary of the dagger program (instructions reversed, each gate daggered) is the adjoint
        of the program's unitary, given that daggering a gate takes the adjoint of its unitary
        (C15_dagger and C15_lift_adjoint). *)
    Theorem C15_program_dagger :
      forall dag : G -> G,
        (forall g r c, r < N.of_nat d -> c < N.of_nat d -> U (dag g) r c = madj (U g) r c) ->
        forall p r c, r < N.of_nat d -> c < N.of_nat d ->
          PU (program_dagger dag p) r c = madj (PU p) r c.
    Proof.
      exact (program_dagger_adjoint C c0 c1 cadd cmul csub copp cconj Cring conj_0 conj_1 conj_add conj_mul
               G U d).
    Qed.

    (** Unitarity, the part that is proved: adjoints and products of unitaries, hence whole
        programs of unitary gates, are unitary (both U^dagger U = I and U U^dagger = I). *)
    Theorem C15_unitary_partial :
      (forall A, unitary C c0 c1 cadd cmul cconj d A -> unitary C c0 c1 cadd cmul cconj d (madj A)) /\
      (forall A B, unitary C c0 c1 cadd cmul cconj d A -> unitary C c0 c1 cadd cmul cconj d B ->
                   unitary C c0 c1 cadd cmul cconj d (mmul d A B)) /\
      (forall p, (forall g, In g p -> unitary C c0 c1 cadd cmul cconj d (U g)) ->
                 unitary C c0 c1 cadd cmul cconj d (PU p)).
    Proof.
      split; [|split].
      - exact (unitary_adj C c0 c1 cadd cmul cconj conj_invol d).
      - exact (unitary_mul C c0 c1 cadd cmul csub copp cconj Cring conj_0 conj_add conj_mul d).
      - exact (program_unitary_unitary C c0 c1 cadd cmul csub copp cconj Cring conj_0 conj_1 conj_add conj_mul
                 G U d).
    Qed.
  End Programs.

  (** The full unitarity statement (NOT proved: needs cos^2 + sin^2 = 1 & co. for the tables and
      block / permutation arguments; checked numerically by the harness on every case): every
      gate_matrix result is unitary when the tables are. *)
  Definition C15_full_unitarity : Prop :=
    (forall g p, unitary C c0 c1 cadd cmul cconj (N.to_nat (2 ^ arity g)) (base g p)) ->
    forall g s p m, gate_matrix g s p = Ok m ->
                    unitary C c0 c1 cadd cmul cconj (N.to_nat (mdim C m)) (ment C m).
End C15.

(** The specification's lifting commutes with transposition, so the lifted adjoint is the adjoint
    of the lifted matrix. *)
Theorem C15_lift_adjoint :
  forall qs n r c,
    lift_idx_spec qs n c r = option_map (fun ab => (snd ab, fst ab)) (lift_idx_spec qs n r c).
Proof. exact lift_idx_spec_sym. Qed.

(** The code does NOT compute the Quil semantics on mixed stacks: over the ring Z, with a table
    whose entries are neither 0 nor 1, CONTROLLED FORKED G(1, 2) has entry (2,2) = 1 in the Quil
    semantics (control = leading qubit = 0: identity block) but 12 = an entry of G(1) in the code's
    matrix (the leading qubit is used as the FORK selector). *)
Theorem C15_mixed_refuted :
  exists (s : list modifier) (p : list Z) (a b : mat Z),
    mixed s = true /\
    gate_matrix Z 0%Z 1%Z Z.add Z.mul (fun x => x) Z zbase GRX s p = Ok a /\
    spec_matrix Z 0%Z 1%Z Z.add Z.mul (fun x => x) Z zbase GRX s p = Ok b /\
    ment Z a 2 2 <> ment Z b 2 2.
Proof.
  exists [MControlled; MForked], [1%Z; 2%Z].
  eexists. eexists. split; [reflexivity|]. split; [reflexivity|]. split; [reflexivity|].
  vm_compute. discriminate.
Qed.

(** The instance checker. *)
Theorem C15_checker_sound : forall x : case15, case15_verdict x = 0 -> Case15OK x.
Proof. exact case15_sound. Qed.

(** Non-vacuity: the hypotheses hold in Z with the identity conjugation; a concrete stack. *)
Example C15_hypotheses_satisfiable :
  ring_theory 0%Z 1%Z Z.add Z.mul Z.sub Z.opp (@eq Z) /\
  (forall a b : Z, (fun x : Z => x) (a + b)%Z = ((fun x => x) a + (fun x => x) b)%Z).
Proof. split; [exact Zth | reflexivity]. Qed.

Example C15_nonvacuous :
  match gate_matrix Z 0%Z 1%Z Z.add Z.mul (fun x => x) Z zbase GRX [MDagger; MForked] [1%Z; 2%Z] with
  | Ok m => mq Z m = 2 /\ ment Z m 0 1 = 14%Z /\ ment Z m 3 2 = 23%Z /\ ment Z m 0 2 = 0%Z
  | Err _ => False
  end.
Proof. vm_compute. repeat split; reflexivity. Qed.
