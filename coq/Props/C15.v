(** C15 — gate modifiers, daggers and program unitaries compose correctly.
    Pinned statements only; proofs live in Proofs/ModifiersProofs.v.

    Scalars: any commutative ring [C] with a conjugation that is an involutive ring homomorphism
    (no real-number axioms).  [gate_matrix] is the literal recursion of instruction/gate.rs
    (modifiers POPPED FROM THE BACK of the list, each popped modifier becoming the outermost
    Kronecker block); [spec_matrix] is the Quil semantics (the FIRST modifier is the outermost one
    and pairs with the first qubit — also what `Gate::dagger/controlled/forked`, which insert at the
    front, intend).

    FINDING (known finding `mixed-controlled-forked`): the two differ on stacks that contain both
    CONTROLLED and FORKED — `RX(a).forked(1,[b]).controlled(2)` puts the control on qubit 1 and the
    fork on qubit 2.  [C15_modifiers] is therefore stated for all other stacks (of ANY depth), and
    [C15_mixed_refuted] exhibits the difference.

    UNITARITY ("every computed unitary is unitary") is proved in full for the model
    (Proofs/UnitarityProofs.v): the 22 standard tables for every angle ([C15_tables_unitary], in any
    commutative ring with conjugation where i^2 = -1, conj i = -i, 2 (1/sqrt 2)^2 = 1, |e^{i pi/4}| = 1,
    cos and sin are self-conjugate with cos^2 + sin^2 = 1 — hypotheses shown satisfiable in the
    field Q(zeta_8) over the canonical rationals, [C15_unitary_hypotheses_satisfiable]);
    CONTROLLED / FORKED / DAGGER blocks ([C15_controlled_unitary], [C15_forked_unitary],
    [C15_dagger_unitary]); the lifting to n qubits ([C15_lift_unitary]: the Quil-semantics lifting
    for EVERY n and every injective placement, the literal `lifted_gate_matrix` model within the
    scope of C14_lift); every modifier stack, mixed CONTROLLED/FORKED stacks included
    ([C15_unitary_modifiers] = the former open statement [C15_full_unitarity]); every gate and every
    gate-only program over the standard gates ([C15_unitary]).  [C15_unitary_partial] is kept.
    The harness still checks ||U^dagger U - I|| < 1e-10 on the REAL matrices (floating point is
    not modelled). *)
From Coq Require Import List NArith Bool Ring ZArith.
From QV Require Import Model.Unitary Model.Modifiers Model.Unitarity Proofs.ModifiersProofs
  Proofs.UnitarityProofs.
Import ListNotations.
Open Scope N_scope.

Section C15.
  Variable C : Type.
  Variables (c0 c1 : C) (cadd cmul csub : C -> C -> C) (copp : C -> C) (cconj : C -> C).
  Hypothesis Cring : ring_theory c0 c1 cadd cmul csub copp (@eq C).
  Hypothesis conj_0 : cconj c0 = c0.
  Hypothesis conj_1 : cconj c1 = c1.
  Hypothesis conj_add : forall a b, cconj (cadd a b) = cadd (cconj a) (cconj b).
  Hypothesis conj_mul : forall a b, cconj (cmul a b) = cmul (cconj a) (cconj b).
  Hypothesis conj_invol : forall a, cconj (cconj a) = a.

  (** the gate tables: any family of matrices indexed by gate and optional parameter *)
  Variable P : Type.
  Variable base : gate -> option P -> N -> N -> C.

  Notation mat := (mat C).
  Notation req := (req C).
  Notation gate_matrix := (gate_matrix C c0 c1 cadd cmul cconj P base).
  Notation spec_matrix := (spec_matrix C c0 c1 cadd cmul cconj P base).
  Notation dagger := (dagger C cconj).
  Notation controlled := (controlled C c0 c1 cadd cmul).
  Notation forked := (forked C c0 c1 cadd cmul).
  Notation eye := (eye C c0 c1).
  Notation mmul := (mmul C c0 cadd cmul).
  Notation madj := (madj C cconj).

  (** The Quil semantics, clause by clause: DAGGER conjugate-transposes; CONTROLLED adds a leading
      qubit; FORKED on a leading qubit takes the first half of the parameters for |0> and the second
      half for |1>. *)
  Theorem C15_spec_clauses :
    forall g s p,
      spec_matrix g (MDagger :: s) p = rmap C dagger (spec_matrix g s p) /\
      spec_matrix g (MControlled :: s) p = rmap C controlled (spec_matrix g s p) /\
      (Nat.odd (length p) = false ->
       spec_matrix g (MForked :: s) p
       = rfork C c0 c1 cadd cmul (spec_matrix g s (firstn (Nat.div (length p) 2) p))
                                 (spec_matrix g s (skipn (Nat.div (length p) 2) p))).
  Proof.
    intros g s p. repeat split. intros H. unfold Modifiers.spec_matrix. cbn [gm]. now rewrite H.
  Qed.

  (** CONTROLLED = |0><0| (x) I + |1><1| (x) U: the identity when the leading qubit is 0, the base
      gate when it is 1.  (d = dimension of U; indices below 2d.) *)
  Theorem C15_controlled_blocks :
    forall (m : mat) (r c : N),
      let d := mdim C m in
      r < 2 * d -> c < 2 * d ->
      ment C (controlled m) r c
      = if (r <? d) && (c <? d) then eye r c
        else if (d <=? r) && (d <=? c) then ment C m (r - d) (c - d)
        else c0.
  Proof. exact (controlled_blocks C c0 c1 cadd cmul csub copp Cring). Qed.

  (** FORKED = |0><0| (x) U(p1) + |1><1| (x) U(p2). *)
  Theorem C15_forked_blocks :
    forall (m0 m1 : mat) (r c : N),
      let d := mdim C m0 in
      r < 2 * d -> c < 2 * d ->
      ment C (forked m0 m1) r c
      = if (r <? d) && (c <? d) then ment C m0 r c
        else if (d <=? r) && (d <=? c) then ment C m1 (r - d) (c - d)
        else c0.
  Proof. exact (forked_blocks C c0 c1 cadd cmul csub copp Cring). Qed.

  (** For EVERY modifier stack (any depth) that does not contain both CONTROLLED and FORKED, every
      gate and all parameters: the code's recursion yields the Quil semantics — the same error, or
      a matrix of the same size with the same entries. *)
  Theorem C15_modifiers :
    forall (g : gate) (s : list modifier) (p : list P),
      mixed s = false -> req (gate_matrix g s p) (spec_matrix g s p).
  Proof.
    intros g s p H. revert p.
    exact (gate_matrix_spec C c0 c1 cadd cmul cconj conj_0 conj_1 conj_add conj_mul P base g s H).
  Qed.

  (** Adding DAGGER to ANY gate (mixed stacks included) conjugate-transposes its matrix, although
      `Gate::dagger` inserts the modifier at the front and gate_matrix evaluates it innermost. *)
  Theorem C15_dagger :
    forall (g : gate) (s : list modifier) (p : list P),
      req (gate_matrix g (MDagger :: s) p) (rmap C dagger (gate_matrix g s p)).
  Proof.
    exact (gate_matrix_dagger C c0 c1 cadd cmul cconj conj_0 conj_1 conj_add conj_mul P base).
  Qed.

  (** Programs.  [U] gives each instruction's lifted unitary on a d-dimensional space. *)
  Section Programs.
    Variable G : Type.
    Variable U : G -> N -> N -> C.
    Variable d : nat.
    Notation PU := (program_unitary C c0 c1 cadd cmul U d).

    (** The program's unitary is the product of its gates' unitaries in order (later gates on the
        left), starting from the identity. *)
    Theorem C15_program_product :
      PU [] = eye /\ forall p g, PU (p ++ [g]) = mmul d (U g) (PU p).
    Proof.
      split; [reflexivity|].
      exact (program_unitary_snoc C c0 c1 cadd cmul G U d).
    Qed.

    (** The unitary of the dagger program (instructions reversed, each gate daggered) is the adjoint
        of the program's unitary, given that daggering a gate takes the adjoint of its unitary
        (C15_dagger and C15_lift_adjoint). *)
    Theorem C15_program_dagger :
      forall dag : G -> G,
        (forall g r c, r < N.of_nat d -> c < N.of_nat d -> U (dag g) r c = madj (U g) r c) ->
        forall p r c, r < N.of_nat d -> c < N.of_nat d ->
          PU (program_dagger dag p) r c = madj (PU p) r c.
    Proof.
      exact (program_dagger_adjoint C c0 c1 cadd cmul csub copp cconj Cring conj_0 conj_1 conj_add conj_mul
               G U d).
    Qed.

    (** Unitarity, the part that is proved: adjoints and products of unitaries, hence whole
        programs of unitary gates, are unitary (both U^dagger U = I and U U^dagger = I). *)
    Theorem C15_unitary_partial :
      (forall A, unitary C c0 c1 cadd cmul cconj d A -> unitary C c0 c1 cadd cmul cconj d (madj A)) /\
      (forall A B, unitary C c0 c1 cadd cmul cconj d A -> unitary C c0 c1 cadd cmul cconj d B ->
                   unitary C c0 c1 cadd cmul cconj d (mmul d A B)) /\
      (forall p, (forall g, In g p -> unitary C c0 c1 cadd cmul cconj d (U g)) ->
                 unitary C c0 c1 cadd cmul cconj d (PU p)).
    Proof.
      split; [|split].
      - exact (unitary_adj C c0 c1 cadd cmul cconj conj_invol d).
      - exact (unitary_mul C c0 c1 cadd cmul csub copp cconj Cring conj_0 conj_add conj_mul d).
      - exact (program_unitary_unitary C c0 c1 cadd cmul csub copp cconj Cring conj_0 conj_1 conj_add conj_mul
                 G U d).
    Qed.
  End Programs.

  (** The full unitarity statement for modifier stacks: every gate_matrix result is unitary when
      the tables are.  (Formerly open; now proved: [C15_unitary_modifiers] below.  Nothing of the
      clause remains numeric-only on the model side; the tables' own unitarity is
      [C15_tables_unitary].) *)
  Definition C15_full_unitarity : Prop :=
    (forall g p, unitary C c0 c1 cadd cmul cconj (N.to_nat (2 ^ arity g)) (base g p)) ->
    forall g s p m, gate_matrix g s p = Ok m ->
                    unitary C c0 c1 cadd cmul cconj (N.to_nat (mdim C m)) (ment C m).

  Notation unitary := (unitary C c0 c1 cadd cmul cconj).

  (** CONTROLLED: |0><0| (x) I + |1><1| (x) U is unitary when U is. *)
  Theorem C15_controlled_unitary :
    forall m : mat,
      unitary (N.to_nat (mdim C m)) (ment C m) ->
      unitary (N.to_nat (mdim C (controlled m))) (ment C (controlled m)).
  Proof. apply (unitary_controlled C c0 c1 cadd cmul csub copp cconj); assumption. Qed.

  (** FORKED: |0><0| (x) U1 + |1><1| (x) U2 is unitary when U1 and U2 (same number of qubits) are. *)
  Theorem C15_forked_unitary :
    forall m0 m1 : mat,
      mq C m0 = mq C m1 ->
      unitary (N.to_nat (mdim C m0)) (ment C m0) -> unitary (N.to_nat (mdim C m1)) (ment C m1) ->
      unitary (N.to_nat (mdim C (forked m0 m1))) (ment C (forked m0 m1)).
  Proof. apply (unitary_forked C c0 c1 cadd cmul csub copp cconj); assumption. Qed.

  Theorem C15_dagger_unitary :
    forall m : mat,
      unitary (N.to_nat (mdim C m)) (ment C m) ->
      unitary (N.to_nat (mdim C (dagger m))) (ment C (dagger m)).
  Proof. apply (unitary_dagger C c0 c1 cadd cmul cconj); assumption. Qed.

  (** Lifting.  [lift_spec M qs n r c] = M[bits_qs r][bits_qs c] if r, c agree off qs, else 0 (the
      index function of C14_lift).  It is unitary when M is — for EVERY n and every injective
      placement (proved from the index formula: sums over k < 2^n split into (bits_qs k, rest k));
      within the scope of C14_lift the literal model of `lifted_gate_matrix` is the same matrix. *)
  Theorem C15_lift_unitary :
    forall (M : N -> N -> C) (qs : list N) (n : N),
      NoDup qs -> (forall q, In q qs -> q < n) ->
      unitary (N.to_nat (2 ^ N.of_nat (length qs))) M ->
      unitary (N.to_nat (2 ^ n)) (lift_spec C c0 M qs n) /\
      (n <= 5 -> (1 <= length qs <= 3)%nat ->
       unitary (N.to_nat (2 ^ n)) (lift_model C c0 M qs (N.of_nat (length qs)) n)).
  Proof.
    intros M qs n Hnd Hlt HM. split.
    - apply (unitary_lift_spec C c0 c1 cadd cmul csub copp cconj); assumption.
    - intros Hn Hlen. apply (unitary_lift_model C c0 c1 cadd cmul csub copp cconj); assumption.
  Qed.

  (** EVERY modifier stack over unitary tables gives a unitary matrix — stacks of any depth, the
      known-finding class `mixed-controlled-forked` INCLUDED: there the code pairs the modifier
      qubits in reverse, but its matrix is still built from the same block constructions. *)
  Theorem C15_unitary_modifiers : C15_full_unitarity.
  Proof.
    intros Hbase g s p m.
    apply (gate_matrix_unitary C c0 c1 cadd cmul csub copp cconj); assumption.
  Qed.

  (** ... and so does the Quil semantics of the stack. *)
  Theorem C15_unitary_spec_modifiers :
    (forall g p, unitary (N.to_nat (2 ^ arity g)) (base g p)) ->
    forall g s p m, spec_matrix g s p = Ok m -> unitary (N.to_nat (mdim C m)) (ment C m).
  Proof.
    intros Hbase g s p m.
    apply (spec_matrix_unitary C c0 c1 cadd cmul csub copp cconj); assumption.
  Qed.

  (** `Gate::to_unitary(n)` and `Program::to_unitary(n)` over unitary tables: the modelled unitary
      of every well-formed gate ([gate_ok]: gate_matrix succeeds, one distinct qubit below n per
      matrix qubit; n <= 5 and at most 3 qubits: the scope of C14_lift), the Quil semantics lifted
      (any n), and the unitary of every program of such gates. *)
  Theorem C15_unitary_gates_programs :
    (forall g p, unitary (N.to_nat (2 ^ arity g)) (base g p)) ->
    (forall n (x : mgate P),
        n <= 5 -> (length (g_qubits P x) <= 3)%nat ->
        gate_ok C c0 c1 cadd cmul cconj P base n x ->
        unitary (N.to_nat (2 ^ n)) (gate_unitary_model C c0 c1 cadd cmul cconj P base n x)) /\
    (forall n (x : mgate P) m,
        spec_matrix (g_name P x) (g_mods P x) (g_params P x) = Ok m ->
        N.of_nat (length (g_qubits P x)) = mq C m ->
        NoDup (g_qubits P x) -> (forall q, In q (g_qubits P x) -> q < n) ->
        unitary (N.to_nat (2 ^ n)) (gate_unitary_spec C c0 c1 cadd cmul cconj P base n x)) /\
    (forall n (p : list (mgate P)),
        n <= 5 ->
        (forall x, In x p -> (length (g_qubits P x) <= 3)%nat /\
                             gate_ok C c0 c1 cadd cmul cconj P base n x) ->
        unitary (N.to_nat (2 ^ n))
                (program_unitary C c0 c1 cadd cmul
                   (gate_unitary_model C c0 c1 cadd cmul cconj P base n) (N.to_nat (2 ^ n)) p)).
  Proof.
    intros Hbase. split; [|split].
    - apply (gate_unitary_model_unitary C c0 c1 cadd cmul csub copp cconj); assumption.
    - apply (gate_unitary_spec_unitary C c0 c1 cadd cmul csub copp cconj); assumption.
    - apply (program_gates_unitary C c0 c1 cadd cmul csub copp cconj); assumption.
  Qed.
End C15.

(** * Unitarity of the standard gates

    Scalars: a commutative ring with a conjugation that is an involutive ring homomorphism, an
    element i with i^2 = -1 and conj i = -i, a self-conjugate s ("1/sqrt 2") with s^2 + s^2 = 1,
    an element "e^{i pi/4}" with conj z * z = 1; angles [A] with self-conjugate cos and sin
    satisfying cos^2 + sin^2 = 1.  All true of the complex numbers; no real-number axioms. *)
Section C15Std.
  Variables (C A : Type).
  Variables (c0 c1 ci cs ccis4 : C) (cadd cmul csub : C -> C -> C) (copp cconj : C -> C).
  Variables (half aneg : A -> A) (ccos csin ccis : A -> C) (theta0 : A).
  Hypothesis Cring : ring_theory c0 c1 cadd cmul csub copp (@eq C).
  Hypothesis conj_0 : cconj c0 = c0.
  Hypothesis conj_1 : cconj c1 = c1.
  Hypothesis conj_add : forall a b, cconj (cadd a b) = cadd (cconj a) (cconj b).
  Hypothesis conj_mul : forall a b, cconj (cmul a b) = cmul (cconj a) (cconj b).
  Hypothesis conj_invol : forall a, cconj (cconj a) = a.
  Hypothesis conj_i : cconj ci = copp ci.
  Hypothesis i_sq : cmul ci ci = copp c1.
  Hypothesis conj_s : cconj cs = cs.
  Hypothesis s_sq : cadd (cmul cs cs) (cmul cs cs) = c1.
  Hypothesis cis4_unit : cmul (cconj ccis4) ccis4 = c1.
  Hypothesis conj_cos : forall a, cconj (ccos a) = ccos a.
  Hypothesis conj_sin : forall a, cconj (csin a) = csin a.
  Hypothesis cos_sin : forall a, cadd (cmul (ccos a) (ccos a)) (cmul (csin a) (csin a)) = c1.

  Notation unitary := (unitary C c0 c1 cadd cmul cconj).
  Notation tm := (table_matrix C A c0 c1 ci cs ccis4 cadd cmul csub copp half aneg ccos csin ccis).
  (** the tables of the Rust source as a [base] family: the parameter is the angle *)
  Notation sbase := (std_base C A c0 c1 ci cs ccis4 cadd cmul csub copp half aneg ccos csin ccis theta0).

  (** Every table written in the Rust source denotes a unitary matrix, for every angle theta. *)
  Theorem C15_tables_unitary :
    forall (theta : A) (g : gate), unitary (N.to_nat (2 ^ arity g)) (tm (model_table g) theta).
  Proof.
    apply (model_table_unitary C A c0 c1 ci cs ccis4 cadd cmul csub copp cconj half aneg ccos csin ccis);
      assumption.
  Qed.

  (** So does every matrix of the Quil specification section 4.3 (under C14's hypotheses relating
      e^{i a} to cos and sin). *)
  Theorem C15_spec_tables_unitary :
    (forall a, ccis a = cadd (ccos a) (cmul ci (csin a))) ->
    (forall a, ccos (aneg a) = ccos a) ->
    (forall a, csin (aneg a) = copp (csin a)) ->
    forall (theta : A) (g : gate), unitary (N.to_nat (2 ^ arity g)) (tm (spec_table g) theta).
  Proof.
    intros euler cos_even sin_odd.
    apply (spec_table_unitary C A c0 c1 ci cs ccis4 cadd cmul csub copp cconj half aneg ccos csin ccis);
      assumption.
  Qed.

  (** "Every computed unitary is unitary", for the model of the code over the standard gates:
      (1) gate_matrix of EVERY modifier stack (any depth; mixed CONTROLLED/FORKED stacks included),
          every gate, all parameters;  (2) likewise the Quil semantics of the stack;
      (3) the modelled `Gate::to_unitary(n)` of every well-formed gate (n <= 5, at most 3 qubits:
          the scope of C14_lift);  (4) the modelled `Program::to_unitary(n)` of every program of
          such gates. *)
  Theorem C15_unitary :
    (forall g s p m,
        gate_matrix C c0 c1 cadd cmul cconj A sbase g s p = Ok m ->
        unitary (N.to_nat (mdim C m)) (ment C m)) /\
    (forall g s p m,
        spec_matrix C c0 c1 cadd cmul cconj A sbase g s p = Ok m ->
        unitary (N.to_nat (mdim C m)) (ment C m)) /\
    (forall n (x : mgate A),
        n <= 5 -> (length (g_qubits A x) <= 3)%nat ->
        gate_ok C c0 c1 cadd cmul cconj A sbase n x ->
        unitary (N.to_nat (2 ^ n)) (gate_unitary_model C c0 c1 cadd cmul cconj A sbase n x)) /\
    (forall n (p : list (mgate A)),
        n <= 5 ->
        (forall x, In x p -> (length (g_qubits A x) <= 3)%nat /\
                             gate_ok C c0 c1 cadd cmul cconj A sbase n x) ->
        unitary (N.to_nat (2 ^ n))
                (program_unitary C c0 c1 cadd cmul
                   (gate_unitary_model C c0 c1 cadd cmul cconj A sbase n) (N.to_nat (2 ^ n)) p)).
  Proof.
    split; [|split; [|split]].
    - apply (std_gate_matrix_unitary C A c0 c1 ci cs ccis4 cadd cmul csub copp cconj); assumption.
    - apply (std_spec_matrix_unitary C A c0 c1 ci cs ccis4 cadd cmul csub copp cconj); assumption.
    - apply (std_gate_unitary C A c0 c1 ci cs ccis4 cadd cmul csub copp cconj); assumption.
    - apply (std_program_unitary C A c0 c1 ci cs ccis4 cadd cmul csub copp cconj); assumption.
  Qed.
End C15Std.

(** The hypotheses of Section C15Std (and C14's) hold simultaneously in a concrete structure built
    without axioms: the field Q(zeta_8) = Q(sqrt 2, i) over the canonical rationals [Qc] (a subfield
    of the complex numbers, with complex conjugation), i = zeta^2, 1/sqrt 2 = (zeta - zeta^3)/2,
    e^{i pi/4} = zeta, and the angles k * atan(4/3), k an integer, whose cosine and sine are the
    rationals Re, Im ((3 + 4i)/5)^k. *)
Theorem C15_unitary_hypotheses_satisfiable :
  ring_theory K8_0 K8_1 K8_add K8_mul K8_sub K8_opp (@eq K8) /\
  K8_conj K8_0 = K8_0 /\ K8_conj K8_1 = K8_1 /\
  (forall a b, K8_conj (K8_add a b) = K8_add (K8_conj a) (K8_conj b)) /\
  (forall a b, K8_conj (K8_mul a b) = K8_mul (K8_conj a) (K8_conj b)) /\
  (forall a, K8_conj (K8_conj a) = a) /\
  K8_conj K8_i = K8_opp K8_i /\ K8_mul K8_i K8_i = K8_opp K8_1 /\
  K8_conj K8_s = K8_s /\ K8_add (K8_mul K8_s K8_s) (K8_mul K8_s K8_s) = K8_1 /\
  K8_mul (K8_conj K8_cis4) K8_cis4 = K8_1 /\
  (forall k : Z, K8_conj (K8_cos k) = K8_cos k) /\ (forall k : Z, K8_conj (K8_sin k) = K8_sin k) /\
  (forall k : Z, K8_add (K8_mul (K8_cos k) (K8_cos k)) (K8_mul (K8_sin k) (K8_sin k)) = K8_1) /\
  (forall k : Z, K8_cis k = K8_add (K8_cos k) (K8_mul K8_i (K8_sin k))) /\
  (forall k : Z, K8_cos (Z.opp k) = K8_cos k) /\ (forall k : Z, K8_sin (Z.opp k) = K8_opp (K8_sin k)) /\
  K8_cis4 = K8_add K8_s (K8_mul K8_i K8_s).
Proof. exact K8_hypotheses. Qed.

(** The specification's lifting commutes with transposition, so the lifted adjoint is the adjoint
    of the lifted matrix. *)
Theorem C15_lift_adjoint :
  forall qs n r c,
    lift_idx_spec qs n c r = option_map (fun ab => (snd ab, fst ab)) (lift_idx_spec qs n r c).
Proof. exact lift_idx_spec_sym. Qed.

(** The code does NOT compute the Quil semantics on mixed stacks: over the ring Z, with a table
    whose entries are neither 0 nor 1, CONTROLLED FORKED G(1, 2) has entry (2,2) = 1 in the Quil
    semantics (control = leading qubit = 0: identity block) but 12 = an entry of G(1) in the code's
    matrix (the leading qubit is used as the FORK selector). *)
Theorem C15_mixed_refuted :
  exists (s : list modifier) (p : list Z) (a b : mat Z),
    mixed s = true /\
    gate_matrix Z 0%Z 1%Z Z.add Z.mul (fun x => x) Z zbase GRX s p = Ok a /\
    spec_matrix Z 0%Z 1%Z Z.add Z.mul (fun x => x) Z zbase GRX s p = Ok b /\
    ment Z a 2 2 <> ment Z b 2 2.
Proof.
  exists [MControlled; MForked], [1%Z; 2%Z].
  eexists. eexists. split; [reflexivity|]. split; [reflexivity|]. split; [reflexivity|].
  vm_compute. discriminate.
Qed.

(** The instance checker. *)
Theorem C15_checker_sound : forall x : case15, case15_verdict x = 0 -> Case15OK x.
Proof. exact case15_sound. Qed.

(** Non-vacuity: the hypotheses hold in Z with the identity conjugation; a concrete stack. *)
Example C15_hypotheses_satisfiable :
  ring_theory 0%Z 1%Z Z.add Z.mul Z.sub Z.opp (@eq Z) /\
  (forall a b : Z, (fun x : Z => x) (a + b)%Z = ((fun x => x) a + (fun x => x) b)%Z).
Proof. split; [exact Zth | reflexivity]. Qed.

Example C15_nonvacuous :
  match gate_matrix Z 0%Z 1%Z Z.add Z.mul (fun x => x) Z zbase GRX [MDagger; MForked] [1%Z; 2%Z] with
  | Ok m => mq Z m = 2 /\ ment Z m 0 1 = 14%Z /\ ment Z m 3 2 = 23%Z /\ ment Z m 0 2 = 0%Z
  | Err _ => False
  end.
Proof. vm_compute. repeat split; reflexivity. Qed.

(** Non-vacuity of C15_unitary: over Q(zeta_8), CONTROLLED FORKED RX(phi, 2 phi) (a mixed stack;
    phi = atan(4/3), "half" interpreted as the identity on angle indices) is a 3-qubit matrix with
    entries cos phi = 3/5, -i sin phi = -(4/5) i, cos 2 phi = -7/25, and 0. *)
Example C15_unitary_nonvacuous :
  match gate_matrix K8 K8_0 K8_1 K8_add K8_mul K8_conj Z K8_base GRX [MControlled; MForked] [1%Z; 2%Z] with
  | Ok m => mq K8 m = 3 /\
            K8_coeffs (ment K8 m 2 2) = [(3%Z, 5%positive); (0%Z, 1%positive); (0%Z, 1%positive); (0%Z, 1%positive)] /\
            K8_coeffs (ment K8 m 2 3) = [(0%Z, 1%positive); (0%Z, 1%positive); ((-4)%Z, 5%positive); (0%Z, 1%positive)] /\
            K8_coeffs (ment K8 m 6 6) = [((-7)%Z, 25%positive); (0%Z, 1%positive); (0%Z, 1%positive); (0%Z, 1%positive)] /\
            K8_coeffs (ment K8 m 0 2) = [(0%Z, 1%positive); (0%Z, 1%positive); (0%Z, 1%positive); (0%Z, 1%positive)]
  | Err _ => False
  end.
Proof. vm_compute. repeat split; reflexivity. Qed.

