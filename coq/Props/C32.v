(** C32 — built-in waveforms sample to the right length and respond linearly.
    Pinned statements only; proofs live in Proofs/WaveformProofs.v.

    LEVEL: proof of the modelled logic, PARTIAL overall.  Modelled: the sample-count computation
    (round-half-away of duration x rate over exact rationals, range and misalignment checks, ceil
    paddings), defaults and partiality of scale / phase / detuning, the seven sampling functions with
    the common post-processing, the zero-scale shortcut and the placeholder logic.  NOT modelled:
    the envelopes (exp / erf / cos: the Section variable [envelope]) and every IEEE-754 rounding
    (of duration x rate, of the arithmetic on samples): reals and complex numbers are abstract
    types with exactly the laws listed as hypotheses below. *)
From Coq Require Import List NArith ZArith QArith Qround Qabs Bool.
From QV Require Import Model.Waveform Proofs.WaveformProofs.
Import ListNotations.
Open Scope Q_scope.

(** ** Sample counts (over Q, no hypotheses) *)

(** A duration that is exactly [k] sample periods (0 <= k < u32::MAX, positive rate) is accepted
    and gives exactly [k] samples. *)
Theorem C32_count_exact :
  forall (d r : Q) (k : Z),
    0 < r -> d * r == inject_Z k -> (0 <= k < U32_MAX)%Z -> sample_count d r = inr (Z.to_N k).
Proof. exact sample_count_exact. Qed.

(** Whenever a duration is accepted ("aligns"), the count is the product rounded to the nearest
    integer (ties away from zero), it fits u32, and the misalignment in seconds is under
    1 / (100 rate). *)
Theorem C32_count_rounds :
  forall (d r : Q) (n : N),
    sample_count d r = inr n ->
    Z.of_N n = round_half_away (d * r) /\ (Z.of_N n < U32_MAX)%Z /\
    (r == 0 \/ Qabs ((d * r - inject_Z (Z.of_N n)) / r) < / (r * 100)).
Proof. exact sample_count_sound. Qed.

(** ... which for a positive rate is the documented tolerance: 1% of a sample. *)
Theorem C32_count_tolerance :
  forall (d r : Q) (n : N),
    0 < r -> sample_count d r = inr n -> Qabs (d * r - inject_Z (Z.of_N n)) < 1 # 100.
Proof. exact sample_count_tolerance. Qed.

Theorem C32_round_nearest :
  forall q : Q, Qabs (q - inject_Z (round_half_away q)) <= 1 # 2.
Proof. exact round_half_away_nearest. Qed.

(** History (finding `misalignment-tolerance-units`, repaired by /repo commit b8fb6ef): the rule
    before the fix, [sample_count_unfixed], compared the misalignment in samples with the tolerance
    in seconds and rejected a duration 0.78% of a sample off at 8 Hz; the fixed rule accepts it. *)
Example C32_unfixed_tolerance_was_not_one_percent :
  exists d r : Q,
    0 < r /\ Qabs (d * r - inject_Z (round_half_away (d * r))) < 1 # 100 /\
    sample_count_unfixed d r = inl ErrMisaligned /\ sample_count d r = inr 8%N.
Proof. exists (1025 # 1024), (8 # 1). vm_compute. repeat split; reflexivity. Qed.

Close Scope Q_scope.

Section C32.
  (** Abstract reals [R] and complex numbers [C] with the operations the code uses. *)
  Variables R C : Type.
  Variables rzero rone : R.
  Variables radd rmul rdiv : R -> R -> R.
  Variable ris0 : R -> bool.
  Variable ofQ : Q -> R.
  Variable czero : C.
  Variable cmul : C -> C -> C.
  Variable inj : R -> C.
  Variable cisc : R -> C.                       (* cycles |-> exp(2 pi i cycles) *)
  Variable envelope : kind -> list R -> Q -> Q -> nat -> C.

  (** The `WaveformData` instance: Concrete, Partial<Concrete>, or anything else. *)
  Variables RealT CplxT : Type.
  Variable eval_real : RealT -> option R.
  Variable eval_cplx : CplxT -> option C.

  Notation sample :=
    (sample R C rzero rone radd rmul rdiv ris0 ofQ czero cmul inj cisc envelope RealT CplxT eval_real eval_cplx).
  Notation sample_concrete :=
    (sample_concrete R C rzero rone radd rmul rdiv ris0 ofQ czero cmul inj cisc envelope).
  Notation sample_partial :=
    (sample_partial R C rzero rone radd rmul rdiv ris0 ofQ czero cmul inj cisc envelope).

  (** ** Length (no law needed) *)

  (** For ALL kinds, parameters (known or not) and rates: if the duration aligns and gives [n], the
      result — samples or placeholder — has exactly [pad_left + n + pad_right] entries, the pads
      being ceil(pad x rate) for ErfSquare / RaisedCosine and 0 otherwise. *)
  Theorem C32_length :
    forall (w : waveform RealT CplxT) (c : common RealT) (r : Q) (n : N),
      sample_count (duration RealT c) r = inr n ->
      ocount (shape_of C (sample w c r))
      = Some (fst (pads RealT CplxT w r) + n + snd (pads RealT CplxT w r))%N.
  Proof. exact (sample_count_of R C rzero rone radd rmul rdiv ris0 ofQ czero cmul inj cisc envelope
                  RealT CplxT eval_real eval_cplx). Qed.

  (** A duration that does not align gives that error, whatever else is known. *)
  Theorem C32_error :
    forall (w : waveform RealT CplxT) (c : common RealT) (r : Q) (e : err),
      sample_count (duration RealT c) r = inl e -> sample w c r = VErr C e.
  Proof. exact (sample_error R C rzero rone radd rmul rdiv ris0 ofQ czero cmul inj cisc envelope
                  RealT CplxT eval_real eval_cplx). Qed.

  (** The shape function the case files evaluate is the shape of the sampled value. *)
  Theorem C32_shape :
    forall (w : waveform RealT CplxT) (c : common RealT) (r : Q),
      shape_of C (sample w c r)
      = sample_shape R C rzero rone ris0 RealT CplxT eval_real eval_cplx w c r.
  Proof. exact (shape_of_sample R C rzero rone radd rmul rdiv ris0 ofQ czero cmul inj cisc envelope
                  RealT CplxT eval_real eval_cplx). Qed.

  (** ** Partiality *)

  (** A partial waveform whose parameters are all present samples exactly like the concrete one. *)
  Theorem C32_partial_known :
    forall (w : waveform R C) (c : common R) (r : Q),
      sample_partial (embed_w R C w) (embed_c R c) r = sample_concrete w c r.
  Proof. exact (partial_known_is_concrete R C rzero rone radd rmul rdiv ris0 ofQ czero cmul inj cisc envelope). Qed.

  (** Concrete data never yields a placeholder (`unwrap_total` cannot fail). *)
  Theorem C32_concrete_total :
    forall (w : waveform R C) (c : common R) (r : Q) (s : iqs unit),
      sample_concrete w c r <> VPartial C s.
  Proof. exact (concrete_never_partial R C rzero rone radd rmul rdiv ris0 ofQ czero cmul inj cisc envelope). Qed.

  (** A placeholder has the length of the concrete result: forget any parameters of [w], [c]
      (keeping the duration and the pads, which are always concrete) — both results have
      [pad_left + n + pad_right] entries. *)
  Theorem C32_placeholder_length :
    forall (w : waveform R C) (c : common R) (pw : waveform (option R) (option C))
           (pc : common (option R)) (r : Q) (s : iqs unit) (v : iqs C),
      duration _ pc = duration _ c -> pads _ _ pw r = pads _ _ w r ->
      sample_partial pw pc r = VPartial C s -> sample_concrete w c r = VTotal C v ->
      count s = count v.
  Proof. exact (placeholder_length R C rzero rone radd rmul rdiv ris0 ofQ czero cmul inj cisc envelope). Qed.

  (** ** Linearity, phase, zero scale — under the ring laws *)
  Hypothesis cmul_comm : forall a b, cmul a b = cmul b a.
  Hypothesis cmul_assoc : forall a b c, cmul a (cmul b c) = cmul (cmul a b) c.
  Hypothesis cmul_0_l : forall a, cmul czero a = czero.
  Hypothesis inj_mul : forall a b, inj (rmul a b) = cmul (inj a) (inj b).
  Hypothesis inj_0 : inj rzero = czero.
  Hypothesis ris0_spec : forall x, ris0 x = true <-> x = rzero.
  Hypothesis rmul_0_l : forall a, rmul rzero a = rzero.
  Hypothesis radd_0_r : forall a, radd a rzero = a.
  Hypothesis cisc_add : forall a b, cisc (radd a b) = cmul (cisc a) (cisc b).
  Hypothesis cisc_0 : forall z, cmul z (cisc rzero) = z.
  Hypothesis rdiv_mul : forall a b x, rdiv (rmul a b) x = rmul (rdiv a x) b.
  Hypothesis rdiv_0 : forall n, n <> 0%N -> rdiv rzero (ofN R ofQ n) = rzero.

  (** Homogeneity: for every kind and all other parameters, replacing the scale [s] by [s * a]
      multiplies every sample by [a]. *)
  Theorem C32_scale_homogeneous :
    forall (w : waveform RealT CplxT) (c : common RealT) (r : Q) (x1 x2 : RealT) (s a : R) (v2 : iqs C),
      eval_real x2 = Some s -> eval_real x1 = Some (rmul s a) ->
      sample w (with_scale RealT c (Some x2)) r = VTotal C v2 ->
      exists v1, sample w (with_scale RealT c (Some x1)) r = VTotal C v1 /\
                 to_list v1 = map (cmul (inj a)) (to_list v2).
  Proof.
    exact (scale_homogeneous R C rzero rone radd rmul rdiv ris0 ofQ czero cmul inj cisc envelope
             cmul_comm cmul_assoc cmul_0_l inj_mul inj_0 ris0_spec rmul_0_l rdiv_mul
             RealT CplxT eval_real eval_cplx).
  Qed.

  (** Phase: a phase of [p] cycles multiplies every sample of the phase-0 (or phase-absent) result
      by cis(2 pi p). *)
  Theorem C32_phase_rotates :
    forall (w : waveform RealT CplxT) (c : common RealT) (r : Q) (x : RealT) (p : R)
           (f0 : option RealT) (v0 : iqs C),
      eval_real x = Some p ->
      evaluate_or R RealT eval_real f0 rzero = Some rzero ->
      sample w (with_phase RealT c f0) r = VTotal C v0 ->
      exists v, sample w (with_phase RealT c (Some x)) r = VTotal C v /\
                to_list v = map (cmul (cisc p)) (to_list v0).
  Proof.
    exact (phase_rotates R C rzero rone radd rmul rdiv ris0 ofQ czero cmul inj cisc envelope
             cmul_comm cmul_assoc cmul_0_l radd_0_r cisc_add cisc_0
             RealT CplxT eval_real eval_cplx).
  Qed.

  (** Zero scale: every sample is zero. *)
  Theorem C32_zero_scale :
    forall (w : waveform RealT CplxT) (c : common RealT) (r : Q) (x : RealT) (v : iqs C),
      eval_real x = Some rzero ->
      sample w (with_scale RealT c (Some x)) r = VTotal C v ->
      Forall (fun z => z = czero) (to_list v).
  Proof.
    exact (zero_scale_zero R C rzero rone radd rmul rdiv ris0 ofQ czero cmul inj cisc envelope
             cmul_0_l inj_0 ris0_spec rdiv_0 RealT CplxT eval_real eval_cplx).
  Qed.
End C32.

(** ** The instance checker run on the implementation's observed outputs *)
Theorem C32_checker_sound : forall x : case, chk_case x = 0%N -> CaseOK x.
Proof. exact chk_case_sound. Qed.

Theorem C32_len_clause : forall d r lp rp o, chk_len d r lp rp o = true <-> LenOK d r lp rp o.
Proof. exact chk_len_sound. Qed.

(** ** Non-vacuity.  The laws are satisfiable: the field [Qc] for both [R] and [C] with the trivial
    character; and a concrete padded waveform with its shapes. *)
From Coq Require Import Qcanon.
Close Scope Qc_scope.
Definition qc_is0 (x : Qc) : bool := if Qc_eq_dec x 0%Qc then true else false.

Example C32_laws_satisfiable :
  (forall a b : Qc, Qcmult a b = Qcmult b a) /\
  (forall a b c : Qc, Qcmult a (Qcmult b c) = Qcmult (Qcmult a b) c) /\
  (forall a : Qc, Qcmult 0%Qc a = 0%Qc) /\
  (forall x, qc_is0 x = true <-> x = 0%Qc) /\
  (forall a : Qc, Qcplus a 0%Qc = a) /\
  (forall a b x : Qc, Qcdiv (Qcmult a b) x = Qcmult (Qcdiv a x) b) /\
  (forall n : N, n <> 0%N -> Qcdiv 0%Qc (Q2Qc (inject_Z (Z.of_N n))) = 0%Qc).
Proof.
  repeat split.
  - apply Qcmult_comm.
  - apply Qcmult_assoc.
  - apply Qcmult_0_l.
  - unfold qc_is0. destruct (Qc_eq_dec x 0%Qc); [auto|discriminate].
  - unfold qc_is0. intros ->. destruct (Qc_eq_dec 0%Qc 0%Qc); [reflexivity|contradiction].
  - apply Qcplus_0_r.
  - intros a b x. unfold Qcdiv. rewrite <- !Qcmult_assoc. f_equal. apply Qcmult_comm.
  - intros n _. unfold Qcdiv. apply Qcmult_0_l.
Qed.

Example C32_nonvacuous :
  let c := Common (3 # 8)%Q (Some (1 # 2)%Q) None (Some (1 # 4)%Q) in
  let w := WPad PErfSquare [(1 # 4)%Q] (3 # 16)%Q (1 # 8)%Q in
  sample_count (3 # 8)%Q (8 # 1)%Q = inr 3%N /\
  shape_c w c (8 # 1)%Q = OSamples SSamples 6%N /\
  shape_p (WPad PErfSquare [None] (3 # 16)%Q (1 # 8)%Q) (embed_cq c) (8 # 1)%Q = OPlaceholder SSamples 6%N /\
  sample_count (3 # 8)%Q (1 # 1)%Q = inl ErrMisaligned /\
  sample_count (1025 # 1024)%Q (1 # 1)%Q = inr 1%N /\
  sample_count (4294967295 # 1)%Q (1 # 1)%Q = inl ErrRange.
Proof. vm_compute. repeat split; reflexivity. Qed.
