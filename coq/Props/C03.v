(** C03 — serialized expressions denote the same value when parsed back.
    Pinned statements only; proofs live in Proofs/ExprTextProofs.v and Proofs/ExprTextInst.v.

    [ptoks] is the model of the expression printer ([Quil for Expression],
    [format_inner_expression], [format_complex]; fixes 9bfdd6e and 1e769e0 included) at the level
    of lexer tokens, [parse_expr] the model of the Pratt parser of parser/expression.rs with fuel.
    Literals are sign/magnitude pairs over an arbitrary type of magnitudes; a literal with a finite
    text is one such pair ("finite literals" is built into the type: infinities and NaN have no
    magnitude).  The only assumption on magnitudes is that a memory index survives as an integer
    token. *)
From Coq Require Import List NArith ZArith QArith Qcanon Bool.
From QV Require Import Model.Expr Model.ExactNum Model.ExprText Model.ExprTextExec
                       Proofs.ExprTextProofs Proofs.ExprTextInst.
Import ListNotations.

(** For every expression, the printed token sequence parses (fuel [2 * size e + 1] suffices),
    with nothing left over, to an expression [e'] that evaluates like [e] under every assignment —
    in every evaluation algebra where a one-part literal is its sign applied to its magnitude and a
    two-part literal is the sum / difference of its parts. *)
Theorem C03_value :
  forall (mag : Type) (mzero : mag) (is_mzero : mag -> bool)
         (mag_of_index : N -> mag) (index_of_mag : mag -> option N),
    (forall i, index_of_mag (mag_of_index i) = Some i) ->
    forall e : expr (lit mag),
    exists e' : expr (lit mag),
      parse_expr mag mzero mag_of_index index_of_mag (2 * size e + 1)
                 (ptoks mag mzero is_mzero mag_of_index e) = Some e'
      /\ forall (C M : Type) (A : alg (lit mag) C M),
          (forall re im, sl_zero mag is_mzero re = true -> sl_zero mag is_mzero im = true ->
                         of_lit A (re, im) = of_lit A (real_lit mag mzero mzero)) ->
          (forall re im, sl_zero mag is_mzero re = false -> sl_zero mag is_mzero im = true ->
                         of_lit A (re, im)
                         = sgn mag is_mzero C M A re (of_lit A (real_lit mag mzero (snd re)))) ->
          (forall re im, sl_zero mag is_mzero re = true -> sl_zero mag is_mzero im = false ->
                         of_lit A (re, im)
                         = sgn mag is_mzero C M A im (of_lit A (imag_lit mag mzero (snd im)))) ->
          (forall re im, sl_zero mag is_mzero re = false -> sl_zero mag is_mzero im = false ->
                         c_infix A (if sl_neg mag is_mzero im then Minus else Plus)
                                 (sgn mag is_mzero C M A re (of_lit A (real_lit mag mzero (snd re))))
                                 (of_lit A (imag_lit mag mzero (snd im)))
                         = Some (of_lit A (re, im))) ->
          forall (rv : N -> option C) (rm : N -> option (list M)),
            eval A rv rm e' = eval A rv rm e.
Proof.
  intros mag mzero is_mzero mag_of_index index_of_mag Hidx e.
  exists (norm mag mzero is_mzero e). split.
  - exact (parse_expr_print_size mag mzero is_mzero mag_of_index index_of_mag Hidx e).
  - intros C M A H0 H1 H2 H3 rv rm.
    exact (eval_norm mag mzero is_mzero C M A H0 H1 H2 H3 rv rm e).
Qed.

(** The parser: an infix operator of the same precedence ends the right operand, so every
    operator, exponentiation included, associates to the left. *)
Theorem C03_parser_left_associative :
  forall (mag : Type) (mzero : mag) (mag_of_index : N -> mag) (index_of_mag : mag -> option N)
         (x y z : N) (o : infix_op),
    parse_expr mag mzero mag_of_index index_of_mag 3 [TVar x; TOp o; TVar y; TOp o; TVar z]
    = Some (Infix (Infix (Var x) o (Var y)) o (Var z)).
Proof.
  intros mag mzero mag_of_index index_of_mag.
  exact (parse_left_assoc mag mzero mag_of_index index_of_mag).
Qed.

(** The instance checker: if it accepts the implementation's re-parse of its own text, that
    re-parse is the normal form of [e] — the expression the theorem above speaks of. *)
Theorem C03_checker_sound :
  forall (e : tex) (o : c03obs),
    chk_reparse e o = true ->
    o_reparsed o = Some (x_norm e)
    /\ x_parse_expr (2 * size e + 1) (x_ptoks e) = Some (x_norm e).
Proof. exact chk_reparse_sound. Qed.

(** Non-vacuity.  (1) The literal laws are satisfiable: exact Gaussian rationals over natural
    magnitudes ([gc_alg]).  (2) A concrete expression with a negated negative literal, a
    two-part complex literal inside a product and a nested power: its text, and its re-parse. *)
Example C03_laws_satisfiable :
  (forall re im, sl_zero N nzero re = true -> sl_zero N nzero im = true ->
                 of_lit gc_alg (re, im) = of_lit gc_alg (real_lit N 0%N 0%N))
  /\ (forall re im, sl_zero N nzero re = false -> sl_zero N nzero im = true ->
                    of_lit gc_alg (re, im)
                    = sgn N nzero gc Qc gc_alg re (of_lit gc_alg (real_lit N 0%N (snd re))))
  /\ (forall re im, sl_zero N nzero re = true -> sl_zero N nzero im = false ->
                    of_lit gc_alg (re, im)
                    = sgn N nzero gc Qc gc_alg im (of_lit gc_alg (imag_lit N 0%N (snd im))))
  /\ (forall re im, sl_zero N nzero re = false -> sl_zero N nzero im = false ->
                    c_infix gc_alg (if sl_neg N nzero im then Minus else Plus)
                            (sgn N nzero gc Qc gc_alg re (of_lit gc_alg (real_lit N 0%N (snd re))))
                            (of_lit gc_alg (imag_lit N 0%N (snd im)))
                    = Some (of_lit gc_alg (re, im))).
Proof.
  split; [exact gc_lit_zero | split; [exact gc_lit_real | split; [exact gc_lit_imag | exact gc_lit_both]]].
Qed.

Example C03_nonvacuous :
  let d (i : N) (ds : list N) : dec := (i, ds) in
  let e : tex :=
    Infix (Prefix PMinus (Num ((true, d 3%N []), (false, d 0%N []))))    (* -(-3) *)
          Star
          (Infix (Num ((false, d 1%N []), (true, d 2%N [5%N]))) Caret      (* (1-2.5i)^... *)
                 (Infix (Var 0%N) Caret (Addr 2%N 1%N))) in                 (* %x^theta[1] *)
  (* "-(-3)*((1-2.5i)^(%x^theta[1]))" *)
  x_pbytes e = [45; 40; 45; 51; 41; 42; 40; 40; 49; 45; 50; 46; 53; 105; 41; 94; 40; 37; 120; 94;
                116; 104; 101; 116; 97; 91; 49; 93; 41; 41]%N
  /\ x_parse_expr (2 * size e + 1) (x_ptoks e) = Some (x_norm e)
  /\ x_norm e <> e.
Proof. vm_compute. repeat split; try reflexivity. discriminate. Qed.
