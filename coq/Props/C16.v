(** C16 — calibration lookup follows the documented precedence rules.
    Pinned statements only; proofs live in Proofs/CalibProofs.v; the model is Model/Calib.v.
    [simp] is the (arbitrary) expression simplifier: raw expression id -> [SVar v] | [SLit k]. *)
From Coq Require Import List NArith Bool PeanoNat.
From QV Require Import Model.Calib Proofs.CalibProofs.
Import ListNotations.

(** The code's matching predicate is the declarative rule [Match]: same name, modifiers,
    parameter count and qubit count; at every position a fixed calibration qubit equals the
    gate's qubit (and neither side is a placeholder); every calibration parameter that does not
    simplify to a variable equals (after simplification) the gate's. *)
Theorem C16_matches_is_the_rule :
  forall simp c g, matches simp c g = true <-> Match simp c g.
Proof. exact matches_iff. Qed.

(** On placeholder-free calibrations and gates [Match] is literally the property's wording. *)
Theorem C16_rule_without_placeholders :
  forall simp c g,
    (forall q, In q (g_qubits c) -> no_ph q) -> (forall q, In q (g_qubits g) -> no_ph q) ->
    (Match simp c g <->
     g_name c = g_name g /\ g_mods c = g_mods g /\
     length (g_params c) = length (g_params g) /\ length (g_qubits c) = length (g_qubits g) /\
     (forall i n gq, nth_error (g_qubits c) i = Some (QFixed n) ->
                     nth_error (g_qubits g) i = Some gq -> gq = QFixed n) /\
     (forall i cp gp, nth_error (g_params c) i = Some cp -> nth_error (g_params g) i = Some gp ->
                      (forall v, simp cp <> SVar v) -> simp cp = simp gp)).
Proof. exact Match_plain. Qed.

(** Gate lookup, for every calibration list and gate: the answer is the calibration at position
    [i] iff it matches and every matching calibration has fewer fixed qubits, or equally many and
    stands no later (most fixed qubits wins, ties go to the later definition). *)
Theorem C16_gate_lookup :
  forall simp (cs : list calib) (g : gate) (i : nat) (c : calib),
    get_match_for_gate simp cs g = Some (i, c) <->
    nth_error cs i = Some c /\ Match simp (c_id c) g /\
    forall j c', nth_error cs j = Some c' -> Match simp (c_id c') g ->
      fixed_count (c_id c') < fixed_count (c_id c) \/
      (fixed_count (c_id c') = fixed_count (c_id c) /\ j <= i).
Proof. exact gate_lookup_explicit. Qed.

Theorem C16_gate_lookup_none :
  forall simp (cs : list calib) (g : gate),
    get_match_for_gate simp cs g = None <-> forall c, In c cs -> ~ Match simp (c_id c) g.
Proof. exact get_match_for_gate_None. Qed.

(** Measurement lookup: [MMatch] = same name, same record/effect kind, calibration qubit variable
    or equal to the measured fixed qubit; [mrank] = 1 for a fixed (exact) calibration qubit, 0 for
    a variable.  Exact beats variable, then the later definition wins. *)
Theorem C16_measure_lookup :
  forall (ms : list mcalib) (m : meas) (i : nat) (c : mcalib),
    get_match_for_measurement ms m = Some (i, c) <->
    nth_error ms i = Some c /\ MMatch (mc_id c) m /\
    forall j c', nth_error ms j = Some c' -> MMatch (mc_id c') m ->
      mrank (mc_id c') < mrank (mc_id c) \/ (mrank (mc_id c') = mrank (mc_id c) /\ j <= i).
Proof. exact meas_lookup_explicit. Qed.

Theorem C16_measure_lookup_none :
  forall (ms : list mcalib) (m : meas),
    get_match_for_measurement ms m = None <-> forall c, In c ms -> ~ MMatch (mc_id c) m.
Proof. exact get_match_for_measurement_None. Qed.

(** [MMatch] spelled out. *)
Theorem C16_measure_rule :
  forall c m, MMatch c m <->
    m_name c = m_name m /\ is_some (m_target c) = is_some (m_target m) /\
    ((exists v, m_qubit c = QVar v) \/ (exists a, m_qubit c = QFixed a /\ m_qubit m = QFixed a)).
Proof. intros c m. reflexivity. Qed.

(** [CalibrationSet::replace], generic in the element type and its signature equality:
    [signature_position] finds the first element with the signature; if there is one the new value
    overwrites it in place (length and every other position unchanged), otherwise it is appended. *)
Theorem C16_signature_position :
  forall (A : Type) (same_sig : A -> A -> bool) (v : A) (l : list A) (i : nat),
    sig_position same_sig v l = Some i <->
    (exists x, nth_error l i = Some x /\ same_sig x v = true) /\
    (forall j y, j < i -> nth_error l j = Some y -> same_sig y v = false).
Proof. intros A. exact (@sig_position_Some A). Qed.

Theorem C16_signature_position_none :
  forall (A : Type) (same_sig : A -> A -> bool) (v : A) (l : list A),
    sig_position same_sig v l = None <-> forall x, In x l -> same_sig x v = false.
Proof. intros A. exact (@sig_position_None A). Qed.

Theorem C16_replace_in_place :
  forall (A : Type) (same_sig : A -> A -> bool) (l : list A) (v : A) (i : nat),
    sig_position same_sig v l = Some i ->
    length (replace same_sig l v) = length l /\
    nth_error (replace same_sig l v) i = Some v /\
    forall j, j <> i -> nth_error (replace same_sig l v) j = nth_error l j.
Proof. intros A. exact (@replace_existing A). Qed.

Theorem C16_replace_appends :
  forall (A : Type) (same_sig : A -> A -> bool) (l : list A) (v : A),
    sig_position same_sig v l = None -> replace same_sig l v = l ++ [v].
Proof. intros A. exact (@replace_fresh A). Qed.

(** After a redefinition every gate lookup answers from the same position as before, and when it
    answers from the redefined position it returns the NEW definition. *)
Theorem C16_lookup_after_redefinition :
  forall simp (cs : list calib) (c : calib) (i : nat) (g : gate),
    sig_position calib_sig_eqb c cs = Some i ->
    option_map fst (get_match_for_gate simp (replace calib_sig_eqb cs c) g)
    = option_map fst (get_match_for_gate simp cs g) /\
    (forall c', get_match_for_gate simp (replace calib_sig_eqb cs c) g = Some (i, c') -> c' = c).
Proof. exact lookup_after_replace. Qed.

(** A whole definition sequence (program order; [Program::add_instruction], [extend],
    [From<Vec>]): signatures in the resulting set are pairwise distinct, and the representative
    of a signature is its LAST definition. *)
Theorem C16_build_signatures_unique :
  forall (defs : list calib) i j x y,
    i < j -> nth_error (build calib_sig_eqb defs) i = Some x ->
    nth_error (build calib_sig_eqb defs) j = Some y -> calib_sig_eqb x y = false.
Proof.
  intros defs. exact (build_SigUnique calib_sig_eqb calib_sig_trans defs).
Qed.

Theorem C16_build_last_definition_wins :
  forall (l1 : list calib) (v : calib) (l2 : list calib),
    (forall y, In y l2 -> calib_sig_eqb y v = false) ->
    In v (build calib_sig_eqb (l1 ++ v :: l2)) /\
    forall x, In x (build calib_sig_eqb (l1 ++ v :: l2)) -> calib_sig_eqb x v = true -> x = v.
Proof. exact (build_last_wins calib_sig_eqb calib_sig_sym calib_sig_trans). Qed.

Theorem C16_build_measure_last_definition_wins :
  forall (l1 : list mcalib) (v : mcalib) (l2 : list mcalib),
    (forall y, In y l2 -> mcalib_sig_eqb y v = false) ->
    In v (build mcalib_sig_eqb (l1 ++ v :: l2)) /\
    forall x, In x (build mcalib_sig_eqb (l1 ++ v :: l2)) -> mcalib_sig_eqb x v = true -> x = v.
Proof. exact (build_last_wins mcalib_sig_eqb mcalib_sig_sym mcalib_sig_trans). Qed.

(** The verified instance checkers run on the implementation's answers. *)
Theorem C16_gate_checker_sound :
  forall simp (cs : list calib) (g : gate) (ans : option nat),
    chk_gate simp cs g ans = true ->
    match ans with
    | Some i => GateBest simp cs g i
    | None => forall c, In c cs -> ~ Match simp (c_id c) g
    end.
Proof. exact chk_gate_sound. Qed.

Theorem C16_gate_checker_decides_model :
  forall simp cs g ans,
    chk_gate simp cs g ans = true <-> option_map fst (get_match_for_gate simp cs g) = ans.
Proof. exact chk_gate_iff_model. Qed.

Theorem C16_measure_checker_sound :
  forall (ms : list mcalib) (m : meas) (ans : option nat),
    chk_meas ms m ans = true ->
    match ans with
    | Some i => MeasBest ms m i
    | None => forall c, In c ms -> ~ MMatch (mc_id c) m
    end.
Proof. exact chk_meas_sound. Qed.

Theorem C16_measure_checker_decides_model :
  forall ms m ans,
    chk_meas ms m ans = true <-> option_map fst (get_match_for_measurement ms m) = ans.
Proof. exact chk_meas_iff_model. Qed.

Theorem C16_set_checker_sound :
  forall (A : Type) (same_sig : A -> A -> bool) (d : A) (defs : list A) (s : list nat),
    chk_set same_sig d defs s = true -> SetSpec same_sig d defs s.
Proof. intros A. exact (@chk_set_sound A). Qed.

(** Non-vacuity: DEFCAL RX(%t) q / RX(%t) 0 / RX(pi/2) 0 / RX(%t) 0 (redefinition, replaces
    position 1); RX(1.5707963267948966) 0 picks position 2 (tie on one fixed qubit, later wins),
    RX(1) 0 picks the redefined position 1 with the new body, RX(1) 1 the variable one. *)
Example C16_nonvacuous :
  let simp := tbl_simp [(0, SLit 0); (1, SLit 1); (2, SVar 0); (3, SLit 0)]%N in
  let G n p q := {| g_name := n; g_mods := []; g_params := p; g_qubits := q |} in
  let defs := [ {| c_id := G 1%N [2%N] [QVar 0]; c_body := 0 |};
                {| c_id := G 1%N [2%N] [QFixed 0]; c_body := 1 |};
                {| c_id := G 1%N [0%N] [QFixed 0]; c_body := 2 |};
                {| c_id := G 1%N [2%N] [QFixed 0]; c_body := 3 |} ]%N in
  let cs := build calib_sig_eqb defs in
  map c_body cs = [0; 3; 2]%N /\
  option_map fst (get_match_for_gate simp cs (G 1%N [3%N] [QFixed 0])) = Some 2 /\
  option_map (fun x => c_body (snd x)) (get_match_for_gate simp cs (G 1%N [1%N] [QFixed 0])) = Some 3%N /\
  option_map fst (get_match_for_gate simp cs (G 1%N [1%N] [QFixed 1])) = Some 0 /\
  get_match_for_gate simp cs (G 0%N [1%N] [QFixed 1]) = None /\
  chk_set calib_sig_eqb dummy_calib defs [0; 3; 2] = true /\
  chk_gate simp cs (G 1%N [3%N] [QFixed 0]) (Some 2) = true /\
  chk_gate simp cs (G 1%N [3%N] [QFixed 0]) (Some 1) = false.
Proof. vm_compute. repeat split; reflexivity. Qed.

Example C16_nonvacuous_measure :
  let Me n q t := {| m_name := n; m_qubit := q; m_target := t |} in
  let ms := [ {| mc_id := Me None (QFixed 0) (Some 0%N); mc_body := 0 |};
              {| mc_id := Me None (QVar 0) (Some 0%N); mc_body := 1 |};
              {| mc_id := Me None (QFixed 1) (Some 0%N); mc_body := 2 |};
              {| mc_id := Me None (QVar 1) None; mc_body := 3 |} ]%N in
  option_map fst (get_match_for_measurement ms (Me None (QFixed 0) (Some 7%N))) = Some 0 /\
  option_map fst (get_match_for_measurement ms (Me None (QFixed 2) (Some 7%N))) = Some 1 /\
  option_map fst (get_match_for_measurement ms (Me None (QFixed 0) None)) = Some 3 /\
  get_match_for_measurement ms (Me (Some 5%N) (QFixed 0) None) = None /\
  chk_meas ms (Me None (QFixed 0) (Some 7%N)) (Some 0) = true /\
  chk_meas ms (Me None (QFixed 0) (Some 7%N)) (Some 1) = false.
Proof. vm_compute. repeat split; reflexivity. Qed.
