(** C13 — substitution, evaluation and memory-reference listing agree.
    Pinned statements only; proofs live in Proofs/ExprProofs.v.

    [expr L] is the expression AST with an arbitrary literal type [L]; [alg L C M] an arbitrary
    evaluation algebra (values [C], memory cells [M]); no algebraic law is used anywhere. *)
From Coq Require Import List NArith ZArith QArith Bool.
From QV Require Import Model.Expr Model.ExactNum Model.ExprCheck Proofs.ExprProofs.
Import ListNotations.

(** Substituting numbers for variables and then evaluating gives the same result (value or
    [Incomplete]) as evaluating with those numbers bound to the variables, the substitution
    taking precedence over the variable environment. *)
Theorem C13_subst_then_eval :
  forall (L C M : Type) (A : alg L C M)
         (rv : N -> option C) (rm : N -> option (list M)) (s : N -> option L) (e : expr L),
    eval A rv rm (subst (num_subst s) e) = eval A (env_union A rv s) rm e.
Proof. intros L C M A. exact (eval_subst_numeric A). Qed.

(** The general form for expression-valued substitutions, as [substitute_variables] allows. *)
Theorem C13_subst_then_eval_general :
  forall (L C M : Type) (A : alg L C M)
         (rv : N -> option C) (rm : N -> option (list M)) (s : N -> option (expr L)) (e : expr L),
    eval A rv rm (subst s e) = eval A (env_subst A rv rm s) rm e.
Proof. intros L C M A. exact (eval_subst A). Qed.

(** Draining the explicit-stack iterator started on [vec![e]] yields exactly the [Address]
    leaves of [e], with multiplicity, in left-to-right order. *)
Theorem C13_memrefs_are_address_leaves :
  forall (L : Type) (e : expr L), memrefs e = addrs e.
Proof. intros L. exact memrefs_preorder. Qed.

(** One step of the iterator, for every stack (not only the initial one): it never runs out of
    fuel, returns the first pending address and keeps exactly the remaining ones; when it returns
    [None] no address is pending. *)
Theorem C13_iterator_step :
  forall (L : Type) (fuel : nat) (st : list (expr L)),
    (stack_size st < fuel)%nat ->
    match mr_next fuel st with
    | None => flat st = []
    | Some (r, st') => flat st = r :: flat st' /\ (stack_size st' < stack_size st)%nat
    end.
Proof. intros L. exact mr_next_spec. Qed.

Theorem C13_iterator_fuel_irrelevant :
  forall (L : Type) (f1 f2 : nat) (st : list (expr L)),
    (stack_size st < f1)%nat -> (stack_size st < f2)%nat -> mr_next f1 st = mr_next f2 st.
Proof. intros L. exact mr_next_fuel_irrelevant. Qed.

(** Evaluation succeeds iff every variable occurring in [e] is bound and every referenced memory
    cell exists (region present and index below its length) — given that the arithmetic itself
    is total, as IEEE arithmetic is. *)
Theorem C13_eval_ok_iff_supplied :
  forall (L C M : Type) (A : alg L C M),
    infix_total A ->
    forall (rv : N -> option C) (rm : N -> option (list M)) (e : expr L),
      eval A rv rm e <> None <-> supplied rv rm e = true.
Proof. intros L C M A. exact (eval_defined_iff A). Qed.

(** The instance checker run on the implementation's outputs decides these clauses. *)
Theorem C13_checker_sound :
  forall e rv rm o,
    chk_c13 e rv rm o = true ->
    o_mrefs o = addrs e
    /\ (obs_ok (o_eval o) = true <-> supplied (rv_of rv) (rm_of rm) e = true)
    /\ obs_ok (o_eval_sub o) = obs_ok (o_eval_union o)
    /\ o_same_bits o = true.
Proof. exact chk_c13_sound. Qed.

(** Non-vacuity: the totality hypothesis is met by the exact algebra; a concrete expression with
    two variables and three address leaves, evaluated, substituted and listed. *)
Example C13_nonvacuous :
  infix_total exact_alg /\
  let e : expr gq :=
    Infix (Infix (Addr 1 1) Star (Var 0)) Plus (Fn Sin (Infix (Addr 2 0) Minus (Prefix PMinus (Addr 1 0)))) in
  let rm := rm_of [(1, [2 # 1; 1 # 2]); (2, [3 # 1])]%N in
  memrefs e = [(1, 1); (2, 0); (1, 0)]%N
  /\ supplied (rv_of [(0%N, (1 # 4, 0))]) rm e = true
  /\ supplied (rv_of []) rm e = false
  /\ eval exact_alg (rv_of []) rm (subst (num_subst (sg_of [(0%N, (1 # 4, 0))])) (Infix (Addr 1 1) Star (Var 0)))
     = Some (Some (1 # 8, 0)).
Proof. split; [exact exact_alg_total | vm_compute; repeat split; reflexivity]. Qed.
