(** C17 — calibration expansion is a complete, faithful substitution.
    Pinned statements only; proofs live in Proofs/CalExpandFullProofs.v.

    [instantiate cs i] is the model of "find the matching calibration of [i] and substitute" in
    [Calibrations::expand_inner]; [expand] / [expand_d] model [expand_inner] without / with the
    source-map bookkeeping; [expand_program] / [expand_program_sm] model
    [Program::expand_calibrations] / [expand_calibrations_with_source_map]. *)
From Coq Require Import List NArith ZArith Bool.
From QV Require Import Model.CalExpandFull Proofs.CalExpandFullProofs.
Import ListNotations.

(** Expansion computes exactly the independent big-step relation [Expands] (match, substitute,
    expand each body instruction; no match: the instruction stays), for every calibration set,
    expansion path and instruction. *)
Theorem C17_expand_sound :
  forall (cs : cals) (fuel : nat) (path : list instr) (i : instr) (r : option (list instr)),
    expand (instantiate cs) fuel path i = Ok r -> Expands (instantiate cs) path i r.
Proof. intros cs. exact (expand_sound (instantiate cs)). Qed.

Theorem C17_expand_complete :
  forall (cs : cals) (path : list instr) (i : instr) (r : option (list instr)),
    Expands (instantiate cs) path i r ->
    exists n, forall fuel, n <= fuel -> expand (instantiate cs) fuel path i = Ok r.
Proof. intros cs. exact (expand_complete (instantiate cs)). Qed.

Theorem C17_expands_deterministic :
  forall (cs : cals) (path : list instr) (i : instr) (r1 r2 : option (list instr)),
    Expands (instantiate cs) path i r1 -> Expands (instantiate cs) path i r2 -> r1 = r2.
Proof. intros cs. exact (Expands_deterministic (instantiate cs)). Qed.

(** "Expansion repeats until no body instruction has a match": nothing in a result has a matching
    calibration. *)
Theorem C17_fixpoint :
  forall (cs : cals) (fuel : nat) (path : list instr) (i : instr) (out : list instr),
    expand (instantiate cs) fuel path i = Ok (Some out) ->
    forall j, In j out -> instantiate cs j = None.
Proof.
  intros cs fuel path i out H. apply (Expands_fixpoint (instantiate cs) path i).
  exact (expand_sound (instantiate cs) fuel path i (Some out) H).
Qed.

(** Program level: the expanded body is the concatenation, in source order, of what each source
    instruction contributes ([i] itself when nothing matches, its expansion otherwise) with the
    declarations removed, and the declarations are inserted into the memory regions in that order. *)
Theorem C17_program_sound :
  forall (cs : cals) (fuel : nat) (p p' : program),
    expand_program (instantiate cs) fuel p = Ok p' ->
    exists outs,
      Forall2 (ExpandsTop (instantiate cs)) (body p) outs /\
      body p' = filter not_hoisted (concat outs) /\
      regions p' = fold_left (fun rs r => region_insert r rs)
                             (flat_map declared_region (concat outs)) (regions p).
Proof. intros cs. exact (expand_program_spec (instantiate cs)). Qed.

Theorem C17_program_complete :
  forall (cs : cals) (p : program) (outs : list (list instr)),
    Forall2 (ExpandsTop (instantiate cs)) (body p) outs ->
    exists n, forall fuel, n <= fuel ->
      expand_program (instantiate cs) fuel p = Ok (add_instructions (clone_without_body p) (concat outs)).
Proof. intros cs. exact (expand_program_complete (instantiate cs)). Qed.

(** "keeps unmatched instructions in order" *)
Theorem C17_unmatched_in_order :
  forall (cs : cals) (fuel : nat) (p p' : program),
    expand_program (instantiate cs) fuel p = Ok p' ->
    Subseq (filter not_hoisted (filter (fun i => negb (is_some (instantiate cs i))) (body p))) (body p').
Proof. intros cs. exact (expand_program_unmatched_in_order (instantiate cs)). Qed.

(** "hoists declarations out of the body" *)
Theorem C17_declarations_hoisted :
  forall (cs : cals) (fuel : nat) (p p' : program),
    expand_program (instantiate cs) fuel p = Ok p' ->
    (forall j, In j (body p') -> hoisted j = false) /\
    exists outs, Forall2 (ExpandsTop (instantiate cs)) (body p) outs /\
      forall nm ty ln, In (IDeclare nm ty ln) (concat outs) -> exists x, In (nm, x) (regions p').
Proof.
  intros cs fuel p p' H. split.
  - exact (expand_program_hoisted (instantiate cs) fuel p p' H).
  - exact (expand_program_declared (instantiate cs) fuel p p' H).
Qed.

(** "gives the same program with or without a source map": both at the level of one instruction
    ([build_source_map] on/off) and of the program. *)
Theorem C17_same_with_source_map :
  forall (cs : cals) (fuel : nat) (p : program),
    res_map fst (expand_program_sm (instantiate cs) fuel p) = expand_program (instantiate cs) fuel p.
Proof. intros cs. exact (expand_program_sm_program (instantiate cs)). Qed.

Theorem C17_same_with_detail :
  forall (cs : cals) (fuel : nat) (path : list instr) (i : instr),
    res_map detail_instrs (expand_d (instantiate cs) fuel path i) = expand (instantiate cs) fuel path i.
Proof. intros cs. exact (expand_d_sim (instantiate cs)). Qed.

(** Substitution clauses.  Gate calibration: every qubit position and every expression position of
    every body instruction is substituted, nothing else changes. *)
Theorem C17_gate_substitution :
  forall (c : gcal) (ps : list expr) (qs : list qubit), subst_gate c ps qs = spec_gate c ps qs.
Proof. exact subst_gate_spec. Qed.

(** Measurement calibration: the qubit replaces the qubit variable and the target replaces every
    use of the formal target name — for calibrations outside the named class
    [Known_measure_target_uses] (the formal name used elsewhere than a CAPTURE target / LOAD-MEMORY
    text); inside that class the statement fails (open finding measure-calibration-target-uses). *)
Definition C17_measure_substitution_full : Prop :=
  forall (c : mcal) (q : qubit) (t : option memref),
    Bool.eqb (is_some t) (is_some (mc_target c)) = true -> subst_meas c q t = spec_meas c q t.

Theorem C17_measure_substitution_restricted :
  forall (c : mcal) (q : qubit) (t : option memref),
    Known_measure_target_uses c = false ->
    Bool.eqb (is_some t) (is_some (mc_target c)) = true -> subst_meas c q t = spec_meas c q t.
Proof. exact subst_meas_spec. Qed.

Theorem C17_measure_substitution_refuted :
  exists (c : mcal) (q : qubit) (t : option memref),
    Known_measure_target_uses c = true /\ Bool.eqb (is_some t) (is_some (mc_target c)) = true /\
    subst_meas c q t <> spec_meas c q t.
Proof. exact subst_meas_spec_refuted. Qed.

(** Hence, when no measurement calibration is in the class, expansion is the big-step relation over
    the *specified* substitution. *)
Theorem C17_expand_is_specified :
  forall (cs : cals) (fuel : nat) (path : list instr) (i : instr) (r : option (list instr)),
    cals_clean cs = true ->
    expand (instantiate cs) fuel path i = Ok r -> Expands (instantiate_spec cs) path i r.
Proof.
  intros cs fuel path i r Hc H.
  apply (proj1 (Expands_ext (instantiate cs) (instantiate_spec cs) (fun j => instantiate_is_spec cs j Hc))).
  exact (expand_sound (instantiate cs) fuel path i r H).
Qed.

(** Substitution is complete: when every calibration binds all the variables of its body
    ([cals_scoped]) and the source body has no variables, no qubit or parameter variable survives
    in the expanded body. *)
Theorem C17_no_variable_survives :
  forall (cs : cals) (fuel : nat) (p p' : program),
    cals_scoped cs = true -> (forall i, In i (body p) -> closed_instr i = true) ->
    expand_program (instantiate cs) fuel p = Ok p' ->
    forall j, In j (body p') -> closed_instr j = true.
Proof. exact expand_program_closed. Qed.

(** ... and when formal target names are private to their calibration ([formals_private]) and no
    measurement calibration is in the known class, no use of a formal target name survives. *)
Theorem C17_no_formal_target_survives :
  forall (cs : cals) (fuel : nat) (p p' : program),
    formals_private cs p = true -> cals_clean cs = true ->
    expand_program (instantiate cs) fuel p = Ok p' ->
    forall j, In j (body p') -> mentions_none (formals cs) j = true.
Proof. exact expand_program_no_formal. Qed.

(** The instance checkers run on the implementation's output decide these clauses. *)
Theorem C17_checker_sound :
  forall (cs : cals) (p : program) (out : list instr),
    (chk_fixpoint cs out = true -> forall j, In j out -> instantiate cs j = None) /\
    (chk_closed cs (body p) out = true -> cals_scoped cs = true ->
     (forall i, In i (body p) -> closed_instr i = true) -> forall j, In j out -> closed_instr j = true) /\
    (chk_targets cs p out = true -> formals_private cs p = true ->
     forall j, In j out -> forall r, In r (instr_regions j) -> ~ In r (formals cs)) /\
    (chk_hoisted out = true -> forall j, In j out -> hoisted j = false) /\
    (chk_unmatched cs (body p) out = true ->
     Subseq (filter (fun i => negb (is_some (instantiate cs i))) (body p)) out).
Proof.
  intros cs p out. repeat split.
  - apply chk_fixpoint_sound.
  - apply chk_closed_sound.
  - apply chk_targets_sound.
  - apply chk_hoisted_sound.
  - apply chk_unmatched_sound.
Qed.

(** The flat-expansion checker run on the implementation's [Calibrations::expand]: when the
    specified body of the matching calibration needs no further expansion, acceptance means the
    implementation returned exactly the specified substitution (parameters paired with the
    calibration's variables by position), which is the specified expansion of the instruction. *)
Theorem C17_flat_checker_sound :
  forall (cs : cals) (i : instr) (o : option (list instr)) (body : list instr) (src : calsrc),
    chk_flat_spec cs i o = true ->
    instantiate_spec cs i = Some (body, src) -> (forall j, In j body -> instantiate_spec cs j = None) ->
    o = Some body /\ Expands (instantiate_spec cs) [] i o.
Proof. exact chk_flat_spec_sound. Qed.

(** Non-vacuity: [DEFCAL A(%t) q: B(%t) q; DECLARE mem BIT[1]; FENCE q] and [DEFCAL B(%s) r: DELAY r %s]
    applied to [A(2) 1; NOP] (names: A=1 B=2 t=3 q=4 s=5 r=6 mem=7). *)
Example C17_nonvacuous :
  let cs := {| gcals := [ {| gc_name := 1; gc_params := [EVar 3]; gc_qubits := [QV 4];
                             gc_body := [IGate 2 [EVar 3] [QV 4]; IDeclare 7 0 1; IFence [QV 4]] |};
                          {| gc_name := 2; gc_params := [EVar 5]; gc_qubits := [QV 6];
                             gc_body := [IDelay [QV 6] [] (EVar 5)] |} ];
               mcals := [] |}%N in
  let p := {| regions := []; body := [IGate 1 [ENum 2] [QF 1]; IOther 0] |}%N in
  expand_program (instantiate cs) 10 p =
    Ok {| regions := [(7, (0, 1))]; body := [IDelay [QF 1] [] (ENum 2); IFence [QF 1]; IOther 0] |}%N
  /\ cals_clean cs = true.
Proof. vm_compute. split; reflexivity. Qed.
