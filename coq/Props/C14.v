(** C14 — standard gate unitaries match the Quil specification.
    Pinned statements only; proofs live in Proofs/UnitaryProofs.v.

    Modelled: the FIXED gate tables of instruction/gate.rs (RZ: commit 3fa2e59, PSWAP: f4dcc9f) as
    symbolic matrices, `lifted_gate_matrix` / `permutation_arbitrary` / `two_swap_helper` /
    `qubit_adjacent_lifted_gate` on basis indices.  Not modelled: IEEE evaluation of cos / sin and
    the `ndarray` products (replaced by index reasoning: conjugating with a permutation matrix
    re-indexes).  Complex numbers are an abstract commutative ring with Euler's formula as a
    hypothesis — no real-number axioms. *)
From Coq Require Import List NArith Bool Ring ZArith.
From QV Require Import Model.Unitary Proofs.UnitaryProofs.
Import ListNotations.
Open Scope N_scope.

Section C14.
  (** Any commutative ring [C] with an element [ci], a value [cs] for 1/sqrt 2 and [ccis4] for
      e^{i pi/4}; angles [A] with halving and negation; cos, sin and cis on angles. *)
  Variables (C A : Type).
  Variables (c0 c1 ci cs ccis4 : C) (cadd cmul csub : C -> C -> C) (copp : C -> C).
  Variables (theta : A) (half aneg : A -> A) (ccos csin ccis : A -> C).
  Hypothesis Cring : ring_theory c0 c1 cadd cmul csub copp (@eq C).
  Hypothesis euler : forall a, ccis a = cadd (ccos a) (cmul ci (csin a)).
  Hypothesis cos_even : forall a, ccos (aneg a) = ccos a.
  Hypothesis sin_odd : forall a, csin (aneg a) = copp (csin a).

  (** (a) For every standard gate, the table written in the Rust source denotes the matrix of the
      Quil specification (RZ = diag(e^{-i theta/2}, e^{i theta/2}), PHASE-like gates e^{i theta},
      PSWAP's off-diagonal e^{i theta}, H = (1/sqrt 2)[[1,1],[1,-1]], ...), for every theta. *)
  Theorem C14_table :
    forall g : gate,
      denote_table C A c0 c1 ci cs ccis4 cadd cmul csub copp theta half aneg ccos csin ccis (model_table g)
      = denote_table C A c0 c1 ci cs ccis4 cadd cmul csub copp theta half aneg ccos csin ccis (spec_table g).
  Proof.
    exact (table_equal C A c0 c1 ci cs ccis4 cadd cmul csub copp theta half aneg ccos csin ccis
             Cring euler cos_even sin_odd).
  Qed.

  (** (a) + (b) Entry (r, c) of the modelled `Gate::to_unitary` equals the specification's matrix
      lifted with qubit 0 as the least significant bit — every standard gate, every theta, every
      injective placement into n <= 5 qubits. *)
  Theorem C14_unitary :
    forall (g : gate) (qs : list N) (n r c : N),
      n <= 5 -> N.of_nat (length qs) = arity g -> NoDup qs -> (forall q, In q qs -> q < n) ->
      r < 2 ^ n -> c < 2 ^ n ->
      unitary_model C A c0 c1 ci cs ccis4 cadd cmul csub copp theta half aneg ccos csin ccis g qs n r c
      = Done (unitary_spec C A c0 c1 ci cs ccis4 cadd cmul csub copp theta half aneg ccos csin ccis g qs n r c).
  Proof.
    exact (unitary_model_spec C A c0 c1 ci cs ccis4 cadd cmul csub copp theta half aneg ccos csin ccis
             Cring euler cos_even sin_odd).
  Qed.
End C14.

(** (b) Lifting, parametric in the matrix (only indices are computed).  For all n <= 5 — the
    property's own bound; proved by a kernel-checked sweep over every placement and every index
    pair — and every injective placement of at most 3 qubits: the literal model of
    `permutation_arbitrary` terminates, does not panic, and
    lifted M qs n r c = M[bits_qs r][bits_qs c] * [r, c agree off qs], first listed qubit most
    significant in M's index, qubit 0 least significant in r, c. *)
Theorem C14_lift :
  forall (n : N) (qs : list N) (r c : N),
    n <= 5 -> (1 <= length qs <= 3)%nat -> NoDup qs -> (forall q, In q qs -> q < n) ->
    r < 2 ^ n -> c < 2 ^ n ->
    lift_idx_model qs (N.of_nat (length qs)) n r c = Done (lift_idx_spec qs n r c).
Proof.
  intros n qs r c Hn Hlen Hnd Hlt. apply lift_model_spec; [exact Hn|].
  now apply valid_placement_intro.
Qed.

(** The instance checker run on the implementation's observed matrices. *)
Theorem C14_checker_sound : forall x : case14, case14_verdict x = 0 -> Case14OK x.
Proof. exact case14_sound. Qed.

(** Non-vacuity: the hypotheses are satisfiable (the ring Z with the trivial interpretation
    theta = 0); CNOT 0 2 in a 3-qubit space: the model needs two adjacent transpositions and agrees
    with the specification's index function. *)
Example C14_hypotheses_satisfiable :
  ring_theory 0%Z 1%Z Z.add Z.mul Z.sub Z.opp (@eq Z) /\
  (forall a : unit, (fun _ => 1%Z) a = Z.add ((fun _ => 1%Z) a) (Z.mul 0%Z ((fun _ => 0%Z) a))) /\
  (forall a : unit, (fun _ : unit => 0%Z) a = Z.opp ((fun _ => 0%Z) a)).
Proof. split; [exact Zth|]. split; intros []; reflexivity. Qed.

Example C14_nonvacuous :
  permutation_arbitrary [0; 2] 3 = Done ([0; 1], 1) /\
  lift_idx_model [0; 2] 2 3 5 1 = Done (Some (3, 2)) /\
  lift_idx_spec [0; 2] 3 5 1 = Some (3, 2) /\
  lift_idx_spec [0; 2] 3 5 3 = None /\
  tget (spec_table GCNOT) 3 2 = E1.
Proof. vm_compute. repeat split; reflexivity. Qed.
