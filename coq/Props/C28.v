(** C28 — the control-flow graph partitions the body and locates its blocks.
    Pinned statements only; proofs live in Proofs/CfgProofs.v.

    [blocks body] is the model of [ControlFlowGraph::from(&program).into_blocks()] (the fold,
    literally, with the repaired offset arithmetic); [strip body] is the body without the
    instructions of the Rust's do-nothing arm ([Skip]: INCLUDE, and the definition-like variants,
    which [Program::add_instruction] never lets into the body). *)
From Coq Require Import List NArith Bool Arith.
From QV Require Import Model.Cfg Proofs.CfgProofs.
Import ListNotations.

(** Writing each block as label, instructions, terminator, in order, reproduces the body exactly,
    [Skip] items (INCLUDE) excepted — for every body. *)
Theorem C28_flatten_is_body :
  forall body : list item, flatten (blocks body) = strip body.
Proof. intros body. exact (proj1 (blocks_props body)). Qed.

(** [strip] drops nothing else: without INCLUDE the flattening is the body itself. *)
Theorem C28_flatten_exact_without_include :
  forall body : list item, (forall k, ~ In (Skip k) body) -> flatten (blocks body) = body.
Proof.
  intros body H. rewrite (proj1 (blocks_props body)). now apply strip_noskip.
Qed.

(** Terminators: no block is empty, and a block whose terminator is [Continue] (fall-through) is
    the last block or is followed by a labelled block.  Together with the flattening theorem this
    says that a block ends exactly at its JUMP / JUMP-WHEN / JUMP-UNLESS / HALT, or before the next
    LABEL, or at the end of the body. *)
Theorem C28_blocks_well_formed :
  forall body : list item, WF (blocks body).
Proof. intros body. apply chk_wf_WF. exact (proj1 (proj2 (blocks_props body))). Qed.

(** Dynamic control flow is reported iff the body contains a conditional jump. *)
Theorem C28_dynamic_iff_conditional_jump :
  forall body : list item,
    has_dynamic (blocks body) = true <->
    exists it, In it body /\ (exists l c, it = JmpWhen l c \/ it = JmpUnless l c).
Proof.
  intros body. destruct (blocks_props body) as (_ & _ & _ & D). rewrite D.
  apply is_cond_HasCond.
Qed.

(** Offsets.  For the k-th block [b] (after the blocks [pre], before [post]):
    its offset is the sum of the sizes (label + instructions + terminator) of the earlier blocks;
    from that position on, the INCLUDE-free body reads: [b]'s label, instructions, terminator,
    then the later blocks; the terminator instruction sits right after the instructions, and after
    a fall-through block comes a LABEL or the end. *)
Theorem C28_offset_locates_block :
  forall (body : list item) (pre : list blk) (b : blk) (post : list blk),
    blocks body = pre ++ b :: post ->
    b_offset b = list_sum (map blk_size pre)
    /\ skipn (b_offset b) (strip body) = blk_items b ++ flatten post
    /\ skipn (b_offset b + lab_len (b_label b) + length (b_instrs b)) (strip body)
       = term_items (b_term b) ++ flatten post
    /\ (b_term b = TContinue -> flatten post = [] \/ exists l r, flatten post = Lbl l :: r).
Proof. exact blocks_located. Qed.

(** When no INCLUDE occurs, the offset is the body position of the block's first element. *)
Theorem C28_offset_is_body_position :
  forall (body : list item) (pre : list blk) (b : blk) (post : list blk),
    (forall k, ~ In (Skip k) body) ->
    blocks body = pre ++ b :: post ->
    skipn (b_offset b) body = blk_items b ++ flatten post.
Proof.
  intros body pre b post Hns Heq.
  destruct (blocks_located body pre b post Heq) as (_ & H & _).
  now rewrite (strip_noskip body Hns) in H.
Qed.

(** The instance checker run on the implementation's block list decides exactly the property
    ([Spec]: flattening, well-formedness, every offset = instructions written before it, the
    dynamic flag). *)
Theorem C28_checker_sound_and_complete :
  forall (body : list item) (bs : list blk) (dyn : bool),
    chk_cfg body bs dyn = true <-> Spec body bs dyn.
Proof. exact chk_cfg_spec. Qed.

(** The property determines the block list: whatever satisfies it is the model's output. *)
Theorem C28_partition_unique :
  forall (body : list item) (bs : list blk) (dyn : bool),
    Spec body bs dyn -> bs = blocks body /\ dyn = has_dynamic (blocks body).
Proof. exact spec_unique. Qed.

Theorem C28_model_meets_spec :
  forall body : list item, Spec body (blocks body) (has_dynamic (blocks body)).
Proof. exact blocks_spec. Qed.

(** Non-vacuity: [X 0; LABEL @a; Y 0; LABEL @b; Z 0; JUMP-WHEN @a ro[0]; HALT]. *)
Example C28_nonvacuous :
  let body := [Plain 0; Lbl 0; Plain 1; Lbl 1; Plain 2; JmpWhen 0 0; Hlt]%N in
  blocks body =
    [mkblk None [0%N] 0 TContinue; mkblk (Some 0%N) [1%N] 1 TContinue;
     mkblk (Some 1%N) [2%N] 3 (TCond false 0%N 0%N); mkblk None [] 6 THalt]
  /\ chk_cfg body (blocks body) true = true.
Proof. vm_compute. split; reflexivity. Qed.

(** The offset arithmetic of the snapshot commit ("+1 for the label" also when the closed block
    has no label) violates the property: offsets [0;2;4] instead of the body positions [0;1;3]. *)
Example C28_unfixed_offsets_refuted :
  let body := [Plain 0; Lbl 0; Plain 1; Lbl 1; Plain 2]%N in
  map b_offset (blocks_unfixed body) = [0; 2; 4]
  /\ map b_offset (blocks body) = [0; 1; 3]
  /\ chk_cfg body (blocks_unfixed body) false = false.
Proof. vm_compute. repeat split; reflexivity. Qed.

(** INCLUDE is not counted by the offsets: with an INCLUDE in front, the offset is the position in
    the INCLUDE-free body (0), not the position in the body (1). *)
Example C28_include_not_counted :
  let body := [Skip 7; Lbl 0; Plain 0]%N in
  map b_offset (blocks body) = [0] /\ nth_error body 0 = Some (Skip 7%N)
  /\ nth_error (strip body) 0 = Some (Lbl 0%N).
Proof. vm_compute. repeat split; reflexivity. Qed.
