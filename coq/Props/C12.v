(** C12 — expression simplification preserves the expression's value.
    Pinned statements only; proofs live in Proofs/SimplifyProofs.v and Proofs/SimplifyQc.v.

    [field_model] bundles a carrier with field operations, a decidable equality, a partial power,
    the simplifier's folding function / tests, and the laws used: the field axioms
    ([field_theory]), [is_zero x = true -> x = 0], [is_one x = true -> x = 1], literal equality
    sound, folding agrees with evaluation where evaluation is defined, and
    [x^0 = 1], [x^1 = x], [1^y = 1], [0^y = 0 for y <> 0] wherever the power is defined.  Nothing
    is assumed about the functions sin/cos/exp/sqrt/cis.  Division by zero is undefined
    ("evaluates to a finite value" = [fm_eval] returns [Some]).
    [fm_run] is the model of [simplification::run] (Model/Simplify.v): the rule list in source
    order, LIMIT = 10, and the memo table, which is keyed by the expression but not by the limit
    and is therefore observable. *)
From Coq Require Import List NArith ZArith QArith Qcanon Bool.
From QV Require Import Model.Expr Model.ExactNum Model.Simplify Model.SimplifyExec
                       Proofs.SimplifyProofs Proofs.SimplifyQc.
Import ListNotations.

(** Value preservation, in every field model, under every assignment: if [e] evaluates to [v]
    and no firing of the arm [0^x -> 0] had an exponent evaluating to 0 (the excluded class,
    known finding zero-base-power), the simplified expression evaluates to [v]. *)
Theorem C12_value :
  forall (F : field_model) (rv : N -> option (fm_C F)) (rm : N -> option (list (fm_C F)))
         (e : expr (fm_C F)) (v : fm_C F),
    fm_eval F rv rm e = Some v ->
    fm_known_zero_pow F rv rm e = false ->
    fm_eval F rv rm (fm_run F e) = Some v.
Proof. exact fm_value. Qed.

(** The full statement (without the exclusion) is false of the faithful model, in a model that
    satisfies every hypothesis: 0^0 evaluates to 1 and simplifies to 0. *)
Definition C12_value_full : Prop :=
  forall (F : field_model) rv rm (e : expr (fm_C F)) (v : fm_C F),
    fm_eval F rv rm e = Some v -> fm_eval F rv rm (fm_run F e) = Some v.

Theorem C12_zero_pow_refuted : ~ C12_value_full.
Proof.
  intro H.
  destruct qc_zero_pow_counterexample as (H1 & H0 & _ & Hne).
  specialize (H qc_model (fun _ => None) (fun _ => None) _ _ H1).
  rewrite H0 in H. apply Hne. congruence.
Qed.

(** The same on the exact carrier used to execute the model against the implementation
    ([Complex64::powc] returns 1 for a zero exponent), with a non-constant exponent. *)
Theorem C12_zero_pow_refuted_exec :
  let e : sx := Infix (Num sv_zero) Caret (Infix (Var 0) Minus (Var 0)) in
  let rv := fun _ : N => Some (SEx ((5 # 2)%Q, 0%Q)) in
  eval sv_alg rv (fun _ => None) e = Some sv_one
  /\ eval sv_alg rv (fun _ => None) (x_run e) = Some sv_zero.
Proof. vm_compute. split; reflexivity. Qed.

(** Simplification never introduces a variable or a memory reference. *)
Theorem C12_no_new_names :
  forall (F : field_model) (e : expr (fm_C F)),
    incl (vars (fm_run F e)) (vars e) /\ incl (addrs (fm_run F e)) (addrs e).
Proof. exact fm_names. Qed.

(** The result is never the bare symbol pi (the code's documented invariant "never returns
    PiConstant"; true since fix 7232075, which the model includes). *)
Theorem C12_never_bare_pi :
  forall (F : field_model) (e : expr (fm_C F)), fm_run F e <> Pi.
Proof. exact fm_never_bare_pi. Qed.

(** For inputs of nesting depth at most LIMIT = 10 the result contains no symbol pi at all. *)
Theorem C12_no_pi :
  forall (F : field_model) (e : expr (fm_C F)),
    (depth e <= LIMIT)%nat -> has_pi (fm_run F e) = false.
Proof. exact fm_pi_free. Qed.

(** Regression witness of the fixed finding pi-survives-limit (nine times [0 + _] around
    [(%x * pi) / %x] used to simplify to the bare symbol), and the reason for the depth bound in
    [C12_no_pi]: below the limit an interior pi is left alone. *)
Example C12_pi_examples :
  x_run (zero_plus 9 (Infix (Infix (Var 0) Star Pi) Slash (Var 0))) = Num SPi
  /\ has_pi (x_run (zero_plus 10 (Infix (Var 0) Star Pi))) = true.
Proof. vm_compute. split; reflexivity. Qed.

(** Every step the simplifier takes is one of the listed rewrites (one constructor of [rw] per
    arm), and each rewrite preserves the value (lemmas [P_*] in Proofs/SimplifyProofs.v); this is
    the statement the two theorems above are derived from. *)
Theorem C12_steps_are_rewrites :
  forall (F : field_model) (e : expr (fm_C F)),
    rw (fm_C F) (fm_0 F) (fm_1 F) (fm_add F) (fm_opp F) (fm_pi F) (fm_nan F) (fm_fun F)
       (fm_cop F) (fm_is_zero F) (fm_is_one F)
       (hits (snd (fm_run_st F e))) e (fm_run F e).
Proof.
  intros F e.
  exact (run_rw (fm_C F) (fm_0 F) (fm_1 F) (fm_add F) (fm_opp F) (fm_pi F) (fm_nan F) (fm_fun F)
           (fm_cop F) (fm_is_zero F) (fm_is_one F) (fm_ceqb F) (fm_ceqb_sound F) e).
Qed.

(** The instance checker run on the implementation's result decides the clauses that need no
    arithmetic. *)
Theorem C12_checker_sound :
  forall e out : sx,
    chk_c12 e out = true ->
    out <> Pi /\ (forall x, In x (vars out) -> In x (vars e))
    /\ (forall r, In r (addrs out) -> In r (addrs e)).
Proof. exact chk_c12_sound. Qed.

(** Non-vacuity: the hypotheses are satisfiable ([qc_model] is a field model over the canonical
    rationals), and on it a non-trivial input meets the premises of [C12_value]:
    (x*2 + 1) + (x*3 + 1/2) at x = 5/2 evaluates to 14, is outside the excluded class, and is
    simplified to a 5-node expression. *)
Example C12_nonvacuous :
  let x : expr Qc := Var 0 in
  let q (a : Z) (p : positive) := Num (Q2Qc (a # p)) : expr Qc in
  let e := Infix (Infix (Infix x Star (q 2%Z 1%positive)) Plus (q 1%Z 1%positive)) Plus
                 (Infix (Infix x Star (q 3%Z 1%positive)) Plus (q 1%Z 2%positive)) in
  let rv := fun _ : N => Some (Q2Qc (5 # 2)) in
  fm_known_zero_pow qc_model rv (fun _ => None) e = false
  /\ fm_eval qc_model rv (fun _ => None) e = Some (Q2Qc (14 # 1))
  /\ size (fm_run qc_model e) = 5%nat.
Proof. exact qc_affine_example. Qed.
