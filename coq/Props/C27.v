(** C27 — reported memory accesses match each instruction's semantics.
    Pinned statements only; proofs live in Proofs/MemAccessProofs.v.

    [accesses sigs i] is the model of [DefaultHandler::memory_accesses] (with
    [Call::default_memory_accesses]); [exec] is the operational semantics of Model/ClassicalSem.v.
    The semantic theorems are stated inside a Section whose variables — the value type and the
    meaning of every literal, operator, function, extern function, and of the data delivered by
    measurements/captures — become universally quantified premises: they hold for EVERY
    interpretation. *)
From Coq Require Import List NArith ZArith Bool.
From QV Require Import Model.MemAccess Model.ClassicalSem Proofs.MemAccessProofs.
Import ListNotations.

Section C27.
  Variable V : Type.
  Variable lit : N -> V.
  Variable pi_v : V.
  Variable var_v : N -> V.
  Variable fun_sem prefix_sem : N -> V -> V.
  Variable infix_sem : N -> V -> V -> V.
  Variable arith_sem logic_sem cmp_sem : N -> V -> V -> V.
  Variable unary_sem : N -> V -> V.
  Variable convert_sem : V -> V.
  Variable truthy : V -> bool.
  Variable to_index : V -> N.
  Variable len : N -> nat.
  Variable incoming : list V.
  Variable extern_sem : N -> list (argval V) -> list (argval V).

  Notation exec := (exec V lit pi_v var_v fun_sem prefix_sem infix_sem arith_sem logic_sem cmp_sem
                         unary_sem convert_sem truthy to_index len incoming extern_sem).

  (** Soundness of [reads]: two memories that agree on the reported read regions make the
      instruction do exactly the same — same assignments (cell and value), same captured cells,
      same branch decision, same values handed to gates / pulses / delays. *)
  Theorem C27_reads_sound :
    forall sigs i a (s1 s2 : state V),
      accesses sigs i = Some a -> agree_on V (a_reads a) s1 s2 -> exec sigs i s1 = exec sigs i s2.
  Proof. exact (exec_sound V lit pi_v var_v fun_sem prefix_sem infix_sem arith_sem logic_sem cmp_sem
                           unary_sem convert_sem truthy to_index len incoming extern_sem). Qed.

  (** Every cell assigned from within the processor lies in a region reported as written; every
      cell filled from outside (MEASURE / CAPTURE / RAW-CAPTURE) in a region reported as captured. *)
  Theorem C27_writes_captures_cover :
    forall sigs i a (s : state V) o,
      accesses sigs i = Some a -> exec sigs i s = Some o ->
      writes_within V (o_upd o) (a_writes a) /\ writes_within V (o_cap o) (a_captures a).
  Proof. exact (exec_frame V lit pi_v var_v fun_sem prefix_sem infix_sem arith_sem logic_sem cmp_sem
                           unary_sem convert_sem truthy to_index len incoming extern_sem). Qed.

  (** Frame: regions outside writes ∪ captures are unchanged by executing the instruction. *)
  Theorem C27_frame :
    forall sigs i a (s : state V) o r j,
      accesses sigs i = Some a -> exec sigs i s = Some o ->
      ~ In r (a_writes a ++ a_captures a) -> step V s o r j = s r j.
  Proof. exact (step_frame V lit pi_v var_v fun_sem prefix_sem infix_sem arith_sem logic_sem cmp_sem
                           unary_sem convert_sem truthy to_index len incoming extern_sem). Qed.

  (** The instance checker: a reported triple it does not flag as unsound (code 2) satisfies
      soundness and cover for every interpretation. *)
  Theorem C27_checker_sound :
    forall sigs i o,
      chk_access sigs i (Some o) <> 2%N ->
      (forall (s1 s2 : state V), agree_on V (a_reads o) s1 s2 -> exec sigs i s1 = exec sigs i s2) /\
      (forall (s : state V) oc, exec sigs i s = Some oc ->
          writes_within V (o_upd oc) (a_writes o) /\ writes_within V (o_cap oc) (a_captures o)).
  Proof. exact (chk_access_sound V lit pi_v var_v fun_sem prefix_sem infix_sem arith_sem logic_sem cmp_sem
                                 unary_sem convert_sem truthy to_index len incoming extern_sem). Qed.
End C27.

(** CALL, for a call whose argument count matches the signature [sg] = (has return, parameters
    (mutable, vector)): every passed region is read; the return slot is written; every region
    passed to a mutable parameter is written; nothing else is reported. *)
Theorem C27_call_rule :
  forall sigs name args sg a,
    sig_lookup sigs name = Some sg -> length args = length (call_flags sg) ->
    accesses sigs (ICall name args) = Some a ->
    (forall x r, In x args -> In r (arg_region x) -> In r (a_reads a)) /\
    (fst sg = true -> forall x r, nth_error args 0 = Some x -> In r (arg_region x) -> In r (a_writes a)) /\
    (forall n x p r, nth_error args (n + (if fst sg then 1 else 0)) = Some x -> nth_error (snd sg) n = Some p ->
                     fst p = true -> In r (arg_region x) -> In r (a_writes a)) /\
    (forall r, In r (a_reads a) -> exists x, In x args /\ In r (arg_region x)) /\
    (forall r, In r (a_writes a) -> exists n x w, nth_error args n = Some x /\
                                     nth_error (call_flags sg) n = Some w /\ fst w = true /\ In r (arg_region x)) /\
    a_captures a = [].
Proof. exact call_accesses_rule. Qed.

(** CALL fails exactly when the extern is unknown (argument count and types are NOT checked). *)
Theorem C27_call_error_iff_unknown :
  forall sigs name args, accesses sigs (ICall name args) = None <-> sig_lookup sigs name = None.
Proof. exact call_error_iff_unknown. Qed.

(** Expressions: every memory reference of every expression embedded in an instruction (gate
    parameters, SET-*/SHIFT-* values, DELAY / RAW-CAPTURE durations, waveform parameters, matrix
    entries, DEFCAL parameters, gates of a DEFGATE AS SEQUENCE, DEFFRAME attribute values,
    PAULI-SUM coefficients) is reported as read — for expressions of any nesting depth.
    Unconditional since fix 5c78b87. *)
Theorem C27_expressions_reported :
  forall sigs i a e m,
    accesses sigs i = Some a -> In e (instr_exprs i) -> In m (memrefs e) -> In (mreg m) (a_reads a).
Proof. exact exprs_reported. Qed.

(** Regression statement: the table as it was before the fix ([accesses_unfixed]: DEFFRAME and
    DEFGATE AS PAULI-SUM report nothing) violates the statement above. *)
Theorem C27_unfixed_table_refuted :
  exists sigs i a e m,
    accesses_unfixed sigs i = Some a /\ In e (instr_exprs i) /\ In m (memrefs e) /\ ~ In (mreg m) (a_reads a).
Proof. exact unfixed_table_refuted. Qed.

(** The explicit-stack iterator [MemoryReferences::next] yields exactly the references of the
    expression, left to right. *)
Theorem C27_iterator_is_memrefs : forall e, memrefs_iter e = memrefs e.
Proof. exact memrefs_iter_correct. Qed.

(** Definitions (DEFCAL, DEFCIRCUIT, DEFCAL MEASURE): the union of the body's accesses (plus the
    DEFCAL parameters' reads), and an error iff some body instruction errs. *)
Theorem C27_definition_union :
  forall sigs k ps body a,
    accesses sigs (IBlock k ps body) = Some a ->
    acc_le (block_init k ps) a /\
    (forall x, In x body -> exists b, accesses sigs x = Some b /\ acc_le b a) /\
    (forall r, In r (a_reads a) ->
       In r (a_reads (block_init k ps)) \/ exists x b, In x body /\ accesses sigs x = Some b /\ In r (a_reads b)) /\
    (forall r, In r (a_writes a) -> exists x b, In x body /\ accesses sigs x = Some b /\ In r (a_writes b)) /\
    (forall r, In r (a_captures a) -> exists x b, In x body /\ accesses sigs x = Some b /\ In r (a_captures b)).
Proof. exact block_union. Qed.

Theorem C27_definition_error :
  forall sigs k ps body,
    accesses sigs (IBlock k ps body) = None <-> exists x, In x body /\ accesses sigs x = None.
Proof. exact block_error. Qed.

(** Tightness ("exactly"): for every executable instruction kind there is a generic instance
    (distinct regions) such that each reported read region, changed alone, changes what the
    instruction does, and each reported written / captured region really receives a value. *)
Theorem C27_tightness :
  Forall (Tight ZSem.wsigs) ZSem.witnesses /\
  (forall k, k < 16 -> exists i, In i ZSem.witnesses /\ ctor_id i = k).
Proof. split; [exact witnesses_tight | exact witnesses_cover]. Qed.

(** Checker verdict 0 means the reported sets are exactly the table's sets. *)
Theorem C27_checker_exact :
  forall sigs i o,
    chk_access sigs i (Some o) = 0%N ->
    exists a, accesses sigs i = Some a /\
              (forall r, In r (a_reads o) <-> In r (a_reads a)) /\
              (forall r, In r (a_writes o) <-> In r (a_writes a)) /\
              (forall r, In r (a_captures o) <-> In r (a_captures a)).
Proof. exact chk_access_exact. Qed.

(** Non-vacuity: the hypotheses are met and the conclusions are not trivial. *)
Example C27_nonvacuous :
  accesses ZSem.wsigs (ICall 0 [ARef (0, 0); AIdent 1; ARef (2, 0); AIdent 3])%N
  = Some ([0; 1; 2; 3], [0; 1; 3], [])%N
  /\ accesses [] (IStore 0 (1, 0) (ORef (2, 0)))%N = Some ([1; 2], [0], [])%N
  /\ accesses [] (IBlock KDefCal [EAddr (2, 1)] [ICapture (0, 0) [EInfix 1 (EAddr (1, 0)) EPi]; IMeasure (Some (1, 1))])%N
     = Some ([2; 1], [], [0; 1])%N
  /\ memrefs_iter (EInfix 0 (EInfix 1 (EAddr (0, 0)) (EFun 2 (EAddr (1, 1)))) (EPrefix 1 (EAddr (2, 0))))%N
     = [(0, 0); (1, 1); (2, 0)]%N
  /\ ZSem.exec [] (IStore 0 (1, 0) (ORef (2, 0)))%N (fun r _ => Z.of_N r)
     = Some {| o_upd := [((0, 1)%N, 2%Z)]; o_cap := []; o_branch := None; o_obs := [] |}.
Proof. vm_compute. repeat split; reflexivity. Qed.
