(** C05 -- numeric literals are parsed to their exact value or rejected.
    Pinned statements only; proofs live in Proofs/LexNumProofs.v; model in Model/LexNum.v.
    Level: proof for integers; PARTIAL for decimal -> binary64 rounding (the rounding itself is the
    lexical crate's contract: it is not proved but checked on every explored literal by the
    verified exact-arithmetic checker [chk_nearest]). *)
From Coq Require Import List NArith ZArith Bool.
From QV Require Import Model.LexNum Proofs.LexNumProofs.
Import ListNotations.
Open Scope N_scope.

(** Every integer token is the exact value of a well-formed integer literal: the text splits into
    an optional base prefix (0b/0o/0x, either case; none = decimal), a non-empty body of digits
    of that radix and separators containing at least one digit, and the rest; the token value is the Horner value of the body's
    digits, and it is below 2^64 -- never wrapped or truncated.  For ALL byte strings. *)
Theorem C05_int : forall (l : list N) (v : N) (rest : list N),
  lex_number l = NOk (TInt v) rest -> int_literal l v rest /\ v < two64.
Proof. exact lex_number_int. Qed.

(** The u64 accumulation with overflow detection succeeds exactly when the unbounded value of the
    digits is below 2^64, and then returns that value. *)
Theorem C05_accumulate_exact : forall (r : N) (ds : list N),
  1 <= r ->
  (horner r 0 ds < two64 -> acc_u64 r 0 ds = Some (horner r 0 ds)) /\
  (acc_u64 r 0 ds = None -> two64 <= horner r 0 ds).
Proof.
  intros r ds Hr. split; [apply acc_u64_complete; exact Hr | apply acc_u64_none; exact Hr].
Qed.

(** In particular the body contains at least one digit: a base prefix followed by separators only
    (0x_ -- the finding c05-prefix-without-digits, since fixed) is rejected. *)
Theorem C05_int_has_digit : forall (l : list N) (v : N) (rest : list N),
  lex_number l = NOk (TInt v) rest ->
  exists pre r body, l = pre ++ body ++ rest /\ radix_prefix pre r /\ digits_of r body <> [].
Proof.
  intros l v rest H. destruct (proj1 (lex_number_int l v rest H)) as (pre & r & body & Hl & Hp & Hd & _).
  now exists pre, r, body.
Qed.

Example C05_prefix_without_digits_rejected :
  lex_number [48; 120; 95] = NFail /\ lex_number [48; 98; 95; 50] = NFail.
Proof. vm_compute. split; reflexivity. Qed.

(** Decimal literals always contain a digit. *)
Theorem C05_decimal_int : forall (l : list N) (v : N) (rest : list N),
  lex_decimal l = NOk (TInt v) rest ->
  exists body, l = body ++ rest /\ body <> [] /\ Forall (char_ok 10) body /\
               v = horner 10 0 (digits_of 10 body) /\ v < two64 /\ run_stops 10 rest /\
               not_float_marker rest /\ digits_of 10 body <> [].
Proof. exact lex_decimal_int. Qed.

(** Lexer-level kind preservation: a float token only arises from decimal text with a decimal point
    or exponent marker right after the integer digits (never from a prefixed literal). *)
Theorem C05_float_kind : forall (l : list N) (m : N) (e : Z) (rest : list N),
  lex_number l = NOk (TFloat m e) rest ->
  exists ib c tl, l = ib ++ c :: tl /\ Forall (char_ok 10) ib /\ (c = c_DOT \/ c = c_e \/ c = c_E).
Proof. exact lex_number_float. Qed.

(** Every float token carries the exact decimal value of a well-formed float literal: the text
    splits into integer part, optional point + fraction part, optional exponent part (e|E,
    optional sign, at least one digit) and the rest, each part a run of decimal digits and
    separators, at least one mantissa digit; m is the Horner value of all mantissa digits and
    e = (signed exponent) - (number of fraction digits), so the literal's value is m * 10^e; and
    that value does not round to infinity.  For ALL byte strings. *)
Theorem C05_float_value : forall (l : list N) (m : N) (e : Z) (rest : list N),
  lex_number l = NOk (TFloat m e) rest -> float_literal l m e rest.
Proof. exact lex_number_float_literal. Qed.

(** The signed conversion: the result is exactly +v or -v and lies in the i64 range; a value
    outside the range is an error, never a wrapped value; inside the range it always succeeds
    (including -2^63). *)
Theorem C05_operand : forall (neg : bool) (v : N) (z : Z),
  signed_operand neg v = Some z ->
  z = (if neg then - Z.of_N v else Z.of_N v)%Z /\ (- two63 <= z < two63)%Z.
Proof. exact signed_operand_ok. Qed.

Theorem C05_operand_rejects : forall (neg : bool) (v : N),
  signed_operand neg v = None ->
  let x := (if neg then - Z.of_N v else Z.of_N v)%Z in (x < - two63 \/ two63 <= x)%Z.
Proof. exact signed_operand_err. Qed.

Theorem C05_operand_accepts : forall (neg : bool) (v : N),
  let x := (if neg then - Z.of_N v else Z.of_N v)%Z in
  (- two63 <= x < two63)%Z -> signed_operand neg v = Some x.
Proof. exact signed_operand_total. Qed.

(** Parser-level kind preservation: an integer operand comes from an Integer token (with an
    optional minus), a real operand from a Float token; the logic operand parser never yields a
    real. *)
Theorem C05_kind_arith_int : forall (ts : list tok) (z : Z) (rest : list tok),
  arith_operand ts = Some (OInt z, rest) ->
  exists neg v, ts = sign_prefix neg ++ KNum (TInt v) :: rest /\ signed_operand neg v = Some z.
Proof. exact arith_operand_int. Qed.

Theorem C05_kind_arith_real : forall (ts : list tok) (neg : bool) (m : N) (e : Z) (rest : list tok),
  arith_operand ts = Some (OReal neg m e, rest) -> ts = sign_prefix neg ++ KNum (TFloat m e) :: rest.
Proof. exact arith_operand_real. Qed.

Theorem C05_kind_logic_int : forall (ts : list tok) (z : Z) (rest : list tok),
  logic_operand ts = Some (OInt z, rest) ->
  exists neg v, ts = sign_prefix neg ++ KNum (TInt v) :: rest /\ signed_operand neg v = Some z.
Proof. exact logic_operand_int. Qed.

Theorem C05_kind_logic_never_real : forall (ts : list tok) (neg : bool) (m : N) (e : Z) (rest : list tok),
  logic_operand ts <> Some (OReal neg m e, rest).
Proof. exact logic_operand_never_real. Qed.

(** Reals.  FULL statement (not proved: it is the lexical crate's contract): the binary64 carried
    by every float token is a nearest binary64 to the literal's decimal value, for an oracle
    [bits_of_literal] standing for lexical's conversion. *)
Definition C05_real_full (bits_of_literal : N -> Z -> N) : Prop :=
  forall m e, chk_nearest m e (bits_of_literal m e) = true.

(** PARTIAL: what is proved is the soundness of the instance checker that the correspondence runs
    on every float the implementation produced: if it accepts [bits] for the decimal value
    m * 10^e, then (unless the value is 0 or far below the subnormal range, where it demands +0)
    the finite binary64 with that bit pattern is at least as close to the value as EVERY finite
    non-negative binary64 (values in units of 2^-1074, value = num / den). *)
Theorem C05_nearest_partial : forall (m : N) (e : Z) (bits : N),
  chk_nearest m e bits = true ->
  (m = 0 /\ bits = 0) \/
  ((e < 0)%Z /\ (Z.of_N (bits_of m) + 1080 <= 3 * - e)%Z /\ bits = 0) \/
  nearest_b64 (m * pow10 (Z.to_N e) * 2 ^ 1074) (pow10 (Z.to_N (- e))) (fixed bits).
Proof. exact chk_nearest_sound. Qed.

(** Non-vacuity: boundary literals through the model. *)
Example C05_nonvacuous :
  (* 18446744073709551615 and 0xFFFF_FFFF_FFFF_FFFF lex to 2^64-1; one more overflows *)
  lex_number [49;56;52;52;54;55;52;52;48;55;51;55;48;57;53;53;49;54;49;53] = NOk (TInt 18446744073709551615) [] /\
  lex_number [49;56;52;52;54;55;52;52;48;55;51;55;48;57;53;53;49;54;49;54] = NFail /\
  lex_number [48;120;70;70;70;70;95;70;70;70;70;95;70;70;70;70;95;70;70;70;70] = NOk (TInt 18446744073709551615) [] /\
  (* 1_0.5e-1_ is the float 105 * 10^-2; 12._5 is the float 12 followed by _5 *)
  lex_number [49;95;48;46;53;101;45;49;95] = NOk (TFloat 105 (-2)) [] /\
  lex_number [49;50;46;95;53] = NOk (TFloat 12 0) [95;53] /\
  signed_operand true 9223372036854775808 = Some (- 9223372036854775808)%Z /\
  signed_operand false 9223372036854775808 = None /\
  signed_operand false 18446744073709551615 = None /\
  arith_operand [KPlus; KNum (TInt 1)] = None /\
  arith_operand [KMinus; KNum (TFloat 15 (-1))] = Some (OReal true 15 (-1), []).
Proof. vm_compute. repeat split; reflexivity. Qed.
