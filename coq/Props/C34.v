(** C34 — placeholder resolution assigns unique, consistent values.
    Pinned statements only; proofs live in Proofs/ResolveProofs.v, the model in Model/Resolve.v.

    A body is a list of instructions, each abstracted to its kind and ALL of its qubit and target
    occurrences ([all_qubits], [all_targets] are structural and do not depend on the modelled
    [get_qubits] arm table).  [wf_body] is the representation invariant of that abstraction: kinds
    without qubit fields carry no qubits, LABEL/JUMP/JUMP-WHEN/JUMP-UNLESS carry exactly one
    target and nothing else carries one.  Placeholder identity ([Arc] pointer) is the id. *)
From Coq Require Import List NArith Bool String.
From QV Require Import Model.Resolve Proofs.ResolveProofs.
Import ListNotations.
Open Scope N_scope.

(** Resolution with any resolvers (custom or default) rewrites EVERY occurrence in the body, of
    whatever instruction kind, by: a placeholder the resolver returns a value for becomes that
    fixed value; everything else (placeholders the resolver declines, fixed qubits/labels,
    variables, the instruction kinds and shapes) is unchanged.  In particular each placeholder
    gets the same value at every occurrence. *)
Theorem C34_replaces_exactly :
  forall (tr : N -> string -> option string) (qr : N -> option N) (b : list instr),
    wf_body b = true ->
    resolve_with tr qr b = subst_body (resolve_qubit qr) (resolve_target tr) b.
Proof. exact resolve_with_subst. Qed.

(** Default qubit resolver: every placeholder occurring anywhere in the body gets a value that
    is no fixed qubit occurring anywhere in the body, and distinct placeholders get distinct
    values. *)
Theorem C34_default_qubits :
  forall b : list instr,
    wf_body b = true ->
    (forall p, In (QPh p) (all_qubits b) ->
               exists v, default_qubit_resolver b p = Some v /\ ~ In (QFixed v) (all_qubits b))
    /\ (forall p1 p2 v, In (QPh p1) (all_qubits b) -> In (QPh p2) (all_qubits b) ->
                        default_qubit_resolver b p1 = Some v ->
                        default_qubit_resolver b p2 = Some v -> p1 = p2).
Proof. exact default_qubits_ok. Qed.

(** Default target resolver: every label placeholder (in a LABEL or as a jump target) gets a
    label that is no fixed label or jump target of the body, and distinct placeholders get
    distinct labels (also when they share a base label). *)
Theorem C34_default_labels :
  forall b : list instr,
    wf_body b = true ->
    (forall p base, In (TPh p base) (all_targets b) ->
                    exists s, default_target_resolver b p base = Some s
                              /\ ~ In (TFixed s) (all_targets b))
    /\ (forall p1 b1 p2 b2 s, In (TPh p1 b1) (all_targets b) -> In (TPh p2 b2) (all_targets b) ->
                              default_target_resolver b p1 b1 = Some s ->
                              default_target_resolver b p2 b2 = Some s -> p1 = p2).
Proof. exact default_targets_ok. Qed.

(** After default resolution no placeholder of either sort is left anywhere in the body. *)
Theorem C34_default_resolves_all :
  forall b : list instr,
    wf_body b = true ->
    (forall p, ~ In (QPh p) (all_qubits (resolve_default b)))
    /\ (forall p base, ~ In (TPh p base) (all_targets (resolve_default b))).
Proof. exact default_no_placeholder. Qed.

(** The instance checker run on the implementation's output [o] for input [b]: verdict 0 means
    [o] is [b] with every placeholder occurrence replaced through one map per sort, where a custom
    side uses exactly the given table and a default side satisfies the clauses above. *)
Theorem C34_checker_sound :
  forall (b : list instr) (tm : tmode) (qm : qmode) (o : list instr),
    chk b tm qm o = 0 ->
    exists (fq : N -> option N) (ft : N -> option string),
      o = subst_body (resolve_qubit fq) (resolve_target (fun p _ => ft p)) b
      /\ match qm with
         | Some tbl => fq = lookupN tbl
         | None =>
             (forall p, In (QPh p) (all_qubits b) ->
                        exists v, fq p = Some v /\ ~ In (QFixed v) (all_qubits b))
             /\ (forall p1 p2 v, In (QPh p1) (all_qubits b) -> In (QPh p2) (all_qubits b) ->
                                 fq p1 = Some v -> fq p2 = Some v -> p1 = p2)
         end
      /\ match tm with
         | Some tbl => ft = lookupS tbl
         | None =>
             (forall p base, In (TPh p base) (all_targets b) ->
                             exists s, ft p = Some s /\ ~ In (TFixed s) (all_targets b))
             /\ (forall p1 b1 p2 b2 s, In (TPh p1 b1) (all_targets b) -> In (TPh p2 b2) (all_targets b) ->
                                       ft p1 = Some s -> ft p2 = Some s -> p1 = p2)
         end.
Proof. exact chk_sound. Qed.

(** Non-vacuity: a body with shared base labels, a taken name [a_0], a fixed qubit used only in a
    SET-PHASE frame, and a placeholder inside SWAP-PHASES. *)
Example C34_nonvacuous :
  let b := [ Instr KLabel [] [TPh 0 "a"]; Instr KJump [] [TFixed "a_0"]; Instr KLabel [] [TPh 1 "a"];
             Instr KGate [QPh 5; QFixed 1] []; Instr KSetPhase [QFixed 0] [];
             Instr KSwapPhases [QPh 7; QPh 5] []; Instr KJumpWhen [] [TPh 0 "a"] ]%string in
  wf_body b = true
  /\ resolve_default b =
     [ Instr KLabel [] [TFixed "a_1"]; Instr KJump [] [TFixed "a_0"]; Instr KLabel [] [TFixed "a_2"];
       Instr KGate [QFixed 2; QFixed 1] []; Instr KSetPhase [QFixed 0] [];
       Instr KSwapPhases [QFixed 3; QFixed 2] []; Instr KJumpWhen [] [TFixed "a_1"] ]%string
  /\ chk b None None (resolve_default b) = 0.
Proof. vm_compute. repeat split; reflexivity. Qed.
