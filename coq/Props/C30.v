(** C30 — type checking is per-instruction and follows the typing rules.
    Pinned statements only; proofs live in Proofs/TypeCheckProofs.v.
    Model: Model/TypeCheck.v ([check1] = the per-kind checkers of type_check.rs, [type_check] = the
    loop with early return, [should_be_real] = the recursive real-valuedness check). *)
From Coq Require Import List NArith Bool Permutation.
From QV Require Import Model.TypeCheck Proofs.TypeCheckProofs.
Import ListNotations.
Open Scope N_scope.

(** A program type-checks iff each body instruction type-checks on its own against the same
    declarations. *)
Theorem C30_per_instruction : forall (D : decls) (is : list instr),
  type_check D is = Ok <-> Forall (fun i => check1 D i = Ok) is.
Proof. exact type_check_ok_iff. Qed.

(** ... and the reported error is the error of the FIRST failing instruction. *)
Theorem C30_first_error : forall (D : decls) (is : list instr) (e : err),
  type_check D is = Err e <->
  exists pre i post, is = pre ++ i :: post
                     /\ Forall (fun j => check1 D j = Ok) pre /\ check1 D i = Err e.
Proof. exact type_check_err_iff. Qed.

(** The verdict does not change under reordering ... *)
Theorem C30_reorder : forall (D : decls) (is is' : list instr),
  Permutation is is' -> (type_check D is = Ok <-> type_check D is' = Ok).
Proof. exact type_check_perm. Qed.

(** ... nor under duplicating instructions (anywhere: only the set of instructions matters; and
    doubling the whole list does not even change the reported error). *)
Theorem C30_duplicate : forall (D : decls) (is is' : list instr),
  (forall i, In i is <-> In i is') -> (type_check D is = Ok <-> type_check D is' = Ok).
Proof. exact type_check_same_set. Qed.

Theorem C30_duplicate_one : forall (D : decls) (pre : list instr) (i : instr) (post : list instr),
  In i pre -> (type_check D (pre ++ i :: post) = Ok <-> type_check D (pre ++ post) = Ok).
Proof. exact type_check_dup_anywhere. Qed.

Theorem C30_duplicate_all : forall (D : decls) (is : list instr),
  type_check D (is ++ is) = type_check D is.
Proof. exact type_check_dup. Qed.

(** Consistent injective renaming of memory regions (declarations and instructions) maps the verdict
    to the renamed verdict; in particular acceptance is invariant. *)
Theorem C30_rename : forall (f : name -> name),
  (forall a b, f a = f b -> a = b) ->
  forall (D : decls) (is : list instr),
    type_check (ren_decls f D) (map (ren_instr f) is) = ren_verdict f (type_check D is).
Proof. exact type_check_ren. Qed.

Theorem C30_rename_ok : forall (f : name -> name),
  (forall a b, f a = f b -> a = b) ->
  forall (D : decls) (is : list instr),
    type_check (ren_decls f D) (map (ren_instr f) is) = Ok <-> type_check D is = Ok.
Proof. exact type_check_ren_ok. Qed.

(** SET-*/SHIFT-* arguments: accepted iff EVERY leaf, at any nesting depth, is REAL-declared memory,
    pi, or a number the code accepts as real ([num_accepted]: |im| <= f64::EPSILON) — in particular
    no variable and no undeclared or non-REAL region anywhere. *)
Theorem C30_real_valued : forall (D : decls) (k : setkind) (e : expr),
  check1 D (ISet k e) = Ok <-> (forall l, leaf l e -> real_leaf num_accepted D l).
Proof. intros D k e; exact (should_be_real_ok_iff D e). Qed.

(** Strict reading of "real numbers" (imaginary part exactly 0): holds for every expression that
    contains no number with 0 < |im| <= EPSILON (or NaN imaginary part) ... *)
Theorem C30_real_valued_strict : forall (D : decls) (k : setkind) (e : expr),
  has_inexact_num e = false ->
  (check1 D (ISet k e) = Ok <-> (forall l, leaf l e -> real_leaf num_strict D l)).
Proof. intros D k e; exact (should_be_real_strict D e). Qed.

(** ... and is false without that exclusion: the tolerance lets a non-real literal through
    (`SET-PHASE 0 "xy" 1e-17i` type-checks).  Known finding C30 tiny-imaginary-accepted; the
    instance checker below uses the STRICT rule, so such inputs are reported (as a known finding). *)
Theorem C30_real_valued_strict_refuted :
  exists D e, should_be_real D e = Ok /\ ~ (forall l, leaf l e -> real_leaf num_strict D l).
Proof. exact should_be_real_strict_refuted. Qed.

(** The instance checker run on the implementation's observed verdicts decides these clauses. *)
Theorem C30_checker_sound : forall D is whole singles perm permv dupv rn renv,
  chk_obs D is (whole, singles, (perm, permv), dupv, (rn, renv)) = 0 ->
  (whole = Ok <-> Forall (fun v => v = Ok) singles)
  /\ whole = first_err singles
  /\ (permv = Ok <-> whole = Ok)
  /\ dupv = whole
  /\ renv = ren_verdict (apply_ren rn) whole
  /\ SetRule D is singles.
Proof. exact chk_obs_sound. Qed.

(** Non-vacuity: a three-instruction program whose second instruction fails deep inside a nested
    expression (an INTEGER region under sin under a sum), and an accepted one. *)
Example C30_nonvacuous :
  let D := [(0, (TReal, 2)); (1, (TInteger, 1)); (2, (TBit, 1))] in
  let bad := ISet KSetPhase (EInfix XPlus (ENum ImZero) (ECall FSin (EPrefix PMinus (EAddr 1 0)))) in
  let good := ISet KShiftPhase (EInfix XStar EPi (ECall FCos (EAddr 0 1))) in
  type_check D [IMove (0, 0) OReal; bad; IUn UNot (0, 0)] = Err ErrRealReq
  /\ type_check D [IMove (0, 0) OReal; good; IUn UNot (2, 0)] = Ok
  /\ type_check D [IUn UNot (0, 0); bad] = Err ErrOperand.
Proof. vm_compute. repeat split; reflexivity. Qed.
