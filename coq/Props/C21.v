(** C21 — the gate-sequence source map matches the expansion.
    Pinned statements only; definitions and proofs live in Model/SeqExpand.v and
    Proofs/SeqExpandProofs.v.

    [expand_program_sm] models [Program::expand_defgate_sequences_with_source_map] (body and
    source map), [expand_program] models [Program::expand_defgate_sequences]; both compute the
    kept definitions with the same function [keep] (C20). *)
From Coq Require Import List NArith Bool.
From QV Require Import Model.SeqExpand Proofs.SeqExpandProofs.
Import ListNotations.

(** Both entry points produce the same body, and fail with the same error. *)
Theorem C21_entry_points_agree :
  forall (defs : list gdef) (sel : name -> bool) (l : list instr),
    (forall out m, expand_program_sm defs sel l = Ok (out, m) -> expand_program defs sel l = Ok out)
    /\ (forall e, expand_program_sm defs sel l = Err e -> expand_program defs sel l = Err e)
    /\ (forall out, expand_program defs sel l = Ok out ->
                    exists m, expand_program_sm defs sel l = Ok (out, m)).
Proof. exact expand_program_sm_agree. Qed.

(** The map the expansion builds is well formed ([WFmap], see Proofs/SeqExpandProofs.v). *)
Theorem C21_map_well_formed :
  forall (defs : list gdef) (sel : name -> bool) (l out : list instr) (m : list entry),
    expand_program_sm defs sel l = Ok (out, m) -> WFmap defs sel [] l 0 0 m out.
Proof. exact expand_program_sm_WF. Qed.

(** What a well-formed map says, clause by clause (for every stack, body, offsets, map, output). *)

(** (a) exactly one entry per source instruction, in order *)
Theorem C21_one_entry_per_source_instruction :
  forall defs sel st l k b es out,
    WFmap defs sel st l k b es out -> map esrc es = seq k (length l).
Proof. exact WFmap_sources. Qed.

(** (b) the target ranges of consecutive entries tile the output: contiguous, in order, covering
    exactly [b, b + |out|) *)
Theorem C21_ranges_tile_the_output :
  forall defs sel st l k b es out,
    WFmap defs sel st l k b es out -> tiles b es (b + length out).
Proof. exact WFmap_tiles. Qed.

(** (c) an unmodified entry points at an output instruction identical to its source instruction,
    and that instruction is one the expansion leaves alone *)
Theorem C21_unmodified_entries :
  forall defs sel st l k b es out,
    WFmap defs sel st l k b es out -> forall s t, In (EUnmod s t) es ->
    k <= s /\ b <= t /\
    exists i, nth_error l (s - k) = Some i /\ nth_error out (t - b) = Some i /\
              Untouched defs sel i.
Proof. exact WFmap_unmod. Qed.

(** (d) a rewritten entry names the invoked sequence; its range lies inside the output; the slice
    of the output it delimits is exactly what the instantiated body expands to, and the nested map
    describes that expansion with indices relative to the slice (from 0) *)
Theorem C21_rewritten_entries :
  forall defs sel st l k b es out,
    WFmap defs sel st l k b es out -> forall s nm lo hi nested, In (ERewr s nm lo hi nested) es ->
    k <= s /\ b <= lo /\ lo <= hi /\ hi <= b + length out /\
    exists g d formals body body',
      nth_error l (s - k) = Some (IGate g) /\ nm = gname g /\
      Invocation defs sel g d formals body /\ Instantiates g d formals body body' /\
      ~ In nm st /\
      WFmap defs sel (st ++ [nm]) (map IGate body') 0 0 nested
            (firstn (hi - lo) (skipn (lo - b) out)).
Proof. exact WFmap_rewr. Qed.

(** (e) the mapped output is the expansion of the source (the relation of C20) *)
Theorem C21_map_describes_the_expansion :
  forall defs sel st l k b es out,
    WFmap defs sel st l k b es out -> SeqExpands defs sel st l out.
Proof. exact WFmap_expands. Qed.

(** The instance checker run on the implementation's map and output is sound. *)
Theorem C21_checker_sound :
  forall defs sel st l k b es out,
    chk_map defs sel st l k b es out = true -> WFmap defs sel st l k b es out.
Proof. exact chk_map_sound. Qed.

(** Non-vacuity: the nested example of C20 with its map (s2 at [0,2) containing s1 at [0,1)). *)
Local Open Scope N_scope.
Example C21_nonvacuous :
  let s1call := G 1 [EVar 11] [QVar 21] [] in
  let defs := [D 0 [10; 11] (SSeq [20; 21] [s1call; G 3 [] [QVar 20] []]);
               D 1 [10] (SSeq [20] [G 2 [EVar 10] [QVar 20] []])]%N in
  let body := [IOther 9; IGate (G 0 [ENum 7; EPi] [QFixed 0; QFixed 1] []);
               IGate (G 4 [] [QFixed 2] [])]%N in
  let out := [IOther 9; IGate (G 2 [EPi] [QFixed 1] []); IGate (G 3 [] [QFixed 0] []);
              IGate (G 4 [] [QFixed 2] [])]%N in
  let m := [EUnmod 0 0;
            ERewr 1 0%N 1 3 [ERewr 0 1%N 0 1 [EUnmod 0 0]; EUnmod 1 1];
            EUnmod 2 3] in
  expand_program_sm defs (fun _ => true) body = Ok (out, m)
  /\ chk_map defs (fun _ => true) [] body 0 0 m out = true.
Proof. vm_compute. split; reflexivity. Qed.

(** [WFmap] pins the map down completely: for a given source there is exactly one well-formed
    (map, output) pair, so a map accepted by the checker IS the model's map. *)
Theorem C21_map_unique :
  forall defs sel st l k b es out es' out',
    WFmap defs sel st l k b es out -> WFmap defs sel st l k b es' out' -> es = es' /\ out = out'.
Proof. intros defs sel st l k b es out es' out' H. now apply WFmap_fun. Qed.
