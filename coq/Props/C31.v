(** C31 — extern signatures round-trip and CALL resolution follows the rules.
    Pinned statements only; proofs live in Proofs/ExternProofs.v.  Model: Model/Extern.v
    ([print_sig] = the Quil writer of ExternSignature, [parse_sig] = lexer + pragma_extern.rs parser +
    the checks of ExternSignature::from_str, [resolve_call] = Call::resolve_to_signature). *)
From Coq Require Import String.
From Coq Require Import List NArith Bool.
From QV Require Import Model.Extern Proofs.ExternProofs.
Import ListNotations.
Open Scope N_scope.

(** Every valid signature prints to text that parses back to the same signature.
    [valid_sig]: a return type or at least one parameter; every parameter name passes
    [validate_user_identifier] (identifier regex, not a reserved word); fixed lengths are u64. *)
Theorem C31_roundtrip : forall s : signature,
  valid_sig s = true -> parse_sig (print_sig s) = POk s.
Proof. exact roundtrip. Qed.

(** The two halves: the printed bytes lex to the intended tokens, and those tokens parse back. *)
Theorem C31_print_lexes : forall s : signature,
  valid_sig s = true -> lex (print_sig s) = LexOk (map snd (ptoks_sig s)).
Proof. exact print_lexes. Qed.

Theorem C31_tokens_parse : forall s : signature,
  valid_sig s = true -> parse_sig_tokens (map snd (ptoks_sig s)) = POk s.
Proof. exact parse_tokens_sig. Qed.

(** A CALL resolves iff its argument count matches and each argument fits its slot:
    [call_rule] = (if there is a return type: a first argument obeying [ret_rule], i.e. a declared
    memory reference or name of the return type) and [Forall2 slot_rule] over parameters and
    remaining arguments (a scalar slot takes a declared reference/name of its type or, if immutable,
    an immediate; a fixed vector slot the name of a region of that type and size; a variable vector
    slot the name of a region of that type). *)
Theorem C31_resolves_iff : forall (D : decls) (s : signature) (args : list arg),
  (exists rs, resolve_call D s args = COk rs) <-> call_rule D s args.
Proof. exact resolve_call_ok_iff. Qed.

Theorem C31_arity : forall (D : decls) (s : signature) (args : list arg),
  (exists e f, resolve_call D s args = CCount e f) <-> N.of_nat (length args) <> expected_count s.
Proof. exact resolve_call_count_iff. Qed.

(** The error list contains every failing slot (and only failing slots), numbered by parameter
    position, plus a return error iff the return-slot rule fails. *)
Theorem C31_errors_complete : forall (D : decls) (s : signature) (args : list arg) (es : list cerr),
  resolve_call D s args = CArgs es ->
  let args' := match fst s with Some _ => tl args | None => args end in
  N.of_nat (length args) = expected_count s
  /\ (forall j, In j (failing_slots D 0 (snd s) args') <-> exists r, In (CArg j r) es)
  /\ ((exists r, In (CReturn r) es) <->
      match fst s, args with Some t, a :: _ => ret_rule_b D t a = false | _, _ => False end).
Proof. exact resolve_call_errors. Qed.

(** [failing_slots] are exactly the positions whose slot rule fails. *)
Theorem C31_failing_slots : forall (D : decls) (ps : list param) (args : list arg) (j : N),
  In j (failing_slots D 0 ps args) <->
  exists i p a, j = 0 + N.of_nat i /\ nth_error ps i = Some p /\ nth_error args i = Some a
                /\ ~ slot_rule D p a.
Proof. exact failing_slots_prop. Qed.

(** The instance checkers run on the implementation's outputs decide these clauses. *)
Theorem C31_checker_roundtrip_sound : forall s printed parsed,
  case_code (CSig s printed parsed) = 0 ->
  printed = print_sig s /\ (valid_sig s = true -> parsed = POk s).
Proof. exact case_sig_sound. Qed.

Theorem C31_checker_call_sound : forall D s args r,
  chk_call D s args r = 0 ->
  ((exists rs, r = COk rs) <-> call_rule D s args)
  /\ (forall es, r = CArgs es ->
        let args' := match fst s with Some _ => tl args | None => args end in
        (forall j, In j (failing_slots D 0 (snd s) args') -> exists e, In (CArg j e) es)
        /\ (forall j e, In (CArg j e) es -> In j (failing_slots D 0 (snd s) args'))).
Proof. exact chk_call_sound. Qed.

(** Non-vacuity: a valid three-parameter signature with a dashed name, its text, and a CALL with two
    failing slots. *)
Example C31_nonvacuous :
  let s : signature :=
    (Some SInteger, [mkParam (b "bar"%string) false (PScalar SInteger);
                     mkParam (b "baz-2"%string) true (PFixed SBit 20);
                     mkParam (b "q"%string) false (PVar SReal)]) in
  let D : decls := [(0, (SInteger, 1)); (1, (SBit, 20)); (2, (SReal, 3)); (3, (SBit, 2))] in
  valid_sig s = true
  /\ print_sig s = b "INTEGER (bar : INTEGER, baz-2 : mut BIT[20], q : REAL[])"%string
  /\ parse_sig (print_sig s) = POk s
  /\ resolve_call D s [ARef 0 0; AImm; AIdent 1; AIdent 2]
     = COk [RMem 0 0 SInteger true; RImm SInteger; RVec 1 SBit 20 true; RVec 2 SReal 3 false]
  /\ resolve_call D s [AImm; AIdent 0; AIdent 3; ARef 2 0]
     = CArgs [CReturn RReturnArgument; CArg 1 RMismatchedVector; CArg 2 RInvalidVectorArgument].
Proof. vm_compute. repeat split; reflexivity. Qed.
