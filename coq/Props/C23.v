(** C23 — memory accesses are sequentially consistent in the dependency graph.
    Pinned statements only; proofs live in Proofs/DepQueueProofs.v. *)
From Coq Require Import List NArith Bool Relations.
From QV Require Import Model.DepQueue Proofs.DepQueueProofs.
Import ListNotations.

(** For every sequence [l] of accesses [(node, kind)] to one region, fed to a fresh memory queue
    (no implicit initial writer): any two accesses at positions i < j by different nodes, one of
    them a write or capture, are joined by a path of reported dependency edges. *)
Theorem C23_conflicts_ordered :
  forall (l : list (N * acc)) (m : N) (a : acc) (n : N) (b : acc),
    In ((m, a), (n, b)) (pairs l) -> conflict a b = true -> m <> n ->
    clos_trans N (erel (edges None l)) m n.
Proof. intros l m a n b. exact (queue_conflicts_ordered None l m a n b I). Qed.

(** Every reported edge joins such a conflicting pair (earlier position to later position) and is
    labelled with the access kind of its source. *)
Theorem C23_edges_justified :
  forall (l : list (N * acc)) (m n : N) (k : acc),
    In (m, n, k) (edges None l) ->
    m <> n /\ exists b, In ((m, k), (n, b)) (pairs l) /\ conflict k b = true.
Proof. intros l m n k. exact (queue_edges_justified None l m n k I). Qed.

(** Nodes that only read the region are never joined by a memory edge. *)
Theorem C23_reads_unordered :
  forall (l : list (N * acc)) (m n : N) (k : acc),
    only_reads l m -> only_reads l n -> ~ In (m, n, k) (edges None l).
Proof. intros l m n k. exact (queue_reads_unordered None l m n k I). Qed.

(** With nodes in program order every edge points from an earlier instruction to a later one. *)
Theorem C23_edges_forward :
  forall (l : list (N * acc)) (m n : N) (k : acc),
    nodes_sorted l -> In (m, n, k) (edges None l) -> (m < n)%N.
Proof. intros l m n k. exact (queue_edges_forward None l m n k I). Qed.

(** Two reads with no write between them are not ordered, even transitively: if every access by a
    node in [m, n] is a read, no path of memory edges leads from [m] to [n]. *)
Theorem C23_reads_no_path :
  forall (l : list (N * acc)) (m n : N),
    nodes_sorted l -> reads_between l m n -> ~ clos_trans N (erel (edges None l)) m n.
Proof. intros l m n. exact (queue_reads_no_path None l m n I). Qed.

(** The instance checker run on the implementation's edges decides exactly these clauses. *)
Theorem C23_checker_sound :
  forall (l : list (N * acc)) (E : list edge),
    chk_edges l E = true -> Conn l E /\ Just l E.
Proof. exact chk_edges_sound. Qed.

(** Non-vacuity: a concrete sequence with conflicting pairs, its edges, and the checker accepting. *)
Example C23_nonvacuous :
  let l := [(0, AW); (1, AR); (2, AR); (3, AC); (4, AR)]%N in
  edges None l = [(0, 1, AW); (0, 2, AW); (0, 3, AW); (1, 3, AR); (2, 3, AR); (3, 4, AC)]%N
  /\ chk_edges l (edges None l) = true.
Proof. vm_compute. split; reflexivity. Qed.
