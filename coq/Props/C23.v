(** C23 — memory accesses are sequentially consistent in the dependency graph.
    Pinned statements only; proofs live in Proofs/DepQueueProofs.v. *)
From Coq Require Import List NArith Bool Relations.
From QV Require Import Model.DepQueue Proofs.DepQueueProofs.
Import ListNotations.

(** For every sequence [l] of accesses [(node, kind)] to one region, fed to a fresh memory queue
    (no implicit initial writer): any two accesses at positions i < j by different nodes, one of
    them a write or capture, are joined by a path of reported dependency edges. *)
Theorem C23_conflicts_ordered :
  forall (l : list (N * acc)) (m : N) (a : acc) (n : N) (b : acc),
    In ((m, a), (n, b)) (pairs l) -> conflict a b = true -> m <> n ->
    clos_trans N (erel (edges None l)) m n.
Proof. intros l m a n b. exact (queue_conflicts_ordered None l m a n b I). Qed.

(** Every reported edge joins such a conflicting pair (earlier position to later position) and is
    labelled with the access kind of its source. *)
Theorem C23_edges_justified :
  forall (l : list (N * acc)) (m n : N) (k : acc),
    In (m, n, k) (edges None l) ->
    m <> n /\ exists b, In ((m, k), (n, b)) (pairs l) /\ conflict k b = true.
Proof. intros l m n k. exact (queue_edges_justified None l m n k I). Qed.

(** Nodes that only read the region are never joined by a memory edge. *)
Theorem C23_reads_unordered :
  forall (l : list (N * acc)) (m n : N) (k : acc),
    only_reads l m -> only_reads l n -> ~ In (m, n, k) (edges None l).
Proof. intros l m n k. exact (queue_reads_unordered None l m n k I). Qed.

(** With nodes in program order every edge points from an earlier instruction to a later one. *)
Theorem C23_edges_forward :
  forall (l : list (N * acc)) (m n : N) (k : acc),
    nodes_sorted l -> In (m, n, k) (edges None l) -> (m < n)%N.
Proof. intros l m n k. exact (queue_edges_forward None l m n k I). Qed.

(** Two reads with no write between them are not ordered, even transitively: if every access by a
    node in [m, n] is a read, no path of memory edges leads from [m] to [n]. *)
Theorem C23_reads_no_path :
  forall (l : list (N * acc)) (m n : N),
    nodes_sorted l -> reads_between l m n -> ~ clos_trans N (erel (edges None l)) m n.
Proof. intros l m n. exact (queue_reads_no_path None l m n I). Qed.

(** The instance checker run on the implementation's edges decides exactly these clauses. *)
Theorem C23_checker_sound :
  forall (l : list (N * acc)) (E : list edge),
    chk_edges l E = true -> Conn l E /\ Just l E.
Proof. exact chk_edges_sound. Qed.

(** Non-vacuity: a concrete sequence with conflicting pairs, its edges, and the checker accepting. *)
Example C23_nonvacuous :
  let l := [(0, AW); (1, AR); (2, AR); (3, AC); (4, AR)]%N in
  edges None l = [(0, 1, AW); (0, 2, AW); (0, 3, AW); (1, 3, AR); (2, 3, AR); (3, 4, AC)]%N
  /\ chk_edges l (edges None l) = true.
Proof. vm_compute. split; reflexivity. Qed.

(** ** Block level (appended): the same three clauses for the memory edges of a whole block built
    by [ScheduledBasicBlock::build] (model Model/Graph.v) over any number of regions.
    [macc r is term] is region [r]'s access sequence of the block: instructions in order (nodes
    1, 2, ...), per instruction its reads, then writes, then captures of [r], the terminator last.
    [accesses i r a]: instruction summary [i] performs an access of kind [a] to region [r]. *)
From QV Require Import Model.Graph Proofs.GraphProofs Proofs.GraphReachProofs Proofs.GraphBlockProofs.

Theorem C23_block_conflicts_ordered :
  forall (is : list info) (term : option info) (E : list gedge) (r m : N) (a : acc) (n : N) (b : acc),
    build is term = inr E ->
    In ((m, a), (n, b)) (pairs (macc r is term)) -> conflict a b = true -> m <> n ->
    clos_trans N (mrel E) m n.
Proof. exact block_mem_conflicts_ordered. Qed.

(** the same in terms of two instructions at positions p < q ... *)
Theorem C23_block_instructions_ordered :
  forall (is : list info) (term : option info) (E : list gedge) (p q : nat) (i j : info)
         (r : N) (a b : acc),
    build is term = inr E ->
    nth_error is p = Some i -> nth_error is q = Some j -> (p < q)%nat ->
    accesses i r a -> accesses j r b -> conflict a b = true ->
    clos_trans N (mrel E) (1 + N.of_nat p)%N (1 + N.of_nat q)%N.
Proof. exact block_mem_instr_ordered. Qed.

(** ... and of an instruction and the block terminator (JUMP-WHEN / JUMP-UNLESS read memory) *)
Theorem C23_block_terminator_ordered :
  forall (is : list info) (term : option info) (E : list gedge) (p : nat) (i j : info)
         (r : N) (a b : acc),
    build is term = inr E ->
    nth_error is p = Some i -> term = Some j ->
    accesses i r a -> accesses j r b -> conflict a b = true ->
    clos_trans N (mrel E) (1 + N.of_nat p)%N (end_node is).
Proof. exact block_mem_term_ordered. Qed.

Theorem C23_block_edges_justified :
  forall (is : list info) (term : option info) (E : list gedge) (m n : N) (k : acc),
    build is term = inr E -> In (m, n, KMem k) E ->
    m <> n /\ exists r b i j, instr_at is term m i /\ instr_at is term n j /\
                             accesses i r k /\ accesses j r b /\ conflict k b = true.
Proof. exact block_mem_edges_instr. Qed.

Theorem C23_block_reads_unordered :
  forall (is : list info) (term : option info) (E : list gedge) (m n : N) (k : acc),
    build is term = inr E ->
    (forall r, only_reads (macc r is term) m) -> (forall r, only_reads (macc r is term) n) ->
    ~ In (m, n, KMem k) E.
Proof. exact block_mem_reads_unordered. Qed.

(** the block-level instance checker (run by the C22 harness on the implementation's edges) *)
Theorem C23_block_checker_sound :
  forall (is : list info) (term : option info) (E : list gedge),
    chk_mem_block is term E = true -> mem_block_spec is term E.
Proof. exact chk_mem_block_sound. Qed.

Local Open Scope N_scope.
Example C23_block_nonvacuous :
  let is := [MkInfo RClassical false [] [0] [] [] [] false;      (* MOVE a .. *)
             MkInfo RClassical false [0] [1] [] [] [] false;     (* MOVE b a *)
             MkInfo RClassical false [0; 1] [0] [] [] [] false;  (* ADD a b *)
             MkInfo RRF false [] [] [1] [0] [] true] in          (* CAPTURE .. b *)
  exists E, build is (Some (MkInfo RControl false [1] [] [] [] [] false)) = inr E /\
            chk_mem_block is (Some (MkInfo RControl false [1] [] [] [] [] false)) E = true /\
            existsb (gedge_eqb (1, 2, KMem AW)%N) E = true /\ existsb (gedge_eqb (4, 5, KMem AC)%N) E = true.
Proof. vm_compute. eexists. repeat split. Qed.

(** verdict 0 of a block-level case of the C23 check (Model/GraphMem.v, run on the memory edges the
    implementation built for the block) entails the block-level specification *)
From QV Require Import Model.GraphMem.
Theorem C23_block_verdict_sound :
  forall (is : list info) (term : option info) (M : list edge),
    block_verdict is term M = 0%N -> mem_block_spec is term (as_gedges M).
Proof. exact block_verdict_sound. Qed.
