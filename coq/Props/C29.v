(** C29 — gate depth equals the longest chain of qualifying gates.
    Pinned statements only; proofs live in Proofs/QubitGraphProofs.v.

    [gate_depth prog k] models [QubitGraph::try_from_basic_block(block).map(|g| g.gate_depth(k))]
    for the block whose instructions are [prog] (kind + qubit list per instruction, identity =
    position), with the repaired edge construction (no edge from a node to itself).

    Vocabulary (defined from the program text, independently of the graph construction):
    [link prog a b]   a < b, some qubit occurs in both, and no instruction strictly between them
                      acts on that qubit;
    [chain prog p]    consecutive positions of [p] are linked (the empty chain is a chain);
    [count prog k p]  number of positions of [p] holding a gate with at least [k] qubit arguments;
    [IsMaxChain prog k d]  every chain counts at most [d] and some chain counts exactly [d]. *)
From Coq Require Import List NArith Bool Arith.
From QV Require Import Model.QubitGraph Proofs.QubitGraphProofs.
Import ListNotations.

(** Gate depth with threshold [k] is the largest number of qualifying gates along any chain — for
    every block the builder accepts, every threshold; gates may repeat a qubit. *)
Theorem C29_gate_depth_is_longest_chain :
  forall (prog : list instr) (k d : nat),
    gate_depth prog k = Some d ->
    (forall p, chain prog p -> count prog k p <= d)
    /\ (exists p, chain prog p /\ count prog k p = d).
Proof. exact gate_depth_is_max_chain. Qed.

(** The builder accepts exactly the blocks without unsupported instructions, and otherwise reports
    the first unsupported one. *)
Theorem C29_error_verdict :
  forall (prog : list instr) (k : nat),
    (gate_depth prog k = None <-> supported prog = false)
    /\ match build prog with
       | inl j => first_unsupported prog 0 = Some j
       | inr _ => first_unsupported prog 0 = None
       end.
Proof.
  intros prog k. split; [apply gate_depth_none|].
  pose proof (build_verdict prog) as H. destruct (build prog); [tauto|].
  now apply (first_unsupported_supported prog 0).
Qed.

(** The graph's edges are exactly the links (so the graph has no self-loop and every edge goes
    forward, also for gates that repeat a qubit). *)
Theorem C29_edges_are_links :
  forall (prog : list instr) (E : list edge),
    build prog = inr E ->
    forall a b, In (a, b) E <-> link prog a b.
Proof. exact build_links. Qed.

(** Path enumeration terminates: with fuel covering the remaining nodes the enumeration never
    reaches its fuel floor (more fuel gives the same result). *)
Theorem C29_path_enumeration_terminates :
  forall (prog : list instr) (E : list edge) (w : nat -> nat),
    build prog = inr E ->
    forall i f1 f2 acc, i < length prog -> length prog - i <= f1 -> length prog - i <= f2 ->
      dfs f1 (succs E) w acc i = dfs f2 (succs E) w acc i.
Proof. exact path_enumeration_fuel. Qed.

(** Auxiliary characterisation by dynamic programming over positions: the largest count over
    chains ending at each position, computed left to right from the link predicate, has the same
    maximum as the enumeration of all chains. *)
Theorem C29_dp_characterisation :
  forall (prog : list instr) (k : nat),
    IsMaxChain prog k (chain_max_dp prog k) /\ chain_max_dp prog k = chain_max prog k.
Proof. intros. split; [apply chain_max_dp_spec | apply chain_max_dp_eq]. Qed.

(** The instance checker (longest chain by that DP, i.e. computed from the definition of a chain)
    accepts only the true maximum ... *)
Theorem C29_checker_sound :
  forall (prog : list instr) (k d : nat),
    chk_depth prog k d = true -> IsMaxChain prog k d.
Proof. exact chk_depth_sound. Qed.

(** ... and the model's gate depth is that value. *)
Theorem C29_gate_depth_eq_chain_max :
  forall (prog : list instr) (k : nat),
    supported prog = true -> gate_depth prog k = Some (chain_max prog k).
Proof. exact gate_depth_chain_max. Qed.

(** Non-vacuity: [H 0; CNOT 0 1; X 2; CNOT 1 1; MEASURE 1; CCNOT 0 1 2; MOVE]. *)
Example C29_nonvacuous :
  let prog := [mkI KGate [0%N]; mkI KGate [0%N; 1%N]; mkI KGate [2%N]; mkI KGate [1%N; 1%N];
               mkI KMeasure [1%N]; mkI KGate [0%N; 1%N; 2%N]; mkI KClassical []] in
  build prog = inr [(0, 1); (1, 3); (3, 4); (1, 5); (4, 5); (2, 5)]
  /\ map (gate_depth prog) [0; 1; 2; 3; 4] = [Some 4; Some 4; Some 3; Some 1; Some 0]
  /\ chk_depth prog 2 3 = true /\ chain_max_dp prog 1 = 4
  /\ chain prog [0; 1; 3; 4; 5].
Proof.
  cbv zeta. split; [vm_compute; reflexivity|]. split; [vm_compute; reflexivity|].
  split; [vm_compute; reflexivity|]. split; [vm_compute; reflexivity|]. unfold chain.
  repeat (apply rp_cons; [apply linkb_spec; vm_compute; reflexivity|]).
  apply rp_one. cbn [length]. repeat constructor.
Qed.

(** The snapshot's builder (edge added unconditionally) gives [X 0; CNOT 0 0] the self-loop (1,1),
    on which path enumeration does not terminate; the repaired builder does not. *)
Example C29_unfixed_self_loop :
  let prog := [mkI KGate [0%N]; mkI KGate [0%N; 0%N]] in
  build_gen true prog = inr [(0, 1); (1, 1)] /\ build prog = inr [(0, 1)]
  /\ gate_depth prog 1 = Some 2.
Proof. vm_compute. repeat split; reflexivity. Qed.
