(** C18 — calibration expansion always terminates without crashing.
    Pinned statements only; proofs in Proofs/CalExpandProofs.v; model Model/CalExpand.v
    ([expand] = Calibrations::expand_inner with explicit fuel, [Hits] = the depth-first traversal
    reaches an instruction while an equal one is on the breadcrumb path). *)
From Coq Require Import List NArith Bool PeanoNat.
From QV Require Import Model.CalExpand Proofs.CalExpandProofs.
Import ListNotations.

(** The recursive-calibration error is returned (with some fuel, i.e. by the real unbounded
    recursion if it gets that far) iff some instruction is reached while already being expanded. *)
Theorem C18_iff :
  forall (cs : list cal) (path : list instr) (i x : instr),
    (exists fuel, expand fuel cs path i = ErrRecursive x) <-> Hits cs path i x.
Proof. exact expand_err_iff. Qed.

(** [Hits] spelled out (inversion principle as an equivalence). *)
Theorem C18_hits_unfold :
  forall cs path i x,
    Hits cs path i x <->
    (In i path /\ x = i) \/
    (~ In i path /\ exists body pre j post,
        rewrite cs i = Some body /\ body = pre ++ j :: post /\
        (forall k, In k pre -> exists fuel r, expand fuel cs (i :: path) k = Done r) /\
        Hits cs (i :: path) j x).
Proof.
  intros cs path i x. split.
  - intros H. inversion H as [p i' Hin | p i' body pre j post x' Hnin Hr Hb Hpre Hh]; subst.
    + left. auto.
    + right. split; [exact Hnin|]. exists (pre ++ j :: post), pre, j, post. auto.
  - intros [[Hin ->] | [Hnin (body & pre & j & post & Hr & Hb & Hpre & Hh)]].
    + now apply Hits_here.
    + eapply Hits_below; eassumption.
Qed.

(** The reported instruction is on the breadcrumb path (an extension of the initial one) when hit. *)
Theorem C18_reported_is_on_path :
  forall cs path i x, Hits cs path i x -> exists ext, In x (ext ++ path).
Proof. exact Hits_on_path. Qed.

(** Whole program: the error is returned iff the first instruction that does not expand cleanly
    hits the breadcrumb condition. *)
Theorem C18_program_iff :
  forall cs prog x,
    (exists fuel, expand_program fuel cs prog = LErr x) <->
    exists pre j post, prog = pre ++ j :: post /\
      (forall k, In k pre -> exists fuel r, expand fuel cs [] k = Done r) /\ Hits cs [] j x.
Proof. exact program_err_iff. Qed.

(** Results do not depend on the fuel once it suffices. *)
Theorem C18_fuel_monotone :
  forall fuel fuel' cs path i,
    fuel <= fuel' -> expand fuel cs path i <> OutOfFuel ->
    expand fuel' cs path i = expand fuel cs path i.
Proof. exact expand_mono. Qed.

(** Termination on the syntactic non-growing class (every body parameter is variable-free or the
    bare variable): the recursion depth is bounded by the finite universe of reachable
    instructions (pigeonhole on the repetition-free breadcrumb path). *)
Theorem C18_terminates :
  forall cs i fuel,
    non_growing cs = true -> bound cs i <= fuel -> expand fuel cs [] i <> OutOfFuel.
Proof. exact expand_terminates. Qed.

Theorem C18_program_terminates :
  forall cs prog fuel,
    non_growing cs = true -> prog_bound cs prog <= fuel -> expand_program fuel cs prog <> LOutOfFuel.
Proof. exact expand_program_terminates. Qed.

(** The full statement "for every program expansion terminates" is FALSE of the faithful model:
    DEFCAL RX(%t) 0: RX(%t+1) 0 applied to RX(0) 0 never repeats an instruction and exhausts every
    fuel (in the implementation: unbounded recursion, stack overflow). *)
Definition C18_full : Prop :=
  forall cs i, exists fuel, expand fuel cs [] i <> OutOfFuel.

Theorem C18_refuted :
  exists cs i, growing cs = true /\ forall fuel, expand fuel cs [] i = OutOfFuel.
Proof.
  exists [grow_cal], (grow_instr 0). split; [reflexivity | exact growing_runs_out_of_every_fuel].
Qed.

Theorem C18_full_is_false : ~ C18_full.
Proof.
  intros H. destruct (H [grow_cal] (grow_instr 0)) as [fuel Hf].
  apply Hf. apply growing_runs_out_of_every_fuel.
Qed.

(** Non-vacuity: a mutually recursive set (error), a non-growing nested set (expands), a growing
    chain caught by a literal calibration (terminates although outside the non-growing class). *)
Example C18_nonvacuous :
  let X q := IGate 1%N (Lit 0%N) q in
  let Y q := IGate 2%N (Lit 0%N) q in
  let RX p := IGate 0%N p (QF 0%N) in
  let mutual := [ {| c_name := 1%N; c_ppat := CVar; c_q := QV; c_body := [INop; Y QV] |};
                  {| c_name := 2%N; c_ppat := CVar; c_q := QF 0%N; c_body := [X (QF 0%N)] |} ] in
  let nested := [ {| c_name := 1%N; c_ppat := CVar; c_q := QV; c_body := [Y QV; RX PVar] |};
                  {| c_name := 2%N; c_ppat := CLit 0%N; c_q := QV; c_body := [INop] |} ] in
  let caught := [ {| c_name := 0%N; c_ppat := CVar; c_q := QF 0%N; c_body := [RX (Plus1 PVar)] |};
                  {| c_name := 0%N; c_ppat := CLit 2%N; c_q := QF 0%N; c_body := [INop] |} ] in
  non_growing mutual = true /\
  expand_program (prog_bound mutual [X (QF 0%N)]) mutual [X (QF 0%N)] = LErr (X (QF 0%N)) /\
  expand_program (prog_bound mutual [X (QF 1%N)]) mutual [X (QF 1%N)] = LDone [INop; Y (QF 1%N)] /\
  non_growing nested = true /\
  expand_program (prog_bound nested [X (QF 3%N)]) nested [X (QF 3%N)] = LDone [INop; RX (Lit 0%N)] /\
  growing caught = true /\
  expand_program 10 caught [RX (Lit 0%N)] = LDone [INop].
Proof. vm_compute. repeat split; reflexivity. Qed.
