(** C25 — computed schedules are as-soon-as-possible and frame-exclusive.
    Pinned statements only; proofs live in Proofs/ScheduleProofs.v (model: Model/Schedule.v).

    Time is an abstract structure: a type [T] with [zero], [add], [sub] and a strict comparison
    [ltb]; [le a b] means [ltb b a = false].  The laws used are premises of each theorem:
    asymmetry of [ltb], transitivity of [le] (together: a total preorder), [a <= a + d] for
    [0 <= d], and — only for the span hull — [a + (b - a) = b] for [a <= b].
    [cstart] / [cend] are the ASAP start / end times defined by recursion over the Scheduled
    predecessors; [durT node] is the given duration of instruction [node]. *)
From Coq Require Import List NArith ZArith Bool Relations.
From QV Require Import Model.DepQueue Model.Graph Proofs.GraphProofs Proofs.GraphReachProofs
  Proofs.GraphBlockProofs Model.Schedule Proofs.ScheduleProofs.
Import ListNotations.
Local Open Scope N_scope.

Section C25.
  Variable T : Type.
  Variables (zero : T) (add sub : T -> T -> T) (ltb : T -> T -> bool).
  Notation le := (le T ltb).
  Hypothesis ltb_asym : forall a b, ltb a b = true -> ltb b a = false.
  Hypothesis le_trans : forall a b c, le a b -> le b c -> le a c.

  (** ASAP, exactly once, for every graph whose Scheduled edges go forward (C22) and all durations
      known: the schedule lists the instructions 1..n once each, instruction [node] with its given
      duration and start [cstart node]; the total duration is the fold-max of the end times. *)
  Theorem C25_schedule_asap :
    forall (E : list gedge) (durs : list (option T)),
      (forall a b, In a (spreds E b) -> a < b) -> known T durs ->
      schedule T zero add ltb E durs =
        inr (map (fun node => (node, (cstart T zero add ltb E durs node, durT T zero durs node)))
                 (nseq 1 (length durs)),
             fold_left (tmax T ltb) (map (cend T zero add ltb E durs) (nseq 1 (length durs))) zero).
  Proof. intros E durs. exact (schedule_spec T zero add ltb E durs). Qed.

  (** the ASAP start is the maximum of zero and the end times of the Scheduled predecessors:
      an upper bound of all of them that is attained (or zero) *)
  Theorem C25_start_is_max :
    forall (E : list gedge) (durs : list (option T)) (node : N),
      (forall a b, In a (spreds E b) -> a < b) ->
      let s := cstart T zero add ltb E durs node in
      let pe := map (cend T zero add ltb E durs) (spreds E node) in
      le zero s /\ (forall e, In e pe -> le e s) /\ (s = zero \/ In s pe).
  Proof.
    intros E durs node Hf s pe. unfold s. rewrite (cstart_eq T zero add ltb E durs Hf node).
    exact (fold_tmax_spec T ltb ltb_asym le_trans pe zero).
  Qed.

  (** independence of the topological order used by the traversal, exactly-once, duration = latest end *)
  Theorem C25_order_independent :
    forall (E : list gedge) (durs : list (option T)) (order : list N),
      (forall a b, In a (spreds E b) -> a < b) -> known T durs ->
      (forall x, In x order -> x <= end_of T durs) -> topo_from T E durs [] order ->
      exists items total,
        sched_loop T zero add ltb E durs (end_of T durs) order [] [] zero = inr (items, total) /\
        map (item_node T) items = filter (instr T durs) order /\
        (forall x, In x items ->
           x = (item_node T x, (cstart T zero add ltb E durs (item_node T x), durT T zero durs (item_node T x)))) /\
        le zero total /\ (forall x, In x items -> le (item_end T add x) total) /\
        (total = zero \/ exists x, In x items /\ total = item_end T add x).
  Proof. intros E durs order Hf Hk. exact (schedule_order_independent T zero add ltb ltb_asym le_trans E durs Hf Hk order). Qed.

  (** frame exclusivity: in the graph built for a block, two scheduled RF instructions at
      positions p < q, one using a frame the other uses or blocks, do not overlap when all
      durations are non-negative: the earlier ends before the later starts. *)
  Theorem C25_conflicts_exclusive :
    (forall a d, le zero d -> le a (add a d)) ->
    forall (is : list info) (term : option info) (E : list gedge) (durs : list (option T))
           (p q : nat) (i j : info),
      build is term = inr E -> wf_block is term = true ->
      (forall node, le zero (durT T zero durs node)) ->
      nth_error is p = Some i -> nth_error is q = Some j -> (p < q)%nat ->
      fconflict i j = true -> i_sched i = true -> i_sched j = true ->
      le (cend T zero add ltb E durs (1 + N.of_nat p)) (cstart T zero add ltb E durs (1 + N.of_nat q)).
  Proof. intros Hnn is term E durs p q i j. exact (sched_conflicts_exclusive T zero add ltb ltb_asym le_trans Hnn is term E durs p q i j). Qed.

  (** calibration expansion: every source instruction whose expansion contributes an item appears
      exactly once, its span starts at the earliest start and ends at the latest end of the items
      of its expansion ([gidx groups x] = the source instruction whose expansion contains [x]);
      the duration is the latest end. *)
  Theorem C25_source_span_is_hull :
    (forall a b, le a b -> add a (sub b a) = b) ->
    forall (groups : list nat) (items : list (item T)),
      (forall x, In x items -> le (item_start T x) (item_end T add x)) ->
      (forall x, In x items -> 1 <= item_node T x <= N.of_nat (list_sum groups)) ->
      let its := fst (hull_schedule T zero add sub ltb groups items) in
      let total := snd (hull_schedule T zero add sub ltb groups items) in
      NoDup (map (item_node T) its) /\
      (forall k, In (N.succ (N.of_nat k)) (map (item_node T) its) <-> exists x, In x items /\ gidx T groups x = k) /\
      (forall y, In y its ->
         exists k, item_node T y = N.succ (N.of_nat k) /\
           (exists x, In x items /\ gidx T groups x = k /\ item_start T y = item_start T x) /\
           (exists x, In x items /\ gidx T groups x = k /\ item_end T add y = item_end T add x) /\
           (forall x, In x items -> gidx T groups x = k ->
                      le (item_start T y) (item_start T x) /\ le (item_end T add x) (item_end T add y))) /\
      le zero total /\ (forall y, In y its -> le (item_end T add y) total) /\
      (total = zero \/ exists y, In y its /\ total = item_end T add y).
  Proof. intros Hsa groups items. exact (hull_schedule_spec T zero add sub ltb ltb_asym le_trans Hsa groups items). Qed.

  (** a source instruction whose expansion is empty (a calibration with an empty body) gets no
      item; the instructions after it keep their own spans (previous theorem) *)
  Theorem C25_empty_expansion_absent :
    (forall a b, le a b -> add a (sub b a) = b) ->
    forall (groups : list nat) (items : list (item T)) (k : nat),
      (forall x, In x items -> le (item_start T x) (item_end T add x)) ->
      (forall x, In x items -> 1 <= item_node T x <= N.of_nat (list_sum groups)) ->
      nth_error groups k = Some 0%nat ->
      ~ In (N.succ (N.of_nat k)) (map (item_node T) (fst (hull_schedule T zero add sub ltb groups items))).
  Proof. intros Hsa. exact (empty_expansion_absent T zero add sub ltb ltb_asym le_trans Hsa). Qed.

  (** the instance checker run on the implementation's schedule *)
  Theorem C25_checker_sound :
    forall (is : list info) (E : list gedge) (durs : list (option T)) (items : list (item T)) (total : T),
      chk_sched T zero add ltb is E durs items total = 0%N ->
      once_spec T ltb durs items /\ asap_spec T zero add ltb E (end_of T durs) items /\
      (nonneg_durs T zero ltb durs = true -> exclusive_spec T add ltb is items) /\
      total_spec T zero add ltb items total.
  Proof. exact (chk_sched_sound T zero add sub ltb). Qed.
End C25.

(** Non-vacuity: the laws are satisfiable (integers), and a concrete block — blocking pulse on f0
    (2 units), non-blocking pulse on f1 (4), fence on both (0), pulse on f0 (1) — builds, is well
    formed, has conflicts, and schedules to starts 0, 0, 4, 4 with total 5. *)
Example C25_nonvacuous :
  ((forall a b : Z, Z.ltb a b = true -> Z.ltb b a = false) /\
   (forall a b c : Z, le Z Z.ltb a b -> le Z Z.ltb b c -> le Z Z.ltb a c) /\
   (forall a d : Z, le Z Z.ltb 0%Z d -> le Z Z.ltb a (Z.add a d)) /\
   (forall a b : Z, le Z Z.ltb a b -> Z.add a (Z.sub b a) = b)) /\
  let is := [MkInfo RRF false [] [] [] [0] [] true;
             MkInfo RRF false [] [] [] [1] [] true;
             MkInfo RRF false [] [] [] [] [0; 1] true;
             MkInfo RRF false [] [] [] [0] [1] true] in
  let durs := [Some 2%Z; Some 4%Z; Some 0%Z; Some 1%Z] in
  wf_block is None = true /\
  exists E, build is None = inr E /\
    schedule Z 0%Z Z.add Z.ltb E durs =
      inr ([(1%N, (0%Z, 2%Z)); (2%N, (0%Z, 4%Z)); (3%N, (4%Z, 0%Z)); (4%N, (4%Z, 1%Z))], 5%Z) /\
    chk_sched Z 0%Z Z.add Z.ltb is E durs [(1%N, (0%Z, 2%Z)); (2%N, (0%Z, 4%Z)); (3%N, (4%Z, 0%Z)); (4%N, (4%Z, 1%Z))] 5%Z = 0.
Proof. split; [exact Z_laws|]. vm_compute. split; [reflexivity|]. eexists. repeat split. Qed.
