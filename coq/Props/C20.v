(** C20 — gate-sequence expansion substitutes correctly and keeps needed definitions.
    Pinned statements only; definitions and proofs live in Model/SeqExpand.v and
    Proofs/SeqExpandProofs.v.

    [expand_program defs sel l] models [Program::expand_defgate_sequences(filter)] on the body [l]
    of a program whose gate definitions are [defs] ([sel] = the filter; fuel = number of sequence
    definitions + 1); [keep defs sel] models [filter_sequence_gate_definitions_to_keep]. *)
From Coq Require Import List NArith Bool Relations.
From QV Require Import Model.SeqExpand Proofs.SeqExpandProofs.
Import ListNotations.

(** The result is [Ok out] exactly when [out] is [l] with every selected invocation of a sequence
    gate replaced by the sequence's gates with formal parameters and formal qubits substituted
    ([Instantiates]: last binding wins for duplicate formals), recursively, everything else
    ([Untouched]: non-gates, undefined or non-sequence gates, unselected names) copied in order.
    For every definition list, filter and body. *)
Theorem C20_expansion_correct :
  forall (defs : list gdef) (sel : name -> bool) (l out : list instr),
    expand_program defs sel l = Ok out <-> SeqExpands defs sel [] l out.
Proof. exact expand_program_iff. Qed.

(** ... in particular it is the plain recursive substitution (relation without the stack). *)
Theorem C20_expansion_is_recursive_substitution :
  forall (defs : list gdef) (sel : name -> bool) (l out : list instr),
    expand_program defs sel l = Ok out -> Expands defs sel l out.
Proof.
  intros defs sel l out H. apply (SeqExpands_Expands defs sel [] l out).
  now apply expand_program_iff.
Qed.

(** A body without selected sequence invocations is returned unchanged. *)
Theorem C20_unselected_and_other_instructions_unchanged :
  forall (defs : list gdef) (sel : name -> bool) (l : list instr),
    Forall (Untouched defs sel) l -> expand_program defs sel l = Ok l.
Proof. exact expand_untouched. Qed.

(** Errors: for definitions as [DefGateSequence::try_new] admits them, the result is [Err e]
    exactly when [SeqFails] derives [e]: the first invocation, in depth-first left-to-right order,
    that has the wrong parameter count, carries modifiers, re-enters a sequence being expanded
    ([ECycle] with the stack), has the wrong qubit count, or a non-fixed qubit — checked in this
    order. *)
Theorem C20_errors_characterised :
  forall (defs : list gdef) (sel : name -> bool) (l : list instr) (e : err),
    WFdefs defs -> (expand_program defs sel l = Err e <-> SeqFails defs sel [] l e).
Proof. exact expand_program_err_iff. Qed.

Theorem C20_error_kinds :
  forall (defs : list gdef) (sel : name -> bool) (l : list instr) (e : err),
    WFdefs defs -> expand_program defs sel l = Err e -> reportable e.
Proof.
  intros defs sel l e WF H. apply (SeqFails_reportable defs sel [] l e).
  now apply expand_program_err_iff.
Qed.

(** Termination: with fuel above the number of sequence definitions the expansion never runs out
    of fuel (the stack of names being expanded is repetition-free and consists of sequence names). *)
Theorem C20_terminates :
  forall (defs : list gdef) (sel : name -> bool) (l : list instr) (fuel : nat),
    seq_count defs < fuel -> expand defs sel fuel [] l <> Err OutOfFuel.
Proof. exact expand_program_terminates. Qed.

(** Kept definitions: every non-sequence definition; a sequence definition iff the filter rejects
    it or it is reachable, through "body mentions a sequence definition" edges, from a sequence
    definition the filter rejects.  The kept list is the original list with the others deleted. *)
Theorem C20_kept_definitions :
  forall (defs : list gdef) (sel : name -> bool) (d : gdef),
    In d (keep defs sel) <->
    In d defs /\
    (is_seq d = false \/ sel (dname d) = false \/
     exists u, In u (seq_names defs) /\ sel u = false /\
               clos_refl_trans name (edge defs) u (dname d)).
Proof. exact keep_spec. Qed.

Theorem C20_kept_order :
  forall (defs : list gdef) (sel : name -> bool),
    exists f, keep defs sel = filter f defs /\ forall d, f d = true <-> Kept defs sel d.
Proof. exact keep_order. Qed.

(** The instance checker run on the implementation's output decides exactly these clauses. *)
Theorem C20_checker_sound :
  forall (defs : list gdef) (sel : name -> bool) (l : list instr)
         (r : res (list instr * list name)),
    WFdefs defs -> chk_c20 defs sel l r = 0%N ->
    match r with
    | Ok (out, kept) => SeqExpands defs sel [] l out /\ kept = map dname (keep defs sel)
    | Err e => SeqFails defs sel [] l e
    end.
Proof. exact chk_c20_sound. Qed.

(** Non-vacuity.  Names: 0 = s2, 1 = s1, 2 = RZ, 3 = X, 4 = H, 10 = %p, 11 = %t, 20 = q, 21 = r.
      DEFGATE s2(%p, %t) q r AS SEQUENCE:  s1(%t) r ; X q
      DEFGATE s1(%p) q AS SEQUENCE:        RZ(%p) q
      DEFGATE s3 q AS SEQUENCE:            s3 q            (name 5, a self cycle)
    body:  s2(7, pi) 0 1 ; <other 9> ; H 2 *)
Local Open Scope N_scope.
Example C20_nonvacuous :
  let s1call := G 1 [EVar 11] [QVar 21] [] in
  let defs := [D 0 [10; 11] (SSeq [20; 21] [s1call; G 3 [] [QVar 20] []]);
               D 1 [10] (SSeq [20] [G 2 [EVar 10] [QVar 20] []]);
               D 5 [] (SSeq [20] [G 5 [] [QVar 20] []]);
               D 6 [] SMatrix]%N in
  let body := [IGate (G 0 [ENum 7; EPi] [QFixed 0; QFixed 1] []); IOther 9;
               IGate (G 4 [] [QFixed 2] [])]%N in
  expand_program defs (fun _ => true) body
  = Ok [IGate (G 2 [EPi] [QFixed 1] []); IGate (G 3 [] [QFixed 0] []); IOther 9;
        IGate (G 4 [] [QFixed 2] [])]%N
  /\ map dname (keep defs (fun _ => true)) = [6]%N
  /\ map dname (keep defs (fun n => negb (N.eqb n 0))) = [0; 1; 6]%N
  /\ expand_program defs (fun n => N.eqb n 1) body = Ok body
  /\ expand_program defs (fun _ => true) [IGate (G 5 [] [QFixed 0] [])]%N = Err (ECycle [5%N])
  /\ expand_program defs (fun _ => true) [IGate (G 1 [] [QFixed 0] [])]%N = Err (EParamCount 1 0).
Proof. vm_compute. repeat split; reflexivity. Qed.

(** After a successful expansion no selected sequence invocation is left: every instruction of the
    output is one the expansion leaves alone, so expanding again changes nothing. *)
Theorem C20_nothing_selected_remains :
  forall (defs : list gdef) (sel : name -> bool) (l out : list instr),
    expand_program defs sel l = Ok out ->
    Forall (Untouched defs sel) out /\ expand_program defs sel out = Ok out.
Proof.
  intros defs sel l out H. split.
  - apply expand_program_iff in H. eapply SeqExpands_untouched; eauto.
  - eapply expand_idempotent; eauto.
Qed.

(** The specification determines the output (it is a function of definitions, filter and body). *)
Theorem C20_expansion_deterministic :
  forall (defs : list gdef) (sel : name -> bool) (l out out' : list instr),
    SeqExpands defs sel [] l out -> SeqExpands defs sel [] l out' -> out = out'.
Proof. intros defs sel l out out'. apply SeqExpands_fun. apply StackOK_nil. Qed.
