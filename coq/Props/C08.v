(** C08 — serialization is deterministic and keeps definition order.
    Pinned statements only; proofs live in Proofs/ProgramProofs.v.

    [dedup_spec] / [listing_spec] (Model/Program.v) are defined without reference to the insert
    operation: the distinct keys in order of first occurrence ([first_keys]), each with the LAST
    value bound to it ([last_value] = lookup in the reversed sequence). *)
From Coq Require Import List NArith Bool.
From QV Require Import Model.Program Proofs.ProgramProofs.
Import ListNotations.

(** Within each definition kind the listing follows first-insertion order with the last value. *)
Theorem C08_order :
  forall (is : list instr) (kd : kind),
    vals (defs kd (from_instructions is)) = dedup_spec (sel kd is).
Proof. exact vals_defs_from. Qed.

(** The same, read off the listing: the instructions of kind [kd] in [to_instructions]. *)
Theorem C08_order_in_listing :
  forall (is : list instr) (kd : kind),
    kind_part kd (to_instructions (from_instructions is)) = dedup_spec (sel kd is).
Proof. intros is kd. exact (kind_part_from kd is). Qed.

(** The whole listing (hence the serialized text) of a built program is a function of the
    instruction sequence, given by the independent specification. *)
Theorem C08_listing :
  forall is : list instr, to_instructions (from_instructions is) = listing_spec is.
Proof. exact to_instructions_from. Qed.

(** Building via concatenation gives the same program as building the whole sequence at once,
    for every split point: same maps, same body, same cache (as a set) — hence the same listing. *)
Theorem C08_concat_builds_same_program :
  forall is1 is2 : list instr,
    prog_equiv (add (from_instructions is1) (from_instructions is2)) (from_instructions (is1 ++ is2)).
Proof. exact add_from_from_equiv. Qed.

Theorem C08_concat_listing :
  forall is1 is2 : list instr,
    to_instructions (add (from_instructions is1) (from_instructions is2)) = listing_spec (is1 ++ is2).
Proof. exact to_instructions_concat. Qed.

(** A redefinition with the same key replaces the earlier one in place (key order unchanged, new
    value bound); a new key is appended after all existing ones. *)
Theorem C08_redefinition_in_place :
  forall (kd : kind) (k : N) (p : program) (i : instr),
    route i = Some (kd, k) -> In k (keys (defs kd p)) ->
    keys (defs kd (add_instruction p i)) = keys (defs kd p) /\
    lookup k (defs kd (add_instruction p i)) = Some i.
Proof. exact redefinition_in_place. Qed.

Theorem C08_new_key_appended :
  forall (kd : kind) (k : N) (p : program) (i : instr),
    route i = Some (kd, k) -> ~ In k (keys (defs kd p)) ->
    defs kd (add_instruction p i) = defs kd p ++ [(k, i)].
Proof. exact new_definition_appended. Qed.

(** What the specification lists: every bound key exactly once. *)
Theorem C08_spec_keys :
  forall l : alist, NoDup (first_keys l) /\ (forall k, In k (first_keys l) <-> In k (keys l)).
Proof. intros l. split; [apply nodup_from_NoDup | intros k; apply first_keys_In]. Qed.

(** The instance check in the case files is the comparison with [listing_spec]. *)
Theorem C08_checker_sound :
  forall is out : list instr, instrs_eqb out (listing_spec is) = true -> out = listing_spec is.
Proof. intros is out. apply instrs_eqb_eq. Qed.

(** Non-vacuity: three distinct frames, one redefined; gate and calibration redefinitions. *)
Example C08_nonvacuous :
  let is := [FrameDef 1 0 [1]; GateDef 0 0 []; FrameDef 0 0 [0]; Body 0 [0]; FrameDef 3 0 [0];
             MeasureCalib 0 0 [0; 0]; FrameDef 1 7 [1]; GateDef 1 0 []; GateDef 0 9 []; MeasureCalib 0 2 [0; 0; 4]]%N in
  to_instructions (from_instructions is) =
    [FrameDef 1 7 [1]; FrameDef 0 0 [0]; FrameDef 3 0 [0]; MeasureCalib 0 2 [0; 0; 4];
     GateDef 0 9 []; GateDef 1 0 []; Body 0 [0]]%N
  /\ listing_spec is = to_instructions (from_instructions is)
  /\ to_instructions (add (from_instructions (firstn 4 is)) (from_instructions (skipn 4 is)))
     = to_instructions (from_instructions is).
Proof. vm_compute. repeat split; reflexivity. Qed.
