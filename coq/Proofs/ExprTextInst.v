(** (1) Soundness of the C03 instance checker on the executable instantiation.
    (2) A concrete evaluation algebra satisfying the literal laws of Proofs/ExprTextProofs.v
        (exact Gaussian rationals over natural magnitudes): the hypotheses are satisfiable. *)
From Coq Require Import List NArith ZArith QArith Qcanon Bool Lia Ring.
From QV Require Import Model.Expr Model.ExactNum Model.ExprText Model.ExprTextExec
                       Proofs.ExprProofs Proofs.ExprTextProofs.
Import ListNotations.

Lemma dec_eqb_sound : forall a b : dec, dec_eqb a b = true -> a = b.
Proof.
  intros [i ds] [j es] H. unfold dec_eqb in H. cbn [fst snd] in H.
  apply andb_true_iff in H. destruct H as [H1 H2].
  apply N.eqb_eq in H1. subst. f_equal.
  apply (list_eqb_sound N.eqb); [intros x y E; apply N.eqb_eq; exact E | exact H2].
Qed.

Lemma slit_eqb_sound : forall a b : slit dec, slit_eqb a b = true -> a = b.
Proof.
  intros [s m] [t n] H. unfold slit_eqb in H. cbn [fst snd] in H.
  apply andb_true_iff in H. destruct H as [H1 H2].
  apply eqb_prop in H1. apply dec_eqb_sound in H2. subst. reflexivity.
Qed.

Lemma tlit_eqb_sound : forall a b : tlit, tlit_eqb a b = true -> a = b.
Proof.
  intros [a1 a2] [b1 b2] H. unfold tlit_eqb in H. cbn [fst snd] in H.
  apply andb_true_iff in H. destruct H as [H1 H2].
  apply slit_eqb_sound in H1. apply slit_eqb_sound in H2. subst. reflexivity.
Qed.

Lemma dec_index_roundtrip : forall i, index_of_dec (dec_of_index i) = Some i.
Proof. reflexivity. Qed.

(** If the checker accepts, the implementation's re-parse is the normal form of [e], which is
    what the model's parser returns on the model's tokens. *)
Lemma chk_reparse_sound :
  forall (e : tex) (o : c03obs),
    chk_reparse e o = true ->
    o_reparsed o = Some (x_norm e)
    /\ x_parse_expr (2 * size e + 1) (x_ptoks e) = Some (x_norm e).
Proof.
  intros e o H. unfold chk_reparse in H.
  destruct (o_reparsed o) as [e'|] eqn:E; [|discriminate].
  apply (expr_eqb_sound tlit_eqb tlit_eqb_sound) in H. subst e'.
  split; [reflexivity |].
  exact (parse_expr_print_size dec dec_zero dec_is_zero dec_of_index index_of_dec
           dec_index_roundtrip e).
Qed.

(** * A model of the literal laws *)
Definition nval (m : N) : Qc := Q2Qc (inject_Z (Z.of_N m)).
Definition nzero (m : N) : bool := N.eqb m 0.
Definition sval (s : slit N) : Qc := if fst s && negb (nzero (snd s)) then (- nval (snd s))%Qc else nval (snd s).

Definition gc := (Qc * Qc)%type.
Definition gc_alg : alg (lit N) gc Qc := {|
  of_lit := fun c => (sval (fst c), sval (snd c));
  of_mem := fun m => (m, 0%Qc);
  c_pi := (Q2Qc (355 # 113), 0%Qc);
  c_neg := fun v => ((- fst v)%Qc, (- snd v)%Qc);
  c_fn := fun _ v => v;
  c_infix := fun o x y =>
    match o with
    | Plus => Some ((fst x + fst y)%Qc, (snd x + snd y)%Qc)
    | Minus => Some ((fst x - fst y)%Qc, (snd x - snd y)%Qc)
    | _ => Some x
    end;
|}.

Lemma nval_zero m : nzero m = true -> nval m = 0%Qc.
Proof. unfold nzero. intro H. apply N.eqb_eq in H. subst. reflexivity. Qed.

Lemma gc_lit_zero : forall re im : slit N,
    sl_zero N nzero re = true -> sl_zero N nzero im = true ->
    of_lit gc_alg (re, im) = of_lit gc_alg (real_lit N 0%N 0%N).
Proof.
  intros [s1 m1] [s2 m2] H1 H2. unfold sl_zero in *. cbn [fst snd] in *.
  cbn [of_lit gc_alg fst snd]. unfold sval. cbn [fst snd]. rewrite H1, H2.
  rewrite !andb_false_r. rewrite (nval_zero _ H1), (nval_zero _ H2). reflexivity.
Qed.

Lemma gc_lit_real : forall re im : slit N,
    sl_zero N nzero re = false -> sl_zero N nzero im = true ->
    of_lit gc_alg (re, im)
    = sgn N nzero gc Qc gc_alg re (of_lit gc_alg (real_lit N 0%N (snd re))).
Proof.
  intros [s1 m1] [s2 m2] H1 H2. unfold sl_zero in *. cbn [fst snd] in *.
  unfold sgn, sl_neg, sl_zero. cbn [of_lit gc_alg fst snd real_lit pos c_neg]. unfold sval. cbn [fst snd].
  rewrite H1, H2. cbn [negb]. rewrite !andb_false_r, andb_true_r. rewrite (nval_zero _ H2).
  cbn [nzero N.eqb andb negb]. destruct s1; cbn [andb]; f_equal; ring.
Qed.

Lemma gc_lit_imag : forall re im : slit N,
    sl_zero N nzero re = true -> sl_zero N nzero im = false ->
    of_lit gc_alg (re, im)
    = sgn N nzero gc Qc gc_alg im (of_lit gc_alg (imag_lit N 0%N (snd im))).
Proof.
  intros [s1 m1] [s2 m2] H1 H2. unfold sl_zero in *. cbn [fst snd] in *.
  unfold sgn, sl_neg, sl_zero. cbn [of_lit gc_alg fst snd imag_lit pos c_neg]. unfold sval. cbn [fst snd].
  rewrite H1, H2. cbn [negb]. rewrite !andb_false_r, andb_true_r. rewrite (nval_zero _ H1).
  cbn [nzero N.eqb andb negb]. destruct s2; cbn [andb]; f_equal; ring.
Qed.

Lemma gc_lit_both : forall re im : slit N,
    sl_zero N nzero re = false -> sl_zero N nzero im = false ->
    c_infix gc_alg (if sl_neg N nzero im then Minus else Plus)
            (sgn N nzero gc Qc gc_alg re (of_lit gc_alg (real_lit N 0%N (snd re))))
            (of_lit gc_alg (imag_lit N 0%N (snd im)))
    = Some (of_lit gc_alg (re, im)).
Proof.
  intros [s1 m1] [s2 m2] H1 H2. unfold sl_zero in *. cbn [fst snd] in *.
  unfold sgn, sl_neg, sl_zero, real_lit, imag_lit, pos.
  cbn [fst snd of_lit gc_alg c_neg]. unfold sval. cbn [fst snd].
  rewrite ?H1, ?H2. change (nzero 0%N) with true. cbn [andb negb]. rewrite ?andb_true_r, ?andb_false_r.
  destruct s1, s2; cbn [andb c_infix gc_alg fst snd c_neg]; change (nval 0%N) with 0%Qc; apply f_equal; apply f_equal2; ring.
Qed.
