(** C35, schedule clause: deleting frames that no instruction uses changes neither the success of
    [ScheduledBasicBlock::build] nor any computed schedule.

    Part A: the builder run on the stripped summaries is the builder run on the original ones
            with the queues of the deleted frames erased (a simulation, for ANY set [D]).
    Part B: when no instruction uses a frame of [D], the edges of those queues all leave the block
            start or enter the block end (through the per-frame projections of GraphBlockProofs).
    Part C: hence every instruction has the same Scheduled predecessors up to the block start.
    Part D: the scheduler ([sched_loop], [schedule], [block_schedule], and the declarative ASAP
            times [cstart] / [cend]) cannot see the difference.
    Part E: from the program model of Model/Simplify35.v: the summaries of the simplified
            program's instructions ARE the stripped summaries of the expanded program's. *)
From Coq Require Import List NArith Bool Lia.
From QV Require Import Model.Simplify35 Proofs.Simplify35Proofs.
From QV Require Import Model.DepQueue Proofs.DepQueueProofs Model.Graph Proofs.GraphProofs
  Proofs.GraphReachProofs Proofs.GraphBlockProofs Model.Schedule Proofs.ScheduleProofs
  Model.Simplify35Schedule.
Import ListNotations.
Local Open Scope N_scope.

(** * A. simulation *)

Definition qstrip (D : list N) (m : qmap) : qmap := filter (fun kq : N * queue => keepk D (fst kq)) m.
Definition dstrip (D : list N) (ds : list (N * dep)) : list (N * dep) :=
  filter (fun kd : N * dep => keepk D (fst kd)) ds.
Definition sstrip (D : list N) (s : st) : st :=
  MkSt (s_mem s) (qstrip D (s_all s)) (qstrip D (s_timed s)) (s_trail s).

Lemma qm_find_strip D m k : keepk D k = true -> qm_find (qstrip D m) k = qm_find m k.
Proof.
  intros Hk. induction m as [|[k' q] t IH]; [reflexivity|].
  unfold qstrip. cbn [filter fst]. fold (qstrip D t).
  destruct (N.eqb_spec k k') as [<-|Hne].
  - rewrite Hk. cbn [qm_find]. now rewrite N.eqb_refl.
  - cbn [qm_find]. destruct (keepk D k'); cbn [qm_find];
      destruct (N.eqb_spec k k'); try contradiction; exact IH.
Qed.

Lemma qm_get_strip D init m k : keepk D k = true -> qm_get init (qstrip D m) k = qm_get init m k.
Proof. intros Hk. unfold qm_get. now rewrite qm_find_strip. Qed.

Lemma qstrip_set_keep D m k q : keepk D k = true -> qstrip D (qm_set m k q) = qm_set (qstrip D m) k q.
Proof.
  intros Hk. induction m as [|[k' q'] t IH].
  - unfold qstrip. cbn [qm_set filter fst]. now rewrite Hk.
  - cbn [qm_set]. destruct (N.eqb_spec k k') as [<-|Hne].
    + unfold qstrip. cbn [filter fst]. rewrite Hk. cbn [qm_set]. now rewrite N.eqb_refl.
    + unfold qstrip. cbn [filter fst]. fold (qstrip D (qm_set t k q)). fold (qstrip D t). rewrite IH.
      destruct (keepk D k'); [|reflexivity]. cbn [qm_set].
      destruct (N.eqb_spec k k'); [contradiction|reflexivity].
Qed.

Lemma qstrip_set_drop D m k q : keepk D k = false -> qstrip D (qm_set m k q) = qstrip D m.
Proof.
  intros Hk. induction m as [|[k' q'] t IH].
  - unfold qstrip. cbn [qm_set filter fst]. now rewrite Hk.
  - cbn [qm_set]. destruct (N.eqb_spec k k') as [<-|Hne].
    + unfold qstrip. cbn [filter fst]. now rewrite Hk.
    + unfold qstrip. cbn [filter fst]. fold (qstrip D (qm_set t k q)). fold (qstrip D t). now rewrite IH.
Qed.

Lemma dstrip_pair D k (d : list dep) : dstrip D (map (pair k) d) = if keepk D k then map (pair k) d else [].
Proof.
  unfold dstrip. induction d as [|x t IH]; cbn [map filter fst].
  - destruct (keepk D k); reflexivity.
  - destruct (keepk D k); [f_equal|]; exact IH.
Qed.

Lemma feed_strip D init node a : forall keys m m' ds,
  feed init m node a keys = (m', ds) ->
  feed init (qstrip D m) node a (strip_frames D keys) = (qstrip D m', dstrip D ds).
Proof.
  induction keys as [|k t IH]; intros m m' ds Hf; cbn [feed] in Hf.
  - inversion Hf; subst. reflexivity.
  - destruct (record (qm_get init m k) node a) as [q' d] eqn:Hrec.
    destruct (feed init (qm_set m k q') node a t) as [m2 ds2] eqn:Hf2.
    inversion Hf; subst m' ds. clear Hf.
    specialize (IH _ _ _ Hf2).
    unfold strip_frames. cbn [filter]. fold (strip_frames D t).
    unfold dstrip. rewrite filter_app. fold (dstrip D (map (pair k) d)). fold (dstrip D ds2).
    rewrite dstrip_pair.
    destruct (keepk D k) eqn:Hk.
    + cbn [feed]. rewrite (qm_get_strip D init m k Hk), Hrec.
      rewrite <- (qstrip_set_keep D m k q' Hk), IH. reflexivity.
    + rewrite (qstrip_set_drop D m k q' Hk) in IH. rewrite IH. reflexivity.
Qed.

Lemma live_app D a b : live D (a ++ b) = live D a ++ live D b.
Proof. unfold live. apply filter_app. Qed.

Lemma live_all D L : (forall e, In e L -> label_dead D (snd e) = false) -> live D L = L.
Proof.
  intros H. unfold live. apply filter_all. intros e He. now rewrite (H e He).
Qed.

Lemma live_mem_edges D node ds : live D (mem_edges node ds) = mem_edges node ds.
Proof.
  apply live_all. intros e He. unfold mem_edges in He. apply in_map_iff in He.
  destruct He as [kd [<- _]]. reflexivity.
Qed.

Lemma live_lead D (b : bool) node :
  live D (if b then [(0, node, LLead)] else []) = (if b then [(0, node, LLead)] else []).
Proof. destruct b; reflexivity. Qed.

Lemma keepk_neg D f : negb (memN f D) = keepk D f.
Proof. reflexivity. Qed.

Lemma live_sched_edges D node ds : live D (sched_edges node ds) = sched_edges node (dstrip D ds).
Proof.
  unfold live, sched_edges, dstrip. induction ds as [|kd t IH]; [reflexivity|].
  cbn [map filter snd label_dead]. rewrite keepk_neg.
  destruct (keepk D (fst kd)); cbn [map]; [f_equal|]; exact IH.
Qed.

Lemma live_stable_edges D node ds : live D (stable_edges node ds) = stable_edges node (dstrip D ds).
Proof.
  unfold live, stable_edges, dstrip. induction ds as [|kd t IH]; [reflexivity|].
  cbn [map filter snd label_dead]. rewrite keepk_neg.
  destruct (keepk D (fst kd)); cbn [map]; [f_equal|]; exact IH.
Qed.

Lemma mem_deps_restrict D m node i : mem_deps m node (restrictD D i) = mem_deps m node i.
Proof. reflexivity. Qed.

(** one iteration of the main loop *)
Lemma step_restrict D s node e i :
  step (sstrip D s) node e (restrictD D i) =
  match step s node e i with
  | inl err => inl err
  | inr (s', es) => inr (sstrip D s', live D es)
  end.
Proof.
  unfold step. rewrite mem_deps_restrict.
  destruct i as [role memerr rd wr cp us bl sc].
  cbn [restrictD i_memerr i_role i_used i_blocked i_sched sstrip s_mem s_all s_timed s_trail].
  destruct memerr; [reflexivity|].
  destruct (mem_deps (s_mem s) node (MkInfo role false rd wr cp us bl sc)) as [m' ds].
  destruct role.
  - cbn [sstrip s_mem s_all s_timed s_trail]. now rewrite live_app, live_mem_edges, live_lead.
  - destruct (feed finit (s_all s) node AW us) as [a1 dau] eqn:F2.
    destruct (feed finit a1 node AR bl) as [a2 dab] eqn:F4.
    rewrite (feed_strip D _ _ _ _ _ _ _ F2), (feed_strip D _ _ _ _ _ _ _ F4).
    destruct sc.
    + destruct (feed finit (s_timed s) node AW us) as [t1 dtu] eqn:F1.
      destruct (feed finit t1 node AR bl) as [t2 dtb] eqn:F3.
      rewrite (feed_strip D _ _ _ _ _ _ _ F1), (feed_strip D _ _ _ _ _ _ _ F3).
      cbn [sstrip s_mem s_all s_timed s_trail].
      rewrite !live_app, live_mem_edges, !live_sched_edges, !live_stable_edges. reflexivity.
    + cbn [sstrip s_mem s_all s_timed s_trail].
      rewrite !live_app, live_mem_edges, !live_sched_edges, !live_stable_edges. reflexivity.
  - destruct e; [|reflexivity]. cbn [sstrip s_mem s_all s_timed s_trail]. now rewrite live_mem_edges.
  - reflexivity.
Qed.

Lemma run_restrict D : forall is s node term,
  run (sstrip D s) node (map (restrictD D) is) (option_map (restrictD D) term) =
  match run s node is term with
  | inl err => inl err
  | inr (s', es) => inr (sstrip D s', live D es)
  end.
Proof.
  induction is as [|i t IH]; intros s node term; cbn [run map].
  - destruct term as [i|]; cbn [option_map]; [apply step_restrict|reflexivity].
  - rewrite step_restrict. destruct (step s node false i) as [err|[s1 es]]; [reflexivity|].
    rewrite IH. destruct (run s1 (N.succ node) t term) as [err|[s2 es']]; [reflexivity|].
    now rewrite live_app.
Qed.

Lemma pend_edges_strip (Lb : N -> acc -> label) D e m :
  (forall f a, label_dead D (Lb f a) = memN f D) ->
  pend_edges Lb e (qstrip D m) = live D (pend_edges Lb e m).
Proof.
  intros HL. unfold pend_edges. induction m as [|[k q] t IH]; [reflexivity|].
  unfold qstrip. cbn [filter fst flat_map snd]. fold (qstrip D t). rewrite live_app, <- IH.
  unfold keepk. destruct (memN k D) eqn:Hk; cbn [negb flat_map fst snd].
  - replace (live D (map (fun d : dep => (snd d, e, Lb k (fst d))) (pending q))) with (@nil ledge); [reflexivity|].
    symmetry. unfold live. induction (pending q) as [|d l IHl]; [reflexivity|].
    cbn [map filter snd]. rewrite HL, Hk. exact IHl.
  - f_equal. symmetry. apply live_all. intros x Hx. apply in_map_iff in Hx.
    destruct Hx as [d [<- _]]. cbn [snd]. now rewrite HL.
Qed.

Lemma final_strip D s e : final (sstrip D s) e = live D (final s e).
Proof.
  unfold final. cbn [sstrip s_trail s_timed s_all]. rewrite !live_app.
  rewrite (pend_edges_strip LSched), (pend_edges_strip LStable) by reflexivity.
  f_equal. symmetry. apply live_all. intros x Hx. apply in_map_iff in Hx.
  destruct Hx as [t [<- _]]. reflexivity.
Qed.

(** A, general form: restricting every instruction's frame sets to the complement of [D] erases
    exactly the edges labelled with a frame of [D] (same order), and changes no error *)
Theorem build_l_restrict D is term :
  build_l (map (restrictD D) is) (option_map (restrictD D) term) =
  match build_l is term with
  | inl err => inl err
  | inr L => inr (live D L)
  end.
Proof.
  unfold build_l. pose proof (run_restrict D is st0 1 term) as Hr.
  change (sstrip D st0) with st0 in Hr. rewrite Hr. clear Hr.
  destruct (run st0 1 is term) as [err|[s es]]; [reflexivity|].
  assert (Hend : end_node (map (restrictD D) is) = end_node is).
  { unfold end_node. now rewrite map_length. }
  rewrite Hend, final_strip, !live_app. f_equal. f_equal. f_equal.
  destruct is; reflexivity.
Qed.

Lemma unused_restrict D i : unused D i = true -> restrictD D i = strip D i.
Proof.
  intros H. unfold restrictD, strip. f_equal. unfold strip_frames. apply filter_all.
  unfold unused in H. rewrite forallb_forall in H. exact H.
Qed.

Lemma unused_block_spec D is term :
  unused_block D is term = true <-> forall i, In i (is ++ opt_list term) -> unused D i = true.
Proof. unfold unused_block. apply forallb_forall. Qed.

(** A, for simplification: only the blocked sets shrink *)
Theorem build_l_strip D is term :
  unused_block D is term = true ->
  build_l (map (strip D) is) (option_map (strip D) term) =
  match build_l is term with
  | inl err => inl err
  | inr L => inr (live D L)
  end.
Proof.
  intros Hu. rewrite unused_block_spec in Hu. rewrite <- build_l_restrict.
  f_equal.
  - apply map_ext_in. intros i Hi. symmetry. apply unused_restrict. apply Hu. apply in_or_app. now left.
  - destruct term as [i|]; [|reflexivity]. cbn [option_map]. f_equal. symmetry.
    apply unused_restrict. apply Hu. apply in_or_app. right. now left.
Qed.

(** * B. the queues of a frame nobody uses *)

(** a queue whose last user is the block start and that only sees blockers afterwards reports the
    block start, and nothing else, to every one of them *)
Lemma uedges_reads : forall l q m n k,
  qw q = Some (AW, 0) -> (forall x, In x l -> snd x = AR) ->
  In (m, n, k) (uedges_from q l) -> m = 0 /\ k = AW /\ In (n, AR) l.
Proof.
  induction l as [|[n0 a] t IH]; intros q m n k Hq Hall Hin; [contradiction|].
  assert (Ha : a = AR) by (apply (Hall (n0, a)); now left). subst a.
  cbn [uedges_from record is_write fst snd] in Hin. rewrite Hq in Hin. cbn [opt_list dedges map fst snd] in Hin.
  apply in_app_or in Hin. destruct Hin as [[Heq|[]]|Hin].
  - inversion Heq; subst. repeat split. now left.
  - apply IH in Hin; [|reflexivity|intros x Hx; apply Hall; now right].
    destruct Hin as [H1 [H2 H3]]. repeat split; auto. now right.
Qed.

Lemma unused_keep D i f : unused D i = true -> In f (i_used i) -> memN f D = false.
Proof.
  unfold unused. rewrite forallb_forall. intros H Hin. specialize (H _ Hin). unfold keepk in H.
  now destruct (memN f D).
Qed.

Lemma facc_i_unused D f node i x :
  unused D i = true -> memN f D = true -> In x (facc_i f node i) -> snd x = AR.
Proof.
  intros Hu Hf Hin. pose proof (facc_i_const _ _ _ _ Hin) as Hn. destruct x as [n a]. cbn [fst] in Hn. subst n.
  apply facc_i_In in Hin. destruct Hin as [_ [[-> Hin]|[-> _]]]; [|reflexivity].
  rewrite (unused_keep _ _ _ Hu Hin) in Hf. discriminate.
Qed.

Lemma seq_unused D f (g : N -> info -> list (N * acc)) is term x :
  (forall node i y, In y (g node i) -> In y (facc_i f node i)) ->
  unused_block D is term = true -> memN f D = true ->
  In x (seq_from g 1 is term) -> snd x = AR.
Proof.
  intros Hg Hu Hf Hin. rewrite unused_block_spec in Hu. apply seq_from_inv in Hin.
  destruct Hin as [[p [i [Hp Hx]]]|[i [Ht Hx]]]; apply Hg in Hx;
    refine (facc_i_unused D f _ i x _ Hf Hx); apply Hu; apply in_or_app.
  - left. eapply nth_error_In; eauto.
  - right. rewrite Ht. now left.
Qed.

Lemma tacc_i_sub f node i y : In y (tacc_i f node i) -> In y (facc_i f node i).
Proof. rewrite tacc_i_facc. destruct (i_sched i); [auto|intros []]. Qed.

(** B: an edge of a deleted (never used) frame's queues leaves the block start or enters the
    block end *)
Theorem dead_edges_boundary D is term L :
  build_l is term = inr L -> unused_block D is term = true ->
  forall m n l, In (m, n, l) L -> label_dead D l = true -> m = 0 \/ n = end_node is.
Proof.
  intros HL Hu m n l Hin Hd. destruct l as [r k|f k|f k| | |]; cbn [label_dead] in Hd; try discriminate.
  - destruct (built_sched _ _ _ HL _ _ _ _ Hin) as [Hq|He]; [left|now right].
    apply uedges_reads in Hq; [tauto|reflexivity|].
    intros x Hx. unfold tacc, tacc_from in Hx.
    exact (seq_unused D f (tacc_i f) is term x (tacc_i_sub f) Hu Hd Hx).
  - destruct (built_stable _ _ _ HL _ _ _ _ Hin) as [Hq|He]; [left|now right].
    apply uedges_reads in Hq; [tauto|reflexivity|].
    intros x Hx. unfold facc, facc_from in Hx.
    exact (seq_unused D f (facc_i f) is term x (fun _ _ _ H => H) Hu Hd Hx).
Qed.

(** * C. the graphs, edge by edge *)

Lemma live_In D L e : In e (live D L) <-> In e L /\ label_dead D (snd e) = false.
Proof. unfold live. rewrite filter_In. destruct (label_dead D (snd e)); cbn [negb]; intuition discriminate. Qed.

Lemma label_dead_kind D l : label_dead D l = true -> erase l = KSched \/ erase l = KStable.
Proof. destruct l; cbn; intros H; try discriminate; auto. Qed.

(** (1) same success / same error; (2) the simplified block's graph is a subgraph, and the edges
    it lacks join the block start or the block end and are frame (not memory) dependencies *)
Theorem build_strip D is term :
  unused_block D is term = true ->
  match build is term, build (map (strip D) is) (option_map (strip D) term) with
  | inl e, inl e' => e = e'
  | inr E, inr E' =>
      (forall x, In x E' -> In x E) /\
      (forall a b k, In (a, b, k) E ->
         In (a, b, k) E' \/ ((a = 0 \/ b = end_node is) /\ (k = KSched \/ k = KStable)))
  | _, _ => False
  end.
Proof.
  intros Hu. unfold build. rewrite (build_l_strip D is term Hu).
  destruct (build_l is term) as [err|L] eqn:HL; [reflexivity|]. split.
  - intros x Hx. apply in_map_iff in Hx. destruct Hx as [e [<- He]]. apply live_In in He.
    apply in_map. tauto.
  - intros a b k Hin. apply erased_In in Hin. destruct Hin as [l [Hin Hl]].
    destruct (label_dead D l) eqn:Hd.
    + right. split; [exact (dead_edges_boundary D is term L HL Hu a b l Hin Hd)|].
      rewrite <- Hl. exact (label_dead_kind D l Hd).
    + left. apply erased_In. exists l. split; [|exact Hl]. apply live_In. auto.
Qed.

Lemma spreds_cons e E node :
  spreds (e :: E) node =
  (if kind_eqb (gkind e) KSched && N.eqb (gdst e) node then [gsrc e] else []) ++ spreds E node.
Proof.
  unfold spreds. cbn [filter].
  destruct (kind_eqb (gkind e) KSched && N.eqb (gdst e) node); reflexivity.
Qed.

Lemma nz_app a b : nz (a ++ b) = nz a ++ nz b.
Proof. unfold nz. apply filter_app. Qed.

Lemma nz_In l p : In p (nz l) -> In p l.
Proof. unfold nz. intros H. apply filter_In in H. tauto. Qed.

(** the Scheduled predecessors of a node other than the block end, block start dropped *)
Lemma spreds_live D endn L node :
  (forall m n l, In (m, n, l) L -> label_dead D l = true -> m = 0 \/ n = endn) -> node <> endn ->
  nz (spreds (map erase_edge (live D L)) node) = nz (spreds (map erase_edge L) node).
Proof.
  intros Hb Hne. induction L as [|[[m n] l] t IH]; [reflexivity|].
  assert (IH' := IH (fun m n l H => Hb m n l (or_intror H))). clear IH.
  unfold live. cbn [filter snd map]. fold (live D t). rewrite (spreds_cons (erase_edge (m, n, l))), nz_app, <- IH'.
  destruct (label_dead D l) eqn:Hd; cbn [negb map].
  - unfold erase_edge, gkind, gdst, gsrc. cbn [fst snd].
    destruct (kind_eqb (erase l) KSched && N.eqb n node) eqn:Hc; [|reflexivity].
    apply andb_prop in Hc. destruct Hc as [_ Hn]. apply N.eqb_eq in Hn. subst n.
    destruct (Hb m node l (or_introl eq_refl) Hd) as [->|He]; [reflexivity|contradiction].
  - now rewrite spreds_cons, nz_app.
Qed.

(** C: in the two graphs every instruction has the same Scheduled predecessors, in the same
    order, up to occurrences of the block start *)
Theorem build_strip_spreds D is term E :
  unused_block D is term = true -> build is term = inr E ->
  exists E', build (map (strip D) is) (option_map (strip D) term) = inr E' /\
    (forall x, In x E' -> In x E) /\
    forall node, node <> end_node is -> nz (spreds E' node) = nz (spreds E node).
Proof.
  intros Hu Hb. destruct (build_inv _ _ _ Hb) as [L [HL ->]].
  exists (map erase_edge (live D L)). split; [|split].
  - unfold build. now rewrite (build_l_strip D is term Hu), HL.
  - intros x Hx. apply in_map_iff in Hx. destruct Hx as [e [<- He]]. apply live_In in He.
    apply in_map. tauto.
  - intros node Hne. apply (spreds_live D (end_node is)); [|exact Hne].
    exact (dead_edges_boundary D is term L HL Hu).
Qed.

(** * D. the scheduler *)

Section Sched.
  Variable T : Type.
  Variables (zero : T) (add sub : T -> T -> T) (ltb : T -> T -> bool).
  Notation le := (le T ltb).
  Notation tmax := (tmax T ltb).
  Hypothesis ltb_asym : forall a b, ltb a b = true -> ltb b a = false.
  Hypothesis le_trans : forall a b c, le a b -> le b c -> le a c.

  Lemma tmax_zero a : le zero a -> tmax a zero = a.
  Proof. unfold ScheduleProofs.le, Schedule.tmax. now intros ->. Qed.

  (** dropping block-start predecessors (candidate [zero]) does not change the maximum *)
  Lemma fold_tmax_nz (g : N -> T) : g 0 = zero -> forall l a, le zero a ->
    fold_left tmax (map g (nz l)) a = fold_left tmax (map g l) a.
  Proof.
    intros Hg. induction l as [|p t IH]; intros a Ha; [reflexivity|].
    unfold nz. cbn [filter]. fold (nz t). destruct (N.eqb_spec p 0) as [->|Hne]; cbn [negb map fold_left].
    - rewrite Hg, (tmax_zero a Ha). now apply IH.
    - apply IH. eapply le_trans; [exact Ha|apply (tmax_ub_l T ltb ltb_asym)].
  Qed.

  Definition smax (a : T) (r : serr + list T) : serr + T :=
    match r with inl e => inl e | inr l => inr (fold_left tmax l a) end.

  Lemma pred_ends_nz endn ends : forall ps a, le zero a ->
    smax a (pred_ends T zero endn ends (nz ps)) = smax a (pred_ends T zero endn ends ps).
  Proof.
    induction ps as [|p t IH]; intros a Ha; [reflexivity|].
    unfold nz. cbn [filter]. fold (nz t). destruct (N.eqb_spec p 0) as [->|Hne]; cbn [negb pred_ends].
    - unfold pred_end. cbn [N.eqb]. rewrite (IH a Ha).
      destruct (pred_ends T zero endn ends t) as [e|l]; [reflexivity|].
      cbn [smax fold_left]. now rewrite (tmax_zero a Ha).
    - destruct (pred_end T zero endn ends p) as [e|x]; [reflexivity|].
      assert (Hx : le zero (tmax a x)) by (eapply le_trans; [exact Ha|apply (tmax_ub_l T ltb ltb_asym)]).
      specialize (IH _ Hx).
      destruct (pred_ends T zero endn ends (nz t)) as [e1|l1], (pred_ends T zero endn ends t) as [e2|l2];
        cbn [smax fold_left] in *; congruence.
  Qed.

  (** the traversal, over any node order: it only reads the non-start Scheduled predecessors of
      the instruction nodes it visits *)
  Lemma sched_loop_nz E E' durs endn : forall order ends items total,
    (forall node, In node order -> N.eqb node 0 || N.eqb node endn = false ->
                  nz (spreds E' node) = nz (spreds E node)) ->
    sched_loop T zero add ltb E' durs endn order ends items total =
    sched_loop T zero add ltb E durs endn order ends items total.
  Proof.
    induction order as [|node rest IH]; intros ends items total Hnz; [reflexivity|].
    assert (Hrest : forall x, In x rest -> N.eqb x 0 || N.eqb x endn = false ->
                              nz (spreds E' x) = nz (spreds E x)) by (intros x Hx; apply Hnz; now right).
    cbn [sched_loop]. destruct (N.eqb node 0 || N.eqb node endn) eqn:Hskip; [now apply IH|].
    destruct (dur_at T durs node) as [[d|]|]; try reflexivity.
    assert (Hs : smax zero (pred_ends T zero endn ends (spreds E' node)) =
                 smax zero (pred_ends T zero endn ends (spreds E node))).
    { rewrite <- (pred_ends_nz endn ends (spreds E' node) zero), <- (pred_ends_nz endn ends (spreds E node) zero)
        by apply (le_refl T ltb ltb_asym).
      rewrite (Hnz node (or_introl eq_refl) Hskip). reflexivity. }
    destruct (pred_ends T zero endn ends (spreds E' node)) as [e1|l1],
             (pred_ends T zero endn ends (spreds E node)) as [e2|l2]; cbn [smax] in Hs; try congruence.
    inversion Hs as [Hfold]. cbv zeta. rewrite Hfold. now apply IH.
  Qed.

  (** the declarative ASAP times *)
  Lemma cstart_nz E E' durs bound :
    (forall a b, In a (spreds E b) -> a < b) -> (forall a b, In a (spreds E' b) -> a < b) ->
    (forall node, node < bound -> nz (spreds E' node) = nz (spreds E node)) ->
    forall node, node < bound ->
      cstart T zero add ltb E' durs node = cstart T zero add ltb E durs node.
  Proof.
    intros Hf Hf' Hnz node. induction node as [node IH] using (well_founded_induction N.lt_wf_0).
    intros Hb. rewrite (cstart_eq T zero add ltb E' durs Hf' node), (cstart_eq T zero add ltb E durs Hf node).
    rewrite <- (fold_tmax_nz (cend T zero add ltb E' durs) eq_refl (spreds E' node) zero (le_refl T ltb ltb_asym zero)).
    rewrite <- (fold_tmax_nz (cend T zero add ltb E durs) eq_refl (spreds E node) zero (le_refl T ltb ltb_asym zero)).
    rewrite (Hnz node Hb). f_equal. apply map_ext_in. intros p Hp. apply nz_In in Hp. apply Hf in Hp.
    unfold cend. destruct (N.eqb p 0); [reflexivity|]. f_equal. apply IH; [exact Hp|lia].
  Qed.

  Lemma sub_fwd (E E' : list gedge) :
    (forall x, In x E' -> In x E) -> (forall a b, In a (spreds E b) -> a < b) ->
    forall a b, In a (spreds E' b) -> a < b.
  Proof. intros Hsub Hf a b Hin. apply Hf. apply spreds_In. apply Hsub. now apply spreds_In. Qed.

  (** ** the schedule clause of C35 *)

  (** whole-result equality of the scheduler, for one duration per instruction: the canonical
      traversal and the traversal over any node order (items in the same order, same start and
      duration, same total duration, same error) *)
  Theorem strip_schedule_equal D is term E durs :
    unused_block D is term = true -> build is term = inr E -> length durs = length is ->
    exists E', build (map (strip D) is) (option_map (strip D) term) = inr E' /\
      schedule T zero add ltb E' durs = schedule T zero add ltb E durs /\
      forall order ends items total,
        sched_loop T zero add ltb E' durs (end_of T durs) order ends items total =
        sched_loop T zero add ltb E durs (end_of T durs) order ends items total.
  Proof.
    intros Hu Hb Hlen. destruct (build_strip_spreds D is term E Hu Hb) as [E' [Hb' [_ Hnz]]].
    exists E'. split; [exact Hb'|].
    assert (Hall : forall order ends items total,
              sched_loop T zero add ltb E' durs (end_of T durs) order ends items total =
              sched_loop T zero add ltb E durs (end_of T durs) order ends items total).
    { intros order ends items total. apply sched_loop_nz. intros node _ Hskip. apply Hnz.
      apply orb_false_elim in Hskip. destruct Hskip as [_ He]. apply N.eqb_neq in He.
      unfold end_of in He. unfold end_node. now rewrite <- Hlen. }
    split; [|exact Hall]. unfold schedule. apply Hall.
  Qed.

  (** the whole pipeline of [BasicBlock::as_schedule] (build, schedule, hull over the source
      instructions): identical results, including the failure cases *)
  Theorem strip_block_schedule_equal D is term groups durs :
    unused_block D is term = true -> length durs = length is ->
    block_schedule T zero add sub ltb (map (strip D) is) (option_map (strip D) term) groups durs =
    block_schedule T zero add sub ltb is term groups durs.
  Proof.
    intros Hu Hlen. unfold block_schedule.
    destruct (build is term) as [err|E] eqn:Hb.
    - pose proof (build_strip D is term Hu) as H. rewrite Hb in H.
      destruct (build (map (strip D) is) (option_map (strip D) term)); [reflexivity|contradiction].
    - destruct (strip_schedule_equal D is term E durs Hu Hb Hlen) as [E' [Hb' [Hs _]]].
      now rewrite Hb', Hs.
  Qed.

  (** the ASAP start and end time of every instruction, for any durations (known or not) *)
  Theorem strip_asap_equal D is term E durs :
    unused_block D is term = true -> build is term = inr E -> wf_block is term = true ->
    exists E', build (map (strip D) is) (option_map (strip D) term) = inr E' /\
      forall node, node < end_node is ->
        cstart T zero add ltb E' durs node = cstart T zero add ltb E durs node /\
        cend T zero add ltb E' durs node = cend T zero add ltb E durs node.
  Proof.
    intros Hu Hb Hwf. destruct (build_strip_spreds D is term E Hu Hb) as [E' [Hb' [Hsub Hnz]]].
    exists E'. split; [exact Hb'|].
    pose proof (build_sched_fwd is term E Hb Hwf) as Hf.
    pose proof (sub_fwd E E' Hsub Hf) as Hf'.
    assert (Hc : forall node, node < end_node is ->
              cstart T zero add ltb E' durs node = cstart T zero add ltb E durs node).
    { apply (cstart_nz E E' durs (end_node is) Hf Hf'). intros node Hlt. apply Hnz. lia. }
    intros node Hlt. split; [now apply Hc|]. unfold cend. now rewrite (Hc node Hlt).
  Qed.
End Sched.

(** * E. program level *)

Lemma filter_comm {A} (p q : A -> bool) l : filter p (filter q l) = filter q (filter p l).
Proof.
  induction l as [|x t IH]; [reflexivity|]. cbn [filter].
  destruct (p x) eqn:Hp, (q x) eqn:Hq; cbn [filter]; rewrite ?Hp, ?Hq, IH; reflexivity.
Qed.

Lemma matchA_filter keep ks a : matchA (filter keep ks) a = filter keep (matchA ks a).
Proof. destruct a; cbn [matchA]; [reflexivity|apply filter_comm..]. Qed.

Lemma memF_filter (keep : frame -> bool) a el : keep a = true -> memF a (filter keep el) = memF a el.
Proof.
  intros Hk. apply eq_true_iff_eq. rewrite !memF_In, filter_In. tauto.
Qed.

Lemma inter_filter keep acc el : inter (filter keep acc) (filter keep el) = filter keep (inter acc el).
Proof.
  unfold inter. induction acc as [|a t IH]; [reflexivity|]. cbn [filter].
  destruct (keep a) eqn:Hk.
  - cbn [filter]. rewrite (memF_filter keep a el Hk). destruct (memF a el); cbn [filter]; rewrite ?Hk, IH; reflexivity.
  - destruct (memF a el); cbn [filter]; rewrite ?Hk, IH; reflexivity.
Qed.

Lemma fold_inter_filter keep ks : forall rest acc,
  fold_left inter (map (matchA (filter keep ks)) rest) (filter keep acc) =
  filter keep (fold_left inter (map (matchA ks) rest) acc).
Proof.
  induction rest as [|a t IH]; intros acc; [reflexivity|]. cbn [map fold_left].
  now rewrite matchA_filter, inter_filter, IH.
Qed.

Lemma flat_map_filter {A B} (keep : B -> bool) (g : A -> list B) l :
  flat_map (fun a => filter keep (g a)) l = filter keep (flat_map g l).
Proof. induction l as [|x t IH]; [reflexivity|]. cbn [flat_map]. now rewrite filter_app, IH. Qed.

(** [get_matching_keys_for_condition] commutes with deleting keys, as lists *)
Lemma matching_filter keep ks c : matching (filter keep ks) c = filter keep (matching ks c).
Proof.
  destruct c as [a|l|l]; cbn [matching].
  - apply matchA_filter.
  - destruct l as [|a0 rest]; [reflexivity|]. now rewrite matchA_filter, fold_inter_filter.
  - rewrite <- flat_map_filter. apply flat_map_ext. intros a. apply matchA_filter.
Qed.

(** [FrameSet::filter] on a key set from which only frames the instruction does not use were
    deleted: same used list, blocked list filtered (order kept) *)
Lemma matching_frames_filter keep ks avail i u b :
  matching_frames ks avail i = Some (u, b) -> (forall f, In f u -> keep f = true) ->
  matching_frames (filter keep ks) avail i = Some (u, filter keep b).
Proof.
  unfold matching_frames. destruct (default_conds avail i) as [[cu cb]|]; [|discriminate].
  cbn [option_map filter_frames]. intros [= Hu Hb] Hkeep. f_equal.
  assert (Hused : match cu with None => [] | Some c => matching (filter keep ks) c end = u).
  { rewrite <- Hu in Hkeep |- *. destruct cu as [c|]; [|reflexivity].
    rewrite matching_filter. now apply filter_all. }
  rewrite Hused. rewrite Hu in Hb. f_equal. rewrite <- Hb.
  destruct cb as [c|]; [|reflexivity]. rewrite matching_filter.
  destruct (is_nil u); [reflexivity|apply filter_comm].
Qed.

Section Program.
  Variable expand : program -> option program.
  Variables (p e s : program).
  Hypothesis He : expand p = Some e.
  Hypothesis Hs : simplify expand p = Some s.
  Hypothesis Hfr : p_frames e = p_frames p.

  Let keepS (f : frame) : bool := memF f (frames_used e).

  Lemma simplified_keys : keys s = filter keepS (keys e) /\ p_avail s = p_avail e.
  Proof.
    pose proof Hs as Hs'. apply simplify_shape in Hs'. destruct Hs' as (e' & He' & Hsh).
    rewrite He in He'. injection He' as <-.
    destruct Hsh as (_ & _ & _ & _ & _ & Hav & Hf & _). split; [|exact Hav].
    unfold keys. rewrite Hf, Hfr. clear. induction (p_frames p) as [|[f a] l IH]; cbn; [reflexivity|].
    unfold keepS. destruct (memF f (frames_used e)); cbn; now rewrite IH.
  Qed.

  Lemma used_kept bi u b :
    In bi (p_body e) -> matching_frames (keys e) (p_avail e) (bi_frame bi) = Some (u, b) ->
    forall f, In f u -> keepS f = true.
  Proof.
    intros Hbi Hm f Hf. unfold keepS. apply memF_In. unfold frames_used. apply in_flat_map.
    exists bi. split; [exact Hbi|]. now rewrite Hm.
  Qed.

  Lemma keepS_keys f : In f (keys e) -> keepS f = memF f (keys s).
  Proof.
    intros Hk. destruct simplified_keys as [-> _]. apply eq_true_iff_eq.
    rewrite memF_In, filter_In. tauto.
  Qed.

  (** the handler's answers in the simplified program, as lists: used list unchanged, blocked
      list = the expanded program's with the deleted frames filtered out *)
  Theorem simplify_matching_lists bi :
    In bi (p_body e) ->
    matching_frames (keys s) (p_avail s) (bi_frame bi) =
    match matching_frames (keys e) (p_avail e) (bi_frame bi) with
    | Some (u, b) => Some (u, filter (fun f => memF f (keys s)) b)
    | None => None
    end.
  Proof.
    intros Hbi. destruct simplified_keys as [Hk Hav]. rewrite Hav.
    destruct (matching_frames (keys e) (p_avail e) (bi_frame bi)) as [[u b]|] eqn:Hm.
    - rewrite Hk at 1. rewrite (matching_frames_filter keepS _ _ _ u b Hm (used_kept bi u b Hbi Hm)).
      f_equal. f_equal. apply filter_ext_in. intros f Hf. apply keepS_keys.
      apply matching_frames_spec in Hm. destruct Hm as [_ Hb]. apply Hb in Hf. tauto.
    - exact (matching_frames_none (keys e) (keys s) _ _ Hm).
  Qed.

  Variable num : frame -> N.
  Hypothesis num_inj : forall f g, In f (keys e) -> In g (keys e) -> num f = num g -> f = g.
  Variable base : binstr -> info.

  Lemma keepk_deleted f : In f (keys e) -> keepk (deleted num e s) (num f) = memF f (keys s).
  Proof.
    intros Hk. unfold keepk, deleted. apply eq_true_iff_eq. rewrite negb_true_iff.
    rewrite <- not_true_iff_false, memN_In, in_map_iff. split.
    - intros Hn. destruct (memF f (keys s)) eqn:Hm; [reflexivity|]. exfalso. apply Hn.
      exists f. split; [reflexivity|]. apply filter_In. split; [exact Hk|]. now rewrite Hm.
    - intros Hm [g [Hg Hin]]. apply filter_In in Hin. destruct Hin as [Hgk Hgm].
      apply num_inj in Hg; auto. subst g. rewrite Hm in Hgm. discriminate.
  Qed.

  Lemma strip_map_num l :
    (forall f, In f l -> In f (keys e)) ->
    strip_frames (deleted num e s) (map num l) = map num (filter (fun f => memF f (keys s)) l).
  Proof.
    intros Hl. unfold strip_frames. induction l as [|f t IH]; [reflexivity|]. cbn [map filter].
    rewrite (keepk_deleted f (Hl f (or_introl eq_refl))), IH by (intros g Hg; apply Hl; now right).
    destruct (memF f (keys s)); reflexivity.
  Qed.

  (** every body instruction: its summary in the simplified program is its summary in the
      expanded program stripped of the deleted frames, and it uses none of them *)
  Theorem simplified_binfo bi :
    In bi (p_body e) ->
    binfo num base s bi = strip (deleted num e s) (binfo num base e bi) /\
    unused (deleted num e s) (binfo num base e bi) = true.
  Proof.
    intros Hbi. unfold binfo. rewrite (simplify_matching_lists bi Hbi).
    destruct (matching_frames (keys e) (p_avail e) (bi_frame bi)) as [[u b]|] eqn:Hm; [|split; reflexivity].
    pose proof (matching_frames_spec _ _ _ _ _ Hm) as [Hu Hb]. split.
    - unfold strip, with_frames. cbn [i_role i_memerr i_reads i_writes i_caps i_used i_blocked i_sched].
      f_equal. symmetry. apply strip_map_num. intros f Hf. apply Hb in Hf. tauto.
    - unfold unused, with_frames. cbn [i_used]. apply forallb_forall. intros n Hn.
      apply in_map_iff in Hn. destruct Hn as [f [<- Hf]].
      assert (Hk : In f (keys e)) by (apply Hu in Hf; tauto).
      rewrite (keepk_deleted f Hk), <- (keepS_keys f Hk). exact (used_kept bi u b Hbi Hm f Hf).
  Qed.

  (** a block [blk] (with optional terminator instruction [tb]) of the body *)
  Lemma simplified_block blk tb :
    (forall bi, In bi (blk ++ Simplify35.opt_list tb) -> In bi (p_body e)) ->
    map (binfo num base s) blk = map (strip (deleted num e s)) (map (binfo num base e) blk) /\
    option_map (binfo num base s) tb = option_map (strip (deleted num e s)) (option_map (binfo num base e) tb) /\
    unused_block (deleted num e s) (map (binfo num base e) blk) (option_map (binfo num base e) tb) = true.
  Proof.
    intros Hin. split; [|split].
    - rewrite map_map. apply map_ext_in. intros bi Hbi.
      apply simplified_binfo. apply Hin. apply in_or_app. now left.
    - destruct tb as [bi|]; [|reflexivity]. cbn [option_map]. f_equal.
      apply simplified_binfo. apply Hin. apply in_or_app. right. now left.
    - apply unused_block_spec. intros i Hi. apply in_app_or in Hi. destruct Hi as [Hi|Hi].
      + apply in_map_iff in Hi. destruct Hi as [bi [<- Hbi]].
        apply simplified_binfo. apply Hin. apply in_or_app. now left.
      + destruct tb as [bi|]; [|destruct Hi]. destruct Hi as [<-|[]].
        apply simplified_binfo. apply Hin. apply in_or_app. right. now left.
  Qed.
End Program.

(** the schedule clause, end to end: every block of the body is scheduled identically in the
    simplified and in the expanded program *)
Theorem simplify_block_schedule_equal
        (T : Type) (zero : T) (add sub : T -> T -> T) (ltb : T -> T -> bool)
        (ltb_asym : forall a b, ltb a b = true -> ltb b a = false)
        (le_trans : forall a b c, le T ltb a b -> le T ltb b c -> le T ltb a c)
        (expand : program -> option program) (p e s : program)
        (num : frame -> N) (base : binstr -> info)
        (blk : list binstr) (tb : option binstr) (groups : list nat) (durs : list (option T)) :
  expand p = Some e -> simplify expand p = Some s -> p_frames e = p_frames p ->
  (forall f g, In f (keys e) -> In g (keys e) -> num f = num g -> f = g) ->
  (forall bi, In bi (blk ++ Simplify35.opt_list tb) -> In bi (p_body e)) ->
  length durs = length blk ->
  block_schedule T zero add sub ltb (map (binfo num base s) blk) (option_map (binfo num base s) tb) groups durs =
  block_schedule T zero add sub ltb (map (binfo num base e) blk) (option_map (binfo num base e) tb) groups durs.
Proof.
  intros He Hs Hfr Hinj Hin Hlen.
  destruct (simplified_block expand p e s He Hs Hfr num Hinj base blk tb Hin) as [Hm [Ht Hu]].
  rewrite Hm, Ht. apply (strip_block_schedule_equal T zero add sub ltb ltb_asym le_trans); [exact Hu|].
  now rewrite map_length.
Qed.
