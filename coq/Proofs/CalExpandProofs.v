(** Proofs about Model/CalExpand.v: the recursive-calibration error is exactly the breadcrumb
    condition, expansion terminates on the non-growing class, and diverges on the growing witness. *)
From Coq Require Import List NArith Bool PeanoNat Lia.
From QV Require Import Model.CalExpand.
Import ListNotations.

(** * Equality reflection *)

Lemma param_eqb_eq a b : param_eqb a b = true <-> a = b.
Proof.
  revert b. induction a as [k| |a IH]; intros [k'| |b]; cbn [param_eqb];
    try (split; [discriminate | discriminate]); try (split; reflexivity).
  - rewrite N.eqb_eq. split; [now intros -> | now intros H; inversion H].
  - rewrite IH. split; [now intros -> | now intros H; inversion H].
Qed.

Lemma qubit_eqb_eq a b : qubit_eqb a b = true <-> a = b.
Proof.
  destruct a, b; cbn [qubit_eqb]; rewrite ?N.eqb_eq; split; intros H; try discriminate;
    try reflexivity; [now subst | now inversion H].
Qed.

Lemma instr_eqb_eq a b : instr_eqb a b = true <-> a = b.
Proof.
  destruct a as [|n p q], b as [|n' p' q']; cbn [instr_eqb]; try (split; [discriminate|discriminate]);
    try (split; reflexivity).
  rewrite !andb_true_iff, N.eqb_eq, param_eqb_eq, qubit_eqb_eq. split.
  - intros [[-> ->] ->]. reflexivity.
  - intros H; inversion H; auto.
Qed.

Lemma mem_In i l : mem i l = true <-> In i l.
Proof.
  induction l as [|x t IH]; cbn [mem In]; [split; [discriminate | tauto]|].
  rewrite orb_true_iff, instr_eqb_eq, IH. tauto.
Qed.

Lemma mem_false i l : mem i l = false <-> ~ In i l.
Proof. rewrite <- mem_In. destruct (mem i l); split; congruence. Qed.

(** * Fuel monotonicity *)

Lemma go_list_ext e e' l :
  (forall j, In j l -> e j <> OutOfFuel -> e' j = e j) ->
  go_list e l <> LOutOfFuel -> go_list e' l = go_list e l.
Proof.
  induction l as [|j t IH]; intros He Hne; cbn [go_list] in *; [reflexivity|].
  destruct (e j) as [|x|r] eqn:Ej.
  - congruence.
  - rewrite (He j (or_introl eq_refl)) by congruence. now rewrite Ej.
  - rewrite (He j (or_introl eq_refl)) by congruence. rewrite Ej.
    rewrite IH.
    + reflexivity.
    + intros k Hk. apply He. now right.
    + destruct (go_list e t); congruence.
Qed.

Lemma expand_mono_S fuel : forall cs path i,
  expand fuel cs path i <> OutOfFuel -> expand (S fuel) cs path i = expand fuel cs path i.
Proof.
  induction fuel as [|f IH]; intros cs path i Hne; [cbn in Hne; congruence|].
  cbn [expand] in Hne |- *.
  change (expand (S f) cs) with (fun p j => expand (S f) cs p j) in |- *. cbv beta.
  destruct (mem i path); [reflexivity|].
  destruct (rewrite cs i) as [body|]; [|reflexivity].
  f_equal. apply go_list_ext.
  - intros j _ Hj. now apply IH.
  - destruct (go_list (expand f cs (i :: path)) body); cbn in Hne; congruence.
Qed.

Lemma expand_mono fuel fuel' cs path i :
  fuel <= fuel' -> expand fuel cs path i <> OutOfFuel ->
  expand fuel' cs path i = expand fuel cs path i.
Proof.
  induction 1 as [|m Hle IH]; intros Hne; [reflexivity|].
  rewrite expand_mono_S; [now apply IH | rewrite IH; assumption].
Qed.

(** * C18_iff: the error is returned iff the traversal reaches an instruction that is already on
    the expansion path *)

(** [Hits cs path i x]: expanding [i] with breadcrumb [path], the depth-first traversal (siblings
    left to right, each earlier sibling's expansion completing) reaches the instruction [x] at a
    moment where an equal instruction is on the breadcrumb path. *)
Inductive Hits (cs : list cal) : list instr -> instr -> instr -> Prop :=
| Hits_here path i : In i path -> Hits cs path i i
| Hits_below path i body pre j post x :
    ~ In i path -> rewrite cs i = Some body -> body = pre ++ j :: post ->
    (forall k, In k pre -> exists fuel r, expand fuel cs (i :: path) k = Done r) ->
    Hits cs (i :: path) j x -> Hits cs path i x.

Lemma go_list_err e l x :
  go_list e l = LErr x ->
  exists pre j post, l = pre ++ j :: post /\ (forall k, In k pre -> exists r, e k = Done r) /\
                     e j = ErrRecursive x.
Proof.
  induction l as [|j t IH]; cbn [go_list]; [discriminate|].
  destruct (e j) as [|y|r] eqn:Ej; [discriminate| |].
  - intros H; inversion H; subst y. exists [], j, t. split; [reflexivity|]. split; [intros k []|exact Ej].
  - destruct (go_list e t) as [|y|rest] eqn:Et; try discriminate.
    intros H; inversion H; subst y. destruct (IH eq_refl) as (pre & j' & post & -> & Hpre & Hj').
    exists (j :: pre), j', post. split; [reflexivity|]. split; [|exact Hj'].
    intros k [<-|Hk]; [now exists r | now apply Hpre].
Qed.

Lemma go_list_err_intro e pre j post x :
  (forall k, In k pre -> exists r, e k = Done r) -> e j = ErrRecursive x ->
  go_list e (pre ++ j :: post) = LErr x.
Proof.
  induction pre as [|k pre IH]; intros Hpre Hj; cbn [app go_list].
  - now rewrite Hj.
  - destruct (Hpre k (or_introl eq_refl)) as [r Hr]. rewrite Hr.
    rewrite IH; [reflexivity | | exact Hj]. intros k' Hk'. apply Hpre. now right.
Qed.

Lemma common_fuel cs path (pre : list instr) :
  (forall k, In k pre -> exists fuel r, expand fuel cs path k = Done r) ->
  exists F, forall k, In k pre -> exists r, forall fuel, F <= fuel -> expand fuel cs path k = Done r.
Proof.
  induction pre as [|k pre IH]; intros H.
  - exists 0. intros k [].
  - destruct IH as [F HF]; [intros k' Hk'; apply H; now right|].
    destruct (H k (or_introl eq_refl)) as (f & r & Hf).
    exists (Nat.max F f). intros k' [<-|Hk'].
    + exists r. intros fuel Hle. rewrite (expand_mono f fuel) by (try lia; congruence). exact Hf.
    + destruct (HF k' Hk') as [r' Hr']. exists r'. intros fuel Hle. apply Hr'. lia.
Qed.

Theorem expand_err_iff cs path i x :
  (exists fuel, expand fuel cs path i = ErrRecursive x) <-> Hits cs path i x.
Proof.
  split.
  - intros [fuel H]. revert path i x H. induction fuel as [|f IH]; intros path i x H; [discriminate H|].
    cbn [expand] in H. destruct (mem i path) eqn:Em.
    + inversion H; subst x. apply Hits_here. now apply mem_In.
    + destruct (rewrite cs i) as [body|] eqn:Er; [|discriminate H].
      destruct (go_list (expand f cs (i :: path)) body) as [|y|l] eqn:Eg; cbn [lift] in H; try discriminate H.
      inversion H; subst y. apply go_list_err in Eg.
      destruct Eg as (pre & j & post & Hb & Hpre & Hj).
      eapply Hits_below; try eassumption.
      * now apply mem_false.
      * intros k Hk. destruct (Hpre k Hk) as [r Hr]. now exists f, r.
      * now apply IH.
  - induction 1 as [path i Hin | path i body pre j post x Hnin Hr Hb Hpre _ [fj Hj]].
    + exists 1. cbn [expand]. apply mem_In in Hin. now rewrite Hin.
    + destruct (common_fuel cs (i :: path) pre Hpre) as [F HF].
      exists (S (Nat.max F fj)). cbn [expand].
      apply mem_false in Hnin. rewrite Hnin, Hr, Hb.
      rewrite (go_list_err_intro _ pre j post x); [reflexivity| |].
      * intros k Hk. destruct (HF k Hk) as [r Hr']. exists r. apply Hr'. lia.
      * rewrite (expand_mono fj) by (try lia; congruence). exact Hj.
Qed.

(** the reported instruction really is on the path at the moment it is reached: the path at that
    moment extends the initial one *)
Lemma Hits_on_path cs path i x : Hits cs path i x -> exists ext, In x (ext ++ path).
Proof.
  induction 1 as [path i Hin | path i body pre j post x _ _ _ _ _ [ext Hext]].
  - now exists [].
  - exists (ext ++ [i]). now rewrite <- app_assoc.
Qed.

(** program level *)
Theorem program_err_iff cs prog x :
  (exists fuel, expand_program fuel cs prog = LErr x) <->
  exists pre j post, prog = pre ++ j :: post /\
    (forall k, In k pre -> exists fuel r, expand fuel cs [] k = Done r) /\ Hits cs [] j x.
Proof.
  unfold expand_program. split.
  - intros [fuel H]. apply go_list_err in H. destruct H as (pre & j & post & -> & Hpre & Hj).
    exists pre, j, post. split; [reflexivity|]. split.
    + intros k Hk. destruct (Hpre k Hk) as [r Hr]. now exists fuel, r.
    + apply expand_err_iff. now exists fuel.
  - intros (pre & j & post & -> & Hpre & HH). apply expand_err_iff in HH. destruct HH as [fj Hj].
    destruct (common_fuel cs [] pre Hpre) as [F HF].
    exists (Nat.max F fj). apply go_list_err_intro.
    + intros k Hk. destruct (HF k Hk) as [r Hr']. exists r. apply Hr'. lia.
    + rewrite (expand_mono fj) by (try lia; congruence). exact Hj.
Qed.

(** * Termination on the non-growing class *)

Lemma closed_subst arg p : closed p = true -> subst_p arg p = p.
Proof. induction p as [k| |p IH]; cbn; intros H; try discriminate; try reflexivity. now rewrite IH. Qed.

Lemma ng_subst arg p : ng_param p = true -> subst_p arg p = arg \/ subst_p arg p = p.
Proof. destruct p as [k| |p]; cbn [ng_param]; intros H; [now right | now left | right; now apply closed_subst]. Qed.

Lemma get_match_In cs n p q c : get_match cs n p q = Some c -> In c cs.
Proof.
  unfold get_match.
  assert (G : forall acc, fold_left (lookup_step n p q) cs acc = Some c -> In c cs \/ acc = Some c).
  { induction cs as [|d cs IH]; intros acc H; cbn [fold_left] in H; [now right|].
    destruct (IH _ H) as [Hin|Hacc]; [left; now right|].
    unfold lookup_step in Hacc. destruct (matches d n p q); [|now right].
    destruct acc as [prev|].
    - destruct (Nat.leb (rank prev) (rank d)); inversion Hacc; subst; [left; now left | now right].
    - inversion Hacc; subst. left; now left. }
  intros H. destruct (G None H) as [Hin|Hn]; [exact Hin | discriminate].
Qed.

Lemma names_of_In n l : In n (names_of l) <-> exists p q, In (IGate n p q) l.
Proof.
  unfold names_of. rewrite in_concat. split.
  - intros (x & Hx & Hn). apply in_map_iff in Hx. destruct Hx as ([|n' p q] & <- & Hi); cbn in Hn; [contradiction|].
    destruct Hn as [<-|[]]. now exists p, q.
  - intros (p & q & Hi). exists [n]. split; [|now left]. apply in_map_iff. now exists (IGate n p q).
Qed.

Lemma params_of_In p l : In p (params_of l) <-> exists n q, In (IGate n p q) l.
Proof.
  unfold params_of. rewrite in_concat. split.
  - intros (x & Hx & Hn). apply in_map_iff in Hx. destruct Hx as ([|n p' q] & <- & Hi); cbn in Hn; [contradiction|].
    destruct Hn as [<-|[]]. now exists n, q.
  - intros (n & q & Hi). exists [p]. split; [|now left]. apply in_map_iff. now exists (IGate n p q).
Qed.

Lemma qubits_of_In q l : In q (qubits_of l) <-> exists n p, In (IGate n p q) l.
Proof.
  unfold qubits_of. rewrite in_concat. split.
  - intros (x & Hx & Hn). apply in_map_iff in Hx. destruct Hx as ([|n p q'] & <- & Hi); cbn in Hn; [contradiction|].
    destruct Hn as [<-|[]]. now exists n, p.
  - intros (n & p & Hi). exists [q]. split; [|now left]. apply in_map_iff. now exists (IGate n p q).
Qed.

Lemma universe_gate cs i0 n p q :
  In (IGate n p q) (universe cs i0) <->
  In n (names_of (i0 :: body_instrs cs)) /\ In p (params_of (i0 :: body_instrs cs)) /\
  In q (qubits_of (i0 :: body_instrs cs)).
Proof.
  unfold universe. cbn [In]. split.
  - intros [H|H]; [discriminate|]. apply in_map_iff in H. destruct H as ([n' [p' q']] & E & Hin).
    cbn in E. inversion E; subst. apply in_prod_iff in Hin. destruct Hin as [Hn Hpq].
    apply in_prod_iff in Hpq. tauto.
  - intros (Hn & Hp & Hq). right. apply in_map_iff. exists (n, (p, q)). split; [reflexivity|].
    apply in_prod_iff. split; [exact Hn|]. apply in_prod_iff. tauto.
Qed.

Lemma universe_nop cs i0 : In INop (universe cs i0).
Proof. unfold universe. now left. Qed.

Lemma universe_root cs i0 : In i0 (universe cs i0).
Proof.
  destruct i0 as [|n p q]; [apply universe_nop|]. apply universe_gate.
  split; [apply names_of_In; exists p, q; now left|].
  split; [apply params_of_In; exists n, q; now left | apply qubits_of_In; exists n, p; now left].
Qed.

Lemma body_instrs_In cs c b : In c cs -> In b (c_body c) -> In b (body_instrs cs).
Proof. intros Hc Hb. unfold body_instrs. apply in_concat. exists (c_body c). split; [now apply in_map | exact Hb]. Qed.

(** the universe is closed under rewriting *)
Lemma universe_closed cs i0 i body j :
  non_growing cs = true -> In i (universe cs i0) -> rewrite cs i = Some body -> In j body ->
  In j (universe cs i0).
Proof.
  intros Hng Hi Hr Hj. destruct i as [|n p q]; [discriminate Hr|]. cbn [rewrite] in Hr.
  destruct (get_match cs n p q) as [c|] eqn:Em; [|discriminate Hr]. inversion Hr; subst body.
  apply get_match_In in Em. apply in_map_iff in Hj. destruct Hj as (b & <- & Hb).
  destruct b as [|n' p' q']; cbn [subst_instr]; [apply universe_nop|].
  pose proof (body_instrs_In cs c _ Em Hb) as Hbi.
  apply universe_gate in Hi. destruct Hi as (Hn & Hp & Hq).
  unfold non_growing in Hng. rewrite forallb_forall in Hng. specialize (Hng c Em).
  rewrite forallb_forall in Hng. specialize (Hng _ Hb). cbn [ng_instr] in Hng.
  apply universe_gate. split; [|split].
  - apply names_of_In. exists p', q'. now right.
  - destruct (c_ppat c).
    + apply params_of_In. exists n', q'. now right.
    + destruct (ng_subst p p' Hng) as [->| ->]; [exact Hp|]. apply params_of_In. exists n', q'. now right.
  - destruct (c_q c), q'; try (apply qubits_of_In; exists n', p'; now right). exact Hq.
Qed.

Lemma go_list_no_oof e l :
  (forall j, In j l -> e j <> OutOfFuel) -> go_list e l <> LOutOfFuel.
Proof.
  induction l as [|j t IH]; intros H; cbn [go_list]; [discriminate|].
  pose proof (H j (or_introl eq_refl)) as Hj. destruct (e j) as [|x|r]; [congruence|discriminate|].
  assert (go_list e t <> LOutOfFuel) by (apply IH; intros k Hk; apply H; now right).
  destruct (go_list e t); congruence.
Qed.

Lemma instr_eq_dec (a b : instr) : {a = b} + {a <> b}.
Proof.
  destruct (instr_eqb a b) eqn:E; [left; now apply instr_eqb_eq|].
  right. intros H. apply instr_eqb_eq in H. congruence.
Qed.

Lemma expand_terminates_gen cs i0 :
  non_growing cs = true ->
  forall fuel path i,
    NoDup path -> incl path (universe cs i0) -> In i (universe cs i0) ->
    length (universe cs i0) + 2 <= fuel + length path ->
    expand fuel cs path i <> OutOfFuel.
Proof.
  intros Hng. induction fuel as [|f IH]; intros path i Hnd Hincl Hi Hfuel.
  - exfalso. pose proof (NoDup_incl_length Hnd Hincl). lia.
  - cbn [expand]. destruct (mem i path) eqn:Em; [discriminate|].
    destruct (rewrite cs i) as [body|] eqn:Er; [|discriminate].
    apply mem_false in Em.
    assert (Hnd' : NoDup (i :: path)) by (now constructor).
    assert (Hincl' : incl (i :: path) (universe cs i0)) by (intros k [<-|Hk]; [exact Hi | now apply Hincl]).
    pose proof (NoDup_incl_length Hnd' Hincl') as Hlen. cbn [length] in Hlen.
    assert (go_list (expand f cs (i :: path)) body <> LOutOfFuel).
    { apply go_list_no_oof. intros j Hj. apply IH; try assumption.
      - eapply universe_closed; eassumption.
      - cbn [length]. lia. }
    destruct (go_list (expand f cs (i :: path)) body); cbn [lift]; congruence.
Qed.

Theorem expand_terminates cs i fuel :
  non_growing cs = true -> bound cs i <= fuel -> expand fuel cs [] i <> OutOfFuel.
Proof.
  intros Hng Hb. apply (expand_terminates_gen cs i Hng fuel [] i).
  - constructor.
  - intros k [].
  - apply universe_root.
  - unfold bound in Hb. cbn [length]. lia.
Qed.

Lemma fold_max_ge l : forall a x, (In x l \/ x <= a) -> x <= fold_left Nat.max l a.
Proof.
  induction l as [|y l IH]; intros a x H; cbn [fold_left].
  - destruct H as [[]|H]; exact H.
  - apply IH. destruct H as [[<-|H]|H]; [right; lia | now left | right; lia].
Qed.

Theorem expand_program_terminates cs prog fuel :
  non_growing cs = true -> prog_bound cs prog <= fuel -> expand_program fuel cs prog <> LOutOfFuel.
Proof.
  intros Hng Hb. unfold expand_program. apply go_list_no_oof. intros j Hj.
  apply expand_terminates; [exact Hng|].
  assert (bound cs j <= prog_bound cs prog); [|lia].
  unfold prog_bound. apply fold_max_ge. left. now apply in_map.
Qed.

(** * The growing witness: DEFCAL RX(%t) 0: RX(%t+1) 0 applied to RX(0) 0 *)

Definition grow_cal : cal :=
  {| c_name := 0%N; c_ppat := CVar; c_q := QF 0%N; c_body := [IGate 0%N (Plus1 PVar) (QF 0%N)] |}.

Fixpoint plusn (n : nat) (p : param) : param :=
  match n with O => p | S m => Plus1 (plusn m p) end.

Definition grow_instr (n : nat) : instr := IGate 0%N (plusn n (Lit 0%N)) (QF 0%N).

Lemma plusn_inj m n : plusn m (Lit 0%N) = plusn n (Lit 0%N) -> m = n.
Proof.
  revert n. induction m as [|m IH]; intros [|n] H; cbn in H; try discriminate; try reflexivity.
  inversion H. f_equal. now apply IH.
Qed.

Lemma grow_rewrite n : rewrite [grow_cal] (grow_instr n) = Some [grow_instr (S n)].
Proof. reflexivity. Qed.

Lemma grow_diverges fuel : forall n path,
  (forall x, In x path -> exists m, m < n /\ x = grow_instr m) ->
  expand fuel [grow_cal] path (grow_instr n) = OutOfFuel.
Proof.
  induction fuel as [|f IH]; intros n path Hpath; [reflexivity|].
  cbn [expand].
  assert (Em : mem (grow_instr n) path = false).
  { apply mem_false. intros Hin. destruct (Hpath _ Hin) as (m & Hm & E).
    unfold grow_instr in E. inversion E as [E']. apply plusn_inj in E'. lia. }
  rewrite Em, grow_rewrite. cbn [go_list].
  rewrite IH; [reflexivity|].
  intros x [<-|Hx]; [exists n; split; [lia | reflexivity]|].
  destruct (Hpath x Hx) as (m & Hm & E). exists m. split; [lia | exact E].
Qed.

Theorem growing_runs_out_of_every_fuel :
  forall fuel, expand fuel [grow_cal] [] (grow_instr 0) = OutOfFuel.
Proof. intros fuel. apply grow_diverges. intros x []. Qed.
