(** Proofs about Model/QubitGraph.v: the edges are exactly the "next instruction on a shared qubit"
    links, path enumeration terminates, and gate depth is the maximum over chains. *)
From Coq Require Import List NArith Bool Arith Lia.
From QV Require Import Model.QubitGraph.
Import ListNotations.

(** ** Paths of a forward relation and the path enumeration [dfs] *)

(** Node lists whose consecutive elements are related by [R]; all nodes below [n]. *)
Inductive rpath (n : nat) (R : nat -> nat -> Prop) : list nat -> Prop :=
| rp_nil : rpath n R []
| rp_one i : i < n -> rpath n R [i]
| rp_cons a b t : R a b -> rpath n R (b :: t) -> rpath n R (a :: b :: t).

Definition cnt (w : nat -> nat) (p : list nat) : nat := list_sum (map w p).

Lemma cnt_cons w i p : cnt w (i :: p) = w i + cnt w p.
Proof. reflexivity. Qed.

Lemma cnt_nil w : cnt w [] = 0.
Proof. reflexivity. Qed.

Lemma max_list_ge l d : In d l -> d <= max_list l.
Proof.
  induction l as [|x t IH]; cbn [max_list fold_right In]; [tauto|].
  intros [-> | H]; [lia|]. specialize (IH H). unfold max_list in IH. lia.
Qed.

Lemma max_list_in l : l <> [] -> In (max_list l) l.
Proof.
  induction l as [|x t IH]; [congruence|]. intros _.
  cbn [max_list fold_right]. fold (max_list t).
  destruct t as [|y t'].
  - cbn [max_list fold_right]. left. lia.
  - assert (Hin : In (max_list (y :: t')) (y :: t')) by (apply IH; discriminate).
    destruct (Nat.max_spec x (max_list (y :: t'))) as [[_ ->] | [_ ->]]; [now right | now left].
Qed.

Lemma flat_map_ext_in {A B} (f g : A -> list B) l :
  (forall a, In a l -> f a = g a) -> flat_map f l = flat_map g l.
Proof.
  induction l as [|x t IH]; intros H; [reflexivity|].
  cbn [flat_map]. rewrite (H x (or_introl eq_refl)), IH; auto.
  intros a Ha. apply H. now right.
Qed.

Section Dfs.
  Variable n : nat.
  Variable sc : nat -> list nat.
  Variable w : nat -> nat.
  Variable R : nat -> nat -> Prop.
  Hypothesis Hs : forall i j, In j (sc i) <-> R i j.
  Hypothesis Hf : forall i j, R i j -> i < j /\ j < n.

  Lemma rpath_head_lt i p : rpath n R (i :: p) -> i < n.
  Proof.
    intros H. inversion H as [|? Hi|a b t Hab Ht]; subst; [exact Hi|].
    destruct (Hf _ _ Hab). lia.
  Qed.

  (** Every enumerated value is the count of a path from the node. *)
  Lemma dfs_sound fuel : forall acc i d,
    In d (dfs fuel sc w acc i) -> i < n ->
    exists p, rpath n R (i :: p) /\ d = acc + cnt w (i :: p).
  Proof.
    induction fuel as [|f IH]; intros acc i d Hin Hi; cbn [dfs] in Hin; [contradiction|].
    destruct (sc i) as [|j0 t] eqn:Hsc.
    - destruct Hin as [<- | []]. exists []. split; [now constructor|].
      rewrite ?cnt_cons, ?cnt_nil. lia.
    - rewrite <- Hsc in Hin. apply in_flat_map in Hin as [j [Hj Hd]].
      apply Hs in Hj. destruct (Hf _ _ Hj) as [_ Hjn].
      destruct (IH _ _ _ Hd Hjn) as [p [Hp ->]].
      exists (j :: p). split; [now constructor|].
      rewrite ?cnt_cons, ?cnt_nil. lia.
  Qed.

  (** Every path from the node is dominated by an enumerated value, as soon as the fuel covers
      the remaining nodes. *)
  Lemma dfs_complete fuel : forall acc i p,
    n - i <= fuel -> rpath n R (i :: p) ->
    exists d, In d (dfs fuel sc w acc i) /\ acc + cnt w (i :: p) <= d.
  Proof.
    induction fuel as [|f IH]; intros acc i p Hfuel Hp.
    - apply rpath_head_lt in Hp. lia.
    - cbn [dfs]. destruct p as [|j p'].
      + destruct (sc i) as [|j0 t] eqn:Hsc.
        * exists (acc + w i). split; [now left|]. rewrite ?cnt_cons, ?cnt_nil. lia.
        * assert (Hj : R i j0) by (apply Hs; rewrite Hsc; now left).
          destruct (Hf _ _ Hj) as [Hij Hjn].
          destruct (IH (acc + w i) j0 []) as [d [Hd Hle]]; [lia | now constructor |].
          exists d. split.
          -- rewrite <- Hsc. apply in_flat_map. exists j0. split; [|exact Hd].
             rewrite Hsc. now left.
          -- rewrite ?cnt_cons, ?cnt_nil in *. lia.
      + inversion Hp as [| |a b t Hab Ht]; subst.
        destruct (Hf _ _ Hab) as [Hij Hjn].
        destruct (IH (acc + w i) j p') as [d [Hd Hle]]; [lia | exact Ht |].
        assert (Hin : In j (sc i)) by now apply Hs.
        exists d. split.
        * destruct (sc i) as [|j0 t] eqn:Hsc; [contradiction|].
          rewrite <- Hsc. apply in_flat_map. exists j. split; [|exact Hd]. now rewrite Hsc.
        * rewrite ?cnt_cons, ?cnt_nil in *. lia.
  Qed.

  (** Termination: once the fuel covers the remaining nodes, more fuel changes nothing — the
      enumeration never reaches its fuel floor. *)
  Lemma dfs_fuel f1 : forall f2 acc i,
    i < n -> n - i <= f1 -> n - i <= f2 -> dfs f1 sc w acc i = dfs f2 sc w acc i.
  Proof.
    induction f1 as [|f1 IH]; intros f2 acc i Hi H1 H2; [lia|].
    destruct f2 as [|f2]; [lia|]. cbn [dfs].
    destruct (sc i) as [|j0 t] eqn:Hsc; [reflexivity|].
    rewrite <- Hsc. apply flat_map_ext_in. intros j Hj.
    apply Hs in Hj. destruct (Hf _ _ Hj). apply IH; lia.
  Qed.

  Hypothesis Hdec : forall i, (exists a, R a i) \/ (forall a, ~ R a i).

  (** Every path extends backwards to one that starts at a node without predecessor. *)
  Lemma extend_to_source : forall i p,
    rpath n R (i :: p) ->
    exists s p', (forall a, ~ R a s) /\ rpath n R (s :: p') /\ cnt w (i :: p) <= cnt w (s :: p').
  Proof.
    induction i as [i IH] using lt_wf_ind. intros p Hp.
    destruct (Hdec i) as [[a Ha] | Hno].
    - destruct (Hf _ _ Ha) as [Hai _].
      destruct (IH a Hai (i :: p)) as (s & p' & Hs' & Hp' & Hle); [now constructor|].
      exists s, p'. repeat split; auto.
      rewrite ?cnt_cons, ?cnt_nil in *. lia.
    - exists i, p. repeat split; auto.
  Qed.
End Dfs.

(** ** Chains, defined from the program text *)

(** [link prog a b]: [a] is before [b], they share a qubit, and no instruction between them acts on
    that qubit. *)
Definition link (prog : list instr) (a b : nat) : Prop :=
  a < b /\ exists q, In q (qubits_at prog a) /\ In q (qubits_at prog b)
                     /\ forall c, a < c < b -> ~ In q (qubits_at prog c).

(** A chain: a list of positions in which consecutive elements are linked. *)
Definition chain (prog : list instr) : list nat -> Prop := rpath (length prog) (link prog).

(** Number of gates with at least [k] qubit arguments along a chain. *)
Definition count (prog : list instr) (k : nat) (p : list nat) : nat := cnt (weight prog k) p.

Definition IsMaxChain (prog : list instr) (k d : nat) : Prop :=
  (forall p, chain prog p -> count prog k p <= d)
  /\ (exists p, chain prog p /\ count prog k p = d).

Lemma IsMaxChain_unique prog k d1 d2 : IsMaxChain prog k d1 -> IsMaxChain prog k d2 -> d1 = d2.
Proof.
  intros [U1 (p1 & C1 & E1)] [U2 (p2 & C2 & E2)].
  specialize (U1 _ C2). specialize (U2 _ C1). lia.
Qed.

Lemma qubits_at_lt prog i q : In q (qubits_at prog i) -> i < length prog.
Proof.
  unfold qubits_at. destruct (nth_error prog i) eqn:H; [|contradiction].
  intros _. apply nth_error_Some. congruence.
Qed.

Lemma link_fwd prog a b : link prog a b -> a < b /\ b < length prog.
Proof. intros [Hab (q & _ & Hb & _)]. split; [exact Hab | eapply qubits_at_lt; eauto]. Qed.

Lemma memN_In q l : memN q l = true <-> In q l.
Proof.
  induction l as [|x t IH]; cbn [memN In]; [split; [discriminate | tauto]|].
  rewrite orb_true_iff, N.eqb_eq, IH. split; intros [H | H]; auto.
Qed.

Lemma linkb_spec prog a b : linkb prog a b = true <-> link prog a b.
Proof.
  unfold linkb, link. rewrite andb_true_iff, Nat.ltb_lt, existsb_exists.
  split; intros [Hab [q Hq]]; split; auto; exists q.
  - destruct Hq as [Ha Hq]. apply andb_true_iff in Hq as [Hb Hc].
    apply memN_In in Hb. repeat split; auto.
    intros c Hc' Hin. rewrite forallb_forall in Hc.
    assert (Hs : In c (seq (S a) (b - S a))) by (apply in_seq; lia).
    specialize (Hc _ Hs). apply negb_true_iff in Hc.
    apply memN_In in Hin. congruence.
  - destruct Hq as (Ha & Hb & Hc). split; auto. apply andb_true_iff. split.
    + now apply memN_In.
    + apply forallb_forall. intros c Hs. apply in_seq in Hs.
      apply negb_true_iff. destruct (memN q (qubits_at prog c)) eqn:Hm; auto.
      apply memN_In in Hm. exfalso. apply (Hc c); [lia | exact Hm].
Qed.

Lemma succs_link_spec prog i j : In j (succs_link prog i) <-> link prog i j.
Proof.
  unfold succs_link. rewrite filter_In, linkb_spec, in_seq. split; [tauto|].
  intros H. split; auto. destruct (link_fwd _ _ _ H). lia.
Qed.

(** ** The checker's value is the maximum over chains *)

Theorem chain_max_spec prog k : IsMaxChain prog k (chain_max prog k).
Proof.
  set (n := length prog). set (w := weight prog k).
  pose proof (succs_link_spec prog) as Hs. pose proof (link_fwd prog) as Hf.
  unfold chain_max. fold n w. split.
  - intros [|i p] Hp; [unfold count; rewrite cnt_nil; lia|].
    pose proof (rpath_head_lt n (link prog) Hf _ _ Hp) as Hi.
    destruct (dfs_complete n (succs_link prog) w (link prog) Hs Hf n 0 i p) as [d [Hd Hle]];
      [lia | exact Hp |].
    cbn [Nat.add] in Hle. unfold count. fold w. etransitivity; [exact Hle|].
    apply max_list_ge. apply in_flat_map. exists i. split; [|exact Hd].
    apply in_seq. lia.
  - set (L := flat_map (dfs n (succs_link prog) w 0) (seq 0 n)).
    destruct L as [|x t] eqn:HL.
    + exists []. split; [constructor | reflexivity].
    + assert (Hin : In (max_list (x :: t)) L) by (rewrite HL; apply max_list_in; discriminate).
      unfold L in Hin. apply in_flat_map in Hin as [i [Hi Hd]]. apply in_seq in Hi.
      destruct (dfs_sound n (succs_link prog) w (link prog) Hs Hf n 0 i _ Hd) as [p [Hp Heq]];
        [lia|].
      exists (i :: p). split; [exact Hp|]. cbn [Nat.add] in Heq. symmetry. exact Heq.
Qed.

(** ** The same maximum by dynamic programming over end positions *)

Section Snoc.
  Variable n : nat.
  Variable R : nat -> nat -> Prop.
  Hypothesis Hf : forall i j, R i j -> i < j /\ j < n.

  Lemma rpath_snoc p : forall a i,
    rpath n R (p ++ [a]) -> R a i -> rpath n R (p ++ [a; i]).
  Proof.
    induction p as [|x p IH]; intros a i Hp Hr; cbn [app] in *.
    - constructor; [exact Hr|]. constructor. apply (Hf _ _ Hr).
    - destruct p as [|y p']; cbn [app] in *.
      + inversion Hp as [| |? ? ? Hxa Ha]; subst. constructor; [exact Hxa|].
        apply (IH a i); auto.
      + inversion Hp as [| |? ? ? Hxy Hy]; subst. constructor; [exact Hxy|].
        apply (IH a i); auto.
  Qed.

  Lemma rpath_snoc_inv p : forall a i,
    rpath n R (p ++ [a; i]) -> R a i /\ rpath n R (p ++ [a]).
  Proof.
    induction p as [|x p IH]; intros a i Hp; cbn [app] in *.
    - inversion Hp as [| |? ? ? Hai Hi]; subst. split; auto.
      constructor. destruct (Hf _ _ Hai). lia.
    - destruct p as [|y p']; cbn [app] in *.
      + inversion Hp as [| |? ? ? Hxa Ha]; subst.
        destruct (IH a i Ha) as [Hr Hp']. split; auto. now constructor.
      + inversion Hp as [| |? ? ? Hxy Hy]; subst.
        destruct (IH a i Hy) as [Hr Hp']. split; auto. now constructor.
  Qed.

  Lemma rpath_last_lt p i : rpath n R (p ++ [i]) -> i < n.
  Proof.
    induction p as [|x p IH]; cbn [app]; intros Hp.
    - inversion Hp; subst; auto.
    - destruct p as [|y p']; cbn [app] in *.
      + inversion Hp as [| |? ? ? Hxi Hi]; subst. apply (Hf _ _ Hxi).
      + inversion Hp; subst. auto.
  Qed.
End Snoc.

Lemma exists_last_or_nil {A} (l : list A) : l = [] \/ exists l' a, l = l' ++ [a].
Proof.
  destruct l as [|x t]; [now left|]. right.
  destruct (@exists_last A (x :: t)) as (l' & a & H); [discriminate|]. eauto.
Qed.

Lemma cnt_app w p q : cnt w (p ++ q) = cnt w p + cnt w q.
Proof.
  induction p as [|x p IH]; [reflexivity|]. cbn [app]. rewrite !cnt_cons, IH. lia.
Qed.

(** [b] is the largest count over chains ending at position [i]. *)
Definition BestEnd (prog : list instr) (k i b : nat) : Prop :=
  (forall p, chain prog (p ++ [i]) -> count prog k (p ++ [i]) <= b)
  /\ (exists p, chain prog (p ++ [i]) /\ count prog k (p ++ [i]) = b).

Lemma dp_step prog k i done :
  i < length prog -> length done = i ->
  (forall a, a < i -> BestEnd prog k a (nth a done 0)) ->
  BestEnd prog k i
    (weight prog k i
     + max_list (map (fun a => nth a done 0) (filter (fun a => linkb prog a i) (seq 0 i)))).
Proof.
  intros Hi Hlen Hdone. pose proof (link_fwd prog) as Hf.
  set (preds := filter (fun a => linkb prog a i) (seq 0 i)).
  assert (Hpreds : forall a, In a preds <-> link prog a i).
  { intros a. unfold preds. rewrite filter_In, in_seq, linkb_spec. split; [tauto|].
    intros H. split; auto. destruct (Hf _ _ H). lia. }
  split.
  - intros p Hp. unfold count. rewrite cnt_app, cnt_cons, cnt_nil.
    destruct (exists_last_or_nil p) as [-> | (p' & a & ->)].
    + rewrite cnt_nil. lia.
    + rewrite <- app_assoc in Hp. cbn [app] in Hp.
      apply (rpath_snoc_inv _ _ Hf) in Hp as [Hr Hp'].
      assert (Ha : a < i) by apply (Hf _ _ Hr).
      destruct (Hdone a Ha) as [Hup _]. specialize (Hup p' Hp'). unfold count in Hup.
      assert (Hin : In (nth a done 0) (map (fun a0 => nth a0 done 0) preds)).
      { apply in_map_iff. exists a. split; auto. now apply Hpreds. }
      apply max_list_ge in Hin. lia.
  - set (L := map (fun a => nth a done 0) preds).
    destruct L as [|x0 t0] eqn:HL.
    + exists []. split; [now constructor|]. unfold count. cbn [app max_list fold_right].
      rewrite cnt_cons, cnt_nil. lia.
    + assert (Hin : In (max_list (x0 :: t0)) L) by (rewrite HL; apply max_list_in; discriminate).
      unfold L in Hin. apply in_map_iff in Hin as [a [Heq Ha]].
      apply Hpreds in Ha.
      assert (Hai : a < i) by apply (Hf _ _ Ha).
      destruct (Hdone a Hai) as [_ (p' & Hp' & Hc)].
      exists (p' ++ [a]). split.
      * rewrite <- app_assoc. cbn [app]. apply (rpath_snoc _ _ Hf); auto.
      * unfold count in *. rewrite cnt_app, cnt_cons, cnt_nil, Hc, Heq. lia.
Qed.

Lemma dp_from_inv prog k todo : forall i done,
  i + todo = length prog -> length done = i ->
  (forall a, a < i -> BestEnd prog k a (nth a done 0)) ->
  let r := dp_from prog k todo i done in
  length r = length prog /\ forall a, a < length prog -> BestEnd prog k a (nth a r 0).
Proof.
  induction todo as [|t IH]; intros i done Hn Hlen Hdone; cbn [dp_from].
  - split; [lia|]. intros a Ha. apply Hdone. lia.
  - apply IH.
    + lia.
    + rewrite app_length. cbn [length]. lia.
    + intros a Ha. destruct (Nat.eq_dec a i) as [-> | Hne].
      * rewrite app_nth2, Hlen, Nat.sub_diag by lia. cbn [nth].
        apply dp_step; auto. lia.
      * rewrite app_nth1 by lia. apply Hdone. lia.
Qed.

Theorem chain_max_dp_spec prog k : IsMaxChain prog k (chain_max_dp prog k).
Proof.
  unfold chain_max_dp. pose proof (link_fwd prog) as Hf.
  destruct (dp_from_inv prog k (length prog) 0 [] eq_refl eq_refl) as [Hlen Hbest];
    [intros a Ha; lia|].
  set (bests := dp_from prog k (length prog) 0 []) in *. split.
  - intros p Hp. destruct (exists_last_or_nil p) as [-> | (p' & i & ->)].
    + unfold count. rewrite cnt_nil. lia.
    + pose proof (rpath_last_lt _ _ Hf _ _ Hp) as Hi.
      destruct (Hbest i Hi) as [Hup _]. specialize (Hup p' Hp).
      etransitivity; [exact Hup|]. apply max_list_ge. apply nth_In. lia.
  - destruct bests as [|x t] eqn:Hb.
    + exists []. split; [constructor | reflexivity].
    + assert (Hin : In (max_list (x :: t)) (x :: t)) by (apply max_list_in; discriminate).
      apply (In_nth _ _ 0) in Hin as [i [Hi Hnth]].
      rewrite Hlen in Hi. destruct (Hbest i Hi) as [_ (p & Hp & Hc)].
      exists (p ++ [i]). split; auto. rewrite Hc. exact Hnth.
Qed.

Theorem chain_max_dp_eq prog k : chain_max_dp prog k = chain_max prog k.
Proof. eapply IsMaxChain_unique; [apply chain_max_dp_spec | apply chain_max_spec]. Qed.

Theorem chk_depth_sound prog k d : chk_depth prog k d = true -> IsMaxChain prog k d.
Proof.
  unfold chk_depth. rewrite andb_true_iff, Nat.eqb_eq. intros [_ ->]. apply chain_max_dp_spec.
Qed.

(** ** Edge construction: the edges are exactly the links *)

(** [j] is the last instruction before position [i] that acts on [q]. *)
Definition LastOcc (prog : list instr) (q : N) (i j : nat) : Prop :=
  j < i /\ In q (qubits_at prog j) /\ forall c, j < c < i -> ~ In q (qubits_at prog c).

Definition MapInv prog i (done : list N) (m : lastmap) : Prop :=
  forall q j, lookup q m = Some j <->
              (In q done /\ j = i) \/ (~ In q done /\ LastOcc prog q i j).

Definition EdgeInv prog i (done : list N) (E : list edge) : Prop :=
  forall a b, In (a, b) E <->
              (b < i /\ link prog a b) \/ (b = i /\ exists q, In q done /\ LastOcc prog q i a).

Lemma LastOcc_fun prog q i j1 j2 : LastOcc prog q i j1 -> LastOcc prog q i j2 -> j1 = j2.
Proof.
  intros (H1 & I1 & N1) (H2 & I2 & N2).
  destruct (Nat.lt_trichotomy j1 j2) as [H | [H | H]]; auto; exfalso.
  - apply (N1 j2); [lia | exact I2].
  - apply (N2 j1); [lia | exact I1].
Qed.

Lemma add_qubit_inv prog i done m E q :
  MapInv prog i done m -> EdgeInv prog i done E ->
  let '(m', E') := add_qubit false i (m, E) q in
  MapInv prog i (done ++ [q]) m' /\ EdgeInv prog i (done ++ [q]) E'.
Proof.
  intros HM HE. unfold MapInv, EdgeInv in *. cbn [add_qubit orb]. split.
  - intros q' j. cbn [lookup]. destruct (N.eqb_spec q' q) as [-> | Hne].
    + split.
      * intros [= <-]. left. split; auto. apply in_or_app. right. now left.
      * intros [[_ ->] | [Hn _]]; auto. exfalso. apply Hn. apply in_or_app. right. now left.
    + rewrite HM. rewrite in_app_iff. cbn [In]. intuition congruence.
  - intros a b.
    assert (Hext : forall P : N -> Prop,
               (exists q0, In q0 (done ++ [q]) /\ P q0) <-> (exists q0, In q0 done /\ P q0) \/ P q).
    { intros P. split.
      - intros [q0 [Hin HP]]. apply in_app_or in Hin as [Hin | [<- | []]]; eauto.
      - intros [[q0 [Hin HP]] | HP]; [exists q0 | exists q]; split; auto; apply in_or_app; auto.
        right. now left. }
    destruct (in_dec N.eq_dec q done) as [Hd | Hnd].
    + (* q already seen in this instruction: lookup gives the node itself, no edge *)
      assert (Hl : lookup q m = Some i) by (apply HM; left; auto).
      rewrite Hl, Nat.eqb_refl. cbn [negb]. rewrite HE, Hext.
      split; intros [H | [H1 H2]]; auto.
      destruct H2 as [H2 | H2]; auto. right. split; auto. exists q. auto.
    + destruct (lookup q m) as [j0|] eqn:Hl.
      * assert (HL : LastOcc prog q i j0).
        { apply HM in Hl as [[H _] | [_ H]]; [contradiction | exact H]. }
        assert (Hne : Nat.eqb j0 i = false) by (apply Nat.eqb_neq; destruct HL; lia).
        rewrite Hne. cbn [negb]. rewrite in_app_iff, HE, Hext. cbn [In]. split.
        -- intros [[H | [Hb Hq]] | [Heq | []]].
           ++ left. exact H.
           ++ right. split; [exact Hb | left; exact Hq].
           ++ injection Heq as <- <-. right. split; [reflexivity | right; exact HL].
        -- intros [H | [Hb [Hq | Hq]]].
           ++ left. left. exact H.
           ++ left. right. split; auto.
           ++ right. left. subst b. f_equal. eapply LastOcc_fun; eauto.
      * rewrite HE, Hext. split; intros [H | [H1 H2]]; auto.
        destruct H2 as [H2 | H2]; auto.
        exfalso. assert (lookup q m = Some a) by (apply HM; right; auto). congruence.
Qed.

Lemma fold_add_qubit_inv prog i todo : forall done m E,
  MapInv prog i done m -> EdgeInv prog i done E ->
  let st := fold_left (add_qubit false i) todo (m, E) in
  MapInv prog i (done ++ todo) (fst st) /\ EdgeInv prog i (done ++ todo) (snd st).
Proof.
  induction todo as [|q t IH]; intros done m E HM HE; cbn [fold_left].
  - rewrite app_nil_r. auto.
  - pose proof (add_qubit_inv prog i done m E q HM HE) as H.
    destruct (add_qubit false i (m, E) q) as [m' E'] eqn:Ha. destruct H as [HM' HE'].
    replace (done ++ q :: t) with ((done ++ [q]) ++ t) by (rewrite <- app_assoc; reflexivity).
    apply IH; auto.
Qed.

Lemma LastOcc_succ prog q i j :
  LastOcc prog q (S i) j <->
  (In q (qubits_at prog i) /\ j = i) \/ (~ In q (qubits_at prog i) /\ LastOcc prog q i j).
Proof.
  unfold LastOcc. split.
  - intros (Hj & Hin & Hno).
    destruct (in_dec N.eq_dec q (qubits_at prog i)) as [Hq | Hq].
    + left. split; auto. destruct (Nat.eq_dec j i); auto.
      exfalso. apply (Hno i); [lia | exact Hq].
    + right. split; auto. assert (j <> i) by (intros ->; contradiction).
      repeat split; auto; [lia|]. intros c Hc. apply Hno. lia.
  - intros [[Hq ->] | [Hq (Hj & Hin & Hno)]].
    + repeat split; auto. intros c Hc. lia.
    + repeat split; auto. intros c Hc. destruct (Nat.eq_dec c i) as [-> | Hne]; auto.
      apply Hno. lia.
Qed.

Lemma link_LastOcc prog a i :
  link prog a i <-> exists q, In q (qubits_at prog i) /\ LastOcc prog q i a.
Proof.
  unfold link, LastOcc. split.
  - intros [Hai (q & Ha & Hi & Hno)]. exists q. auto.
  - intros (q & Hi & Hai & Ha & Hno). split; auto. exists q. auto.
Qed.

Lemma build_from_links rest : forall pre st E,
  MapInv (pre ++ rest) (length pre) [] (fst st) ->
  EdgeInv (pre ++ rest) (length pre) [] (snd st) ->
  build_from false rest (length pre) st = inr E ->
  forall a b, In (a, b) E <-> link (pre ++ rest) a b.
Proof.
  induction rest as [|x rest IH]; intros pre st E HM HE Hb a b; cbn [build_from] in Hb.
  - injection Hb as <-. rewrite (HE a b). rewrite app_nil_r in *. split.
    + intros [[_ H] | [_ (q & [] & _)]]. exact H.
    + intros H. left. split; auto. apply (link_fwd _ _ _ H).
  - destruct (is_unsupported x); [discriminate|].
    set (P := pre ++ x :: rest) in *.
    assert (HP : P = (pre ++ [x]) ++ rest) by (unfold P; rewrite <- app_assoc; reflexivity).
    assert (Hq : qubits_at P (length pre) = i_qubits x).
    { unfold qubits_at, P. rewrite nth_error_app2, Nat.sub_diag by lia. reflexivity. }
    destruct st as [m E0]. cbn [fst snd] in HM, HE.
    pose proof (fold_add_qubit_inv P (length pre) (i_qubits x) [] m E0 HM HE) as [HM' HE'].
    cbn [app] in HM', HE'. unfold MapInv, EdgeInv in HM', HE' |- *.
    replace (S (length pre)) with (length (pre ++ [x])) in Hb
      by (rewrite app_length; cbn [length]; lia).
    rewrite HP. eapply IH; [| | exact Hb]; rewrite <- HP, app_length; cbn [length];
      replace (length pre + 1) with (S (length pre)) by lia.
    + unfold MapInv. intros q j. rewrite HM', LastOcc_succ, Hq. cbn [In]. tauto.
    + unfold EdgeInv. intros a' b'. rewrite HE'. split.
      * intros [H | [-> H]]; left.
        -- split; [lia | tauto].
        -- split; [lia|]. apply link_LastOcc. rewrite Hq. exact H.
      * intros [[Hlt H] | [_ (q & [] & _)]].
        destruct (Nat.eq_dec b' (length pre)) as [-> | Hne].
        -- right. split; auto. apply link_LastOcc in H. now rewrite Hq in H.
        -- left. split; [lia | exact H].
Qed.

Theorem build_links prog E :
  build prog = inr E -> forall a b, In (a, b) E <-> link prog a b.
Proof.
  intros Hb. apply (build_from_links prog [] ([], []) E); cbn [app length fst snd]; auto.
  - intros q j. cbn [lookup]. split; [discriminate|].
    intros [[[] _] | [_ (H & _)]]. lia.
  - intros a b. cbn [In]. split; [tauto|]. intros [[H _] | [_ (q & [] & _)]]. lia.
Qed.

(** ** The error verdict *)

Lemma build_from_verdict allow rest : forall i st,
  match build_from allow rest i st with
  | inl j => first_unsupported rest i = Some j
  | inr _ => first_unsupported rest i = None
  end.
Proof.
  induction rest as [|x t IH]; intros i st; cbn [build_from first_unsupported]; [reflexivity|].
  destruct (is_unsupported x); [reflexivity | apply IH].
Qed.

Lemma first_unsupported_supported rest : forall i,
  first_unsupported rest i = None <-> supported rest = true.
Proof.
  induction rest as [|x t IH]; intros i; cbn [first_unsupported supported forallb];
    [split; reflexivity|].
  destruct (is_unsupported x); cbn [negb andb]; [split; discriminate | apply IH].
Qed.

Theorem build_verdict prog :
  match build prog with
  | inl j => first_unsupported prog 0 = Some j /\ supported prog = false
  | inr _ => supported prog = true
  end.
Proof.
  pose proof (build_from_verdict false prog 0 ([], [])) as H. unfold build, build_gen.
  destruct (build_from false prog 0 ([], [])) as [j | E].
  - split; auto. destruct (supported prog) eqn:Hs; auto.
    apply (first_unsupported_supported prog 0) in Hs. congruence.
  - now apply (first_unsupported_supported prog 0).
Qed.

(** ** Gate depth is the maximum over chains *)

Lemma succs_spec (E : list edge) i j : In j (succs E i) <-> In (i, j) E.
Proof.
  unfold succs. rewrite in_map_iff. split.
  - intros [[a b] [<- Hin]]. apply filter_In in Hin as [Hin He]. cbn [fst snd] in *.
    apply Nat.eqb_eq in He. now subst.
  - intros Hin. exists (i, j). split; auto. apply filter_In. split; auto.
    cbn [fst]. apply Nat.eqb_refl.
Qed.

Lemma sources_spec n (E : list edge) s :
  In s (sources n E) <-> s < n /\ forall a, ~ In (a, s) E.
Proof.
  unfold sources. rewrite filter_In, in_seq, negb_true_iff. split.
  - intros [Hs Hex]. split; [lia|]. intros a Hin.
    assert (existsb (fun e => Nat.eqb (snd e) s) E = true).
    { apply existsb_exists. exists (a, s). split; auto. cbn [snd]. apply Nat.eqb_refl. }
    congruence.
  - intros [Hs Hno]. split; [lia|].
    destruct (existsb (fun e => Nat.eqb (snd e) s) E) eqn:Hex; auto.
    apply existsb_exists in Hex as [[a b] [Hin He]]. cbn [snd] in He.
    apply Nat.eqb_eq in He. subst b. exfalso. eapply Hno; eauto.
Qed.

Lemma pred_dec (E : list edge) i : (exists a, In (a, i) E) \/ (forall a, ~ In (a, i) E).
Proof.
  destruct (existsb (fun e => Nat.eqb (snd e) i) E) eqn:Hex.
  - left. apply existsb_exists in Hex as [[a b] [Hin He]]. cbn [snd] in He.
    apply Nat.eqb_eq in He. subst b. eauto.
  - right. intros a Hin.
    assert (existsb (fun e => Nat.eqb (snd e) i) E = true).
    { apply existsb_exists. exists (a, i). split; auto. cbn [snd]. apply Nat.eqb_refl. }
    congruence.
Qed.

Theorem gate_depth_is_max_chain prog k d :
  gate_depth prog k = Some d -> IsMaxChain prog k d.
Proof.
  unfold gate_depth. destruct (build prog) as [j | E] eqn:Hb; [discriminate|].
  intros [= <-]. pose proof (build_links prog E Hb) as HL.
  set (n := length prog). set (w := weight prog k).
  assert (Hs : forall i j, In j (succs E i) <-> link prog i j)
    by (intros i j; rewrite succs_spec; apply HL).
  pose proof (link_fwd prog) as Hf.
  assert (Hdec : forall i, (exists a, link prog a i) \/ (forall a, ~ link prog a i)).
  { intros i. destruct (pred_dec E i) as [[a Ha] | Hno].
    - left. exists a. now apply HL.
    - right. intros a Ha. apply (Hno a). now apply HL. }
  unfold depth_of. fold n w. split.
  - intros [|i p] Hp; [unfold count; rewrite cnt_nil; lia|].
    destruct (extend_to_source n w (link prog) Hf Hdec i p Hp) as (s & p' & Hsrc & Hp' & Hle).
    pose proof (rpath_head_lt n (link prog) Hf _ _ Hp') as Hsn.
    destruct (dfs_complete n (succs E) w (link prog) Hs Hf n 0 s p') as [d [Hd Hle']];
      [lia | exact Hp' |].
    cbn [Nat.add] in Hle'. unfold count. fold w.
    etransitivity; [exact Hle|]. etransitivity; [exact Hle'|].
    apply max_list_ge. apply in_flat_map. exists s. split; [|exact Hd].
    apply sources_spec. split; auto. intros a Ha. apply (Hsrc a). now apply HL.
  - set (L := flat_map (dfs n (succs E) w 0) (sources n E)).
    destruct L as [|x t] eqn:HL'.
    + exists []. split; [constructor | reflexivity].
    + assert (Hin : In (max_list (x :: t)) L) by (rewrite HL'; apply max_list_in; discriminate).
      unfold L in Hin. apply in_flat_map in Hin as [s [Hsrc Hd]].
      apply sources_spec in Hsrc as [Hsn _].
      destruct (dfs_sound n (succs E) w (link prog) Hs Hf n 0 s _ Hd Hsn) as [p [Hp Heq]].
      exists (s :: p). split; [exact Hp|]. cbn [Nat.add] in Heq. symmetry. exact Heq.
Qed.

Theorem gate_depth_chain_max prog k :
  supported prog = true -> gate_depth prog k = Some (chain_max prog k).
Proof.
  intros Hs. destruct (gate_depth prog k) as [d|] eqn:Hg.
  - f_equal. eapply IsMaxChain_unique; [eapply gate_depth_is_max_chain; eauto | apply chain_max_spec].
  - exfalso. unfold gate_depth in Hg. pose proof (build_verdict prog) as Hv.
    destruct (build prog); [|discriminate]. destruct Hv. congruence.
Qed.

Theorem gate_depth_none prog k : gate_depth prog k = None <-> supported prog = false.
Proof.
  unfold gate_depth. pose proof (build_verdict prog) as Hv. destruct (build prog).
  - destruct Hv. split; auto.
  - rewrite Hv. split; discriminate.
Qed.

(** Termination of the path enumeration on the graph the builder produces. *)
Theorem path_enumeration_fuel prog E w :
  build prog = inr E ->
  forall i f1 f2 acc, i < length prog -> length prog - i <= f1 -> length prog - i <= f2 ->
    dfs f1 (succs E) w acc i = dfs f2 (succs E) w acc i.
Proof.
  intros Hb i f1 f2 acc Hi H1 H2. pose proof (build_links prog E Hb) as HL.
  apply (dfs_fuel (length prog) (succs E) w (link prog)); auto.
  - intros a b. rewrite succs_spec. apply HL.
  - apply link_fwd.
Qed.
